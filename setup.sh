#!/bin/bash
# Builds the harness and pre-compiles every check (offline; warms the Go build cache).
cd "$(dirname "$(readlink -f "$0")")"
export GOFLAGS=-mod=mod GOPROXY=off GOSUMDB=off GOTOOLCHAIN=local
mkdir -p .work/bin evidence replays
rc=0
go build ./internal/... || rc=1
for d in checks/*/; do
  [ -f "$d/main.go" ] || continue
  flags=()
  [ -f "$d/BUILDFLAGS" ] && read -r -a flags < "$d/BUILDFLAGS"
  # (checks with an OVERLAY are rebuilt by ./check with the generated overlay; this only warms the cache)
  go build "${flags[@]}" -o ".work/bin/$(basename "$d")" "./$d" || rc=1
done
exit $rc
