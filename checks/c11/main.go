// C11 — client never panics or blows up on arbitrary server bytes.
//
// Monitor: every byte stream is fed through the in-process connection to a real
// imapclient.Client that has pending commands of every kind; every returned
// value is then walked with every accessor under recover(). Oracles: no
// recovered reader panic ("panic reading response"), no accessor panic, no death
// of the worker process (64 MB stack bound => unbounded recursion is fatal and
// attributed to the current stream), no protocol-invariant-violating data
// delivered without error (sequence number / UID zero, dynamic sets in results),
// and no super-linear growth of allocated bytes per input byte on scaling
// families (deterministic allocation counters, never wall-clock time).
package main

import (
	"bufio"
	"bytes"
	"crypto/tls"
	"fmt"
	"math/rand"
	"runtime"
	"sort"
	"strings"
	"sync"
	"time"

	imap "github.com/emersion/go-imap/v2"
	"github.com/emersion/go-imap/v2/imapclient"
	"github.com/emersion/go-imap/v2/verif/internal/hx"
	"github.com/emersion/go-imap/v2/verif/internal/vconn"
)

const greeting = "* OK [CAPABILITY IMAP4rev1 IMAP4rev2 LITERAL- ESEARCH SORT THREAD=REFERENCES QUOTA METADATA MOVE UIDPLUS CONDSTORE NAMESPACE LIST-STATUS] ready\r\n"

// tags of the pending commands, in issue order (the generators refer to them)
var tagOf = map[string]string{}

type observed struct {
	closeErr  error
	running   int
	mu        sync.Mutex
	viol      []string // "class|detail"
	delivered int
}

func (o *observed) nDelivered() int {
	o.mu.Lock()
	defer o.mu.Unlock()
	return o.delivered
}

func (o *observed) add(class, detail string) {
	o.mu.Lock()
	if len(o.viol) < 20 {
		o.viol = append(o.viol, class+"|"+detail)
	}
	o.mu.Unlock()
}

func guard(o *observed, what string, f func()) {
	if p, msg := hx.Guard(f); p {
		o.add("accessor-panic@"+what, hx.PanicSite(msg)+": "+strings.SplitN(msg, "\n", 2)[0])
	}
}

const spanLimit = 2000000

func spanOfSeq(s imap.SeqSet) uint64 {
	var n uint64
	for _, r := range s {
		if r.Stop >= r.Start {
			n += uint64(r.Stop-r.Start) + 1
		}
	}
	return n
}

func spanOfUID(s imap.UIDSet) uint64 {
	var n uint64
	for _, r := range s {
		if r.Stop >= r.Start {
			n += uint64(r.Stop-r.Start) + 1
		}
	}
	return n
}

// walkNumSet: results must be static, non-zero sets.
func walkNumSet(o *observed, what string, ns imap.NumSet, cmdErr error) {
	if ns == nil {
		return
	}
	guard(o, what+".String", func() { _ = ns.String() })
	dyn := false
	guard(o, what+".Dynamic", func() { dyn = ns.Dynamic() })
	if cmdErr == nil && dyn {
		o.add("dynamic-set-delivered@"+what, fmt.Sprintf("%s = %q delivered without error", what, ns.String()))
	}
	switch s := ns.(type) {
	case imap.SeqSet:
		for _, r := range s {
			if cmdErr == nil && (r.Start == 0 || r.Stop == 0) && !dyn {
				o.add("zero-in-set@"+what, ns.String())
			}
		}
		if spanOfSeq(s) <= spanLimit {
			guard(o, what+".Nums", func() { s.Nums() })
		}
	case imap.UIDSet:
		if spanOfUID(s) <= spanLimit {
			guard(o, what+".Nums", func() { s.Nums() })
		}
	}
}

func walkBody(o *observed, bs imap.BodyStructure) {
	if bs == nil {
		return
	}
	guard(o, "BodyStructure.MediaType", func() { _ = bs.MediaType() })
	guard(o, "BodyStructure.Disposition", func() {
		if d := bs.Disposition(); d != nil {
			_ = d.Value
			_ = len(d.Params)
		}
	})
	guard(o, "BodyStructure.Walk", func() {
		n := 0
		bs.Walk(func(path []int, part imap.BodyStructure) bool {
			n++
			_ = part.MediaType()
			if sp, ok := part.(*imap.BodyStructureSinglePart); ok {
				_ = sp.Filename()
				if sp.MessageRFC822 != nil {
					walkEnvelope(o, sp.MessageRFC822.Envelope)
				}
			}
			return n < 100000
		})
	})
}

func walkEnvelope(o *observed, e *imap.Envelope) {
	if e == nil {
		return
	}
	guard(o, "Envelope", func() {
		for _, l := range [][]imap.Address{e.From, e.Sender, e.ReplyTo, e.To, e.Cc, e.Bcc} {
			for i := range l {
				_ = l[i].Addr()
				_ = l[i].IsGroupStart()
				_ = l[i].IsGroupEnd()
			}
		}
		_ = e.Date.Unix()
		_ = len(e.InReplyTo)
	})
}

func walkFetchBuffer(o *observed, m *imapclient.FetchMessageBuffer, cmdErr error, where string) {
	if m == nil {
		return
	}
	o.mu.Lock()
	o.delivered++
	o.mu.Unlock()
	if m.SeqNum == 0 {
		o.add("fetch-seqnum-zero-delivered@"+where, "a FETCH response with sequence number 0 was delivered to the caller")
	}
	walkEnvelope(o, m.Envelope)
	walkBody(o, m.BodyStructure)
	for _, b := range m.BodySection {
		_ = len(b)
	}
	for _, bss := range m.BinarySectionSize {
		_ = bss.Size
	}
}

func walkThread(o *observed, t []imapclient.ThreadData, depth int, cmdErr error) {
	for _, d := range t {
		for _, n := range d.Chain {
			if n == 0 && cmdErr == nil {
				o.add("thread-zero-delivered", "THREAD result contains message number 0")
			}
		}
		if depth < 100000 {
			walkThread(o, d.SubThreads, depth+1, cmdErr)
		}
	}
}

// feed runs one stream. It returns the bytes allocated while the client parsed it
// and the results were walked.
func feed(w *hx.W, class, desc string, stream []byte, withCommands bool) (alloc uint64, o *observed) {
	o = &observed{}
	// the watchdog only has to tell "never" from "slowly on a loaded machine": streams of tens of
	// megabytes (deep nesting, scaling families) get a bound far above anything load explains
	limit := 90 * time.Second
	if len(stream) > 1<<20 {
		limit = 600 * time.Second
	}
	end := w.Begin("stream/"+class, desc+": "+hx.Hex(stream, 600), limit)
	defer end()
	log := &vconn.Log{}
	cEnd, sEnd := vconn.Pipe("client", "server", log)
	uni := &imapclient.UnilateralDataHandler{
		Expunge: func(n uint32) {
			if n == 0 {
				o.add("expunge-zero-delivered@unilateral", "EXPUNGE 0 delivered to the unilateral handler")
			}
		},
		Mailbox: func(d *imapclient.UnilateralDataMailbox) {
			if d.NumMessages != nil {
				_ = *d.NumMessages
			}
		},
		Fetch: func(m *imapclient.FetchMessageData) {
			o.mu.Lock()
			o.running++
			o.mu.Unlock()
			defer func() { o.mu.Lock(); o.running--; o.mu.Unlock() }()
			var buf *imapclient.FetchMessageBuffer
			guard(o, "unilateral FetchMessageData.Collect", func() { buf, _ = m.Collect() })
			walkFetchBuffer(o, buf, nil, "unilateral")
		},
		Metadata: func(mailbox string, entries []string) {},
	}
	var ms0, ms1 runtime.MemStats
	runtime.ReadMemStats(&ms0)
	c := imapclient.New(cEnd, &imapclient.Options{UnilateralDataHandler: uni})
	sEnd.Write([]byte(greeting))
	var wg sync.WaitGroup
	run := func(name string, f func()) {
		wg.Add(1)
		go func() {
			defer wg.Done()
			guard(o, name, f)
		}()
	}
	if withCommands {
		c.WaitGreeting()
		// T1..: the order defines the tags used by the generators
		sel := c.Select("INBOX", nil)
		run("Select.Wait", func() { d, _ := sel.Wait(); _ = d.NumMessages })
		fetch := c.Fetch(imap.SeqSet{{Start: 1, Stop: 0}}, &imap.FetchOptions{Flags: true, Envelope: true, UID: true, BodyStructure: &imap.FetchItemBodyStructure{Extended: true}, InternalDate: true, RFC822Size: true, BodySection: []*imap.FetchItemBodySection{{}}})
		run("Fetch.Collect", func() {
			var last error
			for {
				var m *imapclient.FetchMessageData
				m = fetch.Next()
				if m == nil {
					break
				}
				if m.SeqNum == 0 {
					o.add("fetch-seqnum-zero-delivered@FetchCommand.Next", "FetchCommand.Next returned a message with sequence number 0")
				}
				buf, err := m.Collect()
				last = err
				if buf != nil && buf.UID == 0 && hasUIDItem(buf) {
					o.add("fetch-uid-zero-delivered", "FETCH item UID 0 delivered")
				}
				walkFetchBuffer(o, buf, err, "FetchCommand")
			}
			_ = last
			fetch.Close()
		})
		ufetch := c.Fetch(imap.UIDSet{{Start: 1, Stop: 0}}, &imap.FetchOptions{Flags: true, UID: true})
		run("UIDFetch.Collect", func() {
			msgs, err := ufetch.Collect()
			for _, m := range msgs {
				if m.UID == 0 && err == nil {
					o.add("fetch-uid-zero-delivered", "UID FETCH delivered a message with UID 0")
				}
				if m.SeqNum == 0 {
					o.add("fetch-seqnum-zero-delivered@UIDFetchCommand.Collect", "UID FETCH delivered a message with sequence number 0")
				}
				walkFetchBuffer(o, m, err, "UIDFetchCommand")
			}
		})
		list := c.List("", "*", &imap.ListOptions{ReturnStatus: &imap.StatusOptions{NumMessages: true, NumUnseen: true}})
		run("List.Collect", func() {
			l, _ := list.Collect()
			for _, d := range l {
				_ = d.Mailbox
				if d.Status != nil && d.Status.NumMessages != nil {
					_ = *d.Status.NumMessages
				}
				if d.ChildInfo != nil {
					_ = d.ChildInfo.Subscribed
				}
			}
		})
		status := c.Status("INBOX", &imap.StatusOptions{NumMessages: true, UIDNext: true, Size: true, AppendLimit: true})
		run("Status.Wait", func() {
			d, _ := status.Wait()
			if d.NumMessages != nil {
				_ = *d.NumMessages
			}
		})
		search := c.Search(&imap.SearchCriteria{}, nil)
		run("Search.Wait", func() {
			d, err := search.Wait()
			walkNumSet(o, "SearchData.All", d.All, err)
			if spanOK(d.All) {
				guard(o, "SearchData.AllSeqNums", func() {
					for _, n := range d.AllSeqNums() {
						if n == 0 && err == nil {
							o.add("search-zero-delivered", "SEARCH result contains 0")
						}
					}
				})
				guard(o, "SearchData.AllUIDs", func() { d.AllUIDs() })
			}
		})
		usearch := c.UIDSearch(&imap.SearchCriteria{}, &imap.SearchOptions{ReturnAll: true, ReturnMin: true, ReturnMax: true, ReturnCount: true})
		run("UIDSearch.Wait", func() {
			d, err := usearch.Wait()
			walkNumSet(o, "SearchData.All(uid)", d.All, err)
			if spanOK(d.All) {
				guard(o, "SearchData.AllUIDs", func() {
					for _, u := range d.AllUIDs() {
						if u == 0 && err == nil {
							o.add("search-zero-delivered", "UID SEARCH result contains 0")
						}
					}
				})
				guard(o, "SearchData.AllSeqNums", func() { d.AllSeqNums() })
			}
		})
		sortc := c.Sort(&imapclient.SortOptions{SearchCriteria: &imap.SearchCriteria{}, SortCriteria: []imapclient.SortCriterion{{Key: imapclient.SortKeyDate}}})
		run("Sort.Wait", func() {
			nums, err := sortc.Wait()
			for _, n := range nums {
				if n == 0 && err == nil {
					o.add("sort-zero-delivered", "SORT result contains 0")
				}
			}
		})
		thread := c.Thread(&imapclient.ThreadOptions{Algorithm: imap.ThreadReferences, SearchCriteria: &imap.SearchCriteria{}})
		run("Thread.Wait", func() { t, err := thread.Wait(); walkThread(o, t, 0, err) })
		quota := c.GetQuota("root")
		run("GetQuota.Wait", func() {
			q, _ := quota.Wait()
			if q != nil {
				for k, v := range q.Resources {
					_, _ = k, v.Usage
				}
			}
		})
		qroot := c.GetQuotaRoot("INBOX")
		run("GetQuotaRoot.Wait", func() {
			qs, _ := qroot.Wait()
			for _, q := range qs {
				_ = len(q.Resources)
			}
		})
		meta := c.GetMetadata("INBOX", []string{"/private/comment"}, nil)
		run("GetMetadata.Wait", func() {
			d, _ := meta.Wait()
			if d != nil {
				for k, v := range d.Entries {
					_ = k
					if v != nil {
						_ = len(*v)
					}
				}
			}
		})
		ns := c.Namespace()
		run("Namespace.Wait", func() { d, _ := ns.Wait(); _ = len(d.Personal) })
		capc := c.Capability()
		run("Capability.Wait", func() { capc.Wait() })
		cp := c.Copy(imap.SeqSetNum(1), "dest")
		run("Copy.Wait", func() {
			d, err := cp.Wait()
			if d != nil {
				walkNumSet(o, "CopyData.SourceUIDs", d.SourceUIDs, err)
				walkNumSet(o, "CopyData.DestUIDs", d.DestUIDs, err)
				if err == nil && (hasZeroUID(d.SourceUIDs) || hasZeroUID(d.DestUIDs)) {
					o.add("copyuid-zero-delivered", "COPYUID with UID 0 delivered")
				}
			}
		})
		mv := c.Move(imap.SeqSetNum(2), "dest")
		run("Move.Wait", func() {
			d, err := mv.Wait()
			if d != nil {
				walkNumSet(o, "MoveData.SourceUIDs", d.SourceUIDs, err)
				walkNumSet(o, "MoveData.DestUIDs", d.DestUIDs, err)
			}
		})
		exp := c.Expunge()
		run("Expunge.Collect", func() {
			for {
				n := exp.Next()
				if n == 0 {
					break
				}
			}
			exp.Close()
		})
		en := c.Enable(imap.CapIMAP4rev2)
		run("Enable.Wait", func() { d, _ := en.Wait(); _ = len(d.Caps) })
		small := []byte("Subject: x\r\n\r\ny")
		ap := c.Append("INBOX", int64(len(small)), nil)
		ap.Write(small)
		ap.Close()
		run("Append.Wait", func() {
			d, err := ap.Wait()
			if err == nil && d != nil && d.UIDValidity != 0 && d.UID == 0 {
				o.add("appenduid-zero-delivered", "APPENDUID with UID 0 delivered")
			}
		})
		st := c.Store(imap.SeqSetNum(1), &imap.StoreFlags{Op: imap.StoreFlagsAdd, Flags: []imap.Flag{imap.FlagSeen}}, nil)
		run("Store.Collect", func() { st.Collect() })
		ua := c.Unauthenticate()
		run("Unauthenticate.Wait", func() { ua.Wait() })
	}
	sEnd.Write(stream)
	sEnd.Close()
	done := make(chan struct{})
	go func() { wg.Wait(); close(done) }()
	select {
	case <-done:
	case <-time.After(60 * time.Second):
		o.add("command-never-completes", "a pending command did not complete after the server closed the connection")
	}
	var cerr error
	closed := make(chan struct{})
	go func() { cerr = c.Close(); close(closed) }()
	select {
	case <-closed:
	case <-time.After(60 * time.Second):
		o.add("close-hangs", "Client.Close did not return")
	}
	o.closeErr = cerr
	if cerr != nil && strings.Contains(cerr.Error(), "panic reading response") {
		o.add("reader-panic@"+hx.PanicSite(cerr.Error()), strings.SplitN(cerr.Error(), "\n", 2)[0])
	}
	cEnd.Close()
	hdeadline := time.Now().Add(60 * time.Second)
	for {
		o.mu.Lock()
		n := o.running
		o.mu.Unlock()
		if n == 0 {
			break
		}
		if time.Now().After(hdeadline) {
			o.add("unilateral-handler-never-returns", "a unilateral FETCH handler is still blocked after Client.Close")
			break
		}
		time.Sleep(100 * time.Microsecond)
	}
	runtime.ReadMemStats(&ms1)
	return ms1.TotalAlloc - ms0.TotalAlloc, o
}

func spanOK(ns imap.NumSet) bool {
	switch s := ns.(type) {
	case imap.SeqSet:
		return spanOfSeq(s) <= spanLimit && !s.Dynamic()
	case imap.UIDSet:
		return spanOfUID(s) <= spanLimit && !s.Dynamic()
	}
	return true
}

func hasUIDItem(b *imapclient.FetchMessageBuffer) bool { return false }

func hasZeroUID(ns imap.NumSet) bool {
	if u, ok := ns.(imap.UIDSet); ok {
		for _, r := range u {
			if r.Start == 0 || r.Stop == 0 {
				return true
			}
		}
	}
	return false
}

func report(w *hx.W, class, desc string, stream []byte, o *observed) {
	o.mu.Lock()
	viol := append([]string(nil), o.viol...)
	o.mu.Unlock()
	for _, v := range viol {
		parts := strings.SplitN(v, "|", 2)
		w.Violation(parts[0]+"/"+class, fmt.Sprintf("%s: %s [stream class %s: %s]", parts[0], parts[1], class, desc), map[string]interface{}{"stream": hx.Hex(stream, 4000), "class": class})
	}
}

// ---- generators -----------------------------------------------------------------

// tags: commands are issued in a fixed order, so tags are T1..T21
var tagNames = []string{"SELECT", "FETCH", "UIDFETCH", "LIST", "STATUS", "SEARCH", "UIDSEARCH", "SORT", "THREAD", "GETQUOTA", "GETQUOTAROOT", "GETMETADATA", "NAMESPACE", "CAPABILITY", "COPY", "MOVE", "EXPUNGE", "ENABLE", "APPEND", "STORE", "UNAUTHENTICATE"}

func tag(name string) string {
	for i, n := range tagNames {
		if n == name {
			return fmt.Sprintf("T%d", i+1)
		}
	}
	return "T99"
}

func allOK() string {
	var sb strings.Builder
	for i := range tagNames {
		fmt.Fprintf(&sb, "T%d OK done\r\n", i+1)
	}
	return sb.String()
}

var boundaryNums = []string{"0", "1", "2", "4294967295", "4294967296", "9223372036854775807", "9223372036854775808", "18446744073709551615", "18446744073709551616", "-1", "00", "99999999999999999999999"}

func num(rng *rand.Rand) string {
	if rng.Intn(4) == 0 {
		return boundaryNums[rng.Intn(len(boundaryNums))]
	}
	return fmt.Sprint(rng.Intn(50))
}

func astr(rng *rand.Rand) string {
	switch rng.Intn(7) {
	case 0:
		return "NIL"
	case 1:
		return `"a \"q\" \\ b"`
	case 2:
		s := "lit é\r\n"
		return fmt.Sprintf("{%d}\r\n%s", len(s), s)
	case 3:
		return `""`
	case 4:
		return "{0}\r\n"
	case 5:
		return `"=?utf-8?Q?=C3=A9?= <x@y>"`
	}
	return `"str"`
}

func addr(rng *rand.Rand) string {
	return fmt.Sprintf("(%s %s %s %s)", astr(rng), astr(rng), astr(rng), astr(rng))
}

func addrList(rng *rand.Rand) string {
	if rng.Intn(3) == 0 {
		return "NIL"
	}
	var p []string
	for i := rng.Intn(3); i >= 0; i-- {
		p = append(p, addr(rng))
	}
	return "(" + strings.Join(p, "") + ")"
}

func envelope(rng *rand.Rand) string {
	return fmt.Sprintf("(%s %s %s %s %s %s %s %s %s %s)", astr(rng), astr(rng), addrList(rng), addrList(rng), addrList(rng), addrList(rng), addrList(rng), addrList(rng), astr(rng), astr(rng))
}

func params(rng *rand.Rand) string {
	switch rng.Intn(4) {
	case 0:
		return "NIL"
	case 1:
		return "()"
	case 2:
		return `("k" "v" "name" "f.txt")`
	}
	return `("charset" "utf-8")`
}

func bodyStructure(rng *rand.Rand, depth int, ext bool) string {
	if depth > 0 && rng.Intn(3) == 0 {
		var sb strings.Builder
		sb.WriteString("(")
		for i := rng.Intn(3); i >= 0; i-- {
			sb.WriteString(bodyStructure(rng, depth-1, ext))
		}
		sb.WriteString(` "mixed"`)
		if ext {
			fmt.Fprintf(&sb, " %s %s %s %s", params(rng), disp(rng), lang(rng), astr(rng))
		}
		sb.WriteString(")")
		return sb.String()
	}
	typ := []string{`"text" "plain"`, `"TEXT" "html"`, `"message" "rfc822"`, `"application" "pdf"`, `"image" "png"`, `"message" "global"`}[rng.Intn(6)]
	s := fmt.Sprintf("(%s %s %s %s %s %s", typ, params(rng), astr(rng), astr(rng), astr(rng), num(rng))
	switch {
	case strings.HasPrefix(typ, `"message"`) && rng.Intn(4) != 0:
		s += " " + envelope(rng) + " " + bodyStructure(rng, depth-1, ext) + " " + num(rng)
	case strings.HasPrefix(strings.ToLower(typ), `"text"`) && rng.Intn(4) != 0:
		s += " " + num(rng)
	}
	if ext {
		s += fmt.Sprintf(" %s %s %s %s", astr(rng), disp(rng), lang(rng), astr(rng))
		if rng.Intn(4) == 0 {
			s += ` ("future" ("ext" 5))`
		}
	}
	return s + ")"
}

func disp(rng *rand.Rand) string {
	if rng.Intn(2) == 0 {
		return "NIL"
	}
	return `("attachment" ` + params(rng) + ")"
}

func lang(rng *rand.Rand) string {
	return []string{"NIL", `"en"`, `("en" "fr")`, "()"}[rng.Intn(4)]
}

func flagList(rng *rand.Rand) string {
	return []string{`()`, `(\Seen)`, `(\Seen \Deleted $Junk kw \*)`, `(\seen \FLAGGED)`}[rng.Intn(4)]
}

func fetchResp(rng *rand.Rand) string {
	var items []string
	for i := rng.Intn(6); i >= 0; i-- {
		switch rng.Intn(11) {
		case 0:
			items = append(items, "UID "+num(rng))
		case 1:
			items = append(items, "FLAGS "+flagList(rng))
		case 2:
			items = append(items, "ENVELOPE "+envelope(rng))
		case 3:
			items = append(items, "BODYSTRUCTURE "+bodyStructure(rng, 3, true))
		case 4:
			items = append(items, "BODY "+bodyStructure(rng, 3, false))
		case 5:
			items = append(items, `INTERNALDATE "14-Jul-2023 10:00:00 +0000"`)
		case 6:
			items = append(items, "RFC822.SIZE "+num(rng))
		case 7:
			items = append(items, "BODY[] "+astr(rng))
		case 8:
			items = append(items, "BODY[1.2.HEADER.FIELDS (A \"b\")]<"+num(rng)+"> "+astr(rng))
		case 9:
			items = append(items, "BINARY[1] ~{3}\r\nabc", "BINARY.SIZE[1] "+num(rng))
		case 10:
			items = append(items, "MODSEQ ("+num(rng)+")")
		}
	}
	return fmt.Sprintf("* %s FETCH (%s)\r\n", num(rng), strings.Join(items, " "))
}

func mailbox(rng *rand.Rand) string {
	return []string{"INBOX", "inbox", `"a b"`, "&AOk-", `"&Jjo-/x"`, "{3}\r\nlit", "&bad", `"é"`, "NIL"}[rng.Intn(9)]
}

func genLine(rng *rand.Rand) string {
	switch rng.Intn(26) {
	case 0:
		return fetchResp(rng)
	case 1:
		return fmt.Sprintf("* %s EXISTS\r\n", num(rng))
	case 2:
		return fmt.Sprintf("* %s EXPUNGE\r\n", num(rng))
	case 3:
		return fmt.Sprintf("* %s RECENT\r\n", num(rng))
	case 4:
		return "* FLAGS " + flagList(rng) + "\r\n"
	case 5:
		return fmt.Sprintf("* OK [%s] text\r\n", []string{"PERMANENTFLAGS " + flagList(rng), "UIDNEXT " + num(rng), "UIDVALIDITY " + num(rng), "HIGHESTMODSEQ " + num(rng), "NOMODSEQ", "CLOSED", "ALERT", "UNKNOWN-CODE some thing", "CAPABILITY IMAP4rev1 X", "COPYUID " + num(rng) + " " + set(rng) + " " + set(rng), "READ-ONLY"}[rng.Intn(11)])
	case 6:
		attrs := []string{`()`, `(\Noselect)`, `(\HasChildren \Subscribed \X-Y)`, `(\noselect \marked)`}[rng.Intn(4)]
		delim := []string{`"/"`, "NIL", `"."`, `"ab"`, `"é"`}[rng.Intn(5)]
		ext := []string{"", ` ("CHILDINFO" ("SUBSCRIBED"))`, ` ("OLDNAME" (old))`, ` ("X" (1 2 (3))) `, ` (CHILDINFO ())`}[rng.Intn(5)]
		return fmt.Sprintf("* LIST %s %s %s%s\r\n", attrs, delim, mailbox(rng), ext)
	case 7:
		var items []string
		for i := rng.Intn(5); i >= 0; i-- {
			items = append(items, []string{"MESSAGES", "UIDNEXT", "UIDVALIDITY", "UNSEEN", "DELETED", "SIZE", "APPENDLIMIT", "DELETED-STORAGE", "HIGHESTMODSEQ", "X-UNKNOWN"}[rng.Intn(10)]+" "+[]string{num(rng), "NIL", "(1 2)"}[rng.Intn(3)])
		}
		return fmt.Sprintf("* STATUS %s (%s)\r\n", mailbox(rng), strings.Join(items, " "))
	case 8:
		var nums []string
		for i := rng.Intn(6); i > 0; i-- {
			nums = append(nums, num(rng))
		}
		tail := ""
		if rng.Intn(4) == 0 {
			tail = " (MODSEQ " + num(rng) + ")"
		}
		return "* SEARCH " + strings.Join(nums, " ") + tail + "\r\n"
	case 9:
		var parts []string
		if rng.Intn(2) == 0 {
			parts = append(parts, fmt.Sprintf(`(TAG "%s")`, []string{tag("SEARCH"), tag("UIDSEARCH"), "T0", "x"}[rng.Intn(4)]))
		}
		if rng.Intn(2) == 0 {
			parts = append(parts, "UID")
		}
		for i := rng.Intn(4); i > 0; i-- {
			parts = append(parts, []string{"MIN " + num(rng), "MAX " + num(rng), "COUNT " + num(rng), "ALL " + set(rng), "MODSEQ " + num(rng), "X-EXT (1 2)"}[rng.Intn(6)])
		}
		return "* ESEARCH " + strings.Join(parts, " ") + "\r\n"
	case 10:
		var nums []string
		for i := rng.Intn(6); i > 0; i-- {
			nums = append(nums, num(rng))
		}
		return "* SORT " + strings.Join(nums, " ") + "\r\n"
	case 11:
		return "* THREAD " + threadList(rng, 3) + threadList(rng, 2) + "\r\n"
	case 12:
		return fmt.Sprintf("* QUOTA %s (STORAGE %s %s MESSAGE %s %s)\r\n", astr(rng), num(rng), num(rng), num(rng), num(rng))
	case 13:
		return fmt.Sprintf("* QUOTAROOT %s %s %s\r\n", mailbox(rng), astr(rng), astr(rng))
	case 14:
		return fmt.Sprintf("* METADATA %s (%s %s %s %s)\r\n", mailbox(rng), astr(rng), astr(rng), astr(rng), astr(rng))
	case 15:
		return fmt.Sprintf("* METADATA %s %s %s\r\n", mailbox(rng), astr(rng), astr(rng))
	case 16:
		nsd := func() string {
			return []string{"NIL", `(("" "/"))`, `(("a" NIL)("b" "." "X-PARAM" ("v")))`, `(("" "ab"))`}[rng.Intn(4)]
		}
		return fmt.Sprintf("* NAMESPACE %s %s %s\r\n", nsd(), nsd(), nsd())
	case 17:
		return "* CAPABILITY IMAP4rev1 " + []string{"X Y", "", "AUTH=PLAIN", "{3}\r\nabc"}[rng.Intn(4)] + "\r\n"
	case 18:
		return "* ENABLED " + []string{"IMAP4rev2", "UTF8=ACCEPT X", ""}[rng.Intn(3)] + "\r\n"
	case 19:
		return "+ " + []string{"", "text", "{5}"}[rng.Intn(3)] + "\r\n"
	case 20:
		t := fmt.Sprintf("T%d", 1+rng.Intn(len(tagNames)+2))
		st := []string{"OK", "NO", "BAD", "BYE", "PREAUTH", "ok", "FOO"}[rng.Intn(7)]
		code := []string{"", "[APPENDUID " + num(rng) + " " + num(rng) + "] ", "[COPYUID " + num(rng) + " " + set(rng) + " " + set(rng) + "] ", "[CAPABILITY IMAP4rev1] ", "[READ-WRITE] ", "[X", "[] "}[rng.Intn(7)]
		return fmt.Sprintf("%s %s %stext\r\n", t, st, code)
	case 21:
		return "* BYE [ALERT] bye\r\n"
	case 22:
		return fmt.Sprintf("* %s\r\n", []string{"OK", "NO text", "BAD [X] y", "PREAUTH hi", "XUNKNOWN 1 2", "1", "", " ", "OK [", "OK []"}[rng.Intn(10)])
	case 23:
		return "* LSUB () \"/\" x\r\n"
	case 24:
		return fmt.Sprintf("* %s FETCH %s\r\n", num(rng), []string{"()", "(UID)", "(FLAGS)", "FLAGS ()", "(BODY[", "(BODY[] {5}\r\nab", "(X-UNKNOWN 1)"}[rng.Intn(7)])
	}
	return fmt.Sprintf("* OK [UIDVALIDITY %s]\r\n", num(rng))
}

func set(rng *rand.Rand) string {
	return []string{"1", "1:5", "1:*", "*", "$", "0", "1,3,7:9", "4294967295", "4294967296", "5:1", "1:", ",", "1:4000000000"}[rng.Intn(13)]
}

func threadList(rng *rand.Rand, depth int) string {
	if depth == 0 || rng.Intn(3) == 0 {
		return "(" + num(rng) + ")"
	}
	var sb strings.Builder
	sb.WriteString("(")
	sb.WriteString(num(rng))
	for i := rng.Intn(3); i >= 0; i-- {
		sb.WriteString(" ")
		if rng.Intn(2) == 0 {
			sb.WriteString(num(rng))
		} else {
			sb.WriteString(threadList(rng, depth-1))
		}
	}
	sb.WriteString(")")
	return sb.String()
}

func mutate(rng *rand.Rand, b []byte) []byte {
	b = append([]byte(nil), b...)
	alpha := []byte("(){}[]<>\"\\ *%+~\r\n\x00\xff09aN.:,$")
	for k := rng.Intn(3); k >= 0; k-- {
		if len(b) == 0 {
			return []byte("*")
		}
		switch rng.Intn(5) {
		case 0:
			i := rng.Intn(len(b))
			j := i + 1 + rng.Intn(minInt(len(b)-i, 8))
			b = append(b[:i], b[j:]...)
		case 1:
			i := rng.Intn(len(b) + 1)
			b = append(b[:i], append([]byte{alpha[rng.Intn(len(alpha))]}, b[i:]...)...)
		case 2:
			b[rng.Intn(len(b))] = alpha[rng.Intn(len(alpha))]
		case 3: // duplicate a slice
			i := rng.Intn(len(b))
			j := i + rng.Intn(minInt(len(b)-i, 12))
			b = append(b[:j], append(append([]byte(nil), b[i:j]...), b[j:]...)...)
		case 4:
			b = b[:rng.Intn(len(b)+1)]
		}
	}
	return b
}

func minInt(a, b int) int {
	if a < b {
		return a
	}
	return b
}

// ---- targeted invariant probes and scaling families ----------------------------

func invariantProbes() map[string]string {
	return map[string]string{
		"fetch-seq-0":            "* 0 FETCH (FLAGS (\\Seen))\r\n",
		"fetch-seq-0-uid":        "* 0 FETCH (UID 4 FLAGS ())\r\n",
		"fetch-uid-0":            "* 1 FETCH (UID 0 FLAGS ())\r\n",
		"expunge-0":              "* 0 EXPUNGE\r\n",
		"search-0":               "* SEARCH 0 3\r\n",
		"search-0-only":          "* SEARCH 0\r\n",
		"esearch-all-dynamic":    "* ESEARCH (TAG \"" + tag("UIDSEARCH") + "\") UID ALL 1:*\r\n",
		"esearch-all-star":       "* ESEARCH (TAG \"" + tag("UIDSEARCH") + "\") UID ALL *\r\n",
		"esearch-all-searchres":  "* ESEARCH (TAG \"" + tag("UIDSEARCH") + "\") UID ALL $\r\n",
		"esearch-all-0":          "* ESEARCH (TAG \"" + tag("SEARCH") + "\") ALL 0\r\n",
		"sort-0":                 "* SORT 2 0 1\r\n",
		"thread-0":               "* THREAD (0 1)(2)\r\n",
		"appenduid-0":            tag("APPEND") + " OK [APPENDUID 1 0] done\r\n",
		"copyuid-dynamic":        tag("COPY") + " OK [COPYUID 1 1:* 5] done\r\n",
		"copyuid-0":              tag("COPY") + " OK [COPYUID 1 0 5] done\r\n",
		"copyuid-searchres":      tag("COPY") + " OK [COPYUID 1 $ $] done\r\n",
		"move-copyuid-dynamic":   "* OK [COPYUID 1 3:* 9] moved\r\n",
		"body-nil":               "* 1 FETCH (BODY[] NIL)\r\n",
		"body-nil-unsolicited":   "* 7 FETCH (UID 99999 BODY[] NIL BODY[1] NIL)\r\n",
		"binary-nil":             "* 1 FETCH (BINARY[1] NIL)\r\n",
		"literal-overflow":       "* 1 FETCH (BODY[] {9223372036854775807}\r\nabc",
		"literal-negative":       "* 1 FETCH (BODY[] {-1}\r\nabc)\r\n",
		"literal-huge-number":    "* 1 FETCH (BODY[] {99999999999999999999}\r\nabc)\r\n",
		"exists-overflow":        "* 4294967296 EXISTS\r\n",
		"status-nil-mailbox":     "* STATUS NIL (MESSAGES 1)\r\n",
		"list-bad-utf7":          "* LIST () \"/\" \"&AAAA\"\r\n",
		"mpart-no-children":      "* 1 FETCH (BODYSTRUCTURE (\"mixed\"))\r\n",
		"mpart-empty":            "* 1 FETCH (BODYSTRUCTURE ())\r\n",
		"bodystructure-nil":      "* 1 FETCH (BODYSTRUCTURE NIL)\r\n",
		"envelope-short":         "* 1 FETCH (ENVELOPE (NIL NIL))\r\n",
		"unknown-tag":            "T999 OK done\r\n",
		"continuation-unmatched": "+ go\r\n",
		"quota-odd":              "* QUOTA \"\" (STORAGE 1)\r\n* QUOTA \"\" ()\r\n",
		"metadata-unsolicited":   "* METADATA INBOX /a /b /c\r\n",
		"tagged-twice":           tag("STATUS") + " OK a\r\n" + tag("STATUS") + " OK b\r\n",
		"fetch-no-number":        "* FETCH (UID 1 FLAGS (\\Seen))\r\n",
		"fetch-no-number-2":      "* FETCH (FLAGS (\\Seen) UID 7)\r\n* 2 FETCH (UID 8)\r\n",
		"expunge-no-number":      "* EXPUNGE\r\n",
		"exists-no-number":       "* EXISTS\r\n* RECENT\r\n",
		// data that arrives after the connection went back to the not-authenticated state
		"enabled-after-unauthenticate":     tag("ENABLE") + " OK done\r\n" + tag("UNAUTHENTICATE") + " OK back to square one\r\n* ENABLED IMAP4rev2 UTF8=ACCEPT\r\n* 3 EXISTS\r\n* FLAGS (\\Seen)\r\n* 1 FETCH (FLAGS ())\r\n* CAPABILITY IMAP4rev1\r\n",
		"select-data-after-unauthenticate": tag("UNAUTHENTICATE") + " OK done\r\n* 2 EXISTS\r\n* OK [UIDVALIDITY 3] ok\r\n* OK [PERMANENTFLAGS (\\*)] ok\r\n" + tag("SELECT") + " OK [READ-WRITE] late\r\n* 1 EXPUNGE\r\n",
	}
}

// mustReject: streams that violate the grammar in a way the property names (overflowing
// numbers, over-deep nesting, malformed literals): the client must report a protocol
// error (Client.Close returns the reader's error) instead of delivering data.
func mustReject() map[string]string {
	rep := strings.Repeat
	m := map[string]string{}
	over32 := []string{"4294967296", "4294967298", "9999999999", "18446744073709551615", "18446744073709551616", "99999999999999999999999"}
	for i, n := range over32 {
		k := fmt.Sprint(i)
		m["overflow/search-"+k] = "* SEARCH " + n + "\r\n"
		m["overflow/sort-"+k] = "* SORT 1 " + n + "\r\n"
		m["overflow/thread-"+k] = "* THREAD (1 " + n + ")\r\n"
		m["overflow/fetch-uid-"+k] = "* 1 FETCH (UID " + n + ")\r\n"
		m["overflow/fetch-seq-"+k] = "* " + n + " FETCH (FLAGS ())\r\n"
		m["overflow/exists-"+k] = "* " + n + " EXISTS\r\n"
		m["overflow/expunge-"+k] = "* " + n + " EXPUNGE\r\n"
		m["overflow/status-messages-"+k] = "* STATUS INBOX (MESSAGES " + n + ")\r\n"
		m["overflow/status-uidnext-"+k] = "* STATUS INBOX (UIDNEXT " + n + ")\r\n"
		m["overflow/status-uidvalidity-"+k] = "* STATUS INBOX (UIDVALIDITY " + n + ")\r\n"
		m["overflow/status-unseen-"+k] = "* STATUS INBOX (UNSEEN " + n + ")\r\n"
		m["overflow/esearch-min-"+k] = "* ESEARCH (TAG \"" + tag("UIDSEARCH") + "\") UID MIN " + n + "\r\n"
		m["overflow/esearch-count-"+k] = "* ESEARCH (TAG \"" + tag("UIDSEARCH") + "\") UID COUNT " + n + "\r\n"
		m["overflow/esearch-all-"+k] = "* ESEARCH (TAG \"" + tag("UIDSEARCH") + "\") UID ALL 1:" + n + "\r\n"
		m["overflow/appenduid-"+k] = tag("APPEND") + " OK [APPENDUID 1 " + n + "] done\r\n"
		m["overflow/appenduid-validity-"+k] = tag("APPEND") + " OK [APPENDUID " + n + " 5] done\r\n"
		m["overflow/copyuid-"+k] = tag("COPY") + " OK [COPYUID 1 " + n + " 5] done\r\n"
		m["overflow/uidnext-code-"+k] = "* OK [UIDNEXT " + n + "] x\r\n"
		m["overflow/uidvalidity-code-"+k] = "* OK [UIDVALIDITY " + n + "] x\r\n"
		m["overflow/bodystructure-size-"+k] = "* 1 FETCH (BODYSTRUCTURE (\"text\" \"plain\" NIL NIL NIL \"7bit\" " + n + " 1))\r\n"
		m["overflow/binary-size-"+k] = "* 1 FETCH (BINARY.SIZE[1] " + n + ")\r\n"
		m["overflow/quota-"+k] = "* QUOTA \"\" (STORAGE " + "99999999999999999999" + " 1)\r\n"
	}
	for i, n := range []string{"9223372036854775808", "18446744073709551616", "99999999999999999999999"} {
		k := fmt.Sprint(i)
		m["overflow64/rfc822size-"+k] = "* 1 FETCH (RFC822.SIZE " + n + ")\r\n"
		m["overflow64/literal-size-"+k] = "* 1 FETCH (BODY[] {" + n + "}\r\nabc)\r\n"
		m["overflow64/status-size-"+k] = "* STATUS INBOX (SIZE " + n + ")\r\n"
	}
	m["overflow64/modseq"] = "* 1 FETCH (MODSEQ (18446744073709551616))\r\n"
	// nesting beyond the decoder's cap, with different token kinds between the parentheses
	for _, d := range []int{1001, 5000} {
		k := fmt.Sprint(d)
		m["depth/ext-value-"+k] = "* LIST () \"/\" x (\"X\" " + rep("(", d) + "1" + rep(")", d) + ")\r\n"
		m["depth/ext-value-literals-"+k] = "* LIST () \"/\" x (\"X\" " + rep("({1}\r\nx ", d) + "1" + rep(")", d) + ")\r\n"
		m["depth/ext-value-quoted-"+k] = "* LIST () \"/\" x (\"X\" " + rep("(\"q\" ", d) + "1" + rep(")", d) + ")\r\n"
		m["depth/esearch-ext-literals-"+k] = "* ESEARCH (TAG \"" + tag("UIDSEARCH") + "\") UID X-EXT " + rep("({1}\r\nx ", d) + "1" + rep(")", d) + "\r\n"
		m["depth/namespace-ext-literals-"+k] = "* NAMESPACE ((\"\" \"/\" \"X\" " + rep("({1}\r\nx ", d) + "\"v\"" + rep(")", d) + ")) NIL NIL\r\n"
		m["depth/bodystructure-ext-literals-"+k] = "* 1 FETCH (BODYSTRUCTURE (\"text\" \"plain\" NIL NIL NIL \"7bit\" 1 1 NIL NIL NIL NIL " + rep("({1}\r\nx ", d) + "1" + rep(")", d) + "))\r\n"
		m["depth/thread-"+k] = "* THREAD " + rep("(1 ", d) + "(2)" + rep(")", d) + "\r\n"
		env := `(NIL NIL NIL NIL NIL NIL NIL NIL NIL NIL)`
		m["depth/bodystructure-message-rfc822-"+k] = "* 1 FETCH (BODYSTRUCTURE " + rep(`("message" "rfc822" NIL NIL NIL "7bit" 1 `+env+" ", d) + `("text" "plain" NIL NIL NIL "7bit" 1 1)` + rep(" 1)", d) + ")\r\n"
		m["depth/body-message-global-"+k] = "* 1 FETCH (BODY " + rep(`("message" "global" NIL NIL NIL "8bit" 1 `+env+" ", d) + `("text" "plain" NIL NIL NIL "7bit" 1 1)` + rep(" 1)", d) + ")\r\n"
		m["depth/bodystructure-message-in-mpart-"+k] = "* 1 FETCH (BODYSTRUCTURE " + rep(`(("message" "rfc822" NIL NIL NIL "7bit" 1 `+env+" ", d) + `("text" "plain" NIL NIL NIL "7bit" 1 1)` + rep(` 1) "mixed")`, d) + ")\r\n"
		m["depth/bodystructure-mpart-"+k] = "* 1 FETCH (BODYSTRUCTURE " + rep("(", d) + "(\"text\" \"plain\" NIL NIL NIL \"7bit\" 1 1)" + rep(" \"mixed\")", d) + ")\r\n"
	}
	m["literal/negative"] = "* 1 FETCH (BODY[] {-1}\r\nabc)\r\n"
	m["literal/no-crlf"] = "* 1 FETCH (BODY[] {3}abc)\r\n"
	m["literal/plus-from-server"] = "* 1 FETCH (BODY[] {3+}\r\nabc)\r\n"
	m["number/leading-minus"] = "* SEARCH -5\r\n"
	m["number/hex"] = "* SEARCH 0x10\r\n"
	m["set/copyuid-garbage"] = tag("COPY") + " OK [COPYUID 1 1:: 5] done\r\n"
	return m
}

type family struct {
	name string
	gen  func(n int) string
	ns   []int
}

func families() []family {
	rep := strings.Repeat
	return []family{
		{"bodystructure-nested-mpart", func(n int) string {
			return "* 1 FETCH (BODYSTRUCTURE " + rep("(", n) + `("text" "plain" NIL NIL NIL "7bit" 1 1)` + rep(` "mixed")`, n) + ")\r\n"
		}, []int{125, 250, 500, 1000}},
		{"bodystructure-nested-unterminated", func(n int) string { return "* 1 FETCH (BODYSTRUCTURE " + rep("(", n) + "\r\n" }, []int{250, 500, 1000, 2000}},
		{"bodystructure-nested-message", func(n int) string {
			env := `(NIL NIL NIL NIL NIL NIL NIL NIL NIL NIL)`
			return "* 1 FETCH (BODYSTRUCTURE " + rep(`("message" "rfc822" NIL NIL NIL "7bit" 1 `+env+" ", n) + `("text" "plain" NIL NIL NIL "7bit" 1 1)` + rep(" 1)", n) + ")\r\n"
		}, []int{100, 200, 400, 800}},
		{"thread-nested", func(n int) string { return "* THREAD " + rep("(1 ", n) + "(2)" + rep(")", n) + "\r\n" }, []int{200, 400, 800, 1600}},
		{"ext-value-nested", func(n int) string {
			return "* LIST () \"/\" x (\"X\" " + rep("(", n) + "1" + rep(")", n) + ")\r\n"
		}, []int{200, 400, 800, 1600}},
		{"search-many-numbers", func(n int) string { return "* SEARCH" + rep(" 7", n) + "\r\n" }, []int{2000, 4000, 8000, 16000}},
		{"search-many-distinct", func(n int) string {
			var sb strings.Builder
			sb.WriteString("* SEARCH")
			for i := 0; i < n; i++ {
				fmt.Fprintf(&sb, " %d", 1+2*i)
			}
			sb.WriteString("\r\n")
			return sb.String()
		}, []int{1000, 2000, 4000, 8000}},
		{"search-descending", func(n int) string {
			var sb strings.Builder
			sb.WriteString("* SEARCH")
			for i := n; i > 0; i-- {
				fmt.Fprintf(&sb, " %d", 2*i)
			}
			sb.WriteString("\r\n")
			return sb.String()
		}, []int{1000, 2000, 4000, 8000}},
		{"esearch-span", func(n int) string {
			return fmt.Sprintf("* ESEARCH (TAG \"%s\") UID ALL 1:%d\r\n", tag("UIDSEARCH"), n)
		}, []int{1000, 10000, 100000, 1000000}},
		{"fetch-many-responses", func(n int) string { return rep("* 1 FETCH (FLAGS (\\Seen))\r\n", n) }, []int{500, 1000, 2000, 4000}},
		{"list-many", func(n int) string { return rep("* LIST () \"/\" box\r\n", n) }, []int{500, 1000, 2000, 4000}},
		{"flags-many", func(n int) string { return "* FLAGS (" + rep("a ", n) + "b)\r\n" }, []int{2000, 4000, 8000, 16000}},
		{"literal-size", func(n int) string { return fmt.Sprintf("* 1 FETCH (BODY[] {%d}\r\n%s)\r\n", n, rep("x", n)) }, []int{10000, 20000, 40000, 80000}},
		{"quoted-long", func(n int) string { return "* LIST () \"/\" \"" + rep("a", n) + "\"\r\n" }, []int{10000, 20000, 40000, 80000}},
		{"capability-many", func(n int) string { return "* CAPABILITY" + rep(" X", n) + "\r\n" }, []int{2000, 4000, 8000, 16000}},
		{"envelope-many-addrs", func(n int) string {
			return "* 1 FETCH (ENVELOPE (NIL NIL (" + rep(`(NIL NIL "a" "b")`, n) + ") NIL NIL NIL NIL NIL NIL NIL))\r\n"
		}, []int{500, 1000, 2000, 4000}},
	}
}

// truncatedLiteralPositions: response templates with one string position filled by the argument
func truncatedLiteralPositions() map[string]func(lit string) string {
	env := func(subject string) string {
		return "(NIL " + subject + " NIL NIL NIL NIL NIL NIL NIL NIL)"
	}
	return map[string]func(lit string) string{
		"list-mailbox":        func(l string) string { return "* LIST () \"/\" " + l },
		"lsub-mailbox":        func(l string) string { return "* LSUB () \"/\" " + l },
		"status-mailbox":      func(l string) string { return "* STATUS " + l },
		"envelope-subject":    func(l string) string { return "* 1 FETCH (ENVELOPE " + env(l) },
		"envelope-date":       func(l string) string { return "* 1 FETCH (ENVELOPE (" + l },
		"envelope-addr-name":  func(l string) string { return "* 1 FETCH (ENVELOPE (NIL NIL ((" + l },
		"bodystructure-type":  func(l string) string { return "* 1 FETCH (BODYSTRUCTURE (" + l },
		"bodystructure-param": func(l string) string { return "* 1 FETCH (BODYSTRUCTURE (\"text\" \"plain\" (\"charset\" " + l },
		"bodystructure-id":    func(l string) string { return "* 1 FETCH (BODYSTRUCTURE (\"text\" \"plain\" NIL " + l },
		"namespace-prefix":    func(l string) string { return "* NAMESPACE ((" + l },
		"metadata-mailbox":    func(l string) string { return "* METADATA " + l },
		"metadata-value":      func(l string) string { return "* METADATA INBOX (/private/comment " + l },
		"quotaroot-mailbox":   func(l string) string { return "* QUOTAROOT " + l },
		"quota-root":          func(l string) string { return "* QUOTA " + l },
		"esearch-tag":         func(l string) string { return "* ESEARCH (TAG " + l },
		"list-oldname":        func(l string) string { return "* LIST () \"/\" x (\"OLDNAME\" (" + l },
		"fetch-body-nstring":  func(l string) string { return "* 1 FETCH (BODY[HEADER] " + l },
		"select-list-mailbox": func(l string) string { return "* LIST () \"/\" " + l },
		"id-value":            func(l string) string { return "* ID (\"name\" " + l },
	}
}

func deepProbes() map[string]func(n int) string {
	rep := strings.Repeat
	return map[string]func(n int) string{
		"bodystructure-deep": func(n int) string { return "* 1 FETCH (BODYSTRUCTURE " + rep("(", n) + "\r\n" },
		"thread-deep":        func(n int) string { return "* THREAD " + rep("(1 ", n) + "\r\n" },
		"ext-value-deep":     func(n int) string { return "* LIST () \"/\" x (\"X\" " + rep("(", n) + "\r\n" },
		"namespace-deep":     func(n int) string { return "* NAMESPACE ((\"\" \"/\" \"X\" " + rep("(", n) + "\r\n" },
		"body-message-deep": func(n int) string {
			return "* 1 FETCH (BODY " + rep(`("message" "rfc822" NIL NIL NIL "7bit" 1 (NIL NIL NIL NIL NIL NIL NIL NIL NIL NIL) `, n) + "\r\n"
		},
		"status-unknown-deep":     func(n int) string { return "* STATUS x (X-Y " + rep("(", n) + "\r\n" },
		"esearch-unknown-deep":    func(n int) string { return "* ESEARCH X-Y " + rep("(", n) + "\r\n" },
		"ext-value-deep-literals": func(n int) string { return "* LIST () \"/\" x (\"X\" " + rep("({1}\r\nx ", n) + "\r\n" },
		"ext-value-deep-quoted":   func(n int) string { return "* LIST () \"/\" x (\"X\" " + rep("(\"q\" ", n) + "\r\n" },
		"esearch-deep-literals":   func(n int) string { return "* ESEARCH X-Y " + rep("({1}\r\nx ", n) + "\r\n" },
	}
}

// feedStartTLS: the STARTTLS entry point against a server that sends `trailing` in the same
// segment as its tagged OK (RFC 3501 forbids it; a hostile or broken server does it anyway).
// Whatever the bytes are, NewStartTLS returns, a command issued afterwards completes, Close
// returns, and nothing reports a reader panic.
var startTLSHangs int

func feedStartTLS(w *hx.W, name string, okLine string, trailing []byte) {
	if startTLSHangs >= 2 {
		return // witnessed twice already; every further one costs a minute
	}
	desc := fmt.Sprintf("STARTTLS answered %q followed in the same segment by %s", okLine, hx.Hex(trailing, 300))
	end := w.Begin("starttls/"+name, desc, 120*time.Second)
	defer end()
	log := &vconn.Log{}
	cEnd, sEnd := vconn.Pipe("client", "server", log)
	go func() {
		br := bufio.NewReader(sEnd)
		sEnd.Write([]byte("* OK [CAPABILITY IMAP4rev1 STARTTLS LOGINDISABLED] ready\r\n"))
		line, err := br.ReadString('\n')
		if err != nil {
			sEnd.Close()
			return
		}
		tag := strings.Fields(line + " x")[0]
		sEnd.Write(append([]byte(strings.ReplaceAll(okLine, "TAG", tag)), trailing...))
		// swallow whatever the client sends next (a ClientHello, or nothing), then hang up
		buf := make([]byte, 4096)
		sEnd.SetReadDeadline(time.Now().Add(200 * time.Millisecond))
		br.Read(buf)
		sEnd.Close()
	}()
	fail := func(class, detail string) {
		w.Violation(class+"@starttls/"+name, desc+": "+detail, map[string]interface{}{"ok_line": okLine, "trailing": hx.Hex(trailing, 2000)})
	}
	var errs []string
	type res struct {
		c   *imapclient.Client
		err error
	}
	ch := make(chan res, 1)
	go func() {
		c, err := imapclient.NewStartTLS(cEnd, &imapclient.Options{TLSConfig: &tls.Config{InsecureSkipVerify: true}})
		ch <- res{c, err}
	}()
	var r res
	select {
	case r = <-ch:
	case <-time.After(60 * time.Second):
		startTLSHangs++
		fail("starttls-never-returns", "NewStartTLS has not returned 60 s after the server closed the connection\n"+hx.Goroutines("imapclient"))
		cEnd.Close()
		return
	}
	if r.err != nil {
		errs = append(errs, r.err.Error())
	}
	if r.c != nil {
		done := make(chan struct{})
		go func() {
			defer close(done)
			if err := r.c.Noop().Wait(); err != nil {
				errs = append(errs, err.Error())
			}
			if err := r.c.Close(); err != nil {
				errs = append(errs, err.Error())
			}
		}()
		select {
		case <-done:
		case <-time.After(60 * time.Second):
			startTLSHangs++
			fail("command-never-completes", "NOOP / Close after NewStartTLS have not returned 60 s after the server closed the connection\n"+hx.Goroutines("imapclient"))
			cEnd.Close()
			return
		}
	}
	for _, e := range errs {
		if strings.Contains(e, "panic reading response") {
			fail("reader-panic@"+hx.PanicSite(e), strings.SplitN(e, "\n", 2)[0])
		}
	}
	cEnd.Close()
}

func sortedKeys[V any](m map[string]V) []string {
	var k []string
	for n := range m {
		k = append(k, n)
	}
	sort.Strings(k)
	return k
}

func body(w *hx.W) {
	rng := w.Rand("streams")
	// 1. targeted invariant probes (with all commands completing OK afterwards)
	i := 0
	// (sorted: the shards must agree on which index a probe has; map order differs per process)
	ip := invariantProbes()
	for _, name := range sortedKeys(ip) {
		s := ip[name]
		i++
		if !w.Mine(i) {
			continue
		}
		stream := []byte(s + allOK())
		_, o := feed(w, "probe/"+name, name, stream, true)
		report(w, "probe/"+name, name, stream, o)
		w.CaseStr("probe:" + name)
		w.Class("probe/" + name)
		w.Metric("delivered_messages", int64(o.nDelivered()))
		// the same bytes as unsolicited data (no command pending): unilateral handlers
		_, o2 := feed(w, "probe-unsolicited/"+name, name, []byte(s), false)
		report(w, "probe-unsolicited/"+name, name, []byte(s), o2)
		w.CaseStr("probe-unsolicited:" + name)
	}
	// 1b. malformed data that must be reported as an error
	mr := mustReject()
	for _, name := range sortedKeys(mr) {
		s := mr[name]
		i++
		if !w.Mine(i) {
			continue
		}
		stream := []byte(s + allOK())
		_, o := feed(w, "must-reject/"+name, name, stream, true)
		report(w, "must-reject/"+name, name, stream[:minInt(len(stream), 400)], o)
		if o.closeErr == nil {
			cls := name
			if j := strings.LastIndexByte(cls, '-'); j > 0 && strings.HasPrefix(cls, "overflow") {
				cls = cls[:j]
			}
			w.Violation("malformed-data-accepted@"+cls, fmt.Sprintf("stream %s was parsed without any protocol error (Client.Close returned nil): malformed data (%s) was accepted instead of being reported", hx.Hex(stream[:minInt(len(stream), 160)], 200), name), map[string]interface{}{"probe": name})
		}
		w.CaseStr("must-reject:" + name)
		w.Class("must-reject/" + strings.SplitN(name, "/", 2)[0])
	}
	// 2. grammar-generated streams and mutations
	n := w.Pick(2500, 120000)
	for k := 0; k < n; k++ {
		var sb strings.Builder
		lines := 1 + rng.Intn(6)
		for j := 0; j < lines; j++ {
			sb.WriteString(genLine(rng))
		}
		stream := []byte(sb.String())
		class := "generated"
		if rng.Intn(2) == 0 {
			stream = mutate(rng, stream)
			class = "mutated"
		}
		if rng.Intn(3) != 0 {
			stream = append(stream, allOK()...)
		}
		_, o := feed(w, class, class, stream, true)
		report(w, class, class, stream, o)
		w.Case(hx.HashBytes(stream))
		w.Class(class)
		w.Metric("delivered_messages", int64(o.nDelivered()))
		if k == 0 {
			w.Sample(map[string]string{"kind": class, "stream": hx.Hex(stream, 400)})
		}
	}
	// 3. raw garbage
	for k := 0; k < w.Pick(300, 10000); k++ {
		g := make([]byte, 1+rng.Intn(300))
		for j := range g {
			g[j] = byte(rng.Intn(256))
		}
		_, o := feed(w, "garbage", "garbage", g, k%2 == 0)
		report(w, "garbage", "garbage", g, o)
		w.Case(hx.HashBytes(g))
		w.Class("garbage")
	}
	// 4. scaling families: allocation per input byte must not grow with N
	for fi, fam := range families() {
		if !w.Mine(fi) {
			continue
		}
		var ratios []float64
		var allocs []uint64
		for _, nn := range fam.ns {
			s := []byte(fam.gen(nn) + allOK())
			// warm-up independent: measure twice, keep the smaller (GC / goroutine noise only adds)
			a1, o := feed(w, "family/"+fam.name, fmt.Sprintf("%s N=%d", fam.name, nn), s, true)
			report(w, "family/"+fam.name, fmt.Sprintf("%s N=%d", fam.name, nn), s[:minInt(len(s), 300)], o)
			a2, _ := feed(w, "family/"+fam.name, fmt.Sprintf("%s N=%d", fam.name, nn), s, true)
			a := a1
			if a2 < a {
				a = a2
			}
			allocs = append(allocs, a)
			ratios = append(ratios, float64(a)/float64(len(s)))
			w.CaseStr(fmt.Sprintf("family:%s:%d", fam.name, nn))
		}
		w.Class("family/" + fam.name)
		first, last := ratios[0], ratios[len(ratios)-1]
		w.Notef("family %s: N=%v allocated-bytes/input-byte=%.1f..%.1f (total %v)", fam.name, fam.ns, first, last, allocs)
		// N grows 8x overall: a linear parser keeps the ratio flat; quadratic behaviour multiplies it by ~8
		if last > 4*first && last > 64 {
			w.Violation("superlinear-allocation@"+fam.name, fmt.Sprintf("family %s: allocated bytes per input byte grow from %.1f (N=%d) to %.1f (N=%d): allocation is super-linear in the input size (totals %v)", fam.name, first, fam.ns[0], last, fam.ns[len(fam.ns)-1], allocs),
				map[string]interface{}{"family": fam.name, "N": fam.ns, "alloc_bytes": allocs, "example": hx.Hex([]byte(fam.gen(4)), 300)})
		}
		if last > 4096 {
			w.Violation("excessive-allocation@"+fam.name, fmt.Sprintf("family %s: %.0f bytes allocated per input byte at N=%d", fam.name, last, fam.ns[len(fam.ns)-1]), nil)
		}
	}
	// 4b. literals whose announced size is far larger than the octets that follow (the server
	// stops sending): in every position where the client buffers the literal as a string, memory
	// must follow the bytes received, not the number announced
	trunc := truncatedLiteralPositions()
	ti := 0
	for _, name := range sortedKeys(trunc) {
		mk := trunc[name]
		ti++
		if !w.Mine(ti) {
			continue
		}
		base := []byte(mk("{100}\r\nabc"))
		b1, ob := feed(w, "truncated-literal/"+name, name+" announced=100", base, true)
		b2, _ := feed(w, "truncated-literal/"+name, name+" announced=100", base, true)
		report(w, "truncated-literal/"+name, name+" announced=100", base, ob)
		if b2 < b1 {
			b1 = b2
		}
		for _, announced := range []string{"67108864", "2147483648", "1099511627776", "9223372036854775807"} {
			s := []byte(mk("{" + announced + "}\r\nabc"))
			a, o := feed(w, "truncated-literal/"+name, name+" announced="+announced, s, true)
			report(w, "truncated-literal/"+name, name+" announced="+announced, s, o)
			w.CaseStr("trunc:" + name + ":" + announced)
			if a > b1+(8<<20) {
				w.Violation("allocation-follows-announced-literal-size@"+name, fmt.Sprintf("%s: a %d-byte stream announcing a literal of %s octets (3 sent, then EOF) made the client allocate %d bytes (the same stream announcing 100 octets: %d bytes)", name, len(s), announced, a, b1),
					map[string]interface{}{"stream": hx.Hex(s, 300), "alloc": a, "baseline": b1})
				break
			}
		}
		w.Class("truncated-literal/" + name)
	}
	// 4c. the STARTTLS entry point: bytes behind the tagged completion, in the same segment
	okLines := []string{"TAG OK begin TLS now\r\n", "TAG OK [CAPABILITY IMAP4rev1] go\r\n", "TAG NO not now\r\n", "TAG BAD what\r\n", "TAG ok lower\r\n", "* 2 EXISTS\r\nTAG OK after data\r\n", "* BYE going\r\nTAG OK bye first\r\n", "+ go\r\nTAG OK after continuation\r\n"}
	trailers := [][]byte{nil, []byte("* 1 EXISTS\r\n"), []byte("* 1 EXISTS\r\n\x16\x03\x03\x00\x05hello"), []byte("\x16\x03\x01\x00\x02\x02\x28"), []byte("\x15\x03\x03\x00\x02\x02\x28"), []byte("TAG OK again\r\n"), []byte("T1 OK again\r\n"), []byte("* PREAUTH hi\r\n"), []byte("* BYE\r\n"), []byte("{5}\r\n"), []byte("\r\n"), []byte("\x00"), bytes.Repeat([]byte("x"), 5000), []byte("* OK [CAPABILITY IMAP4rev1 AUTH=PLAIN] injected\r\n")}
	si := 0
	nST := 0
	for oi, okl := range okLines {
		for ti, tr := range trailers {
			si++
			if !w.Mine(si) {
				continue
			}
			feedStartTLS(w, fmt.Sprintf("ok%d/trailer%d", oi, ti), okl, tr)
			w.CaseStr(fmt.Sprintf("starttls:%d:%d", oi, ti))
			nST++
		}
	}
	for k := 0; k < w.Pick(60, 2000); k++ {
		var tr []byte
		if rng.Intn(2) == 0 {
			tr = []byte(genLine(rng))
			if rng.Intn(2) == 0 {
				tr = mutate(rng, tr)
			}
		} else {
			tr = make([]byte, 1+rng.Intn(64))
			for j := range tr {
				tr[j] = byte(rng.Intn(256))
			}
		}
		feedStartTLS(w, "generated", okLines[rng.Intn(2)], tr)
		w.Case(hx.HashBytes(tr))
		nST++
	}
	w.Class("starttls-trailing-bytes")
	w.Metric("starttls_streams", int64(nST))
	// 5. deep nesting probes: only the stack bound matters (prompt error or fatal stack overflow of this worker)
	di := 0
	depths := []int{100000, 400000}
	if !w.Quick() {
		depths = append(depths, 1000000)
	}
	dp := deepProbes()
	for _, name := range sortedKeys(dp) {
		gen := dp[name]
		for _, d := range depths {
			di++
			if !w.Mine(di) {
				continue
			}
			s := []byte(gen(d))
			_, o := feed(w, "deep/"+name, fmt.Sprintf("%s depth %d", name, d), s, true)
			report(w, "deep/"+name, fmt.Sprintf("%s depth %d", name, d), s[:200], o)
			w.CaseStr(fmt.Sprintf("deep:%s:%d", name, d))
			w.Class("deep/" + name)
		}
	}
	_ = bytes.MinRead
}

func main() {
	hx.Main(hx.Spec{
		ID:    "C11",
		Level: "exploration",
		Rule:  "server byte streams fed to a client with 20 pending commands of every kind: targeted invariant probes (zero sequence numbers / UIDs, dynamic sets, NIL bodies, overflowing literals, ...), grammar-generated responses of every kind the client parses (status + codes, CAPABILITY, ENABLED, LIST, STATUS, FETCH incl. ENVELOPE/BODYSTRUCTURE, SEARCH, ESEARCH, SORT, THREAD, QUOTA, QUOTAROOT, METADATA, NAMESPACE, '+') with boundary numbers, byte/token mutations of them, raw garbage, 16 scaling families (N doubled three times) and deep-nesting probes up to 10^6 levels; distinct by hash of the stream",
		Assumptions: []string{
			"every returned value is walked with every accessor under recover(); accessors that enumerate a number set are only called when its span is <= 2*10^6 (the span family measures their cost separately)",
			"growth is judged on deterministic allocation counters (runtime.MemStats.TotalAlloc) per input byte over an 8x range of N, never on time",
			"unbounded recursion is detected by a 64 MB stack bound on the worker (the legitimate 1000-level list cap needs < 2 MB)",
			"delivered data is 'invariant violating' when a zero sequence number / UID or a dynamic set reaches the caller without the command reporting an error",
		},
		MaxStack:   64 << 20,
		LogCurrent: true,
		MemLimitMB: 8192,
		RaceFrames: []string{"imapclient.", "imapwire.", "imapnum."},
		Shards:     func(string) int { return 12 },
		WallQuick:  30 * time.Minute, WallThorough: 150 * time.Minute,
	}, body)
}
