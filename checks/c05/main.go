// C05 — server state machine: the backend is reached only in permitted states.
//
// Monitor: a real imapserver connection with a recording stub backend is driven
// in lock-step by a raw client; an independent reference state machine (RFC 9051
// §3, written here) predicts, for every command, which backend calls may happen,
// the class of the tagged response, connection close, and the next state. Every
// recorded call carries the reference state at call time.
package main

import (
	"encoding/base64"
	"fmt"
	"math/rand"
	"sort"
	"strings"
	"time"

	imap "github.com/emersion/go-imap/v2"
	"github.com/emersion/go-imap/v2/verif/internal/hx"
	"github.com/emersion/go-imap/v2/verif/internal/kit"
	"github.com/emersion/go-sasl"
)

type st int

const (
	NotAuth st = iota
	Auth
	Selected
	Logout
)

func (s st) String() string { return [...]string{"notauth", "auth", "selected", "logout"}[s] }

type config struct {
	transport    string // plain | tls | starttls(plain with TLSConfig)
	insecureAuth bool
	preauth      bool
	kind         kit.SessKind
	caps         string // rev1 | rev1+2 | rev1+ext
}

func (c config) String() string {
	return fmt.Sprintf("%s/insecure=%v/preauth=%v/kind=%d/caps=%s", c.transport, c.insecureAuth, c.preauth, c.kind, c.caps)
}

func capsOf(name string, kind kit.SessKind) imap.CapSet {
	cs := imap.CapSet{imap.CapIMAP4rev1: {}}
	if kind == kit.SessPlain {
		return cs
	}
	switch name {
	case "rev1+2":
		cs[imap.CapIMAP4rev2] = struct{}{}
	case "rev1+ext":
		cs[imap.CapMove] = struct{}{}
		cs[imap.CapNamespace] = struct{}{}
		cs[imap.CapUnauthenticate] = struct{}{}
		cs[imap.CapUIDPlus] = struct{}{}
	}
	return cs
}

// ---- command alphabet ------------------------------------------------------

type cmdSpec struct {
	name    string   // model name
	wire    string   // text after the tag (without CRLF); may contain a literal
	calls   []string // backend calls when permitted and everything succeeds
	states  []st     // states in which the command is permitted
	failing string   // backend method that may be scripted to fail ("" = none)
	needs   string   // optional interface needed: move | namespace | unauth | ""
}

var anyState = []st{NotAuth, Auth, Selected}
var authSel = []st{Auth, Selected}
var selOnly = []st{Selected}

var alphabet = []cmdSpec{
	{name: "CAPABILITY", wire: "CAPABILITY", states: anyState},
	{name: "NOOP", wire: "NOOP", states: anyState},
	{name: "LOGOUT", wire: "LOGOUT", states: anyState},
	{name: "STARTTLS", wire: "STARTTLS", states: []st{NotAuth}},
	{name: "LOGIN", wire: "LOGIN user pass", calls: []string{"Login"}, states: []st{NotAuth}, failing: "Login"},
	{name: "AUTHENTICATE-IR", wire: "AUTHENTICATE PLAIN " + base64.StdEncoding.EncodeToString([]byte("\x00user\x00pass")), calls: []string{"Login"}, states: []st{NotAuth}, failing: "Login"},
	{name: "AUTHENTICATE", wire: "AUTHENTICATE PLAIN", calls: []string{"Login"}, states: []st{NotAuth}, failing: "Login"},
	{name: "UNAUTHENTICATE", wire: "UNAUTHENTICATE", calls: []string{"Unauthenticate"}, states: authSel, failing: "Unauthenticate", needs: "unauth"},
	{name: "ENABLE", wire: "ENABLE UTF8=ACCEPT", states: authSel},
	{name: "SELECT", wire: "SELECT box", calls: []string{"Select"}, states: authSel, failing: "Select"},
	{name: "EXAMINE", wire: "EXAMINE box", calls: []string{"Select"}, states: authSel, failing: "Select"},
	{name: "CREATE", wire: "CREATE newbox", calls: []string{"Create"}, states: authSel, failing: "Create"},
	{name: "DELETE", wire: "DELETE box", calls: []string{"Delete"}, states: authSel, failing: "Delete"},
	{name: "RENAME", wire: "RENAME box box2", calls: []string{"Rename"}, states: authSel, failing: "Rename"},
	{name: "SUBSCRIBE", wire: "SUBSCRIBE box", calls: []string{"Subscribe"}, states: authSel, failing: "Subscribe"},
	{name: "UNSUBSCRIBE", wire: "UNSUBSCRIBE box", calls: []string{"Unsubscribe"}, states: authSel, failing: "Unsubscribe"},
	{name: "LIST", wire: `LIST "" *`, calls: []string{"List"}, states: authSel, failing: "List"},
	{name: "LSUB", wire: `LSUB "" *`, calls: []string{"List"}, states: authSel, failing: "List"},
	{name: "NAMESPACE", wire: "NAMESPACE", calls: []string{"Namespace"}, states: authSel, failing: "Namespace", needs: "namespace"},
	{name: "STATUS", wire: "STATUS box (MESSAGES)", calls: []string{"Status"}, states: authSel, failing: "Status"},
	{name: "APPEND", wire: "APPEND box {3+}\r\nabc", calls: []string{"Append"}, states: authSel, failing: "Append"},
	{name: "IDLE", wire: "IDLE", calls: []string{"Idle"}, states: authSel},
	{name: "CLOSE", wire: "CLOSE", calls: []string{"Expunge", "Unselect"}, states: selOnly, failing: "Unselect"},
	{name: "UNSELECT", wire: "UNSELECT", calls: []string{"Unselect"}, states: selOnly, failing: "Unselect"},
	{name: "EXPUNGE", wire: "EXPUNGE", calls: []string{"Expunge"}, states: selOnly, failing: "Expunge"},
	{name: "UID EXPUNGE", wire: "UID EXPUNGE 1:3", calls: []string{"Expunge"}, states: selOnly, failing: "Expunge"},
	{name: "SEARCH", wire: "SEARCH ALL", calls: []string{"Search"}, states: selOnly, failing: "Search"},
	{name: "UID SEARCH", wire: "UID SEARCH ALL", calls: []string{"Search"}, states: selOnly, failing: "Search"},
	{name: "FETCH", wire: "FETCH 1 (FLAGS)", calls: []string{"Fetch"}, states: selOnly, failing: "Fetch"},
	{name: "UID FETCH", wire: "UID FETCH 1 (FLAGS)", calls: []string{"Fetch"}, states: selOnly, failing: "Fetch"},
	{name: "STORE", wire: "STORE 1 +FLAGS (\\Seen)", calls: []string{"Store"}, states: selOnly, failing: "Store"},
	{name: "UID STORE", wire: "UID STORE 1 +FLAGS (\\Seen)", calls: []string{"Store"}, states: selOnly, failing: "Store"},
	{name: "COPY", wire: "COPY 1 box2", calls: []string{"Copy"}, states: selOnly, failing: "Copy"},
	{name: "UID COPY", wire: "UID COPY 1 box2", calls: []string{"Copy"}, states: selOnly, failing: "Copy"},
	{name: "MOVE", wire: "MOVE 1 box2", calls: []string{"Move"}, states: selOnly, failing: "Move", needs: "move"},
	{name: "UID MOVE", wire: "UID MOVE 1 box2", calls: []string{"Move"}, states: selOnly, failing: "Move", needs: "move"},
	{name: "UNKNOWN", wire: "FROBNICATE now", states: nil},
	// commands that do not exist in the UID form are unknown commands too
	{name: "UNKNOWN-UID", wire: "UID FROBNICATE 1", states: nil},
	{name: "UNKNOWN-UID-NOOP", wire: "uid Noop", states: nil},
	{name: "UNKNOWN-UID-LOGIN", wire: "UID LOGIN user pass", states: nil},
}

func permitted(c *cmdSpec, s st) bool {
	for _, x := range c.states {
		if x == s {
			return true
		}
	}
	return false
}

// ---- per-connection script -------------------------------------------------

type script struct {
	failMethod string // backend method to fail on its next call
	failPlain  bool   // fail with a plain error instead of an imap.Error NO
	state      st     // reference state, read by the observer when a call is recorded
}

func handler(s *kit.Sess, c *kit.Call, w *kit.Writers) kit.Result {
	sc, _ := s.User.(*script)
	if sc != nil && sc.failMethod != "" && sc.failMethod == c.Method {
		sc.failMethod = ""
		if sc.failPlain {
			return kit.Result{Err: fmt.Errorf("scripted backend failure")}
		}
		return kit.Result{Err: &imap.Error{Type: imap.StatusResponseTypeNo, Text: "scripted refusal"}}
	}
	if c.Method == "Authenticate" {
		if strings.ToUpper(c.Mech) != "PLAIN" {
			return kit.Result{Err: &imap.Error{Type: imap.StatusResponseTypeNo, Text: "unsupported mechanism"}}
		}
		return kit.Result{SASL: sasl.NewPlainServer(func(identity, username, password string) error {
			return s.Login(username, password)
		})}
	}
	return kit.DefaultHandler(s, c, w)
}

// ---- the run ---------------------------------------------------------------

type run struct {
	w      *hx.W
	cfg    config
	srv    *kit.Server
	triple map[string]bool
}

type step struct {
	Cmd     string `json:"cmd"`
	Fail    string `json:"fail,omitempty"`
	State   string `json:"state_before"`
	Resp    string `json:"resp,omitempty"`
	Calls   string `json:"calls,omitempty"`
	StateAf string `json:"state_after,omitempty"`
}

func (r *run) violation(class string, hist []step, detail string) {
	last := hist[len(hist)-1]
	sig := fmt.Sprintf("%s@%s/state=%s/fail=%s/%s", class, last.Cmd, last.State, last.Fail, r.cfg.transport)
	r.w.Violation(sig, fmt.Sprintf("%s: %s [config %s]", class, detail, r.cfg), map[string]interface{}{"config": r.cfg.String(), "history": hist})
}

func hasCap(line kit.RespLine, cap string) bool {
	return strings.Contains(strings.ToUpper(string(line.Raw)), " "+strings.ToUpper(cap)+" ") ||
		strings.Contains(strings.ToUpper(string(line.Raw)), " "+strings.ToUpper(cap)+"]") ||
		strings.HasSuffix(strings.ToUpper(strings.TrimRight(string(line.Raw), "\r\n")), " "+strings.ToUpper(cap))
}

// checkCaps validates a capability list against the reference state.
func (r *run) checkCaps(line kit.RespLine, s st, tlsOn bool, hist []step) {
	canAuth := s == NotAuth && (tlsOn || r.cfg.insecureAuth)
	hasAuth := strings.Contains(strings.ToUpper(string(line.Raw)), " AUTH=")
	if hasAuth != canAuth {
		r.violation("capability-auth", hist, fmt.Sprintf("AUTH= advertised=%v but authentication possible=%v in state %v (tls=%v): %q", hasAuth, canAuth, s, tlsOn, line.Raw))
	}
	wantDisabled := s == NotAuth && !canAuth
	if hasCap(line, "LOGINDISABLED") != wantDisabled {
		r.violation("capability-logindisabled", hist, fmt.Sprintf("LOGINDISABLED=%v want %v in state %v: %q", hasCap(line, "LOGINDISABLED"), wantDisabled, s, line.Raw))
	}
	wantStartTLS := s == NotAuth && !tlsOn && r.cfg.transport == "starttls"
	if hasCap(line, "STARTTLS") != wantStartTLS {
		r.violation("capability-starttls", hist, fmt.Sprintf("STARTTLS=%v want %v in state %v tls=%v: %q", hasCap(line, "STARTTLS"), wantStartTLS, s, tlsOn, line.Raw))
	}
}

// sequence runs one command history on a fresh connection.
func (r *run) sequence(cmds []int, fails []int) {
	w := r.w
	var raw *kit.Raw
	var err error
	tlsOn := false
	if r.cfg.transport == "tls" {
		raw, err = r.srv.DialTLS()
		if err != nil {
			w.Violation("harness-tls-dial", "implicit TLS dial failed: "+err.Error(), nil)
			return
		}
		tlsOn = true
	} else {
		raw = r.srv.Dial()
	}
	defer raw.Close()
	hist := []step{{Cmd: "<greeting>", State: "-"}}
	out, cond := raw.Sync()
	sessions := r.srv.B.Sessions()
	sess := sessions[len(sessions)-1]
	sc := &script{}
	sess.User = sc
	state := NotAuth
	readOnly := false // the selected mailbox was opened with EXAMINE
	if r.cfg.preauth {
		state = Auth
	}
	sc.state = state
	rs, rest := kit.ParseResponses(out)
	if cond != "parked" || len(rest) != 0 || len(rs) != 1 {
		r.violation("greeting", hist, fmt.Sprintf("cond=%s out=%q", cond, out))
		return
	}
	wantGreet := "OK"
	if r.cfg.preauth {
		wantGreet = "PREAUTH"
	}
	if rs[0].Status != wantGreet {
		r.violation("greeting-type", hist, fmt.Sprintf("greeting %q, want %s", out, wantGreet))
	}
	r.checkCaps(rs[0], state, tlsOn, hist)

	callBase := r.srv.B.NCalls()
	myCalls := func() []*kit.Call {
		var mine []*kit.Call
		for _, c := range r.srv.B.CallsSince(callBase) {
			if c.ConnID == sess.ID {
				mine = append(mine, c)
			}
		}
		return mine
	}
	seen := 0
	closed := false
	for i, ci := range cmds {
		spec := &alphabet[ci]
		tag := fmt.Sprintf("t%d", i)
		hs := step{Cmd: spec.name, State: state.String()}
		// does the optional interface exist?
		supported := true
		switch spec.needs {
		case "move", "namespace", "unauth":
			supported = r.cfg.kind != kit.SessPlain
		}
		perm := permitted(spec, state) && supported
		canAuth := tlsOn || r.cfg.insecureAuth
		failM := ""
		if fails[i] != 0 && spec.failing != "" {
			failM = spec.failing
			sc.failMethod = failM
			sc.failPlain = fails[i] == 2
			hs.Fail = fmt.Sprintf("%s:%d", failM, fails[i])
		} else {
			sc.failMethod = ""
		}
		sc.state = state
		hist = append(hist, hs)
		cur := &hist[len(hist)-1]
		r.triple[fmt.Sprintf("%s|%s|%s", state, spec.name, failM)] = true

		wire := spec.wire
		if i%3 == 1 {
			// command names are case-insensitive: every third command is spelled in lower or mixed case
			f := strings.SplitN(wire, " ", 3)
			low := func(w string, mixed bool) string {
				b := []byte(w)
				for k := range b {
					if b[k] >= 'A' && b[k] <= 'Z' && (!mixed || k%2 == 1) {
						b[k] += 32
					}
				}
				return string(b)
			}
			up := strings.ToUpper(f[0])
			f[0] = low(f[0], i%2 == 0)
			if up == "UID" && len(f) > 1 {
				f[1] = low(f[1], i%2 == 1)
			}
			wire = strings.Join(f, " ")
		}
		raw.SendStr(tag + " " + wire + "\r\n")
		out, cond := raw.Sync()
		// continuation-based commands
		if strings.HasPrefix(spec.name, "AUTHENTICATE") || spec.name == "IDLE" {
			lines, _ := kit.ParseResponses(out)
			if n := len(lines); n > 0 && lines[n-1].Tag == "+" && cond == "parked" {
				if spec.name == "IDLE" {
					raw.SendStr("DONE\r\n")
				} else {
					raw.SendStr(base64.StdEncoding.EncodeToString([]byte("\x00user\x00pass")) + "\r\n")
				}
				more, c2 := raw.Sync()
				out = append(out, more...)
				cond = c2
			}
		}
		lines, rest := kit.ParseResponses(out)
		cur.Resp = summarize(lines)
		if cond == "timeout" {
			r.violation("no-progress", hist, "server neither answered nor waits for input")
			return
		}
		if len(rest) != 0 {
			r.violation("partial-line", hist, fmt.Sprintf("incomplete response line %q", rest))
		}
		tagged := kit.Tagged(lines)
		// calls made by this command
		all := myCalls()
		newCalls := all[seen:]
		seen = len(all)
		var names []string
		for _, c := range newCalls {
			if c.Method == "Poll" {
				continue
			}
			names = append(names, c.Method)
		}
		cur.Calls = strings.Join(names, ",")

		// ---- reference prediction
		var wantCalls []string
		wantStatus := map[string]bool{}
		next := state
		wantClose := false
		switch {
		case strings.HasPrefix(spec.name, "UNKNOWN"):
			wantStatus["BAD"] = true
			if state == NotAuth {
				wantClose = true
				next = Logout
			}
		case spec.name == "LOGOUT":
			wantStatus["OK"] = true
			wantClose = true
			next = Logout
		case !perm:
			wantStatus["BAD"], wantStatus["NO"] = true, true
		case spec.name == "STARTTLS":
			if r.cfg.transport == "starttls" && !tlsOn {
				wantStatus["OK"] = true
			} else {
				wantStatus["BAD"], wantStatus["NO"] = true, true
			}
		case spec.name == "LOGIN" || strings.HasPrefix(spec.name, "AUTHENTICATE"):
			if !canAuth {
				wantStatus["NO"], wantStatus["BAD"] = true, true
			} else {
				wantCalls = []string{"Login"}
				if r.cfg.kind == kit.SessSASLk && spec.name != "LOGIN" {
					wantCalls = []string{"Authenticate", "Login"}
				}
				if failM != "" {
					wantStatus["NO"] = true
				} else {
					wantStatus["OK"] = true
					next = Auth
				}
			}
		default:
			wantCalls = append(wantCalls, spec.calls...)
			if spec.name == "CLOSE" && readOnly {
				wantCalls = []string{"Unselect"} // CLOSE removes nothing from a read-only mailbox
			}
			if (spec.name == "SELECT" || spec.name == "EXAMINE") && state == Selected {
				wantCalls = append([]string{"Unselect"}, wantCalls...)
			}
			if failM != "" {
				wantStatus["NO"] = true
				// calls after the failing one do not happen
				for k, m := range wantCalls {
					if m == failM {
						wantCalls = wantCalls[:k+1]
						break
					}
				}
				if spec.name == "SELECT" || spec.name == "EXAMINE" {
					next = Auth // a failed SELECT leaves no mailbox selected
				}
			} else {
				wantStatus["OK"] = true
				switch spec.name {
				case "SELECT", "EXAMINE":
					next = Selected
					readOnly = spec.name == "EXAMINE"
				case "CLOSE", "UNSELECT":
					next = Auth
				case "UNAUTHENTICATE":
					next = NotAuth
				}
			}
		}

		// ---- compare
		// 1. every recorded call must be permitted in the reference state at call time
		for _, c := range newCalls {
			if c.Method == "Close" {
				if !wantClose {
					r.violation("session-closed-early", hist, "Session.Close called while the connection is expected to stay open")
				}
				closed = true
				continue
			}
			if closed {
				r.violation("call-after-close", hist, "backend call "+c.Method+" after Session.Close")
			}
			if c.Method == "Poll" {
				if next != Auth && next != Selected {
					r.violation("poll-in-wrong-state", hist, fmt.Sprintf("Poll called although the state after %s is %v", spec.name, next))
				}
				nonUID := spec.name == "FETCH" || spec.name == "STORE" || spec.name == "SEARCH"
				if nonUID && c.AllowExpunge {
					r.violation("poll-allows-expunge", hist, "Poll(allowExpunge=true) while answering a non-UID "+spec.name)
				}
				continue
			}
			if !callAllowedInState(c.Method, state, spec) {
				r.violation("backend-call-in-forbidden-state", hist, fmt.Sprintf("Session.%s called while the connection is in state %v (command %s)", c.Method, state, spec.name))
			}
			if (c.Method == "Login" || c.Method == "Authenticate") && !canAuth {
				r.violation("credentials-over-plaintext", hist, fmt.Sprintf("Session.%s called on an unencrypted connection with InsecureAuth=false", c.Method))
			}
		}
		// 2. the calls must be exactly the predicted ones
		got := filterClose(names)
		if strings.Join(got, ",") != strings.Join(wantCalls, ",") {
			r.violation("backend-calls-differ", hist, fmt.Sprintf("command %s in state %v (fail=%q): backend calls %v, reference predicts %v", spec.name, state, failM, got, wantCalls))
		}
		// 3. exactly one tagged response with our tag and the predicted class
		if len(tagged) != 1 || tagged[0].Tag != tag {
			r.violation("tagged-response-count", hist, fmt.Sprintf("expected one tagged response %s, got %q", tag, out))
		} else if !wantStatus[tagged[0].Status] {
			r.violation("response-class", hist, fmt.Sprintf("command %s in state %v (fail=%q, permitted=%v): got %s, reference allows %v", spec.name, state, failM, perm, tagged[0].Status, keys(wantStatus)))
		}
		// 4. BYE / close
		gotBye := false
		for _, l := range lines {
			if l.Tag == "*" && l.Status == "BYE" {
				gotBye = true
			}
		}
		if wantClose {
			if !gotBye {
				r.violation("missing-bye", hist, "connection termination without BYE")
			}
			if cond != "closed" {
				r.violation("connection-not-closed", hist, fmt.Sprintf("command %s in state %v must end the connection, server keeps reading", spec.name, state))
			}
		} else if cond == "closed" {
			r.violation("unexpected-close", hist, fmt.Sprintf("server closed the connection after %s in state %v: %q", spec.name, state, out))
			return
		}
		// capability data in responses
		for _, l := range lines {
			if l.Kind == "CAPABILITY" || l.Code == "CAPABILITY" {
				st2 := next
				if l.Kind == "CAPABILITY" {
					st2 = state
				}
				r.checkCaps(l, st2, tlsOn, hist)
			}
		}
		cur.StateAf = next.String()
		if spec.name == "STARTTLS" && wantStatus["OK"] && len(tagged) == 1 && tagged[0].Status == "OK" {
			if err := raw.StartTLSUpgrade(); err != nil {
				r.violation("starttls-handshake", hist, "TLS handshake after STARTTLS OK failed: "+err.Error())
				return
			}
			tlsOn = true
		}
		state = next
		if cond == "closed" {
			break
		}
	}
	// end of history: close the client side, the session must be closed exactly once
	raw.Close()
	deadline := time.Now().Add(30 * time.Second)
	for sess.Closes() == 0 && time.Now().Before(deadline) {
		time.Sleep(200 * time.Microsecond)
	}
	if n := sess.Closes(); n != 1 {
		hist = append(hist, step{Cmd: "<disconnect>", State: state.String()})
		r.violation("session-close-count", hist, fmt.Sprintf("Session.Close called %d times", n))
	}
	if p := r.srv.Log.Panics(); len(p) > 0 {
		r.violation("server-panic", hist, p[0])
	}
}

func filterClose(n []string) []string {
	var o []string
	for _, x := range n {
		if x != "Close" {
			o = append(o, x)
		}
	}
	return o
}

func keys(m map[string]bool) []string {
	var k []string
	for x := range m {
		k = append(k, x)
	}
	sort.Strings(k)
	return k
}

// callAllowedInState is the RFC 9051 §3 table on the backend side.
func callAllowedInState(method string, s st, spec *cmdSpec) bool {
	switch method {
	case "Login", "Authenticate":
		return s == NotAuth
	case "Select", "Create", "Delete", "Rename", "Subscribe", "Unsubscribe", "List", "Status", "Append", "Idle", "Namespace", "Unauthenticate":
		return s == Auth || s == Selected
	case "Unselect", "Expunge", "Search", "Fetch", "Store", "Copy", "Move":
		return s == Selected
	}
	return false
}

func summarize(lines []kit.RespLine) string {
	var p []string
	for _, l := range lines {
		switch {
		case l.Tag == "+":
			p = append(p, "+")
		case l.Status != "":
			p = append(p, l.Tag+" "+l.Status)
		default:
			p = append(p, "* "+l.Kind)
		}
	}
	return strings.Join(p, "; ")
}

// pipelinedStartTLS: credentials that arrive in plaintext in the same segment as STARTTLS must
// never be accepted, even though the connection object is a TLS connection by the time the
// server looks at them (they can only be consumed by the handshake, which then fails).
func pipelinedStartTLS(w *hx.W) {
	ir := base64.StdEncoding.EncodeToString([]byte("\x00user\x00pass"))
	for _, kind := range []kit.SessKind{kit.SessFull, kit.SessSASLk, kit.SessPlain} {
		for _, follow := range []string{"l1 LOGIN user pass\r\n", "l1 AUTHENTICATE PLAIN " + ir + "\r\n", "l1 login user pass\r\nl2 SELECT box\r\n", "l1 LOGIN {4+}\r\nuser pass\r\n"} {
			srv := kit.NewServer(kit.ServerCfg{Caps: capsOf("rev1", kind), InsecureAuth: false, TLS: true, Kind: kind})
			srv.B.Handler = handler
			srv.B.Mechs = []string{"PLAIN"}
			raw := srv.Dial()
			raw.Sync()
			base := srv.B.NCalls()
			raw.SendStr("s1 STARTTLS\r\n" + follow)
			out, _ := raw.Sync()
			for _, c := range srv.B.CallsSince(base) {
				if c.Method == "Login" || c.Method == "Authenticate" || c.Method == "Select" {
					w.Violation("credentials-over-plaintext@STARTTLS-pipelined/"+c.Method, fmt.Sprintf("Session.%s was called for %q sent in plaintext in the same segment as STARTTLS (InsecureAuth=false, session kind %d); server output %q", c.Method, follow, kind, out), nil)
				}
			}
			raw.Close()
			srv.Close()
			w.CaseStr(fmt.Sprintf("pipelined-starttls|%d|%s", kind, follow))
			w.Class("pipelined-starttls")
		}
	}
}

// pipelinedLogout: LOGOUT ends command processing even when more commands are already in the
// server's read buffer (sent in the same segment): exactly one BYE, only LOGOUT's own tagged
// reply, no backend call other than Close, connection closed.
func pipelinedLogout(w *hx.W) {
	for _, state := range []string{"notauth", "auth", "selected"} {
		for vi, rest := range []string{"z2 NOOP\r\n", "z2 CAPABILITY\r\nz3 LOGOUT\r\n", "z2 SELECT box\r\nz3 FETCH 1 FLAGS\r\n", "z2 LOGIN user pass\r\n", "z2 CREATE x\r\nz3 NOOP\r\n"} {
			srv := kit.NewServer(kit.ServerCfg{Caps: capsOf("rev1+ext", kit.SessFull), InsecureAuth: true, Kind: kit.SessFull})
			srv.B.Handler = handler
			raw := srv.Dial()
			raw.Sync()
			if state != "notauth" {
				raw.SendStr("p1 LOGIN user pass\r\n")
				raw.Sync()
			}
			if state == "selected" {
				raw.SendStr("p2 SELECT box\r\n")
				raw.Sync()
			}
			base := srv.B.NCalls()
			raw.SendStr("z1 LOGOUT\r\n" + rest)
			out, cond := raw.Sync()
			lines, _ := kit.ParseResponses(out)
			nBye := 0
			for _, l := range lines {
				if l.Tag == "*" && l.Status == "BYE" {
					nBye++
				}
				if l.Tag != "*" && l.Tag != "+" && l.Tag != "z1" {
					w.Violation("command-processed-after-logout@"+state, fmt.Sprintf("state %s: %q was answered although it follows LOGOUT (server output %q)", state, l.Tag, out), nil)
				}
			}
			if nBye != 1 || cond != "closed" {
				w.Violation("logout-does-not-end-processing@"+state, fmt.Sprintf("state %s: LOGOUT followed by pipelined commands: %d BYE responses, connection %s (server output %q)", state, nBye, cond, out), nil)
			}
			for _, c := range srv.B.CallsSince(base) {
				if c.Method != "Close" && c.Method != "Unselect" {
					w.Violation("backend-call-after-logout@"+c.Method, fmt.Sprintf("state %s: Session.%s was called for a command pipelined behind LOGOUT", state, c.Method), nil)
				}
			}
			raw.Close()
			srv.Close()
			w.CaseStr(fmt.Sprintf("pipelined-logout|%s|%d", state, vi))
			w.Class("pipelined-logout/" + state)
		}
	}
}

func body(w *hx.W) {
	kit.SyncTimeout = 60 * time.Second
	if w.Shard == 0 {
		pipelinedStartTLS(w)
	}
	if w.Shard == 1%w.NShards {
		pipelinedLogout(w)
	}
	var cfgs []config
	for _, tr := range []string{"plain", "tls", "starttls"} {
		for _, ins := range []bool{false, true} {
			for _, pre := range []bool{false, true} {
				for _, kind := range []kit.SessKind{kit.SessFull, kit.SessSASLk, kit.SessPlain} {
					for _, caps := range []string{"rev1", "rev1+2", "rev1+ext"} {
						if kind == kit.SessPlain && caps != "rev1" {
							continue
						}
						cfgs = append(cfgs, config{tr, ins, pre, kind, caps})
					}
				}
			}
		}
	}
	nSeq := w.Pick(30, 3000) // random histories per configuration
	ci := 0
	for _, cfg := range cfgs {
		ci++
		if !w.Mine(ci) {
			continue
		}
		srv := kit.NewServer(kit.ServerCfg{Caps: capsOf(cfg.caps, cfg.kind), InsecureAuth: cfg.insecureAuth, TLS: cfg.transport != "plain", Kind: cfg.kind})
		srv.B.Handler = handler
		srv.B.PreAuth = cfg.preauth
		srv.B.Mechs = []string{"PLAIN"}
		r := &run{w: w, cfg: cfg, srv: srv, triple: map[string]bool{}}
		rng := w.Rand("walk/" + cfg.String())
		// coverage pass: every (reachable state, command, outcome) at least once
		for target := NotAuth; target <= Selected; target++ {
			for k := range alphabet {
				for f := 0; f <= 2; f++ {
					if f > 0 && alphabet[k].failing == "" {
						continue
					}
					prefix := pathTo(target, cfg)
					if prefix == nil {
						continue
					}
					cmds := append(append([]int(nil), prefix...), k)
					fails := make([]int, len(cmds))
					fails[len(cmds)-1] = f
					// follow with two probes that reveal the resulting state
					cmds = append(cmds, idx("FETCH"), idx("STATUS"), idx("LOGIN"))
					fails = append(fails, 0, 0, 0)
					r.sequence(cmds, fails)
					w.CaseStr(fmt.Sprintf("%s|cov|%v|%v", cfg, cmds, fails))
				}
			}
		}
		for i := 0; i < nSeq; i++ {
			n := 4 + rng.Intn(17)
			cmds := make([]int, n)
			fails := make([]int, n)
			for j := range cmds {
				cmds[j] = weightedCmd(rng)
				if rng.Intn(4) == 0 {
					fails[j] = 1 + rng.Intn(2)
				}
			}
			r.sequence(cmds, fails)
			w.CaseStr(fmt.Sprintf("%s|%v|%v", cfg, cmds, fails))
		}
		for t := range r.triple {
			w.Class(cfg.transport + "|" + t)
		}
		w.Metric("configurations", 1)
		w.Metric("backend_calls_checked", int64(srv.B.NCalls()))
		if ci <= 2 {
			w.Sample(map[string]interface{}{"config": cfg.String(), "example_history": "LOGIN, SELECT, SELECT(fail), FETCH, STATUS, LOGIN; every command sent with its own tag in lock-step"})
		}
		srv.Close()
	}
}

func idx(name string) int {
	for i := range alphabet {
		if alphabet[i].name == name {
			return i
		}
	}
	panic(name)
}

// pathTo returns a command prefix that brings a fresh connection to the target state.
func pathTo(target st, cfg config) []int {
	canAuth := cfg.transport == "tls" || cfg.insecureAuth
	var p []int
	cur := NotAuth
	if cfg.preauth {
		cur = Auth
	}
	if target == NotAuth {
		if cur == NotAuth {
			return []int{}
		}
		if cfg.kind == kit.SessPlain {
			return nil
		}
		return []int{idx("UNAUTHENTICATE")}
	}
	if cur == NotAuth {
		if !canAuth {
			if cfg.transport != "starttls" {
				return nil
			}
			p = append(p, idx("STARTTLS"))
		}
		p = append(p, idx("LOGIN"))
	}
	if target == Selected {
		p = append(p, idx("SELECT"))
	}
	return p
}

func weightedCmd(rng *rand.Rand) int {
	// bias towards state-changing commands so that walks visit all states
	switch rng.Intn(10) {
	case 0:
		return idx("LOGIN")
	case 1:
		return idx("SELECT")
	case 2:
		return []int{idx("STARTTLS"), idx("UNSELECT"), idx("CLOSE"), idx("UNAUTHENTICATE"), idx("AUTHENTICATE"), idx("AUTHENTICATE-IR")}[rng.Intn(6)]
	}
	k := rng.Intn(len(alphabet))
	if alphabet[k].name == "LOGOUT" && rng.Intn(3) != 0 {
		k = idx("NOOP")
	}
	return k
}

func main() {
	hx.Main(hx.Spec{
		ID:    "C05",
		Level: "exploration",
		Rule: "command histories (one fresh connection each) over the full command alphabet incl. UID forms, each backend method scripted to succeed, refuse (NO) or fail (plain error): a coverage pass forces every (state, command, outcome) triple per configuration, then seeded random walks of length 4..20; " +
			"configurations = {plaintext, implicit TLS, STARTTLS} x InsecureAuth x {OK, PREAUTH greeting} x session kind x capability set; distinct = distinct (configuration, command list, outcome list)",
		Assumptions: []string{
			"reference state machine written from RFC 9051 §3/§6; a command that is not permitted in the current state must get NO or BAD and reach no backend method",
			"a CLOSE / UNSELECT whose Session.Unselect fails is answered NO and, like every refused command, changes nothing: the mailbox stays selected; the Expunge inside CLOSE is never scripted to fail (the RFC does not say what a server should do then)",
			"TLS is Go's crypto/tls over the in-process connection",
		},
		Shards:    func(string) int { return 12 },
		WallQuick: 20 * time.Minute, WallThorough: 120 * time.Minute,
	}, body)
}
