// C09 — the in-memory backend obeys IMAP mailbox semantics (reference model).
//
// Monitor: sequential multi-session histories over raw connections against the
// real server + imapmemserver; every response is parsed by the independent
// tokenizer and compared with the prediction of a reference mailbox model
// (internal/memsim). Messages are generated from a MIME tree so that every body
// section, body structure and envelope is known by construction.
package main

import (
	"encoding/json"
	"fmt"
	"strings"
	"time"

	"github.com/emersion/go-imap/v2/verif/internal/hx"
	"github.com/emersion/go-imap/v2/verif/internal/memsim"
)

type rep struct {
	w     *hx.W
	print bool
}

func sigOf(class string) string { return class }

func (r *rep) Violation(group, class, detail string, transcript []string, cfg memsim.Cfg) {
	if group == memsim.GroupView {
		// on-the-wire view consistency is C08's subject; the history is cut
		r.w.Metric("histories_cut_by_view_inconsistency", 1)
		return
	}
	if r.print {
		for _, l := range transcript {
			fmt.Println(l)
		}
	}
	if len(detail) > 900 {
		detail = detail[:900] + "..."
	}
	r.w.Violation(sigOf(class), fmt.Sprintf("%s: %s", class, detail), map[string]interface{}{"class": class, "detail": detail, "transcript": transcript, "cfg": cfg})
}
func (r *rep) ConcViolation(group, class, detail string, extra map[string]interface{}) {
	if group == memsim.GroupView {
		r.w.Metric("concurrent_histories_cut_by_view_inconsistency", 1)
		return // C08's subject
	}
	r.w.Violation(class, detail, extra)
}
func (r *rep) Notef(f string, a ...interface{}) { r.w.Notef(f, a...) }
func (r *rep) Class(c string)                   { r.w.Class(c) }
func (r *rep) Metric(name string, n int64)      { r.w.Metric(name, n) }

func body(w *hx.W) {
	rng := w.Rand("c09")
	n := w.Pick(2500, 30000)
	r := &rep{w: w}
	for i := 0; i < n; i++ {
		seed := rng.Int63()
		if !w.Mine(i) {
			continue
		}
		cfg := memsim.Cfg{Seed: seed, Sessions: 1 + i%3, Boxes: 2 + i%3, Steps: 50, Rev2: i%2 == 0, NoopBias: 120, Profile: "model", InitMsgs: 6 + i%7, WithJunk: i%5 == 0, WithAdmin: true}
		if i%25 == 24 {
			// long histories on the same connections (hundreds of commands, dozens of refusals)
			cfg.Steps = 500
			w.Metric("long_histories", 1)
		}
		done := w.Begin(fmt.Sprintf("history-%d", seed), fmt.Sprintf("history seed=%d sessions=%d rev2=%v steps=%d", seed, cfg.Sessions, cfg.Rev2, cfg.Steps), 600*time.Second)
		memsim.Run(cfg, r)
		done()
		w.Case(uint64(seed))
	}
	_ = strings.ToUpper
	concurrentPhase(w, r)
}

func concurrentPhase(w *hx.W, r *rep) {
	rng := w.Rand("c09-concurrent")
	n := w.Pick(160, 2000)
	for i := 0; i < n; i++ {
		seed := rng.Int63()
		sessions := 2 + rng.Intn(7)
		ops := 25 + rng.Intn(30)
		nb := 2 + rng.Intn(2)
		procs := []int{1, 2, 4, 16}[rng.Intn(4)]
		yield := []int{0, 50, 200, 500}[rng.Intn(4)]
		if !w.Mine(i) {
			continue
		}
		done := w.Begin("concurrent", fmt.Sprintf("concurrent history seed=%d sessions=%d ops=%d", seed, sessions, ops), 600*time.Second)
		memsim.ConcurrentRun(r, seed, sessions, ops, nb, procs, yield)
		done()
		w.Case(uint64(seed))
		w.Class(fmt.Sprintf("concurrent/sessions=%d/procs=%d/yield=%d", sessions, procs, yield))
	}
}

func replay(w *hx.W, raw json.RawMessage) {
	var v struct {
		Cfg memsim.Cfg `json:"cfg"`
	}
	if err := json.Unmarshal(raw, &v); err != nil {
		fmt.Println("cannot parse replay:", err)
		return
	}
	memsim.Verbose = true
	memsim.Run(v.Cfg, &rep{w: w, print: true})
}

func main() {
	hx.Main(hx.Spec{
		ID:    "C09",
		Level: "exploration",
		Rule:  "seeded histories of 50 commands (CREATE/DELETE/RENAME/SUBSCRIBE/LIST/LSUB/STATUS/APPEND/SELECT/EXAMINE/STORE/COPY/MOVE/EXPUNGE/UID EXPUNGE/SEARCH/FETCH/NOOP/IDLE/CLOSE/UNSELECT, UID and non-UID forms) by 1..3 sessions over 2..4 mailboxes, messages generated from MIME trees (nesting depth 3, message/rfc822, multipart, folded headers), all search keys with NOT/OR/group nesting and RETURN options, body sections with part paths, HEADER.FIELDS(.NOT), MIME, partial ranges with offsets and sizes up to 2^63-1, LIST patterns with references, with and without IMAP4rev2 enabled; every 5th history also appends malformed messages (crash probing only); plus concurrent histories: 2..8 sessions x 25..54 commands where every message carries a unique token and is only touched by its owner (APPEND, UID STORE, STORE by sequence number, UID COPY, UID MOVE, \\Deleted + UID EXPUNGE, UID FETCH, UID SEARCH by token), so that the outcome is independent of the interleaving; GOMAXPROCS in {1,2,4,16}, yields at the lock boundaries of imapserver / imapmemserver; every mailbox audited at quiescence",
		Assumptions: []string{
			"concurrent histories: operations of different sessions commute because each message is touched by its owner only, so the per-session sequential models determine the final content of every mailbox exactly; a command that gets no reply ends the history without a verdict (completion and deadlocks are C14's subject)",
			"sequential histories: commands are issued one at a time, so the history is sequential and the model exact; a session's sequence numbers are interpreted against the view the server has announced on that connection",
			"latitude granted: a stale session addressing an already removed message gets it skipped; UID SEARCH may or may not report messages not yet announced; BODY[n.MIME]/HEADER/TEXT combinations RFC 3501 leaves undefined, and malformed messages, are only required not to crash; LIST may add \\Noselect/\\NonExistent placeholders for missing parents; SUBSCRIBE of a missing mailbox may be refused or accepted; COPY onto the selected mailbox may be refused; partial numbers above 2^32-1 may be answered BAD",
			"not generated: DELETE of a mailbox that a session has selected, RENAME of INBOX, RENAME whose new inferior names would collide with existing mailboxes, state-changing commands under EXAMINE (the server documents read-only enforcement as not implemented)",
		},
		Replay:     replay,
		RaceFrames: []string{"imapserver.", "imapmemserver.", "imapwire."},
		Shards:     func(string) int { return 14 },
		WallQuick:  20 * time.Minute, WallThorough: 180 * time.Minute,
	}, body)
}
