// C01 — wire encoder/decoder round-trip for every IMAP data value.
//
// Monitor: the real imapwire.Encoder of one connection side writes a value into
// a buffer, followed by a sentinel atom and CRLF; the real Decoder of the peer
// side decodes it with the matching method. The oracle demands: same value
// (modulo the documented canonicalisations), sentinel next, CRLF, EOF (exactly
// the bytes written were consumed). Independently, wiretok must accept the
// emitted bytes as legal syntax for the encoder mode (quoted strings free of
// NUL/CR/LF, 8-bit only with QuotedUTF8, '+' literals only where allowed).
// Unrepresentable values must make CRLF() fail.
package main

import (
	"bufio"
	"bytes"
	"fmt"
	"io"
	"math/rand"
	"strings"
	"sync"
	"time"
	"unicode/utf8"

	imap "github.com/emersion/go-imap/v2"
	"github.com/emersion/go-imap/v2/internal"
	"github.com/emersion/go-imap/v2/internal/imapwire"
	"github.com/emersion/go-imap/v2/verif/internal/hx"
	"github.com/emersion/go-imap/v2/verif/internal/wiretok"
)

type mode struct {
	client              bool // encoder side
	utf8, lminus, lplus bool
}

func (m mode) String() string {
	side := "server"
	if m.client {
		side = "client"
	}
	return fmt.Sprintf("%s/utf8=%v/lit-=%v/lit+=%v", side, m.utf8, m.lminus, m.lplus)
}

func allModes() []mode {
	var ms []mode
	for _, c := range []bool{true, false} {
		for _, u := range []bool{false, true} {
			for _, lm := range []bool{false, true} {
				for _, lp := range []bool{false, true} {
					ms = append(ms, mode{c, u, lm, lp})
				}
			}
		}
	}
	return ms
}

type enc struct {
	*imapwire.Encoder
	buf     *bytes.Buffer
	syncReq int
}

func newEnc(m mode) *enc {
	buf := &bytes.Buffer{}
	side := imapwire.ConnSideServer
	if m.client {
		side = imapwire.ConnSideClient
	}
	e := &enc{Encoder: imapwire.NewEncoder(bufio.NewWriter(buf), side), buf: buf}
	e.QuotedUTF8, e.LiteralMinus, e.LiteralPlus = m.utf8, m.lminus, m.lplus
	if m.client {
		e.NewContinuationRequest = func() *imapwire.ContinuationRequest {
			e.syncReq++
			cr := imapwire.NewContinuationRequest()
			cr.Done("") // the server already said '+'
			return cr
		}
	}
	return e
}

func newDec(m mode, b []byte) *imapwire.Decoder {
	side := imapwire.ConnSideClient
	if m.client {
		side = imapwire.ConnSideServer // the peer of a client-side encoder
	}
	return imapwire.NewDecoder(bufio.NewReader(bytes.NewReader(b)), side)
}

type checker struct {
	w *hx.W
}

func cls(s string) string {
	if len(s) > 48 {
		return s[:48]
	}
	return s
}

func (c *checker) viol(class string, m mode, kind, valDesc, detail string, wire []byte) {
	side := "server-enc"
	if m.client {
		side = "client-enc"
	}
	c.w.Violation(fmt.Sprintf("%s@%s/%s/%s", class, kind, cls(valDesc), side), fmt.Sprintf("%s: %s value %s in mode %s: %s", class, kind, valDesc, m, detail),
		map[string]interface{}{"mode": m.String(), "kind": kind, "value": valDesc, "wire": hx.Hex(wire, 400)})
}

// legal checks the emitted bytes against the grammar for the mode, using the independent tokenizer.
func (c *checker) legal(m mode, kind, valDesc string, wire []byte) (path string) {
	toks, st := wiretok.Tokenize(wire)
	if st.Any() {
		c.viol("illegal-syntax", m, kind, valDesc, st.String(), wire)
	}
	if st.Quoted8bit && !m.utf8 {
		c.viol("8bit-in-quoted-without-utf8", m, kind, valDesc, "quoted string contains 8-bit bytes although UTF-8 quoting is off", wire)
	}
	var walk func(ts []wiretok.Tok)
	path = "atom"
	walk = func(ts []wiretok.Tok) {
		for _, t := range ts {
			switch t.Kind {
			case wiretok.Quoted:
				path = "quoted"
			case wiretok.Literal:
				path = "sync-literal"
				if t.NonSync {
					path = "nonsync-literal"
					if !m.client {
						c.viol("nonsync-literal-from-server", m, kind, valDesc, "a server-side encoder wrote a '{n+}' literal", wire)
					} else if !m.lplus && !(m.lminus && len(t.S) <= 4096) {
						c.viol("nonsync-literal-not-allowed", m, kind, valDesc, fmt.Sprintf("'{%d+}' written without LITERAL+ (LITERAL-=%v)", len(t.S), m.lminus), wire)
					}
				}
			case wiretok.List:
				walk(t.L)
			}
		}
	}
	walk(toks)
	return path
}

// finish appends the sentinel and CRLF, returns the wire bytes or the encoder error.
func finish(e *enc) ([]byte, error) {
	e.SP().Atom("SENTINEL")
	if err := e.CRLF(); err != nil {
		return e.buf.Bytes(), err
	}
	return e.buf.Bytes(), nil
}

// tail verifies sentinel, CRLF and EOF after the value was decoded.
func (c *checker) tail(m mode, kind, valDesc string, d *imapwire.Decoder, wire []byte) {
	var s string
	if !d.ExpectSP() || !d.ExpectAtom(&s) || s != "SENTINEL" {
		c.viol("bytes-left-or-missing", m, kind, valDesc, fmt.Sprintf("after the value the decoder found %q (err %v) instead of the sentinel", s, d.Err()), wire)
		return
	}
	if !d.ExpectCRLF() {
		c.viol("bytes-left-or-missing", m, kind, valDesc, "no CRLF after the sentinel", wire)
		return
	}
	if !d.EOF() {
		c.viol("bytes-left-or-missing", m, kind, valDesc, "decoder has unread bytes after the line", wire)
	}
}

func qs(s string) string {
	if len(s) > 60 {
		return fmt.Sprintf("%+q...(%d bytes, hash %x)", s[:60], len(s), hx.HashStr(s)&0xffff)
	}
	return fmt.Sprintf("%+q", s)
}

// ---- value kinds ------------------------------------------------------------

func (c *checker) str(m mode, s string, sclass string) {
	for _, how := range []string{"astring", "string", "nstring", "nstring-reader"} {
		e := newEnc(m)
		e.Atom("X").SP().String(s)
		wire, err := finish(e)
		kind := "string/" + how
		desc := sclass + ":" + qs(s)
		if err != nil {
			c.viol("encoder-refused-representable", m, kind, desc, err.Error(), wire)
			return
		}
		path := c.legal(m, kind, desc, wire)
		c.w.Class(fmt.Sprintf("string/%s/%s/%s/len%s", m, sclass, path, lenBucket(len(s))))
		d := newDec(m, wire)
		var x, got string
		ok := d.ExpectAtom(&x) && d.ExpectSP()
		switch how {
		case "astring":
			ok = ok && d.ExpectAString(&got)
		case "string":
			ok = ok && d.ExpectString(&got)
		case "nstring":
			ok = ok && d.ExpectNString(&got)
		case "nstring-reader":
			if ok {
				lit, _, ok2 := d.ExpectNStringReader()
				ok = ok2
				if ok2 && lit != nil {
					b, rerr := io.ReadAll(lit)
					got = string(b)
					if rerr != nil || lit.Size() != int64(len(s)) {
						c.viol("literal-reader", m, kind, desc, fmt.Sprintf("ReadAll err=%v Size()=%d want %d", rerr, lit.Size(), len(s)), wire)
					}
				}
			}
		}
		if !ok {
			c.viol("decoder-rejected", m, kind, desc, fmt.Sprintf("decoder error: %v", d.Err()), wire)
			continue
		}
		if got != s {
			c.viol("value-changed", m, kind, desc, "decoded "+qs(got), wire)
			continue
		}
		c.tail(m, kind, desc, d, wire)
	}
}

func lenBucket(n int) string {
	switch {
	case n == 0:
		return "0"
	case n <= 2:
		return "1-2"
	case n < 4096:
		return "<4096"
	case n == 4096:
		return "4096"
	default:
		return ">4096"
	}
}

func (c *checker) mailbox(m mode, name string, class string) {
	e := newEnc(m)
	e.Atom("X").SP().Mailbox(name)
	wire, err := finish(e)
	kind, desc := "mailbox", class+":"+qs(name)
	if err != nil {
		c.viol("encoder-refused-representable", m, kind, desc, err.Error(), wire)
		return
	}
	path := c.legal(m, kind, desc, wire)
	c.w.Class(fmt.Sprintf("mailbox/%s/%s/%s", m, class, path))
	// mailbox names travel in modified UTF-7: the wire form must be printable ASCII unless sent as a literal
	d := newDec(m, wire)
	var x, got string
	if !(d.ExpectAtom(&x) && d.ExpectSP() && d.ExpectMailbox(&got)) {
		c.viol("decoder-rejected", m, kind, desc, fmt.Sprintf("decoder error: %v", d.Err()), wire)
		return
	}
	want := name
	if strings.EqualFold(name, "INBOX") {
		want = "INBOX"
	}
	if got != want {
		c.viol("value-changed", m, kind, desc, "decoded "+qs(got)+" want "+qs(want), wire)
		return
	}
	c.tail(m, kind, desc, d, wire)
}

var wellKnownFlags = []imap.Flag{imap.FlagSeen, imap.FlagAnswered, imap.FlagFlagged, imap.FlagDeleted, imap.FlagDraft, imap.FlagForwarded, imap.FlagMDNSent, imap.FlagJunk, imap.FlagNotJunk, imap.FlagPhishing, imap.FlagImportant}
var wellKnownAttrs = []imap.MailboxAttr{imap.MailboxAttrNonExistent, imap.MailboxAttrNoInferiors, imap.MailboxAttrNoSelect, imap.MailboxAttrHasChildren, imap.MailboxAttrHasNoChildren, imap.MailboxAttrMarked, imap.MailboxAttrUnmarked, imap.MailboxAttrSubscribed, imap.MailboxAttrRemote, imap.MailboxAttrAll, imap.MailboxAttrArchive, imap.MailboxAttrDrafts, imap.MailboxAttrFlagged, imap.MailboxAttrJunk, imap.MailboxAttrSent, imap.MailboxAttrTrash, imap.MailboxAttrImportant}

// atomOK: RFC 9051 atom (1*ATOM-CHAR), ASCII only.
func atomOK(s string) bool {
	if s == "" {
		return false
	}
	for i := 0; i < len(s); i++ {
		ch := s[i]
		if ch <= 0x20 || ch >= 0x7f {
			return false
		}
		switch ch {
		case '(', ')', '{', '%', '*', '"', '\\', ']':
			return false
		}
	}
	return true
}

// flagGrammar: flag-keyword / flag-extension / system flags ("\" atom), or "\*".
func flagGrammar(s string) bool {
	if s == "\\*" {
		return true
	}
	return atomOK(strings.TrimPrefix(s, "\\"))
}

func ascii(s string) bool {
	for i := 0; i < len(s); i++ {
		if s[i] >= 0x80 {
			return false
		}
	}
	return true
}

func (c *checker) flag(m mode, f string) {
	e := newEnc(m)
	e.Atom("X").SP().Flag(imap.Flag(f))
	wire, err := finish(e)
	kind, desc := "flag", qs(f)
	valid := flagGrammar(f)
	if !ascii(f) {
		// 8-bit flags: the RFC grammar excludes them, the library's atom test admits some;
		// only the round trip is checked when the encoder accepts.
		if err != nil {
			return
		}
		valid = true
	}
	c.w.Class(fmt.Sprintf("flag/valid=%v", valid))
	if !valid {
		if err == nil {
			c.viol("malformed-value-emitted", m, kind, desc, "flag outside the flag-keyword / flag-extension grammar was written instead of refused", wire)
		}
		return
	}
	if err != nil {
		c.viol("encoder-refused-representable", m, kind, desc, err.Error(), wire)
		return
	}
	c.legal(m, kind, desc, wire)
	d := newDec(m, wire)
	var x string
	if !(d.ExpectAtom(&x) && d.ExpectSP()) {
		return
	}
	got, derr := internal.ExpectFlag(d)
	if derr != nil {
		c.viol("decoder-rejected", m, kind, desc, derr.Error(), wire)
		return
	}
	want := imap.Flag(f)
	for _, wk := range wellKnownFlags {
		if strings.EqualFold(string(wk), f) {
			want = wk
		}
	}
	if got != want {
		c.viol("value-changed", m, kind, desc, fmt.Sprintf("decoded %q want %q", got, want), wire)
		return
	}
	c.tail(m, kind, desc, d, wire)
}

func (c *checker) attr(m mode, a string) {
	e := newEnc(m)
	e.Atom("X").SP().MailboxAttr(imap.MailboxAttr(a))
	wire, err := finish(e)
	kind, desc := "mailbox-attr", qs(a)
	valid := strings.HasPrefix(a, "\\") && atomOK(a[1:])
	if !ascii(a) {
		if err != nil {
			return
		}
		valid = true
	}
	c.w.Class(fmt.Sprintf("attr/valid=%v", valid))
	if !valid {
		if err == nil {
			c.viol("malformed-value-emitted", m, kind, desc, "mailbox attribute outside the grammar (\"\\\" atom) was written instead of refused", wire)
		}
		return
	}
	if err != nil {
		c.viol("encoder-refused-representable", m, kind, desc, err.Error(), wire)
		return
	}
	c.legal(m, kind, desc, wire)
	d := newDec(m, wire)
	var x string
	if !(d.ExpectAtom(&x) && d.ExpectSP()) {
		return
	}
	got, derr := internal.ExpectMailboxAttr(d)
	if derr != nil {
		c.viol("decoder-rejected", m, kind, desc, derr.Error(), wire)
		return
	}
	want := imap.MailboxAttr(a)
	for _, wk := range wellKnownAttrs {
		if strings.EqualFold(string(wk), a) {
			want = wk
		}
	}
	if got != want {
		c.viol("value-changed", m, kind, desc, fmt.Sprintf("decoded %q want %q", got, want), wire)
		return
	}
	c.tail(m, kind, desc, d, wire)
}

func (c *checker) numbers(m mode) {
	for _, v := range []uint32{0, 1, 9, 10, 1 << 31, 1<<32 - 2, 1<<32 - 1} {
		e := newEnc(m)
		e.Atom("X").SP().Number(v).SP().UID(imap.UID(v))
		wire, err := finish(e)
		kind, desc := "number", fmt.Sprint(v)
		if err != nil {
			c.viol("encoder-refused-representable", m, kind, desc, err.Error(), wire)
			continue
		}
		c.legal(m, kind, desc, wire)
		d := newDec(m, wire)
		var x string
		var got uint32
		var gu imap.UID
		if !(d.ExpectAtom(&x) && d.ExpectSP() && d.ExpectNumber(&got) && d.ExpectSP() && d.ExpectUID(&gu)) || got != v || uint32(gu) != v {
			c.viol("value-changed", m, kind, desc, fmt.Sprintf("decoded %d / uid %d err=%v", got, gu, d.Err()), wire)
			continue
		}
		c.tail(m, kind, desc, d, wire)
		c.w.Class("number")
	}
	for _, v := range []int64{0, 1, 4096, 1 << 32, 1<<63 - 1} {
		e := newEnc(m)
		e.Atom("X").SP().Number64(v).SP().ModSeq(uint64(v))
		wire, err := finish(e)
		kind, desc := "number64", fmt.Sprint(v)
		if err != nil {
			c.viol("encoder-refused-representable", m, kind, desc, err.Error(), wire)
			continue
		}
		d := newDec(m, wire)
		var x string
		var got int64
		var ms uint64
		if !(d.ExpectAtom(&x) && d.ExpectSP() && d.ExpectNumber64(&got) && d.ExpectSP() && d.ExpectModSeq(&ms)) || got != v || ms != uint64(v) {
			c.viol("value-changed", m, kind, desc, fmt.Sprintf("decoded %d / modseq %d err=%v", got, ms, d.Err()), wire)
			continue
		}
		c.tail(m, kind, desc, d, wire)
		c.w.Class("number64")
	}
	for _, v := range []int64{-1, -5, -1 << 63} {
		e := newEnc(m)
		e.Atom("X").SP().Number64(v)
		wire, err := finish(e)
		c.w.Class("number64/negative")
		if err == nil {
			c.viol("malformed-value-emitted", m, "number64", fmt.Sprint(v), "a negative number64 was written instead of refused", wire)
		}
	}
}

func (c *checker) numset(m mode, ns imap.NumSet, desc string) {
	e := newEnc(m)
	e.Atom("X").SP().NumSet(ns)
	wire, err := finish(e)
	kind := "numset"
	if ns.String() == "" {
		c.w.Class("numset/empty")
		if err == nil {
			c.viol("malformed-value-emitted", m, kind, desc, "an empty number set was written instead of refused", wire)
		}
		return
	}
	if err != nil {
		c.viol("encoder-refused-representable", m, kind, desc, err.Error(), wire)
		return
	}
	c.legal(m, kind, desc, wire)
	d := newDec(m, wire)
	var x string
	var got imap.NumSet
	k := imapwire.NumSetKind(ns)
	if !(d.ExpectAtom(&x) && d.ExpectSP() && d.ExpectNumSet(k, &got)) {
		c.viol("decoder-rejected", m, kind, desc, fmt.Sprintf("%v", d.Err()), wire)
		return
	}
	if got.String() != ns.String() || got.Dynamic() != ns.Dynamic() || (imap.IsSearchRes(ns) != imap.IsSearchRes(got)) {
		c.viol("value-changed", m, kind, desc, fmt.Sprintf("decoded %q dynamic=%v searchres=%v", got.String(), got.Dynamic(), imap.IsSearchRes(got)), wire)
		return
	}
	if _, isSeq := ns.(imap.SeqSet); isSeq {
		if _, ok := got.(imap.SeqSet); !ok {
			c.viol("value-changed", m, kind, desc, fmt.Sprintf("decoded kind %T", got), wire)
		}
	} else if _, ok := got.(imap.UIDSet); !ok {
		c.viol("value-changed", m, kind, desc, fmt.Sprintf("decoded kind %T", got), wire)
	}
	c.tail(m, kind, desc, d, wire)
	c.w.Class("numset/" + fmt.Sprintf("%T", ns))
}

func (c *checker) nesting(m mode, depth int) {
	e := newEnc(m)
	e.Atom("X").SP()
	var rec func(d int)
	rec = func(d int) {
		if d == 0 {
			e.List(2, func(i int) { e.Atom("leaf") })
			return
		}
		e.List(1, func(int) { rec(d - 1) })
	}
	rec(depth - 1)
	wire, err := finish(e)
	kind, desc := "list-nesting", fmt.Sprint(depth)
	if err != nil {
		c.viol("encoder-refused-representable", m, kind, desc, err.Error(), wire)
		return
	}
	d := newDec(m, wire)
	var x string
	if !(d.ExpectAtom(&x) && d.ExpectSP()) {
		return
	}
	leaves := 0
	maxd := 0
	var walk func(lv int) error
	walk = func(lv int) error {
		if lv > maxd {
			maxd = lv
		}
		isList, err := d.List(func() error { return walk(lv + 1) })
		if err != nil {
			return err
		}
		if !isList {
			var s string
			if !d.ExpectAtom(&s) {
				return d.Err()
			}
			leaves++
		}
		return nil
	}
	var werr error
	if p, msg := hx.Guard(func() { werr = walk(0) }); p {
		c.viol("decoder-panic", m, kind, desc, msg, nil)
		return
	}
	c.w.Class(fmt.Sprintf("nesting/%v", depth < 1000))
	if depth < 1000 {
		if werr != nil || leaves != 2 || maxd != depth {
			c.viol("value-changed", m, kind, desc, fmt.Sprintf("err=%v leaves=%d depth=%d", werr, leaves, maxd), nil)
			return
		}
		c.tail(m, kind, desc, d, nil)
	} else if werr == nil {
		c.viol("depth-cap-missing", m, kind, desc, "nesting beyond the cap was accepted", nil)
	}
}

func (c *checker) literalStream(m mode, payload []byte) {
	e := newEnc(m)
	e.Atom("X").SP()
	var sync *imapwire.ContinuationRequest
	if m.client && !m.lplus {
		sync = imapwire.NewContinuationRequest()
		sync.Done("")
	}
	wc := e.Literal(int64(len(payload)), sync)
	_, werr := wc.Write(payload)
	cerr := wc.Close()
	wire, err := finish(e)
	kind, desc := "literal-stream", fmt.Sprintf("%d bytes", len(payload))
	if werr != nil || cerr != nil || err != nil {
		c.viol("encoder-refused-representable", m, kind, desc, fmt.Sprintf("write=%v close=%v crlf=%v", werr, cerr, err), wire)
		return
	}
	d := newDec(m, wire)
	var x string
	if !(d.ExpectAtom(&x) && d.ExpectSP()) {
		return
	}
	lit, nonSync, lerr := d.ExpectLiteralReader()
	if lerr != nil {
		c.viol("decoder-rejected", m, kind, desc, lerr.Error(), wire)
		return
	}
	b, rerr := io.ReadAll(lit)
	if rerr != nil || !bytes.Equal(b, payload) || lit.Size() != int64(len(payload)) {
		c.viol("value-changed", m, kind, desc, fmt.Sprintf("read %d bytes err=%v", len(b), rerr), wire)
		return
	}
	if nonSync != (m.client && sync == nil) {
		c.viol("value-changed", m, kind, desc, fmt.Sprintf("nonSync=%v", nonSync), wire)
	}
	c.tail(m, kind, desc, d, wire)
	c.w.Class("literal-stream")
}

// session: ONE long-lived encoder writes nLines lines of mixed values into one stream and ONE
// long-lived decoder reads them all back (as on a real connection, where the client keeps a single
// decoder for its whole life). Decoder state that survives a value (list depth, literal and CRLF
// bookkeeping) must not drift: line 3000 must decode exactly like line 1.
type sessItem struct {
	kind  string
	s     string
	n     uint32
	n64   int64
	depth int
	k     int
}

func (c *checker) session(m mode, rng *rand.Rand, nLines int) {
	e := newEnc(m)
	var lines [][]sessItem
	for i := 0; i < nLines; i++ {
		var items []sessItem
		for k := 1 + rng.Intn(5); k > 0; k-- {
			var it sessItem
			switch rng.Intn(9) {
			case 0, 1:
				it = sessItem{kind: "emptylist"}
			case 2:
				it = sessItem{kind: "list", k: 1 + rng.Intn(4), n: randNum(rng)}
			case 3:
				it = sessItem{kind: "nested", depth: 1 + rng.Intn(30), k: rng.Intn(3)}
			case 4:
				it = sessItem{kind: "num", n: randNum(rng)}
			case 5:
				it = sessItem{kind: "num64", n64: rng.Int63()}
			case 6:
				it = sessItem{kind: "nil"}
			default:
				sc := strClasses[rng.Intn(len(strClasses))]
				ln := []int{0, 1, 7, 40}[rng.Intn(4)]
				if rng.Intn(40) == 0 {
					ln = []int{4096, 4097}[rng.Intn(2)]
				}
				it = sessItem{kind: "str", s: genString(rng, sc, ln)}
			}
			items = append(items, it)
		}
		lines = append(lines, items)
		e.Atom("X")
		for _, it := range items {
			e.SP()
			switch it.kind {
			case "emptylist":
				e.List(0, nil)
			case "list":
				e.List(it.k, func(int) { e.Number(it.n) })
			case "nested":
				var rec func(d int)
				rec = func(d int) {
					if d == 0 {
						e.List(it.k, func(int) { e.Atom("leaf") })
						return
					}
					e.List(1, func(int) { rec(d - 1) })
				}
				rec(it.depth)
			case "num":
				e.Number(it.n)
			case "num64":
				e.Number64(it.n64)
			case "nil":
				e.NIL()
			case "str":
				e.String(it.s)
			}
		}
		e.SP().Atom("SENTINEL")
		if err := e.CRLF(); err != nil {
			c.viol("encoder-refused-representable", m, "session", fmt.Sprintf("line %d", i), err.Error(), nil)
			return
		}
	}
	wire := e.buf.Bytes()
	d := newDec(m, wire)
	bucket := func(i int) string {
		switch {
		case i < 100:
			return "line<100"
		case i < 1000:
			return "line<1000"
		}
		return "line>=1000"
	}
	nEmpty := 0
	for i, items := range lines {
		fail := func(it sessItem, detail string) {
			c.viol("value-changed", m, "session/"+it.kind, bucket(i), fmt.Sprintf("line %d of a %d-line stream read by one decoder (%d empty lists decoded before): %s (decoder error: %v)", i, nLines, nEmpty, detail, d.Err()), nil)
		}
		var x string
		if !d.ExpectAtom(&x) || x != "X" {
			fail(sessItem{kind: "line-start"}, fmt.Sprintf("line does not start with the atom X (got %q)", x))
			return
		}
		for _, it := range items {
			if !d.ExpectSP() {
				fail(it, "missing SP")
				return
			}
			switch it.kind {
			case "emptylist":
				n := 0
				isList, err := d.List(func() error {
					n++
					if !d.DiscardValue() {
						return d.Err()
					}
					return nil
				})
				if err != nil || !isList || n != 0 {
					fail(it, fmt.Sprintf("empty list decoded as isList=%v items=%d err=%v", isList, n, err))
					return
				}
				nEmpty++
			case "list":
				var got []uint32
				err := d.ExpectList(func() error {
					var v uint32
					if !d.ExpectNumber(&v) {
						return d.Err()
					}
					got = append(got, v)
					return nil
				})
				if err != nil || len(got) != it.k {
					fail(it, fmt.Sprintf("list of %d numbers decoded as %v err=%v", it.k, got, err))
					return
				}
				for _, v := range got {
					if v != it.n {
						fail(it, fmt.Sprintf("list item %d decoded as %d", it.n, v))
						return
					}
				}
			case "nested":
				leaves, maxd := 0, 0
				var walk func(lv int) error
				walk = func(lv int) error {
					if lv > maxd {
						maxd = lv
					}
					isList, err := d.List(func() error { return walk(lv + 1) })
					if err != nil {
						return err
					}
					if !isList {
						var s string
						if !d.ExpectAtom(&s) {
							return d.Err()
						}
						leaves++
					}
					return nil
				}
				if err := walk(0); err != nil || leaves != it.k || (it.k > 0 && maxd != it.depth+1) {
					fail(it, fmt.Sprintf("nesting of depth %d with %d leaves decoded as depth %d, %d leaves, err=%v", it.depth+1, it.k, maxd, leaves, err))
					return
				}
			case "num":
				var v uint32
				if !d.ExpectNumber(&v) || v != it.n {
					fail(it, fmt.Sprintf("number %d decoded as %d", it.n, v))
					return
				}
			case "num64":
				var v int64
				if !d.ExpectNumber64(&v) || v != it.n64 {
					fail(it, fmt.Sprintf("number %d decoded as %d", it.n64, v))
					return
				}
			case "nil":
				if !d.ExpectNIL() {
					fail(it, "NIL not decoded")
					return
				}
			case "str":
				var got string
				if !d.ExpectString(&got) || got != it.s {
					fail(it, fmt.Sprintf("string %s decoded as %s", qs(it.s), qs(got)))
					return
				}
			}
		}
		var sent string
		if !d.ExpectSP() || !d.ExpectAtom(&sent) || sent != "SENTINEL" || !d.ExpectCRLF() {
			fail(sessItem{kind: "line-end"}, fmt.Sprintf("sentinel/CRLF not found (got %q)", sent))
			return
		}
	}
	if !d.EOF() {
		c.viol("bytes-left-or-missing", m, "session", "end", "decoder has unread bytes after the last line", nil)
	}
	c.w.Metric("session_lines_decoded_by_one_decoder", int64(nLines))
	c.w.MetricMax("session_max_empty_lists_on_one_decoder", int64(nEmpty))
	c.w.Class("session/" + m.String())
}

// syncExchange encodes a string that needs a synchronising literal while a peer goroutine plays
// the server: it grants each continuation request only after the literal header has actually
// arrived on the wire (the real protocol order; the other cases use requests granted in advance).
// An encoder that waits for the grant before the header has left its buffer never finishes.
type sharedBuf struct {
	mu  sync.Mutex
	out []byte
}

func (b *sharedBuf) Write(p []byte) (int, error) {
	b.mu.Lock()
	b.out = append(b.out, p...)
	b.mu.Unlock()
	return len(p), nil
}

func (c *checker) syncExchange(m mode, s string, sclass string) {
	sb := &sharedBuf{}
	e := imapwire.NewEncoder(bufio.NewWriter(sb), imapwire.ConnSideClient)
	e.QuotedUTF8, e.LiteralMinus, e.LiteralPlus = m.utf8, m.lminus, m.lplus
	var pending []*imapwire.ContinuationRequest
	e.NewContinuationRequest = func() *imapwire.ContinuationRequest {
		cr := imapwire.NewContinuationRequest()
		sb.mu.Lock()
		pending = append(pending, cr)
		sb.mu.Unlock()
		return cr
	}
	done := make(chan error, 1)
	go func() {
		e.Atom("X").SP().String(s).SP().String(s).SP().Atom("SENTINEL")
		done <- e.CRLF()
	}()
	kind, desc := "string/sync-exchange", sclass+":"+qs(s)
	granted := 0
	deadline := time.Now().Add(20 * time.Second)
	var encErr error
loop:
	for {
		select {
		case encErr = <-done:
			break loop
		default:
		}
		sb.mu.Lock()
		if len(pending) > granted {
			// a request is waiting: has its header arrived? (the stream so far must end with "{n}CRLF")
			o := sb.out
			if bytes.HasSuffix(o, []byte("\r\n")) {
				line := o[:len(o)-2]
				if i := bytes.LastIndex(line, []byte("\r\n")); i >= 0 {
					line = line[i+2:]
				}
				if h, ok := wiretok.ParseLitHeader(line); ok && !h.NonSync {
					pending[granted].Done("")
					granted++
				}
			}
		}
		stuck := len(pending) > granted && time.Now().After(deadline)
		sb.mu.Unlock()
		if stuck {
			c.viol("continuation-awaited-before-header-sent", m, kind, desc, fmt.Sprintf("the encoder waits for the continuation request of its synchronising literal, but the literal header never reached the wire (bytes written so far: %s)", hx.Hex(sb.out, 120)), sb.out)
			sb.mu.Lock()
			for _, cr := range pending[granted:] {
				cr.Cancel(nil)
			}
			sb.mu.Unlock()
			<-done
			return
		}
		time.Sleep(50 * time.Microsecond)
	}
	if encErr != nil {
		c.viol("encoder-refused-representable", m, kind, desc, encErr.Error(), sb.out)
		return
	}
	wire := sb.out
	c.legal(m, kind, desc, wire)
	d := newDec(m, wire)
	var x, g1, g2 string
	if !(d.ExpectAtom(&x) && d.ExpectSP() && d.ExpectAString(&g1) && d.ExpectSP() && d.ExpectString(&g2)) {
		c.viol("decoder-rejected", m, kind, desc, fmt.Sprintf("decoder error: %v", d.Err()), wire)
		return
	}
	if g1 != s || g2 != s {
		c.viol("value-changed", m, kind, desc, "decoded "+qs(g1)+" / "+qs(g2), wire)
		return
	}
	c.tail(m, kind, desc, d, wire)
	c.w.Metric("sync_exchanges", 1)
	c.w.Metric("continuation_requests_granted_after_header", int64(granted))
	c.w.Class("sync-exchange/" + m.String())
}

// ---- generators ---------------------------------------------------------------

var strClasses = []string{"ends-backslash", "ends-quote", "only-specials", "empty", "atom", "space", "quote", "backslash", "nul", "cr", "lf", "crlf-cmd", "lit-lookalike", "utf8", "badutf8", "mixed", "nil-word", "paren"}

func genString(rng *rand.Rand, class string, n int) string {
	if n == 0 || class == "empty" {
		return ""
	}
	var unit string
	switch class {
	case "atom":
		unit = "abcXYZ019-._"
	case "space":
		unit = "a b "
	case "quote":
		unit = `a"b"`
	case "backslash":
		unit = `a\b\\`
	case "nul":
		unit = "a\x00b"
	case "cr":
		unit = "a\rb"
	case "lf":
		unit = "a\nb"
	case "crlf-cmd":
		unit = "x\r\nA1 LOGOUT\r\n"
	case "lit-lookalike":
		unit = "{5}\r\nab{3+}"
	case "utf8":
		unit = "é€𝄞ü"
	case "badutf8":
		unit = "a\xff\xc3(\x80"
	case "nil-word":
		return "NIL"
	case "ends-backslash":
		return strings.Repeat("x", n-1) + "\\"
	case "ends-quote":
		return strings.Repeat("y", n-1) + "\""
	case "only-specials":
		return strings.Repeat("\\\"", n/2+1)[:n]
	case "paren":
		unit = "(a) [b] %*"
	default:
		var sb strings.Builder
		for sb.Len() < n {
			sb.WriteByte(byte(rng.Intn(256)))
		}
		return sb.String()[:n]
	}
	s := strings.Repeat(unit, n/len(unit)+1)
	// cut at n bytes; for the utf8 class keep valid UTF-8 by cutting at a rune boundary then padding
	s = s[:n]
	if class == "utf8" {
		for !utf8.ValidString(s) {
			s = s[:len(s)-1]
		}
		for len(s) < n {
			s += "z"
		}
	}
	return s
}

func genMailbox(rng *rand.Rand) (string, string) {
	switch rng.Intn(8) {
	case 0:
		v := []byte("inbox")
		for i := range v {
			if rng.Intn(2) == 0 {
				v[i] -= 32
			}
		}
		return string(v), "inbox-case"
	case 1:
		return []string{"&", "a&b", "&-", "&AOk-", "a&-b", "-&-", "&&"}[rng.Intn(7)], "ampersand"
	case 2:
		return []string{"é", "日本語/メール", "𝄞clef", "a\u00a0b", "x\uFFFDy"}[rng.Intn(5)] + fmt.Sprint(rng.Intn(10)), "unicode"
	case 3:
		return "ctl\x01\x1f\x7f" + fmt.Sprint(rng.Intn(10)), "control"
	case 4:
		return "with space \"quoted\" \\bs", "specials"
	case 5:
		// only the name INBOX itself is case-insensitive: names that merely start with it are ordinary names
		pre := []byte("inbox")
		for i := range pre {
			if rng.Intn(2) == 0 {
				pre[i] -= 32
			}
		}
		return string(pre) + []string{"/sub", "es", "-2023", "2/Lists", ".old", " ", "x", "/"}[rng.Intn(8)] + fmt.Sprint(rng.Intn(10)), "inbox-prefix"
	case 6:
		return strings.Repeat("é", 2100), "long-unicode" // UTF-7 form longer than 4096 bytes
	}
	var sb strings.Builder
	for i := 1 + rng.Intn(12); i > 0; i-- {
		switch rng.Intn(5) {
		case 0:
			sb.WriteRune(rune(0x80 + rng.Intn(0x2000)))
		case 1:
			sb.WriteByte('&')
		case 2:
			sb.WriteRune(rune(0x10000 + rng.Intn(0x1000)))
		default:
			sb.WriteByte(byte(0x20 + rng.Intn(0x5f)))
		}
	}
	return sb.String(), "random"
}

func body(w *hx.W) {
	c := &checker{w: w}
	modes := allModes()
	rng := w.Rand("c01")
	lengths := []int{0, 1, 2, 63, 4095, 4096, 4097, 5000}
	idx := 0
	for _, m := range modes {
		// strings: class x length
		for _, sc := range strClasses {
			for _, n := range lengths {
				idx++
				if !w.Mine(idx) {
					continue
				}
				s := genString(rng, sc, n)
				c.str(m, s, sc)
				w.CaseStr(m.String() + "|str|" + s)
				if idx%977 == 0 {
					e := newEnc(m)
					e.String(s)
					e.CRLF()
					w.Sample(map[string]string{"kind": "string", "mode": m.String(), "class": sc, "value": qs(s), "wire": hx.Hex(e.buf.Bytes(), 80)})
				}
			}
		}
		if !w.Mine(idx / 7) {
			continue
		}
		// flags and attributes
		var flags []string
		for _, f := range wellKnownFlags {
			flags = append(flags, string(f), strings.ToLower(string(f)), strings.ToUpper(string(f)))
		}
		flags = append(flags, "\\*", "custom", "$Label1", "\\Custom", "a.b-c", "NIL", "é", "\\é")
		// keywords and extension flags are not case-normalised: every spelling is a value of its own,
		// whatever was decoded before in this process
		flags = append(flags, "$MyLabel", "$MYLABEL", "$mylabel", "$MyLabel", "CUSTOM", "Custom", "\\X-Ext", "\\x-ext", "\\X-EXT", "$label1")
		flags = append(flags, "", "\\", "a b", "a\\b", "\\\\x", "a(b", "a)b", "a{b", "a%b", "a*b", "\\**", "a\"b", "a]b", "a\r\nb", "a\x00b", "a\x7fb", "\\ x", " ", "\\a b")
		for _, f := range flags {
			c.flag(m, f)
			w.CaseStr(m.String() + "|flag|" + f)
		}
		var attrs []string
		for _, a := range wellKnownAttrs {
			attrs = append(attrs, string(a), strings.ToLower(string(a)), strings.ToUpper(string(a)))
		}
		attrs = append(attrs, "\\X-Custom", "\\é", "\\x-custom", "\\X-CUSTOM", "\\X-Custom")
		attrs = append(attrs, "", "\\", "NoBackslash", "\\a b", "\\a\\b", "\\a(b", "\\*", "\\a\r\nb", "\\ ", "\\a]")
		for _, a := range attrs {
			c.attr(m, a)
			w.CaseStr(m.String() + "|attr|" + a)
		}
		c.numbers(m)
		w.CaseStr(m.String() + "|numbers")
		// number sets
		sets := []imap.NumSet{imap.SeqSet{}, imap.UIDSet{}, imap.SeqSet(nil), imap.SearchRes(), imap.SeqSetNum(1), imap.UIDSetNum(4294967295), imap.SeqSetNum(0)}
		for i := 0; i < 60; i++ {
			var ss imap.SeqSet
			var us imap.UIDSet
			for k := rng.Intn(5); k >= 0; k-- {
				a, b := randNum(rng), randNum(rng)
				if rng.Intn(2) == 0 {
					ss.AddNum(a)
					us.AddNum(imap.UID(a))
				} else {
					ss.AddRange(a, b)
					us.AddRange(imap.UID(a), imap.UID(b))
				}
			}
			sets = append(sets, ss, us)
		}
		for _, ns := range sets {
			desc := fmt.Sprintf("%T:%s", ns, ns.String())
			c.numset(m, ns, desc)
			w.CaseStr(m.String() + "|numset|" + desc)
		}
		// nesting
		for _, dpt := range []int{1, 2, 3, 10, 40, 500, 998, 999, 1000, 1001, 5000} {
			c.nesting(m, dpt)
			w.CaseStr(fmt.Sprintf("%s|nest|%d", m, dpt))
		}
		// streamed literals
		for _, n := range []int{0, 1, 4096, 4097, 70000} {
			c.literalStream(m, []byte(genString(rng, "mixed", n)))
			w.CaseStr(fmt.Sprintf("%s|lit|%d", m, n))
		}
	}
	// real synchronising exchanges (client-side encoders without LITERAL+)
	si := 0
	for _, m := range modes {
		if !m.client || m.lplus {
			continue
		}
		for _, sc := range []string{"nul", "crlf-cmd", "badutf8", "utf8", "lf", "atom"} {
			for _, n := range []int{1, 63, 4096, 4097, 5000} {
				si++
				if !w.Mine(si) {
					continue
				}
				c.syncExchange(m, genString(rng, sc, n), sc)
				w.CaseStr(fmt.Sprintf("%s|sync|%s|%d", m, sc, n))
			}
		}
	}
	// long-lived encoder/decoder pairs
	for mi, m := range modes {
		if !w.Mine(mi) {
			continue
		}
		for k := 0; k < w.Pick(1, 6); k++ {
			c.session(m, rng, w.Pick(2600, 6000))
			w.CaseStr(fmt.Sprintf("%s|session|%d", m, k))
		}
	}
	// mailboxes + random composition
	n := w.Pick(4000, 120000)
	for i := 0; i < n; i++ {
		m := modes[rng.Intn(len(modes))]
		name, class := genMailbox(rng)
		c.mailbox(m, name, class)
		w.CaseStr(m.String() + "|mbox|" + name)
		if i%5 == 0 {
			sc := strClasses[rng.Intn(len(strClasses))]
			ln := lengths[rng.Intn(len(lengths))]
			if ln > 100 && rng.Intn(3) != 0 {
				ln = rng.Intn(100)
			}
			// random mixture of two classes
			s := genString(rng, sc, ln) + genString(rng, strClasses[rng.Intn(len(strClasses))], rng.Intn(20))
			c.str(m, s, "mix")
			w.CaseStr(m.String() + "|str|" + s)
		}
		if i == 0 {
			e := newEnc(m)
			e.Mailbox(name)
			e.CRLF()
			w.Sample(map[string]string{"kind": "mailbox", "mode": m.String(), "name": qs(name), "wire": hx.Hex(e.buf.Bytes(), 80)})
		}
	}
}

func randNum(rng *rand.Rand) uint32 {
	switch rng.Intn(6) {
	case 0:
		return 0
	case 1:
		return 1<<32 - 1 - uint32(rng.Intn(3))
	}
	return uint32(1 + rng.Intn(50))
}

func main() {
	hx.Main(hx.Spec{
		ID:    "C01",
		Level: "exploration",
		Rule: "values = byte strings from 15 classes (empty, atom-safe, quote, backslash, NUL, CR, LF, CRLF+command text, literal look-alikes, valid and invalid UTF-8, ...) x lengths {0,1,2,63,4095,4096,4097,5000}, mailbox names (INBOX case variants, '&', unicode, controls, >4096-byte UTF-7 forms), all well-known and malformed flags/attributes, boundary numbers, number sets of both flavours and '$', list nestings up to and beyond the cap, streamed literals; " +
			"each under all 16 encoder modes (side x QuotedUTF8 x LiteralMinus x LiteralPlus); distinct = distinct (mode, kind, value)",
		Assumptions: []string{
			"sync literals are encoded with a continuation request that has already been granted",
			"legal syntax is judged by the independent tokenizer internal/wiretok; 8-bit bytes in flags/attributes are not demanded to be refused (the library's atom test admits them), only their round trip is checked",
			"canonicalisations: INBOX case-fold, the 11 well-known flags and 17 well-known attributes are case-normalised by the decoder",
		},
		WallQuick: 20 * time.Minute, WallThorough: 120 * time.Minute,
	}, body)
}
