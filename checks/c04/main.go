// C04 — server command framing: literal payloads are never parsed as commands.
//
// Monitor: a raw scripted client drives a real imapserver connection (recording
// stub backend) in lock-step. An independent framer (the dialogue generator
// itself, which knows which bytes are command text and which are literal payload
// by construction) predicts the commands; payloads are built from marker
// commands with unique tags and unique names, so a tagged response or a backend
// call that carries a marker is unambiguous evidence that payload bytes were
// executed. The park signal of vconn decides "no response is coming" without a
// timeout.
package main

import (
	"bytes"
	"encoding/base64"
	"fmt"
	"io"
	"math/rand"
	"strings"
	"sync/atomic"
	"time"

	imap "github.com/emersion/go-imap/v2"
	"github.com/emersion/go-imap/v2/verif/internal/hx"
	"github.com/emersion/go-imap/v2/verif/internal/kit"
	"github.com/emersion/go-imap/v2/verif/internal/vconn"
)

const appendLimit = 100 * 1024 * 1024

// piece is a chunk of client bytes sent at once; if waitCont is set the client
// then waits for the server's reaction ('+', tagged response, close).
type piece struct {
	data     []byte
	waitCont bool   // the piece ends with a synchronising literal header
	contKind string // "literal" | "auth" | "idle"
	// awaitPlus: after sending, only wait until a '+' line has arrived (the
	// server may still be writing from its IDLE goroutine, so no quiescent point
	// is demanded and the output is checked with the next piece)
	awaitPlus bool
}

type command struct {
	tag       string
	desc      string
	pieces    []piece
	extraTags []string // further complete commands pipelined in the last piece (each must be answered too)
	mayClose  bool     // the line is not a command at all: the server may drop the connection without any reply
	truncated bool     // an oversized literal was announced but its payload is not sent in full: stop the dialogue afterwards
	// expectations about arguments that reach the backend when the command is accepted
	wantMethod string
	wantArg    string // exact value the first string argument must have if the method is called
	hasArg     bool
}

type dialogue struct {
	caps  string
	cmds  []command
	class string
	// delivery: "" = lock-step (one piece, then wait for the server's reaction);
	// "pipelined" = the whole dialogue in a single write (only for dialogues
	// without synchronising exchanges)
	delivery string
	maxRead  int   // if >0 the server's reads return at most this many bytes (segmentation)
	panicAt  int64 // the stub backend panics inside Append after reading this many octets of the literal
	stream   bool  // the stub backend pushes updates from its Idle goroutine and returns literals from Fetch
}

type gen struct {
	rng     *rand.Rand
	nTag    int
	nMarker int
}

func (g *gen) tag() string { g.nTag++; return fmt.Sprintf("T%d", g.nTag) }

// markerPayload returns payload bytes of exactly n bytes made of command-like
// text with unique marker tags / names (padded with harmless bytes).
func (g *gen) markerPayload(n int) []byte {
	var b bytes.Buffer
	styles := g.rng.Intn(4)
	for b.Len() < n {
		g.nMarker++
		m := g.nMarker
		switch styles {
		case 0:
			fmt.Fprintf(&b, "\r\nMK%d CREATE MARKER%d\r\n", m, m)
		case 1:
			fmt.Fprintf(&b, "MK%d LOGIN MARKER%d pw\r\nMK%db DELETE MARKER%d\r\n", m, m, m, m)
		case 2:
			fmt.Fprintf(&b, "x {3}\r\nabc\r\nMK%d SUBSCRIBE MARKER%d\r\n", m, m)
		default:
			fmt.Fprintf(&b, "MK%d LOGOUT\r\nMK%dc CREATE MARKER%d\r\n", m, m, m)
		}
	}
	out := b.Bytes()[:n]
	return out
}

type strForm int

const (
	fQuoted strForm = iota
	fSync
	fNonSync
	fLit8NonSync
)

// arg renders one string argument; returns the pieces it adds. cur is the piece
// being built.
func (g *gen) arg(cur *[]byte, pieces *[]piece, form strForm, payload []byte) {
	switch form {
	case fQuoted:
		*cur = append(*cur, '"')
		for _, ch := range payload {
			if ch == '"' || ch == '\\' {
				*cur = append(*cur, '\\')
			}
			*cur = append(*cur, ch)
		}
		*cur = append(*cur, '"')
	case fSync:
		*cur = append(*cur, fmt.Sprintf("{%d}\r\n", len(payload))...)
		*pieces = append(*pieces, piece{data: *cur, waitCont: true, contKind: "literal"})
		*cur = append([]byte(nil), payload...)
	case fNonSync, fLit8NonSync:
		if form == fLit8NonSync {
			*cur = append(*cur, '~')
		}
		*cur = append(*cur, fmt.Sprintf("{%d+}\r\n", len(payload))...)
		if g.rng.Intn(3) == 0 { // sometimes the header and the payload travel in separate segments
			*pieces = append(*pieces, piece{data: *cur})
			*cur = nil
		}
		*cur = append(*cur, payload...)
	}
}

var sizes = []int{0, 1, 100, 4096, 4097, 5000}

func quotable(n int) []byte { return bytes.Repeat([]byte("q"), n) }

// build a command from a template: parts are literal text or argument slots.
func (g *gen) command(state string, sizeIdx int, form strForm) command {
	c := command{tag: g.tag()}
	n := sizes[sizeIdx]
	var payload []byte
	if form == fQuoted {
		payload = quotable(n % 900)
	} else {
		payload = g.markerPayload(n)
	}
	cur := []byte(c.tag + " ")
	var pieces []piece
	type tmpl struct {
		pre, post, method string
		lit8              bool
	}
	var ts []tmpl
	switch state {
	case "notauth":
		ts = []tmpl{{"LOGIN ", " secret", "Login", false}, {"LOGIN user ", "", "", false}}
	case "auth":
		ts = []tmpl{{"CREATE ", "", "Create", false}, {"RENAME ", " other", "Rename", false}, {"STATUS ", " (MESSAGES)", "Status", false},
			{`LIST "" `, "", "", false}, {"SUBSCRIBE ", "", "Subscribe", false}, {"SELECT ", "", "Select", false}, {"DELETE ", "", "Delete", false}}
	default:
		ts = []tmpl{{"SEARCH SUBJECT ", "", "", false}, {"SEARCH HEADER X-A ", " UNSEEN", "", false}, {"COPY 1 ", "", "Copy", false},
			{"FETCH 1 BODY[HEADER.FIELDS (", ")]", "", false}, {"UID SEARCH TEXT ", "", "", false}}
	}
	t := ts[g.rng.Intn(len(ts))]
	if form == fLit8NonSync {
		form = fNonSync // '~' is only grammatical for APPEND; see appendCommand
	}
	cur = append(cur, t.pre...)
	g.arg(&cur, &pieces, form, payload)
	cur = append(cur, t.post...)
	cur = append(cur, "\r\n"...)
	pieces = append(pieces, piece{data: cur})
	c.pieces = pieces
	c.desc = fmt.Sprintf("%s%s%s form=%d size=%d", t.pre, "<arg>", t.post, form, n)
	if t.method != "" && (t.method == "Login" || state == "auth") {
		c.wantMethod, c.wantArg, c.hasArg = t.method, string(payload), true
	}
	return c
}

func (g *gen) appendCommand(sizeSel int, form strForm, withFlags bool) command {
	c := command{tag: g.tag()}
	var n int64
	switch sizeSel {
	case 6:
		n = appendLimit + 1
	case 7:
		n = appendLimit
	default:
		n = int64(sizes[sizeSel])
	}
	cur := []byte(c.tag + " APPEND box ")
	if withFlags {
		cur = append(cur, `(\Seen) "14-Jul-2023 10:00:00 +0000" `...)
	}
	var pieces []piece
	sendN := n
	if n > 1<<20 {
		sendN = 300 // announce a huge literal, send only some marker text
		c.truncated = true
	}
	payload := g.markerPayload(int(sendN))
	hdr := ""
	switch form {
	case fSync:
		hdr = fmt.Sprintf("{%d}\r\n", n)
	case fNonSync:
		hdr = fmt.Sprintf("{%d+}\r\n", n)
	case fLit8NonSync:
		hdr = fmt.Sprintf("~{%d+}\r\n", n)
	default:
		hdr = fmt.Sprintf("{%d+}\r\n", n)
	}
	cur = append(cur, hdr...)
	if form == fSync {
		pieces = append(pieces, piece{data: cur, waitCont: true, contKind: "literal"})
		cur = nil
	}
	cur = append(cur, payload...)
	if !c.truncated {
		cur = append(cur, "\r\n"...)
	}
	pieces = append(pieces, piece{data: cur})
	c.pieces = pieces
	c.desc = fmt.Sprintf("APPEND form=%d announced=%d sent=%d", form, n, sendN)
	return c
}

// special commands: syntax errors before a literal, trailing garbage, AUTHENTICATE, IDLE
func (g *gen) special(kind int) command {
	c := command{tag: g.tag()}
	p := g.markerPayload(40 + g.rng.Intn(60))
	switch kind {
	case 0:
		c.pieces = []piece{{data: []byte(fmt.Sprintf("%s NOOP {%d+}\r\n%s\r\n", c.tag, len(p), p))}}
		c.desc = "NOOP with a trailing non-sync literal"
	case 1:
		c.pieces = []piece{{data: []byte(fmt.Sprintf("%s FROBNICATE x {%d+}\r\n%s\r\n", c.tag, len(p), p))}}
		c.desc = "unknown command with a non-sync literal"
	case 2:
		c.pieces = []piece{{data: []byte(fmt.Sprintf("%s LOGIN a b c {%d+}\r\n%s\r\n", c.tag, len(p), p))}}
		c.desc = "too many arguments then a non-sync literal"
	case 3:
		c.pieces = []piece{{data: []byte(fmt.Sprintf("%s STATUS box (BOGUS {%d+}\r\n%s)\r\n", c.tag, len(p), p))}}
		c.desc = "bad status item then a non-sync literal"
	case 4:
		c.pieces = []piece{{data: []byte(fmt.Sprintf("%s CREATE {3+}\r\nabc garbage {%d+}\r\n%s\r\n", c.tag, len(p), p))}}
		c.desc = "trailing garbage with a second literal after an accepted literal"
	case 5:
		c.pieces = []piece{{data: []byte(fmt.Sprintf("%s NOOP {%d}\r\n", c.tag, len(p))), waitCont: true, contKind: "literal"}, {data: append(append([]byte(nil), p...), "\r\n"...)}}
		c.desc = "NOOP with a trailing sync literal"
	case 6:
		c.pieces = []piece{{data: []byte(c.tag + " AUTHENTICATE PLAIN\r\n"), waitCont: true, contKind: "auth"}, {data: []byte(base64.StdEncoding.EncodeToString([]byte("\x00u\x00p")) + "\r\n")}}
		c.desc = "AUTHENTICATE with continuation"
	case 7:
		c.pieces = []piece{{data: []byte(c.tag + " AUTHENTICATE PLAIN\r\n"), waitCont: true, contKind: "auth"}, {data: []byte("*\r\n")}}
		c.desc = "AUTHENTICATE cancelled"
	case 8:
		c.pieces = []piece{{data: []byte(c.tag + " AUTHENTICATE PLAIN\r\n"), waitCont: true, contKind: "auth"}, {data: []byte("!!notbase64!!\r\n")}}
		c.desc = "AUTHENTICATE with a malformed response"
	case 9:
		c.pieces = []piece{{data: []byte(c.tag + " IDLE\r\n"), waitCont: true, contKind: "idle"}, {data: []byte("DONE\r\n")}}
		c.desc = "IDLE / DONE"
	case 10:
		c.pieces = []piece{{data: []byte(c.tag + " IDLE\r\n"), waitCont: true, contKind: "idle"}, {data: []byte(fmt.Sprintf("MK%d CREATE MARKER%d\r\n", g.nMarker+1, g.nMarker+1))}}
		g.nMarker++
		c.desc = "IDLE ended by a wrong line"
	case 11:
		long := strings.Repeat("D", 5000)
		c.pieces = []piece{{data: []byte(c.tag + " IDLE\r\n"), waitCont: true, contKind: "idle"}, {data: []byte(long + "\r\n")}}
		c.desc = "IDLE ended by an over-long line"
	case 12:
		c.pieces = []piece{{data: []byte(fmt.Sprintf("%s SELECT (x {%d+}\r\n%s\r\n", c.tag, len(p), p))}}
		c.desc = "syntax error (list where a mailbox is expected) then non-sync literal"
	case 14:
		c.pieces = []piece{{data: []byte(fmt.Sprintf("%s APPEND box {3+}\r\nabcXYZ\r\n", c.tag))}}
		c.desc = "APPEND with garbage right after the literal"
	case 15:
		c.pieces = []piece{{data: []byte(fmt.Sprintf("%s APPEND box (\\Seen) {3}\r\n", c.tag)), waitCont: true, contKind: "literal"}, {data: []byte("abc extra words\r\n")}}
		c.desc = "APPEND (sync literal) with trailing words after the literal"
	case 16:
		c.pieces = []piece{{data: []byte(fmt.Sprintf("%s LIST \"\" {4+}\r\n&AA- RETURN (CHILDREN)\r\n", c.tag))}}
		c.desc = "LIST whose accepted literal pattern is invalid UTF-7, with more text on the line"
	case 17:
		c.pieces = []piece{{data: []byte(fmt.Sprintf("%s STATUS {3+}\r\nbox (BOGUS-ITEM MESSAGES)\r\n", c.tag))}}
		c.desc = "STATUS with an accepted literal then an unknown item"
	case 18:
		c.pieces = []piece{{data: []byte(fmt.Sprintf("%s SELECT {5}\r\n", c.tag)), waitCont: true, contKind: "literal"}, {data: []byte("&AAAA extra tokens\r\n")}}
		c.desc = "SELECT with an accepted sync literal (invalid UTF-7) and trailing tokens"
	case 19:
		g.nMarker++
		c.pieces = []piece{{data: []byte(fmt.Sprintf("%s LIST \"\" {4+}\r\n&AA-MK%d CREATE MARKER%d\r\n", c.tag, g.nMarker, g.nMarker))}}
		c.desc = "LIST whose accepted literal is invalid UTF-7, directly followed by command-like text on the same line"
	case 20:
		// the IDLE goroutine writes updates while DONE and the next commands arrive
		c.pieces = []piece{{data: []byte(c.tag + " IDLE\r\n"), waitCont: true, contKind: "idle", awaitPlus: true}, {data: []byte("DONE\r\n")}}
		c.desc = "IDLE with a stream of updates, DONE"
	case 21:
		t2, t3 := g.tag(), g.tag()
		c.extraTags = []string{t2, t3}
		c.pieces = []piece{{data: []byte(c.tag + " IDLE\r\n"), waitCont: true, contKind: "idle", awaitPlus: true},
			{data: []byte("DONE\r\n" + t2 + " FETCH 1:3 (BODY[] FLAGS)\r\n" + t3 + " STATUS box (MESSAGES UNSEEN)\r\n")}}
		c.desc = "IDLE with a stream of updates, then DONE and two more commands in one segment"
	case 22:
		g.nMarker++
		c.pieces = []piece{{data: []byte(fmt.Sprintf("{16+}\r\nMK%d OK forged\r\n%s NOOP\r\n", g.nMarker, c.tag))}}
		c.desc = "a non-synchronising literal where the tag should be"
		c.mayClose = true
	case 23:
		c.pieces = []piece{{data: []byte("{2}\r\n")}, {data: []byte(c.tag + " NOOP\r\n")}}
		c.desc = "a synchronising literal header where the tag should be"
		c.mayClose = true
	case 24:
		c.pieces = []piece{{data: []byte(fmt.Sprintf("\"A 1\" NOOP\r\n%s NOOP\r\n", c.tag))}}
		c.desc = "a quoted string where the tag should be"
		c.mayClose = true
	case 13:
		c.pieces = []piece{{data: []byte(fmt.Sprintf("%s LOGIN {%d+}\r\n%s {2+}\r\nhi\r\n", c.tag, len(p), p))}}
		c.desc = "two non-sync literals (may be refused after authentication)"
	}
	return c
}

// longLine: a command that is rejected before its end of line, followed on the SAME line by n bytes of
// command-like text. Everything up to the CRLF belongs to this command.
var longSizes = []int{200, 3000, 4000, 4090, 4096, 4100, 5000, 8192, 9000, 70000}

func (g *gen) longLine(n, variant int) command {
	c := command{tag: g.tag()}
	var b bytes.Buffer
	for b.Len() < n {
		g.nMarker++
		fmt.Fprintf(&b, "MK%d CREATE MARKER%d ", g.nMarker, g.nMarker)
	}
	pad := b.String()[:n]
	pre := []string{"NOOP ", "FROBNICATE ", "LOGIN a b ", "STATUS box (MESSAGES) ", "CREATE \"a\" ", "SELECT (", "UID ", "SEARCH BOGUSKEY "}[variant%8]
	c.pieces = []piece{{data: []byte(c.tag + " " + pre + pad + "\r\n")}}
	c.desc = fmt.Sprintf("rejected command %q followed by %d bytes on the same line", strings.TrimSpace(pre), n)
	return c
}

func plain(tag, text string) command {
	return command{tag: tag, desc: text, pieces: []piece{{data: []byte(tag + " " + text + "\r\n")}}}
}

// ---- execution -------------------------------------------------------------

type result struct {
	Config   string   `json:"config"`
	Commands []string `json:"commands"`
	Events   []string `json:"events"`
}

type runner struct {
	w      *hx.W
	srv    map[string]*kit.Server
	stream atomic.Bool
	// panicAppend: the stub backend panics inside Session.Append after reading this many octets
	// of the message literal (0 = off)
	panicAppend atomic.Int64
	panicsSeen  map[string]int
}

// handler is the stub backend's behaviour: the default one, except that while a
// "stream" dialogue runs Idle pushes a burst of unilateral updates from its own
// goroutine (so that they race with whatever the connection goroutine writes
// next) and Fetch returns a body literal made of response-like text.
func (r *runner) handler(s *kit.Sess, c *kit.Call, w *kit.Writers) kit.Result {
	if !r.stream.Load() {
		switch c.Method {
		case "Login":
			if strings.HasPrefix(c.Username, "bad") {
				return kit.Result{Err: &imap.Error{Type: imap.StatusResponseTypeNo, Code: imap.ResponseCodeAuthenticationFailed, Text: "no"}}
			}
		case "Append":
			if n := r.panicAppend.Load(); n > 0 {
				buf := make([]byte, n)
				io.ReadFull(w.Literal, buf)
				panic("stub backend: failure in the middle of the message literal")
			}
		case "Fetch":
			// echo the requested sections (the section specification, including header field
			// names that arrived as literals, is written back by the server)
			if live := kit.LiveFetchOptions(c); live != nil && len(live.BodySection) > 0 {
				m := w.Fetch.CreateMessage(1)
				m.WriteUID(imap.UID(1))
				for _, sec := range live.BodySection {
					wc := m.WriteBodySection(sec, 4)
					wc.Write([]byte("x\r\ny"))
					wc.Close()
				}
				m.Close()
				return kit.Result{}
			}
		}
		return kit.DefaultHandler(s, c, w)
	}
	switch c.Method {
	case "Idle":
		n := uint32(3)
		for i := 0; i < 300; i++ {
			select {
			case <-w.Stop:
				return kit.Result{}
			default:
			}
			var err error
			switch i % 4 {
			case 0:
				n++
				err = w.Update.WriteNumMessages(n)
			case 1:
				err = w.Update.WriteMessageFlags(1, imap.UID(1), []imap.Flag{imap.FlagSeen, imap.Flag("$Label" + fmt.Sprint(i))})
			case 2:
				err = w.Update.WriteMailboxFlags([]imap.Flag{imap.FlagSeen, imap.FlagDeleted, imap.Flag("kw" + fmt.Sprint(i))})
			case 3:
				n--
				err = w.Update.WriteExpunge(1)
			}
			if err != nil {
				return kit.Result{}
			}
		}
		<-w.Stop
		return kit.Result{}
	case "Fetch":
		body := []byte("x\r\nSMUGGLED1 OK not a response\r\n* 9 EXISTS\r\n+ go ahead\r\n")
		for seq := uint32(1); seq <= 3; seq++ {
			m := w.Fetch.CreateMessage(seq)
			m.WriteUID(imap.UID(seq))
			for _, sec := range kit.LiveFetchOptions(c).BodySection {
				wc := m.WriteBodySection(sec, int64(len(body)))
				wc.Write(body)
				wc.Close()
			}
			m.WriteFlags([]imap.Flag{imap.FlagSeen})
			m.Close()
		}
		return kit.Result{}
	}
	return kit.DefaultHandler(s, c, w)
}

func capsFor(name string) imap.CapSet {
	switch name {
	case "rev1-noauth":
		return imap.CapSet{imap.CapIMAP4rev1: {}}
	case "rev1+literal+":
		return imap.CapSet{imap.CapIMAP4rev1: {}, imap.CapLiteralPlus: {}}
	case "rev2":
		return imap.CapSet{imap.CapIMAP4rev2: {}}
	}
	return imap.CapSet{imap.CapIMAP4rev1: {}}
}

func (r *runner) run(d *dialogue) {
	w := r.w
	srv := r.srv[d.caps]
	raw := srv.DialArm(func(sv *vconn.Conn) {
		if d.maxRead > 0 {
			sv.SetMaxRead(d.maxRead)
		}
	})
	defer raw.Close()
	r.stream.Store(d.stream)
	defer r.stream.Store(false)
	r.panicAppend.Store(d.panicAt)
	defer r.panicAppend.Store(0)
	res := result{Config: fmt.Sprintf("%s delivery=%s maxRead=%d", d.caps, d.delivery, d.maxRead)}
	ev := func(f string, a ...interface{}) {
		if len(res.Events) < 80 {
			res.Events = append(res.Events, fmt.Sprintf(f, a...))
		}
	}
	for _, c := range d.cmds {
		res.Commands = append(res.Commands, c.tag+": "+c.desc)
	}
	viol := func(class, cmdDesc, detail string) {
		// signature: defect class + command shape + server policy
		shape := cmdDesc
		if i := strings.Index(shape, " size="); i > 0 {
			shape = shape[:i] + sizeClass(shape[i:])
		}
		w.Violation(class+"@"+shape+"/"+d.caps, fmt.Sprintf("%s: %s (%s)", class, detail, cmdDesc), map[string]interface{}{"dialogue": res, "client_bytes": hx.Hex(raw.Log.Bytes("client"), 3000), "server_bytes": hx.Hex(raw.All(), 3000)})
	}
	out, cond := raw.Sync()
	if cond != "parked" || !bytes.HasPrefix(out, []byte("* OK")) {
		viol("greeting", "", fmt.Sprintf("%s %q", cond, out))
		return
	}
	sessions := srv.B.Sessions()
	sess := sessions[len(sessions)-1]
	callBase := srv.B.NCalls()
	realTags := map[string]*command{}
	answered := map[string]int{}
	status := map[string]string{}
	closed := false

	checkLines := func(c *command, out []byte, allowPlus bool) (lines []kit.RespLine, plus bool) {
		lines, rest := kit.ParseResponses(out)
		if len(rest) != 0 {
			viol("partial-response-line", c.desc, fmt.Sprintf("server output ends with an incomplete line %q", rest))
		}
		for _, l := range lines {
			if l.Status != "" || l.Tag == "+" {
				// status responses and continuation requests end in free text: only the
				// line framing is checked (exactly one CRLF, at the end; no NUL / bare CR / LF)
				body := bytes.TrimSuffix(l.Raw, []byte("\r\n"))
				if len(body) == len(l.Raw) || bytes.ContainsAny(body, "\r\n\x00") {
					viol("malformed-response-line", c.desc, fmt.Sprintf("bad line framing in %q", l.Raw))
				}
			} else if l.Strict.Any() {
				viol("malformed-response-line", c.desc, fmt.Sprintf("%s in %q", l.Strict, l.Raw))
			}
			switch {
			case l.Tag == "+":
				if !allowPlus || plus {
					viol("illegitimate-continuation-request", c.desc, fmt.Sprintf("'+' sent although no synchronising literal / AUTHENTICATE / IDLE is waiting for one: %q", l.Raw))
				}
				plus = true
			case l.Tag == "*":
			case l.Status != "":
				answered[l.Tag]++
				status[l.Tag] = l.Status
				if _, ok := realTags[l.Tag]; !ok {
					viol("tagged-response-for-payload-text", c.desc, fmt.Sprintf("tagged response %q does not answer any command that was sent (literal payload was parsed as a command)", bytes.TrimSpace(l.Raw)))
				} else if answered[l.Tag] > 1 {
					viol("duplicate-tagged-response", c.desc, fmt.Sprintf("second tagged response for %s: %q", l.Tag, bytes.TrimSpace(l.Raw)))
				}
			default:
				viol("malformed-response-line", c.desc, fmt.Sprintf("neither untagged, continuation nor tagged status: %q", l.Raw))
			}
		}
		return lines, plus
	}

	if d.delivery == "pipelined" {
		// the whole dialogue (and a final NOOP) in one write: the server must frame it
		// exactly as in lock-step
		var stream []byte
		var order []string
		for ci := range d.cmds {
			c := &d.cmds[ci]
			realTags[c.tag] = c
			order = append(order, c.tag)
			for _, p := range c.pieces {
				stream = append(stream, p.data...)
			}
		}
		fin := plain("FIN", "NOOP")
		realTags["FIN"] = &fin
		order = append(order, "FIN")
		stream = append(stream, fin.pieces[0].data...)
		raw.Send(stream)
		out, cond := raw.Sync()
		ev("S(%s): %s", cond, hx.Hex(out, 400))
		lastCmd := &d.cmds[len(d.cmds)-1]
		lines, _ := checkLines(lastCmd, out, false)
		if cond == "timeout" {
			viol("no-progress", lastCmd.desc, "server is neither waiting for input nor closed")
		}
		// tagged responses must answer the commands in the order sent, each once; all of
		// them unless the server closed the connection
		var got []string
		for _, l := range kit.Tagged(lines) {
			got = append(got, l.Tag)
		}
		k := 0
		for _, t := range got {
			if _, ok := realTags[t]; !ok {
				continue // already reported
			}
			for k < len(order) && order[k] != t {
				k++
			}
			if k == len(order) {
				viol("tagged-responses-out-of-order", lastCmd.desc, fmt.Sprintf("tagged responses %v for commands sent as %v", got, order))
				break
			}
		}
		if cond == "parked" {
			for _, t := range order {
				if answered[t] == 0 {
					viol("no-tagged-response", realTags[t].desc, fmt.Sprintf("pipelined dialogue: %s got no tagged response although the server consumed everything and waits for more (answered: %v)", t, got))
					break
				}
			}
		} else if cond == "closed" {
			// a prefix must have been answered: no gap before an answered command
			seenGap := ""
			for _, t := range order {
				if answered[t] == 0 {
					if seenGap == "" {
						seenGap = t
					}
				} else if seenGap != "" {
					viol("no-tagged-response", realTags[seenGap].desc, fmt.Sprintf("pipelined dialogue: %s was skipped but the later %s was answered (answered: %v)", seenGap, t, got))
					break
				}
			}
		}
		closed = true // (nothing more to send)
	}

dialogue:
	for ci := range d.cmds {
		if d.delivery == "pipelined" {
			break
		}
		c := &d.cmds[ci]
		realTags[c.tag] = c
		for _, t := range c.extraTags {
			realTags[t] = c
		}
		ev("C: %s (%s)", c.tag, c.desc)
		pendingPlus := false
		for pi, p := range c.pieces {
			if err := raw.Send(p.data); err != nil {
				closed = true
				break dialogue
			}
			if p.awaitPlus {
				// no quiescent point here (the IDLE goroutine keeps writing): wait for the
				// continuation request only; everything is checked with the next piece
				raw.WaitFor(func(b []byte) bool {
					return bytes.HasPrefix(b, []byte("+ ")) || bytes.Contains(b, []byte("\r\n+ ")) || bytes.Contains(b, []byte(c.tag+" "))
				}, kit.SyncTimeout)
				pendingPlus = true
				continue
			}
			out, cond := raw.Sync()
			last := pi == len(c.pieces)-1
			_, plus := checkLines(c, out, (p.waitCont || pendingPlus) && !(d.caps == "rev1-noauth" && p.contKind == "auth"))
			pendingPlus = false
			ev("S(%s): %s", cond, hx.Hex(out, 200))
			if cond == "timeout" {
				viol("no-progress", c.desc, "server is neither waiting for input nor closed")
				break dialogue
			}
			if cond == "closed" {
				closed = true
				break dialogue
			}
			if p.waitCont {
				if plus && answered[c.tag] > 0 && p.contKind == "literal" {
					viol("continuation-request-then-refusal", c.desc, "the server sent a continuation request for a synchronising literal and, before any octet of it was sent, a tagged completion for the same command: it asked for a literal it is not willing to accept")
				}
				if answered[c.tag] > 0 {
					break // refused: the rest of the command is not sent
				}
				if !plus {
					viol("silent-after-sync-literal", c.desc, "after a synchronising literal header (or AUTHENTICATE/IDLE) the server sent neither '+' nor a tagged response and waits for more input")
					break dialogue
				}
				continue
			}
			if last && !c.truncated && answered[c.tag] == 0 {
				viol("no-tagged-response", c.desc, "the command is complete and the server waits for the next command without having sent a tagged response")
				break dialogue
			}
			if last {
				for _, t := range c.extraTags {
					if answered[t] == 0 {
						viol("no-tagged-response", c.desc, "the pipelined command "+t+" got no tagged response although the server waits for the next command")
						break dialogue
					}
				}
			}
		}
		if c.truncated {
			break
		}
	}
	if !closed && d.delivery != "pipelined" {
		// a final well-formed command must still be answered (the connection is in sync)
		fin := plain("FIN", "NOOP")
		realTags["FIN"] = &fin
		last := d.cmds[len(d.cmds)-1]
		if !last.truncated {
			raw.Send(fin.pieces[0].data)
			out, cond := raw.Sync()
			checkLines(&fin, out, false)
			if cond == "parked" && answered["FIN"] != 1 {
				viol("out-of-sync", last.desc, fmt.Sprintf("a NOOP sent after the dialogue got %d tagged responses (%q)", answered["FIN"], out))
			}
		}
	}
	// backend calls: nothing may carry a marker as a whole argument
	for _, call := range srv.B.CallsSince(callBase) {
		if call.ConnID != sess.ID {
			continue
		}
		for _, v := range []string{call.Mailbox, call.Mailbox2, call.Username} {
			if strings.HasPrefix(v, "MARKER") {
				viol("payload-executed", "backend call "+call.Method, fmt.Sprintf("Session.%s(%q) was invoked from text that the client sent as literal payload", call.Method, v))
			}
		}
	}
	// accepted literal arguments must arrive byte-exact
	for _, c := range d.cmds {
		if !c.hasArg || status[c.tag] != "OK" {
			continue
		}
		found := false
		var seen []string
		for _, call := range srv.B.CallsSince(callBase) {
			if call.ConnID == sess.ID && call.Method == c.wantMethod {
				got := call.Mailbox
				if call.Method == "Login" {
					got = call.Username
				}
				seen = append(seen, got)
				if got == c.wantArg {
					found = true
				}
			}
		}
		if !found {
			viol("argument-altered", c.desc, fmt.Sprintf("command answered OK but Session.%s never received the literal argument unchanged (%d bytes); received %s", c.wantMethod, len(c.wantArg), hx.Hex([]byte(strings.Join(seen, "|")), 200)))
		}
	}
	if p := srv.Log.Panics(); len(p) > r.panicsSeen[d.caps] {
		if d.panicAt == 0 {
			viol("server-panic", "", p[r.panicsSeen[d.caps]])
		}
		r.panicsSeen[d.caps] = len(p)
	}
	w.Metric("dialogues", 1)
	w.Metric("commands", int64(len(d.cmds)))
}

func sizeClass(s string) string {
	var n int
	fmt.Sscanf(strings.TrimPrefix(s, " size="), "%d", &n)
	switch {
	case n <= 4096:
		return " size<=4096"
	default:
		return " size>4096"
	}
}

func body(w *hx.W) {
	r := &runner{w: w, srv: map[string]*kit.Server{}, panicsSeen: map[string]int{}}
	capsNames := []string{"rev1", "rev1+literal+", "rev2"}
	for _, cn := range append([]string{"rev1-noauth"}, capsNames...) {
		// "rev1-noauth": a plaintext server that does not accept credentials (InsecureAuth off): it is
		// not willing to accept an AUTHENTICATE exchange, so it must not ask for one
		s := kit.NewServer(kit.ServerCfg{Caps: capsFor(cn), InsecureAuth: cn != "rev1-noauth", Kind: kit.SessFull})
		s.B.Handler = r.handler
		r.srv[cn] = s
		defer s.Close()
	}
	g := &gen{rng: w.RandGlobal("dialogues")}
	idx := 0
	var emit func(d *dialogue)
	emit = func(d *dialogue) {
		idx++
		if !w.Mine(idx) {
			return
		}
		r.run(d)
		var sb strings.Builder
		for _, c := range d.cmds {
			for _, p := range c.pieces {
				sb.Write(p.data)
			}
		}
		w.Case(hx.HashStr(fmt.Sprintf("%s/%s/%d/", d.caps, d.delivery, d.maxRead) + sb.String()))
		w.Class(d.caps + "/" + d.class)
		if d.delivery == "pipelined" {
			w.Metric("dialogues_pipelined_in_one_write", 1)
		}
		if d.maxRead > 0 {
			w.Metric("dialogues_with_segmented_server_reads", 1)
		}
		if d.stream {
			w.Metric("dialogues_with_idle_update_stream", 1)
		}
		if idx%701 == 1 {
			var descs []string
			for _, c := range d.cmds {
				descs = append(descs, c.desc)
			}
			w.Sample(map[string]interface{}{"caps": d.caps, "class": d.class, "commands": descs, "first_bytes": hx.Hex([]byte(sb.String()), 160)})
		}
	}
	// every dialogue is run in lock-step; those without synchronising exchanges also as one
	// single write, and a share of them with the server's reads cut into 1..5-byte segments
	emit0 := emit
	nth := 0
	emit = func(d *dialogue) {
		emit0(d)
		nth++
		pipelinable := true
		for _, c := range d.cmds {
			if c.truncated {
				pipelinable = false
			}
			for _, p := range c.pieces {
				if p.waitCont {
					pipelinable = false
				}
			}
		}
		if pipelinable {
			d2 := *d
			d2.delivery, d2.class = "pipelined", d.class+"/pipelined"
			if nth%3 == 0 {
				d2.maxRead = 1 + nth%5
			}
			emit0(&d2)
		}
		if nth%4 == 0 {
			d3 := *d
			d3.maxRead, d3.class = 1+nth%5, d.class+"/segmented"
			emit0(&d3)
		}
	}
	prefix := func(state string) []command {
		var p []command
		if state != "notauth" {
			p = append(p, plain(g.tag(), "LOGIN user pass"))
		}
		if state == "selected" {
			// (with UTF8=ACCEPT / IMAP4rev2 enabled the server may quote 8-bit strings it echoes)
			switch g.rng.Intn(3) {
			case 0:
				p = append(p, plain(g.tag(), "ENABLE UTF8=ACCEPT"))
			case 1:
				p = append(p, plain(g.tag(), "ENABLE IMAP4rev2"))
			}
			p = append(p, plain(g.tag(), "SELECT box"))
		}
		return p
	}
	reps := w.Pick(6, 40)
	for rep := 0; rep < reps; rep++ {
		for _, cn := range capsNames {
			// systematic: state x size x form
			for _, state := range []string{"notauth", "auth", "selected"} {
				for si := range sizes {
					for form := fQuoted; form <= fNonSync; form++ {
						if form == fQuoted && si > 2 {
							continue
						}
						d := &dialogue{caps: cn, class: fmt.Sprintf("%s/arg/form%d/%s", state, form, strings.TrimSpace(sizeClass(fmt.Sprintf(" size=%d", sizes[si]))))}
						d.cmds = append(prefix(state), g.command(state, si, form))
						// follow with an innocuous command to see whether the stream is still in sync
						d.cmds = append(d.cmds, plain(g.tag(), "NOOP"))
						emit(d)
					}
				}
			}
			// APPEND
			for sizeSel := 0; sizeSel <= 6; sizeSel++ {
				for _, form := range []strForm{fSync, fNonSync, fLit8NonSync} {
					for _, state := range []string{"notauth", "auth"} {
						d := &dialogue{caps: cn, class: fmt.Sprintf("%s/append/form%d/sizesel%d", state, form, sizeSel)}
						d.cmds = append(prefix(state), g.appendCommand(sizeSel, form, g.rng.Intn(2) == 0))
						d.cmds = append(d.cmds, plain(g.tag(), "NOOP"))
						emit(d)
					}
				}
			}
			// specials
			for _, k := range []int{0, 1, 2, 3, 4, 5, 6, 7, 8, 9, 10, 11, 12, 13, 14, 15, 16, 17, 18, 19, 22, 23, 24} {
				for _, state := range []string{"notauth", "auth"} {
					if (k >= 9 && k <= 11) && state == "notauth" {
						continue
					}
					if (k >= 6 && k <= 8) && state != "notauth" {
						continue
					}
					d := &dialogue{caps: cn, class: fmt.Sprintf("%s/special%d", state, k)}
					d.cmds = append(prefix(state), g.special(k))
					d.cmds = append(d.cmds, plain(g.tag(), "NOOP"))
					emit(d)
				}
			}
			// the backend fails (panics) in the middle of an accepted APPEND literal: the rest of the
			// literal is still literal payload
			for _, sizeSel := range []int{2, 3, 5} {
				for _, form := range []strForm{fSync, fNonSync} {
					for _, at := range []int64{1, 40} {
						d := &dialogue{caps: cn, class: fmt.Sprintf("auth/append-backend-panic/form%d/sizesel%d", form, sizeSel), panicAt: at}
						d.cmds = append(prefix("auth"), g.appendCommand(sizeSel, form, false))
						d.cmds = append(d.cmds, plain(g.tag(), "NOOP"))
						emit(d)
					}
				}
			}
			// long-lived unauthenticated connections: dozens of failed logins whose user names arrive
			// as synchronising literals (well over 100 KiB of accepted literals on one connection)
			if rep%2 == 0 {
				d := &dialogue{caps: cn, class: "notauth/many-literals"}
				for k := 0; k < 45; k++ {
					c := command{tag: g.tag()}
					n := []int{2048, 3000, 4096}[k%3]
					payload := append([]byte("bad"), g.markerPayload(n-3)...)
					c.pieces = []piece{{data: []byte(fmt.Sprintf("%s LOGIN {%d}\r\n", c.tag, n)), waitCont: true, contKind: "literal"}, {data: append(append([]byte(nil), payload...), " pw\r\n"...)}}
					c.desc = "LOGIN with a synchronising literal user name (failing login, long-lived connection)"
					d.cmds = append(d.cmds, c)
				}
				d.cmds = append(d.cmds, plain(g.tag(), "NOOP"))
				emit(d)
			}
			// over-long lines of rejected commands
			for si, n := range longSizes {
				for v := 0; v < 8; v++ {
					if w.Quick() && (si+v+rep)%2 == 1 {
						continue
					}
					state := []string{"auth", "selected", "auth", "notauth"}[(v+si)%4]
					d := &dialogue{caps: cn, class: fmt.Sprintf("%s/long-line/%d/v%d", state, n, v)}
					d.cmds = append(prefix(state), g.longLine(n, v))
					d.cmds = append(d.cmds, plain(g.tag(), "NOOP"))
					emit(d)
				}
			}
			// the IDLE goroutine writes while the connection goroutine handles what follows
			for i := 0; i < w.Pick(4, 12); i++ {
				for _, k := range []int{20, 21} {
					d := &dialogue{caps: cn, class: fmt.Sprintf("selected/special%d", k), stream: true}
					d.cmds = append(prefix("selected"), g.special(k))
					d.cmds = append(d.cmds, plain(g.tag(), "FETCH 1:3 (BODY[])"), plain(g.tag(), "NOOP"))
					emit(d)
				}
			}
		}
		// a server that accepts no credentials on this (plaintext) connection must not start an
		// AUTHENTICATE exchange
		for _, k := range []int{6, 7, 8} {
			d := &dialogue{caps: "rev1-noauth", class: fmt.Sprintf("notauth/noauth-server/special%d", k)}
			d.cmds = []command{g.special(k), plain(g.tag(), "NOOP")}
			emit(d)
		}
		{
			d := &dialogue{caps: "rev1-noauth", class: "notauth/noauth-server/login"}
			d.cmds = []command{g.command("notauth", 2, fSync), plain(g.tag(), "NOOP")}
			emit(d)
		}
		// random multi-command dialogues
		for i := 0; i < w.Pick(150, 400); i++ {
			cn := capsNames[g.rng.Intn(3)]
			state := []string{"notauth", "auth", "selected"}[g.rng.Intn(3)]
			d := &dialogue{caps: cn, class: "random/" + state}
			d.cmds = prefix(state)
			for k := 1 + g.rng.Intn(4); k > 0; k-- {
				switch g.rng.Intn(6) {
				case 0:
					if state != "notauth" {
						d.cmds = append(d.cmds, g.appendCommand(g.rng.Intn(6), []strForm{fSync, fNonSync, fLit8NonSync}[g.rng.Intn(3)], g.rng.Intn(2) == 0))
						continue
					}
					fallthrough
				case 1:
					k2 := g.rng.Intn(20)
					if (k2 >= 6 && k2 <= 8) || (k2 >= 9 && k2 <= 11 && state == "notauth") {
						k2 = g.rng.Intn(6)
					}
					d.cmds = append(d.cmds, g.special(k2))
				default:
					st := state
					if st == "notauth" && len(d.cmds) > 0 {
						st = "notauth"
					}
					d.cmds = append(d.cmds, g.command(st, g.rng.Intn(len(sizes)), strForm(g.rng.Intn(3))))
				}
			}
			emit(d)
		}
	}
}

func main() {
	hx.Main(hx.Spec{
		ID:    "C04",
		Level: "exploration",
		Rule: "client dialogues = command templates in the three states x each string argument as quoted / synchronising / non-synchronising / literal8 literal x announced sizes {0,1,100,4096,4097,5000, APPEND limit, limit+1} x servers {IMAP4rev1 (LITERAL-), +LITERAL+, IMAP4rev2 only}, " +
			"syntax errors placed before a literal, trailing garbage after a literal, AUTHENTICATE and IDLE exchanges (incl. an Idle goroutine that streams updates while DONE and further commands arrive, and FETCH literals made of response-like text), plus seeded random multi-command dialogues; each dialogue delivered in lock-step, those without synchronising exchanges also in one single write, a share with the server's reads cut into 1..5-byte segments; payloads are marker commands; distinct = distinct (client byte stream, delivery)",
		Assumptions: []string{
			"a literal announced anywhere on a command line belongs to that command whether or not the command is valid (RFC 9051 §4.3, RFC 7888); for a refused non-synchronising literal both RFC 7888 behaviours are accepted: discard the announced octets and go on, or close the connection",
			"after a synchronising literal header the server must answer with '+' or with a tagged response; silently waiting is reported (no client can make progress)",
			"'server is parked' (blocked reading with everything consumed) is the logical barrier that decides that no response is coming",
		},
		Shards:    func(string) int { return 12 },
		WallQuick: 20 * time.Minute, WallThorough: 120 * time.Minute,
	}, body)
}
