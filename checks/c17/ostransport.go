package main

// The same two policies as credentialPolicy / clientSide, observed over the operating system's own
// transports instead of the in-process connection: a server accepted from a Unix-domain and from a
// loopback TCP listener (what Server.ListenAndServe and socket activation produce), and a client
// that goes through DialStartTLS (the only entry point that dials for itself). Nothing here leaves
// the machine. If the sandbox refuses a listener the transport is skipped and the evidence says so.

import (
	"bufio"
	"bytes"
	"crypto/tls"
	"encoding/base64"
	"fmt"
	"net"
	"os"
	"path/filepath"
	"strings"
	"time"

	imap "github.com/emersion/go-imap/v2"
	"github.com/emersion/go-imap/v2/imapclient"
	"github.com/emersion/go-imap/v2/verif/internal/hx"
	"github.com/emersion/go-imap/v2/verif/internal/kit"
	"github.com/emersion/go-imap/v2/verif/internal/vconn"
	"github.com/emersion/go-sasl"
)

// exchange sends a command and reads until the tagged completion (or a continuation request, or EOF).
func osExchange(conn net.Conn, br *bufio.Reader, cmd, tag string) []byte {
	conn.SetDeadline(time.Now().Add(30 * time.Second))
	if cmd != "" {
		conn.Write([]byte(cmd))
	}
	var out []byte
	for {
		line, err := br.ReadBytes('\n')
		out = append(out, line...)
		if err != nil {
			return out
		}
		if tag == "" || bytes.HasPrefix(line, []byte(tag+" ")) || bytes.HasPrefix(line, []byte("+")) {
			return out
		}
	}
}

func osServerTransports(w *hx.W) {
	plainIR := base64.StdEncoding.EncodeToString([]byte("\x00MARKERUSER\x00pw"))
	dir, err := os.MkdirTemp("", "c17sock")
	if err != nil {
		w.Notef("os transports: no temporary directory (%v): skipped", err)
		return
	}
	defer os.RemoveAll(dir)
	n := 0
	for _, network := range []string{"unix", "tcp"} {
		for _, withTLS := range []bool{false, true} {
			for _, insecure := range []bool{false, true} {
				for _, kind := range []kit.SessKind{kit.SessFull, kit.SessSASLk} {
					n++
					addr := "127.0.0.1:0"
					if network == "unix" {
						addr = filepath.Join(dir, fmt.Sprintf("s%d.sock", n))
					}
					ln, err := net.Listen(network, addr)
					if err != nil {
						w.Notef("os transports: cannot listen on %s (%v): skipped", network, err)
						w.Metric("os_listeners_refused/"+network, 1)
						continue
					}
					srv := kit.NewServer(kit.ServerCfg{Caps: imap.CapSet{imap.CapIMAP4rev1: {}}, InsecureAuth: insecure, TLS: withTLS, Kind: kind})
					srv.B.Mechs = []string{"PLAIN"}
					srv.B.Handler = func(s *kit.Sess, c *kit.Call, wr *kit.Writers) kit.Result {
						if c.Method == "Authenticate" {
							return kit.Result{SASL: sasl.NewPlainServer(func(identity, username, password string) error {
								return s.Login(username, password)
							})}
						}
						return kit.DefaultHandler(s, c, wr)
					}
					go srv.Srv.Serve(ln)
					cfg := fmt.Sprintf("%s-listener/tlsconfig=%v/insecure=%v/kind=%d", network, withTLS, insecure, kind)
					attempts := []struct{ name, first, second string }{
						{"LOGIN", "p1 LOGIN MARKERUSER pw\r\n", ""},
						{"AUTHENTICATE-IR", "p1 AUTHENTICATE PLAIN " + plainIR + "\r\n", ""},
						{"AUTHENTICATE", "p1 AUTHENTICATE PLAIN\r\n", plainIR + "\r\n"},
					}
					for _, at := range attempts {
						conn, err := net.Dial(network, ln.Addr().String())
						if err != nil {
							w.Notef("os transports: cannot dial %s (%v): skipped", network, err)
							break
						}
						br := bufio.NewReader(conn)
						greet := osExchange(conn, br, "", "")
						capOut := osExchange(conn, br, "c1 CAPABILITY\r\n", "c1")
						for where, out := range map[string][]byte{"greeting": greet, "CAPABILITY": capOut} {
							auth, disabled := bytes.Contains(out, []byte("AUTH=")), bytes.Contains(out, []byte("LOGINDISABLED"))
							if auth != insecure || disabled == insecure {
								w.Violation(fmt.Sprintf("server-auth-advertised-on-plaintext/%s/%s", cfg, where), fmt.Sprintf("%s on a plaintext connection [%s]: AUTH= advertised=%v LOGINDISABLED=%v (%q)", where, cfg, auth, disabled, out), nil)
							}
						}
						base := srv.B.NCalls()
						out := osExchange(conn, br, at.first, "p1")
						if at.second != "" && bytes.HasPrefix(out, []byte("+")) {
							out = append(out, osExchange(conn, br, at.second, "p1")...)
						}
						var got []string
						for _, c := range srv.B.CallsSince(base) {
							if c.Method == "Login" || c.Method == "Authenticate" {
								got = append(got, c.Method)
							}
						}
						if (len(got) > 0) != insecure {
							w.Violation(fmt.Sprintf("server-credentials-on-plaintext/%s/%s", cfg, at.name), fmt.Sprintf("%s on a plaintext connection [%s]: backend calls %v (%q)", at.name, cfg, got, out), nil)
						}
						if !insecure && bytes.Contains(out, []byte("p1 OK")) {
							w.Violation(fmt.Sprintf("server-credentials-on-plaintext/%s/%s", cfg, at.name), fmt.Sprintf("%s answered OK on a plaintext connection [%s] (%q)", at.name, cfg, out), nil)
						}
						conn.Close()
						w.Enumerated(1)
						w.Metric("os_transport_server_dialogues/"+network, 1)
						w.Class("server/credential-policy/os-" + network + "/" + fmt.Sprintf("tlsconfig=%v/insecure=%v", withTLS, insecure))
					}
					srv.Close()
					ln.Close()
				}
			}
		}
	}
}

// osClientDialStartTLS: a scripted loopback server greets, accepts STARTTLS and completes a real
// TLS handshake; DialStartTLS has to refuse the PREAUTH greetings, and (control) accept the OK one.
func osClientDialStartTLS(w *hx.W) {
	cert, _ := kit.TestCert()
	greetings := []struct {
		text    string
		preauth bool
	}{
		{"* OK [CAPABILITY IMAP4rev1 STARTTLS LOGINDISABLED] ready\r\n", false},
		{"* OK ready\r\n", false},
		{"* PREAUTH [CAPABILITY IMAP4rev1 STARTTLS] hello admin\r\n", true},
		{"* PREAUTH hello\r\n", true},
		{"* preauth [CAPABILITY IMAP4rev1 STARTTLS] lower case\r\n", true},
	}
	controlOK := false
	for gi, g := range greetings {
		ln, err := net.Listen("tcp", "127.0.0.1:0")
		if err != nil {
			w.Notef("os transports: cannot listen on loopback TCP (%v): DialStartTLS not exercised", err)
			w.Metric("os_listeners_refused/tcp", 1)
			return
		}
		served := make(chan string, 1)
		go func() {
			conn, err := ln.Accept()
			if err != nil {
				served <- "accept: " + err.Error()
				return
			}
			defer conn.Close()
			conn.SetDeadline(time.Now().Add(30 * time.Second))
			br := bufio.NewReader(conn)
			conn.Write([]byte(g.text))
			for {
				line, err := br.ReadString('\n')
				if err != nil {
					served <- "no STARTTLS received: " + err.Error()
					return
				}
				f := strings.Fields(line)
				if len(f) >= 2 && strings.EqualFold(f[1], "STARTTLS") {
					conn.Write([]byte(f[0] + " OK begin TLS negotiation now\r\n"))
					break
				}
				if len(f) >= 2 && strings.EqualFold(f[1], "CAPABILITY") {
					conn.Write([]byte("* CAPABILITY IMAP4rev1 STARTTLS\r\n" + f[0] + " OK done\r\n"))
					continue
				}
				if len(f) >= 1 {
					conn.Write([]byte(f[0] + " BAD not before STARTTLS\r\n"))
				}
			}
			tc := tls.Server(conn, &tls.Config{Certificates: []tls.Certificate{cert}})
			if err := tc.Handshake(); err != nil {
				served <- "handshake: " + err.Error()
				return
			}
			tbr := bufio.NewReader(tc)
			log := "handshake complete;"
			for {
				line, err := tbr.ReadString('\n')
				if err != nil {
					served <- log
					return
				}
				f := strings.Fields(line)
				if len(f) < 2 {
					continue
				}
				log += " " + strings.ToUpper(f[1])
				switch strings.ToUpper(f[1]) {
				case "CAPABILITY":
					tc.Write([]byte("* CAPABILITY IMAP4rev1 AUTH=PLAIN\r\n" + f[0] + " OK done\r\n"))
				case "LOGOUT":
					tc.Write([]byte("* BYE\r\n" + f[0] + " OK done\r\n"))
					served <- log
					return
				default:
					tc.Write([]byte(f[0] + " OK done\r\n"))
				}
			}
		}()
		type res struct {
			c   *imapclient.Client
			err error
		}
		ch := make(chan res, 1)
		go func() {
			c, err := imapclient.DialStartTLS(ln.Addr().String(), &imapclient.Options{TLSConfig: kit.ClientTLSConfig()})
			ch <- res{c, err}
		}()
		var r res
		select {
		case r = <-ch:
		case <-time.After(60 * time.Second):
			w.Violation(fmt.Sprintf("client-dialstarttls-never-returns/greeting%d", gi), fmt.Sprintf("DialStartTLS against a loopback server greeting %q has not returned after 60 s\n%s", g.text, hx.Goroutines("imapclient")), nil)
			ln.Close()
			continue
		}
		state := imap.ConnState(0)
		cmdOK := false
		if r.c != nil {
			state = r.c.State()
			cmdOK = r.c.Noop().Wait() == nil
			r.c.Close()
		}
		ln.Close()
		var srvLog string
		select {
		case srvLog = <-served:
		case <-time.After(30 * time.Second):
			srvLog = "(scripted server still running)"
		}
		if g.preauth {
			if r.err == nil {
				w.Violation(fmt.Sprintf("client-accepted-preauth-before-starttls/DialStartTLS/greeting%d", gi),
					fmt.Sprintf("DialStartTLS returned a usable client (state %v, NOOP succeeded=%v) although the plaintext greeting was %q; the server saw: %s", state, cmdOK, g.text, srvLog), nil)
			}
		} else if r.err != nil {
			w.Notef("os transports: control DialStartTLS with greeting %q failed (%v; server: %s)", g.text, r.err, srvLog)
		} else {
			controlOK = true
		}
		w.Enumerated(1)
		w.Metric("os_transport_client_dials", 1)
		w.Class(fmt.Sprintf("client/DialStartTLS/greeting%d", gi))
	}
	if !controlOK {
		w.Notef("os transports: no control DialStartTLS succeeded; the PREAUTH refusals above prove nothing on this machine")
		w.Metric("os_dialstarttls_control_failed", 1)
	}
}

// prefixConn sends a plaintext prefix in the same Write as the first bytes of its user (the TLS
// client's ClientHello) and strips the plaintext answer line in front of the first bytes it reads.
type prefixConn struct {
	net.Conn
	br       *bufio.Reader
	prefix   []byte
	sent     bool
	stripped bool
	answer   string
}

func (p *prefixConn) Write(b []byte) (int, error) {
	if !p.sent {
		p.sent = true
		if _, err := p.Conn.Write(append(append([]byte(nil), p.prefix...), b...)); err != nil {
			return 0, err
		}
		return len(b), nil
	}
	return p.Conn.Write(b)
}

func (p *prefixConn) Read(b []byte) (int, error) {
	if !p.stripped {
		line, err := p.br.ReadString('\n')
		p.answer = line
		if err != nil {
			return 0, err
		}
		p.stripped = true
		if !strings.HasPrefix(line, "a OK") {
			return 0, fmt.Errorf("STARTTLS answered %q", line)
		}
	}
	return p.br.Read(b)
}

// pipelinedClientHello: the bytes behind the STARTTLS line belong to the TLS handshake. A client
// that sends its ClientHello in the same segment as the STARTTLS line must get a working TLS
// session: the server has to hand what it had buffered to the handshake, not drop it.
func pipelinedClientHello(w *hx.W) {
	for _, insecure := range []bool{false, true} {
		cfg := fmt.Sprintf("insecure=%v", insecure)
		srv := kit.NewServer(kit.ServerCfg{Caps: imap.CapSet{imap.CapIMAP4rev1: {}}, InsecureAuth: insecure, TLS: true, Kind: kit.SessFull})
		log := &vconn.Log{}
		c, sv := vconn.Pipe("client", "server", log)
		srv.Ln.Inject(sv)
		br := bufio.NewReader(c)
		br.ReadString('\n') // greeting
		pc := &prefixConn{Conn: c, br: br, prefix: []byte("a STARTTLS\r\n")}
		tc := tls.Client(pc, kit.ClientTLSConfig())
		res := make(chan string, 1)
		go func() {
			if err := tc.Handshake(); err != nil {
				res <- "handshake: " + err.Error() + " (STARTTLS answer " + fmt.Sprintf("%q", pc.answer) + ")"
				return
			}
			tc.Write([]byte("c1 CAPABILITY\r\n"))
			tbr := bufio.NewReader(tc)
			var out string
			for {
				line, err := tbr.ReadString('\n')
				out += line
				if err != nil {
					res <- "inside TLS: " + err.Error() + " after " + fmt.Sprintf("%q", out)
					return
				}
				if strings.HasPrefix(line, "c1 ") {
					break
				}
			}
			if !strings.Contains(out, "c1 OK") || !strings.Contains(out, "AUTH=") {
				res <- fmt.Sprintf("CAPABILITY inside TLS answered %q", out)
				return
			}
			res <- ""
		}()
		select {
		case msg := <-res:
			if msg != "" {
				w.Violation("server-pipelined-clienthello-lost/"+cfg, fmt.Sprintf("STARTTLS line and ClientHello sent in one segment [%s]: %s; the bytes behind the STARTTLS line were not handed to the TLS handshake", cfg, msg), nil)
			}
		case <-time.After(60 * time.Second):
			w.Violation("server-pipelined-clienthello-lost/"+cfg, fmt.Sprintf("STARTTLS line and ClientHello sent in one segment [%s]: no TLS session after 60 s; the bytes behind the STARTTLS line were not handed to the TLS handshake\n%s", cfg, hx.Goroutines("imapserver")), nil)
		}
		c.Close()
		srv.Close()
		w.Enumerated(1)
		w.Class("server/pipelined-clienthello/" + cfg)
	}
}
