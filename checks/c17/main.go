// C17 — STARTTLS boundary: early plaintext is never treated as protected data.
//
// Server monitor: a raw client sends "a STARTTLS CRLF" followed by an injected
// plaintext suffix of marker commands under every split of the byte string into
// two writes (plus one write and byte-at-a-time), then tries the TLS handshake.
// No backend call and no tagged response may originate from the suffix, and
// everything the server writes after its tagged OK must be TLS records.
// Client monitor: a scripted peer answers the client's STARTTLS with OK followed
// by injected plaintext responses (same split enumeration) and then runs a real
// TLS server; no unilateral-data callback, capability, state change or command
// completion may come from the injected bytes; PREAUTH / BYE greetings must make
// NewStartTLS fail. Positive controls (no injection) make the monitors non-vacuous.
package main

import (
	"bufio"
	"bytes"
	"crypto/tls"
	"encoding/base64"
	"fmt"
	"strings"
	"sync"
	"time"

	imap "github.com/emersion/go-imap/v2"
	"github.com/emersion/go-imap/v2/imapclient"
	"github.com/emersion/go-imap/v2/verif/internal/hx"
	"github.com/emersion/go-imap/v2/verif/internal/kit"
	"github.com/emersion/go-imap/v2/verif/internal/vconn"
	"github.com/emersion/go-sasl"
)

// ---- server side ---------------------------------------------------------------

var serverSuffixes = []string{
	"",
	"m1 LOGIN MARKERUSER pw\r\n",
	"m1 LOGIN MARKERUSER pw\r\nm2 CREATE MARKERBOX\r\n",
	"m1 CAPABILITY\r\n",
	"m1 NOOP\r\nm2 LOGOUT\r\n",
	"m1 AUTHENTICATE PLAIN AE1BUktFUlVTRVIAcHc=\r\n",
	"m1 LOGIN {10+}\r\nMARKERUSER pw\r\n",
	"m1 LOGIN MARKERUSER pw", // no CRLF: completed later inside TLS?
	"m1 STARTTLS\r\n",
	"\r\n",
	"m1 ENABLE IMAP4rev2\r\nm2 LOGIN MARKERUSER pw\r\n",
	"m1 ID NIL\r\n",
}

func splits(n int) [][]int {
	// cut points: every single cut 0..n (two writes), plus "all at once" and "byte at a time"
	var out [][]int
	for p := 0; p <= n; p++ {
		out = append(out, []int{p})
	}
	out = append(out, nil)
	all := make([]int, 0, n)
	for p := 1; p < n; p++ {
		all = append(all, p)
	}
	out = append(out, all)
	return out
}

func chunks(b []byte, cuts []int) [][]byte {
	var out [][]byte
	prev := 0
	for _, c := range cuts {
		if c > prev && c < len(b) {
			out = append(out, b[prev:c])
			prev = c
		}
	}
	out = append(out, b[prev:])
	return out
}

func serverSide(w *hx.W) {
	for _, insecure := range []bool{false, true} {
		srv := kit.NewServer(kit.ServerCfg{Caps: imap.CapSet{imap.CapIMAP4rev1: {}, imap.CapIMAP4rev2: {}}, InsecureAuth: insecure, TLS: true})
		idx := 0
		for si, suffix := range serverSuffixes {
			stream := []byte("a STARTTLS\r\n" + suffix)
			for _, cuts := range splits(len(stream)) {
				idx++
				if !w.Mine(idx) {
					continue
				}
				serverCase(w, srv, insecure, si, suffix, stream, cuts)
				w.Enumerated(1)
				w.Class(fmt.Sprintf("server/insecure=%v/suffix%d", insecure, si))
			}
		}
		// plaintext credentials policy (no STARTTLS at all)
		if w.Shard == 0 {
			r := srv.Dial()
			out, _ := r.Sync()
			hasAuth := bytes.Contains(out, []byte("AUTH="))
			if hasAuth != insecure {
				w.Violation(fmt.Sprintf("server-auth-advertised-on-plaintext/insecure=%v", insecure), fmt.Sprintf("greeting %q on a plaintext connection with InsecureAuth=%v", out, insecure), nil)
			}
			base := srv.B.NCalls()
			r.SendStr("p1 LOGIN MARKERUSER pw\r\n")
			out, _ = r.Sync()
			called := false
			for _, c := range srv.B.CallsSince(base) {
				if c.Method == "Login" {
					called = true
				}
			}
			if called != insecure {
				w.Violation(fmt.Sprintf("server-login-on-plaintext/insecure=%v", insecure), fmt.Sprintf("Session.Login called=%v on plaintext with InsecureAuth=%v (%q)", called, insecure, out), nil)
			}
			r.Close()
			w.Enumerated(1)
		}
		srv.Close()
	}
}

// credentialPolicy: on an unencrypted connection the server offers and accepts credentials only
// when InsecureAuth is set, whatever its TLS configuration and whatever kind of session the
// backend provides; once the connection is encrypted (STARTTLS or implicit TLS) it does both.
func credentialPolicy(w *hx.W) {
	plainIR := base64.StdEncoding.EncodeToString([]byte("\x00MARKERUSER\x00pw"))
	for _, withTLS := range []bool{false, true} {
		for _, insecure := range []bool{false, true} {
			for _, kind := range []kit.SessKind{kit.SessFull, kit.SessSASLk, kit.SessPlain} {
				srv := kit.NewServer(kit.ServerCfg{Caps: imap.CapSet{imap.CapIMAP4rev1: {}}, InsecureAuth: insecure, TLS: withTLS, Kind: kind})
				srv.B.Mechs = []string{"PLAIN"}
				srv.B.Handler = func(s *kit.Sess, c *kit.Call, wr *kit.Writers) kit.Result {
					if c.Method == "Authenticate" {
						return kit.Result{SASL: sasl.NewPlainServer(func(identity, username, password string) error {
							return s.Login(username, password)
						})}
					}
					return kit.DefaultHandler(s, c, wr)
				}
				cfg := fmt.Sprintf("tlsconfig=%v/insecure=%v/kind=%d", withTLS, insecure, kind)
				offered := func(out []byte) (auth, disabled bool) {
					return bytes.Contains(out, []byte("AUTH=")), bytes.Contains(out, []byte("LOGINDISABLED"))
				}
				reached := func(base int) []string {
					var m []string
					for _, c := range srv.B.CallsSince(base) {
						if c.Method == "Login" || c.Method == "Authenticate" {
							m = append(m, c.Method)
						}
					}
					return m
				}
				attempts := []struct{ name, first, second string }{
					{"LOGIN", "p1 LOGIN MARKERUSER pw\r\n", ""},
					{"LOGIN-literal", "p1 LOGIN {10+}\r\nMARKERUSER {2+}\r\npw\r\n", ""},
					{"AUTHENTICATE-IR", "p1 AUTHENTICATE PLAIN " + plainIR + "\r\n", ""},
					{"AUTHENTICATE", "p1 AUTHENTICATE PLAIN\r\n", plainIR + "\r\n"},
					{"authenticate-lowercase", "p1 authenticate plain " + plainIR + "\r\n", ""},
				}
				if !withTLS {
					// history on the same Server object: connections whose TLS is terminated by a
					// listener wrapper come first (over them credentials are offered and accepted);
					// the plaintext connections that follow must still be refused
					for k := 0; k < 2; k++ {
						if rt, err := srv.DialTLSExternal(); err == nil {
							rt.Sync()
							rt.SendStr("c1 CAPABILITY\r\n")
							co, _ := rt.Sync()
							if auth, disabled := offered(co); !auth || disabled {
								w.Violation("server-auth-not-offered-over-tls/"+cfg+"/external", fmt.Sprintf("CAPABILITY over externally terminated TLS [%s]: %q", cfg, co), nil)
							}
							rt.SendStr("p1 LOGIN MARKERUSER pw\r\n")
							rt.Sync()
							rt.Close()
						}
					}
				}
				for _, at := range attempts {
					// plaintext connection
					r := srv.Dial()
					greet, _ := r.Sync()
					r.SendStr("c1 CAPABILITY\r\n")
					capOut, _ := r.Sync()
					for where, out := range map[string][]byte{"greeting": greet, "CAPABILITY": capOut} {
						auth, disabled := offered(out)
						if auth != insecure || disabled == insecure {
							w.Violation(fmt.Sprintf("server-auth-advertised-on-plaintext/%s/%s", cfg, where), fmt.Sprintf("%s on a plaintext connection [%s]: AUTH= advertised=%v LOGINDISABLED=%v (%q)", where, cfg, auth, disabled, out), nil)
						}
					}
					base := srv.B.NCalls()
					r.SendStr(at.first)
					out, _ := r.Sync()
					if at.second != "" && bytes.HasPrefix(out, []byte("+")) {
						r.SendStr(at.second)
						o2, _ := r.Sync()
						out = append(out, o2...)
					}
					got := reached(base)
					if (len(got) > 0) != insecure {
						w.Violation(fmt.Sprintf("server-credentials-on-plaintext/%s/%s", cfg, at.name), fmt.Sprintf("%s on a plaintext connection [%s]: backend calls %v (%q)", at.name, cfg, got, out), nil)
					}
					if !insecure && bytes.Contains(out, []byte("p1 OK")) {
						w.Violation(fmt.Sprintf("server-credentials-on-plaintext/%s/%s", cfg, at.name), fmt.Sprintf("%s answered OK on a plaintext connection [%s] (%q)", at.name, cfg, out), nil)
					}
					r.Close()
					w.Enumerated(1)
					w.Class("server/credential-policy/plaintext/" + cfg)
					if !withTLS {
						continue
					}
					// after STARTTLS and over implicit TLS credentials are offered and accepted
					for _, how := range []string{"starttls", "implicit"} {
						var rt *kit.Raw
						if how == "implicit" {
							var err error
							rt, err = srv.DialTLS()
							if err != nil {
								w.Violation("harness-tls", "implicit TLS dial failed: "+err.Error(), nil)
								continue
							}
							rt.Sync()
						} else {
							rt = srv.Dial()
							rt.Sync()
							rt.SendStr("s1 STARTTLS\r\n")
							o, _ := rt.Sync()
							if !bytes.Contains(o, []byte("s1 OK")) {
								w.Violation("server-starttls-refused/"+cfg, fmt.Sprintf("STARTTLS refused although a TLS configuration is present [%s] (%q)", cfg, o), nil)
								rt.Close()
								continue
							}
							if err := rt.StartTLSUpgrade(); err != nil {
								w.Violation("server-starttls-handshake/"+cfg, "handshake failed: "+err.Error(), nil)
								rt.Close()
								continue
							}
						}
						rt.SendStr("c1 CAPABILITY\r\n")
						co, _ := rt.Sync()
						if auth, disabled := offered(co); !auth || disabled {
							w.Violation(fmt.Sprintf("server-auth-not-offered-over-tls/%s/%s", cfg, how), fmt.Sprintf("CAPABILITY over TLS (%s) [%s]: %q", how, cfg, co), nil)
						}
						b2 := srv.B.NCalls()
						rt.SendStr(at.first)
						o, _ := rt.Sync()
						if at.second != "" && bytes.HasPrefix(o, []byte("+")) {
							rt.SendStr(at.second)
							o2, _ := rt.Sync()
							o = append(o, o2...)
						}
						if g := reached(b2); len(g) == 0 || !bytes.Contains(o, []byte("p1 OK")) {
							w.Violation(fmt.Sprintf("server-credentials-refused-over-tls/%s/%s/%s", cfg, how, at.name), fmt.Sprintf("%s over TLS (%s) [%s]: backend calls %v (%q)", at.name, how, cfg, g, o), nil)
						}
						rt.Close()
						w.Enumerated(1)
						w.Class("server/credential-policy/" + how + "/" + cfg)
					}
				}
				srv.Close()
			}
		}
	}
}

func serverCase(w *hx.W, srv *kit.Server, insecure bool, si int, suffix string, stream []byte, cuts []int) {
	desc := fmt.Sprintf("server insecure=%v suffix=%q cuts=%v", insecure, suffix, shortCuts(cuts))
	end := w.Begin("server", desc, 120*time.Second)
	defer end()
	r := srv.Dial()
	defer r.Close()
	r.Sync()
	sessions := srv.B.Sessions()
	sess := sessions[len(sessions)-1]
	base := srv.B.NCalls()
	var got []byte
	for _, ch := range chunks(stream, cuts) {
		if err := r.Send(ch); err != nil {
			break
		}
		out, cond := r.Sync()
		got = append(got, out...)
		if cond != "parked" {
			break
		}
	}
	viol := func(class, detail string) {
		w.Violation(fmt.Sprintf("%s/suffix=%q", class, suffix), fmt.Sprintf("%s: %s [%s]", class, detail, desc), map[string]interface{}{"case": desc, "server_output": hx.Hex(got, 600)})
	}
	okLine := []byte("a OK")
	i := bytes.Index(got, okLine)
	if i != 0 {
		viol("server-starttls-not-accepted", fmt.Sprintf("expected the tagged OK first, got %q", got))
		return
	}
	eol := bytes.Index(got, []byte("\r\n"))
	after := got[eol+2:]
	// now try the handshake (the server may already have failed on the injected bytes)
	hsErr := r.StartTLSUpgrade()
	var tlsOut []byte
	if hsErr == nil {
		// TLS is up: with an empty suffix this is the positive control
		r.SendStr("c1 LOGIN realuser pw\r\n")
		out, _ := r.Sync()
		tlsOut = out
	}
	more := r.Take()
	_ = more
	// (1) what the server wrote in plaintext after the OK must be TLS records only
	if len(after) > 0 && !(after[0] >= 0x14 && after[0] <= 0x17) {
		viol("server-plaintext-after-starttls-ok", fmt.Sprintf("server wrote %q in plaintext after the STARTTLS OK", after))
	}
	if bytes.Contains(got[eol+2:], []byte("m1 ")) || bytes.Contains(got[eol+2:], []byte("m2 ")) {
		viol("server-answered-injected-command", fmt.Sprintf("plaintext response to an injected command: %q", after))
	}
	// (2) inside TLS nothing may answer the injected commands either
	if bytes.Contains(tlsOut, []byte("m1 ")) || bytes.Contains(tlsOut, []byte("m2 ")) {
		viol("server-answered-injected-command-inside-tls", fmt.Sprintf("response to an injected plaintext command delivered inside TLS: %q", tlsOut))
	}
	// (3) backend calls
	for _, c := range srv.B.CallsSince(base) {
		if c.ConnID != sess.ID {
			continue
		}
		if c.Username == "MARKERUSER" || c.Mailbox == "MARKERBOX" {
			viol("server-executed-injected-command", fmt.Sprintf("Session.%s(%q%q) invoked from plaintext injected after STARTTLS", c.Method, c.Username, c.Mailbox))
		}
	}
	if suffix == "" {
		// positive control
		w.Metric("server_positive_controls", 1)
		if hsErr != nil {
			viol("server-control-handshake-failed", "without injection the TLS handshake failed: "+hsErr.Error())
		} else if !bytes.Contains(tlsOut, []byte("c1 OK")) {
			viol("server-control-login-failed", fmt.Sprintf("LOGIN over TLS answered %q", tlsOut))
		} else {
			found := false
			for _, c := range srv.B.CallsSince(base) {
				if c.ConnID == sess.ID && c.Method == "Login" && c.Username == "realuser" {
					found = true
				}
			}
			if !found {
				viol("server-control-login-not-delivered", "LOGIN over TLS did not reach the backend")
			}
		}
	} else if hsErr == nil && len(suffix) > 0 && suffix != "\r\n" {
		// the handshake succeeded although plaintext was injected: the bytes were dropped, not executed (already checked above)
		w.Metric("server_handshake_ok_despite_injection", 1)
	}
}

func shortCuts(c []int) string {
	if len(c) > 3 {
		return fmt.Sprintf("every byte (%d cuts)", len(c))
	}
	return fmt.Sprint(c)
}

// ---- client side ---------------------------------------------------------------

var clientSuffixes = []string{
	"",
	"* 5 EXISTS\r\n",
	"* CAPABILITY IMAP4rev1 XMARKER AUTH=PLAIN\r\n",
	"* OK [CAPABILITY IMAP4rev1 XMARKER] hello\r\n",
	"T2 OK [CAPABILITY IMAP4rev1 XMARKER] done\r\n",
	"* 1 FETCH (FLAGS (\\Seen))\r\n* 3 EXPUNGE\r\n",
	"* BYE injected\r\n",
	"* PREAUTH injected\r\n",
	"* FLAGS (\\XMARKER)\r\n* OK [PERMANENTFLAGS (\\XMARKER)] x\r\n",
	"T2 OK injected\r\nT3 OK injected\r\n",
	"+ go ahead\r\n",
	"* 5 EXISTS", // incomplete line
}

type clientObs struct {
	mu       sync.Mutex
	mailbox  int
	expunge  int
	fetch    int
	injected []string
}

func clientCase(w *hx.W, greeting, suffix string, cuts []int, ci int) {
	desc := fmt.Sprintf("client greeting=%q suffix=%q cuts=%v", strings.TrimSpace(greeting), suffix, shortCuts(cuts))
	end := w.Begin("client", desc, 120*time.Second)
	defer end()
	log := &vconn.Log{}
	cEnd, sEnd := vconn.Pipe("client", "peer", log)
	obs := &clientObs{}
	opts := &imapclient.Options{
		TLSConfig: kit.ClientTLSConfig(),
		UnilateralDataHandler: &imapclient.UnilateralDataHandler{
			Mailbox: func(d *imapclient.UnilateralDataMailbox) {
				obs.mu.Lock()
				obs.mailbox++
				obs.injected = append(obs.injected, fmt.Sprintf("mailbox %+v", d))
				obs.mu.Unlock()
			},
			Expunge: func(n uint32) { obs.mu.Lock(); obs.expunge++; obs.mu.Unlock() },
			Fetch: func(m *imapclient.FetchMessageData) {
				obs.mu.Lock()
				obs.fetch++
				obs.mu.Unlock()
				go func() {
					for m.Next() != nil {
					}
				}()
			},
		},
	}
	viol := func(class, detail string) {
		w.Violation(fmt.Sprintf("%s/greeting=%s/suffix=%q", class, strings.Fields(greeting)[1], suffix), fmt.Sprintf("%s: %s [%s]", class, detail, desc), map[string]interface{}{"case": desc, "peer_wrote": hx.Hex(log.Bytes("peer"), 500), "client_wrote": hx.Hex(log.Bytes("client"), 300)})
	}
	// the scripted peer
	peerDone := make(chan string, 1)
	var tlsSeen []string // command lines received inside TLS
	go func() {
		br := bufio.NewReader(sEnd)
		sEnd.Write([]byte(greeting))
		var f []string
		for {
			line, err := br.ReadString('\n')
			if err != nil {
				peerDone <- "client closed before STARTTLS: " + err.Error()
				return
			}
			f = strings.Fields(line)
			if len(f) >= 2 && strings.ToUpper(f[1]) == "STARTTLS" {
				break
			}
			if len(f) >= 2 && strings.ToUpper(f[1]) == "CAPABILITY" {
				// the client asks for the capabilities when the greeting had none
				fmt.Fprintf(sEnd, "* CAPABILITY IMAP4rev1 STARTTLS LOGINDISABLED\r\n%s OK done\r\n", f[0])
				continue
			}
			peerDone <- "unexpected command before STARTTLS: " + line
			return
		}
		// the tagged OK in its legal spellings: with a response code, without text, in lower case
		okText := okTexts[ci%len(okTexts)]
		stream := []byte(f[0] + " " + okText + "\r\n" + suffix)
		for _, ch := range chunks(stream, cuts) {
			sEnd.Write(ch)
			cEnd.WaitParked(20 * time.Second) // the client consumed this segment
		}
		cert, _ := kit.TestCert()
		tc := tls.Server(sEnd, &tls.Config{Certificates: []tls.Certificate{cert}})
		if err := tc.Handshake(); err != nil {
			peerDone <- "handshake failed: " + err.Error()
			return
		}
		tbr := bufio.NewReader(tc)
		for {
			l, err := tbr.ReadString('\n')
			if err != nil {
				peerDone <- "tls session ended"
				return
			}
			tlsSeen = append(tlsSeen, strings.TrimSpace(l))
			ff := strings.Fields(l)
			if len(ff) < 2 {
				continue
			}
			switch strings.ToUpper(ff[1]) {
			case "CAPABILITY":
				fmt.Fprintf(tc, "* CAPABILITY IMAP4rev1 AUTH=PLAIN REALCAP\r\n%s OK done\r\n", ff[0])
			case "LOGOUT":
				fmt.Fprintf(tc, "* BYE bye\r\n%s OK done\r\n", ff[0])
			default:
				fmt.Fprintf(tc, "%s OK done\r\n", ff[0])
			}
		}
	}()
	type res struct {
		c   *imapclient.Client
		err error
	}
	rc := make(chan res, 1)
	go func() {
		c, err := imapclient.NewStartTLS(cEnd, opts)
		rc <- res{c, err}
	}()
	var r res
	select {
	case r = <-rc:
	case <-time.After(60 * time.Second):
		viol("client-starttls-hang", "NewStartTLS did not return")
		cEnd.Close()
		sEnd.Close()
		return
	}
	greetKind := strings.Fields(greeting)[1]
	var caps imap.CapSet
	noopErr := fmt.Errorf("not run")
	state := imap.ConnStateNone
	if r.err == nil {
		state = r.c.State()
		capCh := make(chan imap.CapSet, 1)
		go func() { capCh <- r.c.Caps() }()
		select {
		case caps = <-capCh:
		case <-time.After(60 * time.Second):
			viol("client-caps-hang", "Caps() did not return after STARTTLS")
		}
		nc := make(chan error, 1)
		go func() { nc <- r.c.Noop().Wait() }()
		select {
		case noopErr = <-nc:
		case <-time.After(60 * time.Second):
			viol("client-noop-hang", "Noop().Wait() did not return after STARTTLS")
		}
		r.c.Close()
	}
	cEnd.Close()
	sEnd.Close()
	peerState := <-peerDone
	obs.mu.Lock()
	defer obs.mu.Unlock()
	// ---- oracle
	if greetKind != "OK" {
		if r.err == nil {
			viol("client-accepted-"+strings.ToLower(greetKind)+"-greeting", fmt.Sprintf("NewStartTLS succeeded although the plaintext greeting was %q (state %v)", strings.TrimSpace(greeting), state))
		}
		return
	}
	if obs.mailbox > 0 || obs.expunge > 0 || obs.fetch > 0 {
		viol("client-delivered-injected-data", fmt.Sprintf("unilateral data handler invoked (mailbox=%d expunge=%d fetch=%d: %v) from plaintext that followed the STARTTLS OK", obs.mailbox, obs.expunge, obs.fetch, obs.injected))
	}
	if caps != nil && caps.Has("XMARKER") {
		viol("client-adopted-injected-capabilities", fmt.Sprintf("Caps() = %v contains a capability that only appeared in injected plaintext", capList(caps)))
	}
	if r.err == nil && state != imap.ConnStateNotAuthenticated && state != imap.ConnStateLogout {
		// (logout = the connection already failed, e.g. the handshake choked on the injected bytes)
		viol("client-state-from-injected-data", fmt.Sprintf("state after STARTTLS is %v", state))
	}
	if noopErr == nil {
		// the NOOP completed OK: it must have been answered by the real peer inside TLS
		sawNoop := false
		for _, l := range tlsSeen {
			if strings.Contains(strings.ToUpper(l), " NOOP") {
				sawNoop = true
			}
		}
		if !sawNoop {
			viol("client-command-completed-by-injected-response", fmt.Sprintf("Noop completed successfully but the peer never received it inside TLS (peer: %s, tls lines %v)", peerState, tlsSeen))
		}
	}
	if suffix == "" {
		w.Metric("client_positive_controls", 1)
		if r.err != nil {
			viol("client-control-failed", "without injection NewStartTLS failed: "+r.err.Error())
		} else if noopErr != nil {
			viol("client-control-noop-failed", "without injection NOOP over TLS failed: "+noopErr.Error())
		} else if (caps == nil || !caps.Has("REALCAP")) && !strings.Contains(strings.ToUpper(okTexts[ci%len(okTexts)]), "[CAPABILITY") {
			// (when the tagged OK itself carries a CAPABILITY code the client keeps that list; the
			// code is part of the exchange line, which the property does not cover — see DESIGN.md 9.8)
			viol("client-control-caps", fmt.Sprintf("capabilities after STARTTLS were not re-fetched over TLS: %v", capList(caps)))
		}
	}
}

var okTexts = []string{
	"OK Begin TLS negotiation now",
	"OK [CAPABILITY IMAP4rev1 AUTH=PLAIN] Begin TLS negotiation now",
	"OK",
	"ok begin tls",
	"OK [ALERT] upgrade now",
	"OK [capability IMAP4rev1] go",
}

func capList(c imap.CapSet) []string {
	var o []string
	for k := range c {
		o = append(o, string(k))
	}
	return o
}

func clientSide(w *hx.W) {
	idx := 0
	greetings := []string{
		"* OK [CAPABILITY IMAP4rev1 STARTTLS LOGINDISABLED] ready\r\n",
		"* OK ready\r\n",
		"* PREAUTH [CAPABILITY IMAP4rev1 STARTTLS] hello admin\r\n",
		"* PREAUTH hello\r\n",
		"* BYE [CAPABILITY IMAP4rev1 STARTTLS] go away\r\n",
	}
	for gi, g := range greetings {
		for si, suffix := range clientSuffixes {
			if gi >= 2 && si > 2 {
				continue
			}
			n := len("T1 OK Begin TLS negotiation now\r\n") + len(suffix)
			for _, cuts := range splits(n) {
				idx++
				if !w.Mine(idx) {
					continue
				}
				if w.Quick() && len(cuts) == 1 && cuts[0]%3 != 0 && gi != 0 {
					continue
				}
				clientCase(w, g, suffix, cuts, idx)
				w.Enumerated(1)
				w.Class(fmt.Sprintf("client/greeting%d/suffix%d", gi, si))
			}
		}
	}
}

func body(w *hx.W) {
	if w.Shard == 0 {
		credentialPolicy(w)
	}
	if w.Shard == 1%w.NShards {
		osServerTransports(w)
	}
	if w.Shard == 2%w.NShards {
		osClientDialStartTLS(w)
	}
	if w.Shard == 3%w.NShards {
		pipelinedClientHello(w)
	}
	kit.SyncTimeout = 60 * time.Second
	serverSide(w)
	clientSide(w)
	w.Sample(map[string]interface{}{"kind": "server", "stream": "a STARTTLS\\r\\nm1 LOGIN MARKERUSER pw\\r\\nm2 CREATE MARKERBOX\\r\\n", "splits": "every cut point, one write, byte-at-a-time"})
	w.Sample(map[string]interface{}{"kind": "client", "peer_stream": "T1 OK Begin TLS negotiation now\\r\\n* CAPABILITY IMAP4rev1 XMARKER AUTH=PLAIN\\r\\n", "greetings": []string{"OK", "PREAUTH", "BYE"}})
}

func main() {
	hx.Main(hx.Spec{
		ID:    "C17",
		Level: "exploration",
		Rule:  "server: 12 plaintext command suffixes after the STARTTLS line x every split of the byte string into two writes + one write + byte-at-a-time x InsecureAuth on/off; client: 12 plaintext response suffixes after the STARTTLS OK x the same split enumeration x greetings {OK with/without capabilities, PREAUTH x2, BYE} x 6 spellings of the tagged OK (with a CAPABILITY / ALERT response code, without text, in lower case); each (suffix, split, configuration) is a distinct case",
		Assumptions: []string{
			"injected commands / responses carry unique markers (MARKERUSER, MARKERBOX, XMARKER, tags m1/m2/T2): any backend call, response, capability or callback carrying a marker is attributed to the injected plaintext",
			"bytes that follow the STARTTLS exchange may be consumed by the TLS handshake (which then fails) or dropped; both satisfy the property",
			"TLS is Go's crypto/tls over the in-process connection; the client-side peer delivers a segment only after the client has consumed the previous one",
		},
		Shards:    func(string) int { return 12 },
		WallQuick: 20 * time.Minute, WallThorough: 90 * time.Minute,
	}, body)
}
