// C14 — concurrent sessions on shared mailboxes never deadlock or race.
//
// Monitor: 2..8 sessions (goroutines with raw connections) run random command
// lists concurrently against the real server + in-memory backend, built with
// the Go race detector and with lock instrumentation generated from the current
// tree (cmd/lockgen, go build -overlay) for packages imapserver and
// imapmemserver. Oracles: (1) every command gets its tagged reply (watchdog; a
// stall is a violation when the goroutine dump shows server goroutines parked on
// mutexes), (2) no cycle in the instance-level lock-order graph that satisfies
// the Goodlock condition — reported even when the run did not hang, (3) no race
// report with an imapserver / imapmemserver frame, (4) no panic in the server log.
package main

import (
	"fmt"
	"math/rand"
	"runtime"
	"strings"
	"sync"
	"time"

	imap "github.com/emersion/go-imap/v2"
	"github.com/emersion/go-imap/v2/verif/internal/hx"
	"github.com/emersion/go-imap/v2/verif/internal/kit"
	"github.com/emersion/go-imap/v2/verif/internal/vconn"
	"github.com/emersion/go-imap/v2/verif/lockmon"
)

type runCfg struct {
	sessions, ops, procs, yield, boxes int
	profile                            string
}

func (c runCfg) String() string {
	return fmt.Sprintf("sessions=%d ops=%d procs=%d yield=%d boxes=%d profile=%s", c.sessions, c.ops, c.procs, c.yield, c.boxes, c.profile)
}

var boxes = []string{"A", "B", "C"}

type sess struct {
	id   int
	raw  *kit.Raw
	rng  *rand.Rand
	tagN int
	sel  string
	log  []string
}

var stackBuf = make([]byte, 8<<20)

var (
	fingerprints = map[uint64]bool{}
	hangs        int
)

type runState struct {
	w    *hx.W
	mem  *kit.Mem
	cfg  runCfg
	mu   sync.Mutex
	done int64
	fail bool
}

func (rs *runState) violation(sig, what string, rep interface{}) {
	rs.mu.Lock()
	rs.fail = true
	rs.mu.Unlock()
	rs.w.Violation(sig, what, rep)
}

// cmd sends one command and waits for its tagged reply.
func (rs *runState) cmd(s *sess, line string) (string, bool) {
	s.tagN++
	tag := fmt.Sprintf("s%dt%d", s.id, s.tagN)
	s.log = append(s.log, tag+" "+line)
	if len(s.log) > 12 {
		s.log = s.log[len(s.log)-12:]
	}
	if err := s.raw.SendStr(tag + " " + line + "\r\n"); err != nil {
		return "", false
	}
	return rs.wait(s, tag, line)
}

func (rs *runState) wait(s *sess, tag, line string) (string, bool) {
	found := func(b []byte) bool {
		str := string(b)
		return strings.HasPrefix(str, tag+" ") || strings.Contains(str, "\r\n"+tag+" ")
	}
	ok := s.raw.WaitFor(func(b []byte) bool {
		if !found(b) {
			return false
		}
		i := strings.LastIndex(string(b), tag+" ")
		return strings.Contains(string(b[i:]), "\r\n")
	}, 40*time.Second)
	out := s.raw.Take()
	if !ok {
		rs.mu.Lock()
		already := rs.fail
		rs.mu.Unlock()
		if already {
			return "", false
		}
		if s.raw.EOF() {
			detail := fmt.Sprintf("session %d: connection closed while waiting for the reply to %q (last commands %v)", s.id, line, s.log)
			if p := rs.mem.Log.Panics(); len(p) > 0 {
				rs.violation("server-panic@"+hx.PanicSite(p[0]), "panic in a server goroutine: "+trunc(p[0], 1500), map[string]interface{}{"config": rs.cfg.String(), "commands": s.log})
			} else {
				rs.violation("connection-closed@"+verb(line), detail, map[string]interface{}{"config": rs.cfg.String(), "commands": s.log, "log": rs.mem.Log.Lines()})
			}
			return "", false
		}
		// decide on two goroutine dumps taken 3 s apart: a deadlock is a set of
		// server goroutines parked on mutexes that does not change while no
		// other server goroutine is running
		b1, a1 := parked()
		time.Sleep(3 * time.Second)
		b2, a2 := parked()
		same := len(b1) > 0 && len(b1) == len(b2)
		for id := range b1 {
			if _, ok := b2[id]; !ok {
				same = false
			}
		}
		hangs++
		if same && a1 == 0 && a2 == 0 {
			var blocked []string
			for _, g := range b2 {
				blocked = append(blocked, g)
			}
			rs.violation("deadlock@"+lockSites(blocked), fmt.Sprintf("session %d: no reply to %q; %d server goroutines stay parked on mutexes and none is running (%s)", s.id, line, len(blocked), lockSites(blocked)),
				map[string]interface{}{"config": rs.cfg.String(), "commands": s.log, "blocked_goroutines": trimAll(blocked, 8)})
		} else {
			// slow, not stuck: a wall-clock watchdog alone is never a verdict
			rs.mu.Lock()
			rs.fail = true
			rs.mu.Unlock()
			rs.w.Metric("runs_abandoned_by_watchdog_without_deadlock", 1)
			rs.w.Notef("inconclusive run (%s): no reply to %q within the watchdog, but server goroutines were still running (%d/%d active, %d/%d parked)", rs.cfg, line, a1, a2, len(b1), len(b2))
		}
		return "", false
	}
	rs.mu.Lock()
	rs.done++
	rs.mu.Unlock()
	i := strings.LastIndex(string(out), tag+" ")
	return string(out[i:]), true
}

// parked returns the server goroutines blocked on a mutex (by goroutine id) and
// the number of server goroutines that are running or runnable.
func parked() (map[string]string, int) {
	dump := string(stackBuf[:runtime.Stack(stackBuf, true)])
	blocked := map[string]string{}
	active := 0
	for _, g := range strings.Split(dump, "\n\n") {
		if !strings.Contains(g, "imapmemserver.") && !strings.Contains(g, "imapserver.") {
			continue
		}
		head, _, _ := strings.Cut(g, "\n")
		id := strings.Fields(head + " x x")[1]
		switch {
		case strings.Contains(head, "[sync.Mutex.Lock") || strings.Contains(head, "[semacquire"):
			blocked[id] = g
		case strings.Contains(head, "[chan send") && (strings.Contains(g, "imapserver.(*SessionTracker)") || strings.Contains(g, "imapserver.(*MailboxTracker)")):
			// a tracker blocked handing an update to a session that will never take it
			blocked[id] = g
		case strings.Contains(head, "[running") || strings.Contains(head, "[runnable") || strings.Contains(head, "[sleep"):
			if !strings.Contains(g, "main.(*runState)") {
				active++
			}
		}
	}
	return blocked, active
}

func trunc(s string, n int) string {
	if len(s) > n {
		return s[:n] + "..."
	}
	return s
}

func trimAll(l []string, n int) []string {
	if len(l) > n {
		l = l[:n]
	}
	var o []string
	for _, g := range l {
		o = append(o, trunc(g, 1800))
	}
	return o
}

func verb(line string) string {
	f := strings.Fields(line)
	if len(f) == 0 {
		return "?"
	}
	if strings.EqualFold(f[0], "UID") && len(f) > 1 {
		return "UID " + f[1]
	}
	return f[0]
}

// lockSites extracts the function names of the frames that wait for a lock.
func lockSites(gs []string) string {
	set := map[string]bool{}
	for _, g := range gs {
		lines := strings.Split(g, "\n")
		for _, l := range lines {
			if (strings.Contains(l, "imapmemserver.") || strings.Contains(l, "imapserver.")) && !strings.HasPrefix(l, "\t") {
				fn := l
				if i := strings.LastIndex(fn, "("); i > 0 {
					fn = fn[:i]
				}
				if i := strings.LastIndex(fn, "/"); i >= 0 {
					fn = fn[i+1:]
				}
				set[fn] = true
				break
			}
		}
	}
	var l []string
	for f := range set {
		l = append(l, f)
	}
	sortStrings(l)
	return strings.Join(l, ",")
}

func sortStrings(l []string) {
	for i := range l {
		for j := i + 1; j < len(l); j++ {
			if l[j] < l[i] {
				l[i], l[j] = l[j], l[i]
			}
		}
	}
}

func (rs *runState) connect(s *sess) bool {
	s.raw = rs.mem.DialRaw()
	s.sel = ""
	if !s.raw.WaitFor(func(b []byte) bool { return strings.Contains(string(b), "\r\n") }, 40*time.Second) {
		rs.violation("no-greeting", "no greeting on a new connection", nil)
		return false
	}
	s.raw.Take()
	_, ok := rs.cmd(s, "LOGIN user pass")
	return ok
}

var msgSmall = "From: a@example.org\r\nSubject: hello\r\nDate: Mon, 1 Jan 2024 00:00:00 +0000\r\n\r\nbody text\r\n"

func (rs *runState) session(s *sess, wg *sync.WaitGroup) {
	defer wg.Done()
	if !rs.connect(s) {
		return
	}
	r := s.rng
	box := func() string { return boxes[r.Intn(rs.cfg.boxes)] }
	other := func() string {
		for {
			if b := box(); b != s.sel || rs.cfg.boxes == 1 {
				return b
			}
		}
	}
	set := func() string {
		return []string{"1:*", "1", "*", "1:3", "2:*", "1,3,5", "4:2"}[r.Intn(7)]
	}
	// COPY never addresses an unbounded range: copies in both directions
	// would otherwise double the mailboxes until commands take minutes
	copySet := func() string {
		return []string{"1", "*", "1:3", "2,4", "1:2", "3:5", "*:2"}[r.Intn(7)]
	}
	for i := 0; i < rs.cfg.ops; i++ {
		rs.mu.Lock()
		failed := rs.fail
		rs.mu.Unlock()
		if failed {
			break
		}
		var ok bool
		if s.sel == "" {
			switch r.Intn(10) {
			case 0:
				_, ok = rs.cmd(s, `LIST "" *`)
			case 1:
				_, ok = rs.cmd(s, "STATUS "+box()+" (MESSAGES UNSEEN UIDNEXT)")
			default:
				b := box()
				var out string
				out, ok = rs.cmd(s, []string{"SELECT ", "SELECT ", "EXAMINE "}[r.Intn(3)]+b)
				if ok && strings.Contains(out, " OK ") {
					s.sel = b
				}
			}
			if !ok {
				return
			}
			continue
		}
		k := r.Intn(100)
		pair := rs.cfg.profile == "copy-storm"
		switch {
		case pair && k < 70 || k < 14:
			v := []string{"COPY", "MOVE", "UID COPY", "UID MOVE"}[r.Intn(4)]
			st := copySet()
			if strings.HasSuffix(v, "MOVE") && r.Intn(3) == 0 {
				st = set()
			}
			if strings.HasPrefix(v, "UID") && st == "*:2" {
				st = "1:4"
			}
			_, ok = rs.cmd(s, fmt.Sprintf("%s %s %s", v, st, other()))
		case k < 26:
			_, ok = rs.cmd(s, fmt.Sprintf("%sFETCH %s (FLAGS UID RFC822.SIZE BODY.PEEK[HEADER] BODY[TEXT])", []string{"", "UID "}[r.Intn(2)], set()))
		case k < 38:
			_, ok = rs.cmd(s, fmt.Sprintf("%sSTORE %s %sFLAGS%s (%s)", []string{"", "UID "}[r.Intn(2)], set(), []string{"+", "-", ""}[r.Intn(3)], []string{"", ".SILENT"}[r.Intn(2)], []string{`\Deleted`, `\Seen`, `\Flagged kw`}[r.Intn(3)]))
		case k < 46:
			_, ok = rs.cmd(s, []string{"EXPUNGE", "UID EXPUNGE 1:*"}[r.Intn(2)])
		case k < 56:
			// APPEND with a synchronising literal
			s.tagN++
			tag := fmt.Sprintf("s%dt%d", s.id, s.tagN)
			line := fmt.Sprintf("APPEND %s (\\Seen) {%d+}", box(), len(msgSmall))
			s.log = append(s.log, tag+" "+line)
			s.raw.SendStr(tag + " " + line + "\r\n" + msgSmall + "\r\n")
			_, ok = rs.wait(s, tag, line)
		case k < 62:
			_, ok = rs.cmd(s, fmt.Sprintf("%sSEARCH %s", []string{"", "UID "}[r.Intn(2)], []string{"ALL", "UNSEEN TEXT hello", "OR DELETED SEEN 1:*", "NOT KEYWORD kw"}[r.Intn(4)]))
		case k < 68:
			_, ok = rs.cmd(s, []string{`LIST "" *`, `LIST "" % RETURN (STATUS (MESSAGES UNSEEN))`, `LSUB "" *`, `LIST (SUBSCRIBED) "" *`, `LIST "" ""`, `LSUB "" ""`, `LIST "A" ""`, `LIST "" (A "" B%)`, `LIST "" nosuch`}[r.Intn(9)])
		case k < 72:
			_, ok = rs.cmd(s, "STATUS "+box()+" (MESSAGES UNSEEN UIDNEXT UIDVALIDITY)")
		case k < 78:
			// namespace churn on scratch mailboxes
			t1, t2 := fmt.Sprintf("tmp%d", r.Intn(3)), fmt.Sprintf("tmp%d", r.Intn(3))
			_, ok = rs.cmd(s, []string{"CREATE " + t1, "DELETE " + t1, "RENAME " + t1 + " " + t2, "SUBSCRIBE " + t1, "UNSUBSCRIBE " + t1, "SUBSCRIBE " + box()}[r.Intn(6)])
		case k < 80 && rs.cfg.profile == "namespace":
			// rename / delete of shared mailboxes while others use them
			b := box()
			_, ok = rs.cmd(s, []string{"RENAME " + b + " " + b + "x", "RENAME " + b + "x " + b, "DELETE " + b, "CREATE " + b}[r.Intn(4)])
		case k < 84:
			_, ok = rs.cmd(s, "NOOP")
		case k < 90:
			// IDLE for a moment, then DONE or an abrupt disconnect
			s.tagN++
			tag := fmt.Sprintf("s%dt%d", s.id, s.tagN)
			s.log = append(s.log, tag+" IDLE")
			s.raw.SendStr(tag + " IDLE\r\n")
			if !s.raw.WaitFor(func(b []byte) bool { return strings.Contains(string(b), "+ ") || strings.Contains(string(b), tag+" ") }, 40*time.Second) {
				rs.violation("command-stalls@IDLE", fmt.Sprintf("session %d: no continuation request for IDLE", s.id), map[string]interface{}{"config": rs.cfg.String(), "commands": s.log})
				return
			}
			for y := r.Intn(20); y > 0; y-- {
				runtime.Gosched()
			}
			if r.Intn(4) == 0 {
				s.raw.Close() // abrupt disconnect while idling
				rs.mu.Lock()
				rs.done++
				rs.mu.Unlock()
				if !rs.connect(s) {
					return
				}
				ok = true
			} else if r.Intn(6) == 0 {
				// a line other than DONE ends IDLE with a tagged BAD; the idle goroutine is not joined on this path
				s.raw.SendStr("NOTDONE\r\n")
				_, ok = rs.wait(s, tag, "IDLE/NOTDONE")
			} else {
				s.raw.SendStr("DONE\r\n")
				_, ok = rs.wait(s, tag, "IDLE/DONE")
			}
		case k < 95:
			_, ok = rs.cmd(s, []string{"CLOSE", "UNSELECT"}[r.Intn(2)])
			s.sel = ""
		default:
			b := box()
			var out string
			out, ok = rs.cmd(s, "SELECT "+b)
			if ok && strings.Contains(out, " OK ") {
				s.sel = b
			} else {
				s.sel = ""
			}
		}
		if !ok {
			return
		}
	}
	rs.cmd(s, "LOGOUT")
	s.raw.Close()
}

// idleStaller: a session that enters IDLE on mailbox A and then stops reading (its server-side
// writes block, as with a full TCP window) while the others keep changing that mailbox; at the
// end it disappears without DONE.
func (rs *runState) idleStaller(s *sess, othersDone <-chan struct{}, wg *sync.WaitGroup) {
	defer wg.Done()
	if !rs.connect(s) {
		return
	}
	if _, ok := rs.cmd(s, "SELECT A"); !ok {
		return
	}
	s.tagN++
	tag := fmt.Sprintf("s%dt%d", s.id, s.tagN)
	s.raw.SendStr(tag + " IDLE\r\n")
	if !s.raw.WaitFor(func(b []byte) bool { return strings.Contains(string(b), "+ ") || strings.Contains(string(b), tag+" ") }, 40*time.Second) {
		rs.violation("command-stalls@IDLE", fmt.Sprintf("session %d: no continuation request for IDLE", s.id), map[string]interface{}{"config": rs.cfg.String()})
		return
	}
	s.raw.S.StallWrites(true)
	<-othersDone
	s.raw.Close()
	rs.mu.Lock()
	rs.done++
	rs.mu.Unlock()
}

func runOnce(w *hx.W, cfg runCfg, seed int64) {
	end := w.Begin("run", cfg.String(), 300*time.Second)
	defer end()
	runtime.GOMAXPROCS(cfg.procs)
	lockmon.Configure(seed, cfg.yield)
	lockmon.Reset(true)
	mem := kit.NewMem(kit.MemCfg{Caps: imap.CapSet{imap.CapIMAP4rev1: {}, imap.CapIMAP4rev2: {}}})
	rs := &runState{w: w, mem: mem, cfg: cfg}
	date := time.Date(2024, 1, 1, 0, 0, 0, 0, time.UTC)
	for _, b := range boxes[:cfg.boxes] {
		var msgs [][]byte
		for i := 0; i < 6; i++ {
			msgs = append(msgs, kit.SimpleMessage(fmt.Sprintf("hello %d", i), "a@example.org", "body text\r\n", date))
		}
		mem.Populate(b, msgs, [][]imap.Flag{{imap.FlagSeen}, {imap.FlagDeleted}})
	}
	var wg sync.WaitGroup
	rng := rand.New(rand.NewSource(seed))
	var stallWG sync.WaitGroup
	othersDone := make(chan struct{})
	for i := 0; i < cfg.sessions; i++ {
		s := &sess{id: i, rng: rand.New(rand.NewSource(rng.Int63()))}
		if cfg.profile == "stalled-idler" && i == 0 {
			stallWG.Add(1)
			go rs.idleStaller(s, othersDone, &stallWG)
			continue
		}
		wg.Add(1)
		go rs.session(s, &wg)
	}
	wg.Wait()
	close(othersDone)
	stallWG.Wait()
	if !rs.fail {
		closed := make(chan struct{})
		go func() { mem.Close(); close(closed) }()
		select {
		case <-closed:
		case <-time.After(60 * time.Second):
			w.Notef("server Close did not return within 60 s after a clean run (%s)", cfg)
		}
		if p := mem.Log.Panics(); len(p) > 0 {
			w.Violation("server-panic@"+hx.PanicSite(p[0]), "panic in a server goroutine: "+trunc(p[0], 1500), map[string]interface{}{"config": cfg.String()})
		}
	}
	for _, c := range lockmon.Cycles() {
		w.Violation("lock-order-cycle@"+c.Key, "potential deadlock: locks acquired in opposite orders by different goroutines without a common gate: "+c.Desc, map[string]interface{}{"config": cfg.String(), "sites": c.Sites})
	}
	for k, d := range lockmon.RecursiveReadLocks() {
		w.Violation("recursive-read-lock@"+k, "potential deadlock: "+d, map[string]interface{}{"config": cfg.String()})
	}
	st := lockmon.Snapshot()
	fingerprints[st.Fingerprint] = true
	w.Metric("commands_completed", rs.done)
	w.MetricMax("max_lock_sites_exercised", int64(st.Sites))
	w.MetricMax("max_lock_order_edges", int64(st.Edges))
	w.MetricMax("max_lock_instances", int64(st.Instances))
	for _, c := range st.LockClasses {
		w.Class("lock-class/" + c)
	}
}

// lifecycle: the server object itself is shared state of all sessions. Serve calls on further
// listeners and Close race with running sessions; Close has to return, every Serve has to return
// once Close did, and the race detector has to stay silent about the listener bookkeeping.
func lifecycle(w *hx.W, rng *rand.Rand, rounds int) {
	for k := 0; k < rounds; k++ {
		mem := kit.NewMem(kit.MemCfg{})
		nExtra := rng.Intn(3)
		nSess := rng.Intn(4)
		closeFirst := rng.Intn(4) == 0
		done := w.Begin("lifecycle", fmt.Sprintf("lifecycle round: %d extra listeners, %d sessions, closeFirst=%v", nExtra, nSess, closeFirst), 120*time.Second)
		var served sync.WaitGroup
		var lns []*vconn.Listener
		startServe := func() {
			ln := vconn.NewListener()
			lns = append(lns, ln)
			served.Add(1)
			go func() {
				defer served.Done()
				if k%2 == 0 {
					runtime.Gosched()
				}
				mem.Srv.Serve(ln)
			}()
		}
		if !closeFirst {
			for i := 0; i < nExtra; i++ {
				startServe()
			}
		}
		var sw sync.WaitGroup
		var raws []*kit.Raw
		for i := 0; i < nSess; i++ {
			sw.Add(1)
			r := mem.DialRaw()
			raws = append(raws, r)
			go func(i int) {
				defer sw.Done()
				defer r.Close()
				r.Sync()
				r.SendStr(fmt.Sprintf("a%d LOGIN user pass\r\n", i))
				r.Sync()
				for j := 0; j < 3; j++ {
					r.SendStr(fmt.Sprintf("n%d NOOP\r\n", j))
					if _, st := r.Sync(); st == "closed" {
						return
					}
				}
			}(i)
		}
		if rng.Intn(2) == 0 {
			runtime.Gosched()
		}
		if closeFirst {
			// Serve calls racing with Close: each either serves until Close or reports that the server is closed
			for i := 0; i < nExtra; i++ {
				startServe()
			}
		}
		mem.Close()
		// a connection that was still waiting in a listener's queue is nobody's any more
		for _, r := range raws {
			r.S.Close()
		}
		allServed := make(chan struct{})
		go func() { served.Wait(); close(allServed) }()
		select {
		case <-allServed:
		case <-time.After(60 * time.Second):
			w.Violation("serve-outlives-close", "a Server.Serve call has not returned 30 s after Server.Close returned\n"+hx.Goroutines("imapserver.(*Server).Serve"), nil)
			for _, ln := range lns {
				ln.Close()
			}
		}
		sw.Wait()
		done()
		w.Metric("server_lifecycle_rounds", 1)
	}
	w.Class("server-lifecycle")
}

func body(w *hx.W) {
	defer runtime.GOMAXPROCS(runtime.GOMAXPROCS(0))
	rng := w.Rand("c14")
	n := w.Pick(700, 6000)
	for i := 0; i < n && hangs < 3; i++ {
		cfg := runCfg{sessions: 2 + rng.Intn(7), ops: 20 + rng.Intn(25), procs: []int{1, 2, 4, 16}[rng.Intn(4)], yield: []int{0, 50, 200, 500}[rng.Intn(4)], boxes: 2 + rng.Intn(2),
			profile: []string{"mixed", "mixed", "copy-storm", "namespace", "mixed", "stalled-idler"}[rng.Intn(6)]}
		if cfg.profile == "stalled-idler" {
			// everybody works on the mailbox the stalled session idles on
			cfg.boxes, cfg.ops = 1, 40+rng.Intn(20)
			if cfg.sessions < 3 {
				cfg.sessions = 3
			}
		}
		seed := rng.Int63()
		if !w.Mine(i) {
			continue
		}
		runOnce(w, cfg, seed)
		w.CaseStr(fmt.Sprintf("%s|%d", cfg, seed))
		w.Class(fmt.Sprintf("%s/sessions=%d/procs=%d/yield=%d", cfg.profile, cfg.sessions, cfg.procs, cfg.yield))
	}
	t0 := time.Now()
	lifecycle(w, rng, w.Pick(12, 60))
	w.Metric("server_lifecycle_ms", time.Since(t0).Milliseconds())
	w.Metric("distinct_interleaving_fingerprints", int64(len(fingerprints)))
	st := lockmon.Snapshot()
	w.Metric("lock_acquisitions_observed", st.Acquires)
	w.Metric("yields_injected", st.Yields)
}

func main() {
	hx.Main(hx.Spec{
		ID:    "C14",
		Level: "exploration",
		Rule:  "runs = 2..8 concurrently running sessions x 20..44 random commands each (SELECT/EXAMINE, COPY/MOVE/UID COPY/UID MOVE towards another shared mailbox, FETCH with literals, STORE, EXPUNGE/UID EXPUNGE, APPEND, SEARCH, LIST/LSUB incl. STATUS return, STATUS, CREATE/DELETE/RENAME/SUBSCRIBE of scratch and (profile namespace) shared mailboxes, NOOP, IDLE with DONE or abrupt disconnect, CLOSE/UNSELECT) over 2..3 shared mailboxes of one user x profiles {mixed, copy-storm (70% copies and moves in both directions), namespace, stalled-idler (one session idles and stops reading while the others change its mailbox hundreds of times)} x GOMAXPROCS in {1,2,4,16} x yield probability {0,5,20,50}% at every lock boundary of packages imapserver and imapmemserver; distinct = distinct (configuration, seed)",
		Assumptions: []string{
			"every connection is drained continuously by the harness, so a server goroutine blocked on a network write is never the cause of a stall",
			"a stall is decided by a 40 s watchdog per command plus a goroutine dump: only server goroutines parked on a mutex make it a deadlock verdict",
			"lock-order cycles are reported from the instance-level lock graph when the two orders were taken by different goroutines without a common gate lock, also when the run did not hang; read locks of a sync.RWMutex take part in the graph, and a read lock taken by a goroutine that already holds it is reported (sync.RWMutex forbids recursive read locking: it deadlocks once a writer queues up in between)",
			"the race detector and the lock graph only see the interleavings the yield seeds and the scheduler produce; evidence reports distinct lock-acquisition fingerprints",
		},
		RaceFrames: []string{"imapserver.", "imapmemserver."},
		Shards:     func(string) int { return 8 },
		WallQuick:  30 * time.Minute, WallThorough: 150 * time.Minute,
	}, body)
}
