// C19 — combining search criteria yields their intersection.
//
// Monitor A (algebraic law): for ordered pairs (a, b) from a pool of criteria
// over every field, c := clone(a); c.And(b) is evaluated with an independent
// reference matcher on a finite message universe that distinguishes every field:
// match(c, m) must equal match(a, m) && match(b, m) for every message m, and b
// must be left unchanged.
// Monitor B (server parser): raw multi-key SEARCH commands are sent in every
// permutation of their keys to a real server with a recording stub backend; the
// recorded criteria must select exactly the conjunction of the keys' reference
// meanings.
package main

import (
	"fmt"
	"math/rand"
	"reflect"
	"sort"
	"strings"
	"time"

	imap "github.com/emersion/go-imap/v2"
	"github.com/emersion/go-imap/v2/verif/internal/hx"
	"github.com/emersion/go-imap/v2/verif/internal/kit"
	sr "github.com/emersion/go-imap/v2/verif/internal/ref/searchref"
)

func bits(sel []bool) string {
	n := 0
	for _, b := range sel {
		if b {
			n++
		}
	}
	return fmt.Sprintf("%d/%d", n, len(sel))
}

func firstDiff(a, b []bool) int {
	for i := range a {
		if a[i] != b[i] {
			return i
		}
	}
	return -1
}

// ---- A: And law -------------------------------------------------------------

func andLaw(w *hx.W, uni []sr.Msg, ctx sr.Ctx, zone string, thin int) {
	pool := sr.Pool(w.RandGlobal("pool"), w.Pick(260, 620))
	sel := make([][]bool, len(pool))
	for i := range pool {
		sel[i] = sr.Selected(&pool[i], uni, ctx)
	}
	nontrivial := 0
	for i := range pool {
		n := 0
		for _, b := range sel[i] {
			if b {
				n++
			}
		}
		if n > 0 && n < len(uni) {
			nontrivial++
		}
	}
	w.Metric("pool_size", int64(len(pool)))
	w.MetricMax("max_pool_criteria_selecting_a_proper_subset", int64(nontrivial))
	stride := 1
	if w.Quick() {
		stride = 3
	}
	stride *= thin
	var pairs int64
	for i := range pool {
		for j := range pool {
			idx := i*len(pool) + j
			if !w.Mine(idx) || (stride > 1 && (i+j)%stride != 0 && i >= 80 && j >= 80) {
				continue
			}
			a, b := &pool[i], &pool[j]
			c := sr.Clone(a)
			bc := sr.Clone(b)
			if p, msg := hx.Guard(func() { c.And(bc) }); p {
				w.Violation("and-panic@"+sr.Fields(a)+"&"+sr.Fields(b), "And panicked: "+msg, nil)
				continue
			}
			pairs++
			got := sr.Selected(c, uni, ctx)
			for k := range uni {
				if got[k] != (sel[i][k] && sel[j][k]) {
					m := &uni[k]
					w.Violation("and-not-intersection@"+sr.Fields(a)+"&"+sr.Fields(b)+zone,
						fmt.Sprintf("a={%s} b={%s}: a.And(b)={%s} matches message #%d=%v but a matches=%v, b matches=%v (size=%d internal=%s flags=%v)",
							sr.Describe(a), sr.Describe(b), sr.Describe(c), m.Seq, got[k], sel[i][k], sel[j][k], m.Size, m.Internal.Format("2006-01-02"), flagList(m)),
						map[string]interface{}{"a": sr.Describe(a), "b": sr.Describe(b), "and": sr.Describe(c), "message_seq": m.Seq})
					break
				}
			}
			if !reflect.DeepEqual(bc, sr.Clone(b)) {
				w.Violation("and-modifies-operand@"+sr.Fields(a)+"&"+sr.Fields(b), fmt.Sprintf("b={%s} reads {%s} after a.And(b)", sr.Describe(b), sr.Describe(bc)), nil)
			}
			if pairs%20011 == 1 {
				w.Sample(map[string]string{"kind": "And pair", "a": sr.Describe(a), "b": sr.Describe(b), "a.And(b)": sr.Describe(c), "selected": bits(got)})
			}
			w.Class("and" + zone + "/" + sr.Fields(a) + "&" + sr.Fields(b))
		}
	}
	w.Enumerated(pairs)
	w.Metric("and_pairs", pairs)
	w.Metric("match_evaluations", pairs*int64(len(uni)))

	// aliasing: two results derived from one base with spare slice capacity must be independent
	base := imap.SearchCriteria{Flag: make([]imap.Flag, 1, 8), NotFlag: make([]imap.Flag, 1, 8), Body: make([]string, 1, 8)}
	base.Flag[0], base.NotFlag[0], base.Body[0] = imap.FlagSeen, imap.FlagDeleted, "alpha"
	if w.Shard == 0 {
		c1 := base
		c1.And(&imap.SearchCriteria{Flag: []imap.Flag{"kw1"}})
		want := sr.Selected(&c1, uni, ctx)
		c2 := base
		c2.And(&imap.SearchCriteria{Flag: []imap.Flag{imap.FlagAnswered}})
		_ = c2
		// (c1 and c2 share base's backing arrays by Go slice semantics: this is the caller's aliasing, not And's; only record it)
		if firstDiff(want, sr.Selected(&c1, uni, ctx)) >= 0 {
			w.Metric("caller_level_slice_aliasing_observed", 1)
		}
	}
}

// andHistories: criteria are values that programs keep and reuse. An operand built up by several
// And calls (its slices have spare capacity) is combined into several receivers, each of which is
// then refined further; at the end every result must still select exactly the conjunction it was
// built from, and the shared operand must be unchanged.
func andHistories(w *hx.W, uni []sr.Msg, ctx sr.Ctx) {
	rng := w.Rand("histories")
	singles := sr.Singles()
	sel := make([][]bool, len(singles))
	for i := range singles {
		sel[i] = sr.Selected(&singles[i], uni, ctx)
	}
	conj := func(idx []int) []bool {
		out := make([]bool, len(uni))
		for k := range out {
			out[k] = true
			for _, i := range idx {
				out[k] = out[k] && sel[i][k]
			}
		}
		return out
	}
	// singles grouped by the slice field they fill: accumulating several of one group in one operand
	// gives that slice spare capacity (append doubles), which is where shared backing arrays bite
	groups := map[string][]int{}
	for i := range singles {
		groups[sr.Fields(&singles[i])] = append(groups[sr.Fields(&singles[i])], i)
	}
	var gnames []string
	for g, l := range groups {
		if len(l) >= 3 {
			gnames = append(gnames, g)
		}
	}
	sort.Strings(gnames)
	n := w.Pick(400, 8000)
	for t := 0; t < n; t++ {
		var bParts []int
		b := &imap.SearchCriteria{}
		grp := groups[gnames[rng.Intn(len(gnames))]]
		pickIdx := func() int {
			if rng.Intn(4) != 0 {
				return grp[rng.Intn(len(grp))]
			}
			return rng.Intn(len(singles))
		}
		for k := 1 + rng.Intn(7); k > 0; k-- {
			i := pickIdx()
			b.And(sr.Clone(&singles[i]))
			bParts = append(bParts, i)
		}
		bSnap := sr.Clone(b)
		type res struct {
			c     *imap.SearchCriteria
			parts []int
		}
		var rs []res
		for j := 2 + rng.Intn(3); j > 0; j-- {
			r := &imap.SearchCriteria{}
			parts := append([]int(nil), bParts...)
			if rng.Intn(2) == 0 {
				i := rng.Intn(len(singles))
				r = sr.Clone(&singles[i])
				parts = append(parts, i)
			}
			r.And(b) // the same operand object every time
			rs = append(rs, res{r, parts})
		}
		for round := 0; round < 2; round++ {
			for j := range rs {
				i := pickIdx()
				rs[j].c.And(sr.Clone(&singles[i]))
				rs[j].parts = append(rs[j].parts, i)
			}
		}
		for j := range rs {
			got := sr.Selected(rs[j].c, uni, ctx)
			if k := firstDiff(got, conj(rs[j].parts)); k >= 0 {
				var names []string
				for _, i := range rs[j].parts {
					names = append(names, sr.Describe(&singles[i]))
				}
				w.Violation("and-history@result-changed-later", fmt.Sprintf("result #%d, built as the conjunction of [%s] by a history of And calls that share one operand, finally reads {%s} and differs on message #%d", j, strings.Join(names, " ; "), sr.Describe(rs[j].c), uni[k].Seq), nil)
				break
			}
		}
		if !reflect.DeepEqual(b, bSnap) {
			w.Violation("and-history@operand-modified", fmt.Sprintf("the shared operand {%s} reads {%s} after the results built from it were refined", sr.Describe(bSnap), sr.Describe(b)), nil)
		}
		w.CaseStr(fmt.Sprintf("history|%d|%v", t, bParts))
	}
	w.Class("and-histories")
	w.Metric("and_histories", int64(n))
}

func flagList(m *sr.Msg) []string {
	var o []string
	for f := range m.Flags {
		o = append(o, f)
	}
	return o
}

// ---- B: server parser --------------------------------------------------------

type key struct {
	text string
	ref  imap.SearchCriteria
}

func fl(f ...imap.Flag) []imap.Flag { return f }

func keyAlphabet() []key {
	d10, d15, f1 := sr.D(1, 10, 0, 0), sr.D(1, 15, 0, 0), sr.D(2, 1, 0, 0)
	day := 24 * time.Hour
	hdr := func(k, v string) []imap.SearchCriteriaHeaderField {
		return []imap.SearchCriteriaHeaderField{{Key: k, Value: v}}
	}
	ks := []key{
		{"ALL", imap.SearchCriteria{}},
		{"ANSWERED", imap.SearchCriteria{Flag: fl(imap.FlagAnswered)}},
		{"DELETED", imap.SearchCriteria{Flag: fl(imap.FlagDeleted)}},
		{"DRAFT", imap.SearchCriteria{Flag: fl(imap.FlagDraft)}},
		{"FLAGGED", imap.SearchCriteria{Flag: fl(imap.FlagFlagged)}},
		{"SEEN", imap.SearchCriteria{Flag: fl(imap.FlagSeen)}},
		{"RECENT", imap.SearchCriteria{Flag: fl("\\Recent")}},
		{"UNANSWERED", imap.SearchCriteria{NotFlag: fl(imap.FlagAnswered)}},
		{"UNDELETED", imap.SearchCriteria{NotFlag: fl(imap.FlagDeleted)}},
		{"UNDRAFT", imap.SearchCriteria{NotFlag: fl(imap.FlagDraft)}},
		{"UNFLAGGED", imap.SearchCriteria{NotFlag: fl(imap.FlagFlagged)}},
		{"UNSEEN", imap.SearchCriteria{NotFlag: fl(imap.FlagSeen)}},
		{"NEW", imap.SearchCriteria{Flag: fl("\\Recent"), NotFlag: fl(imap.FlagSeen)}},
		{"OLD", imap.SearchCriteria{NotFlag: fl("\\Recent")}},
		{"KEYWORD kw1", imap.SearchCriteria{Flag: fl("kw1")}},
		{"UNKEYWORD kw1", imap.SearchCriteria{NotFlag: fl("kw1")}},
		{"FROM bob", imap.SearchCriteria{Header: hdr("From", "bob")}},
		{"SUBJECT hello", imap.SearchCriteria{Header: hdr("Subject", "hello")}},
		{"SUBJECT \"Other Things\"", imap.SearchCriteria{Header: hdr("Subject", "Other Things")}},
		{"TO carol", imap.SearchCriteria{Header: hdr("To", "carol")}},
		{"CC dave", imap.SearchCriteria{Header: hdr("Cc", "dave")}},
		{"BCC nobody", imap.SearchCriteria{Header: hdr("Bcc", "nobody")}},
		{"HEADER X-Foo \"\"", imap.SearchCriteria{Header: hdr("X-Foo", "")}},
		{"HEADER subject {5+}\r\nhello", imap.SearchCriteria{Header: hdr("subject", "hello")}},
		{"SINCE 10-Jan-2020", imap.SearchCriteria{Since: d10}},
		{"SINCE 15-Jan-2020", imap.SearchCriteria{Since: d15}},
		{"BEFORE 15-Jan-2020", imap.SearchCriteria{Before: d15}},
		{"BEFORE 1-Feb-2020", imap.SearchCriteria{Before: f1}},
		{"ON 15-Jan-2020", imap.SearchCriteria{Since: d15, Before: d15.Add(day)}},
		{"ON 10-Jan-2020", imap.SearchCriteria{Since: d10, Before: d10.Add(day)}},
		{"SENTSINCE 10-Jan-2020", imap.SearchCriteria{SentSince: d10}},
		{"SENTBEFORE 1-Feb-2020", imap.SearchCriteria{SentBefore: f1}},
		{"SENTBEFORE 15-Jan-2020", imap.SearchCriteria{SentBefore: d15}},
		{"SENTON 15-Jan-2020", imap.SearchCriteria{SentSince: d15, SentBefore: d15.Add(day)}},
		{"BODY alpha", imap.SearchCriteria{Body: []string{"alpha"}}},
		{"BODY \"gamma delta\"", imap.SearchCriteria{Body: []string{"gamma delta"}}},
		{"TEXT hello", imap.SearchCriteria{Text: []string{"hello"}}},
		{"LARGER 100", imap.SearchCriteria{Larger: 100}},
		{"LARGER 200", imap.SearchCriteria{Larger: 200}},
		{"SMALLER 1000", imap.SearchCriteria{Smaller: 1000}},
		{"SMALLER 200", imap.SearchCriteria{Smaller: 200}},
		{"NOT SEEN", imap.SearchCriteria{Not: []imap.SearchCriteria{{Flag: fl(imap.FlagSeen)}}}},
		{"NOT LARGER 100", imap.SearchCriteria{Not: []imap.SearchCriteria{{Larger: 100}}}},
		{"NOT (SEEN DELETED)", imap.SearchCriteria{Not: []imap.SearchCriteria{{Flag: fl(imap.FlagSeen, imap.FlagDeleted)}}}},
		{"NOT NEW", imap.SearchCriteria{Not: []imap.SearchCriteria{{Flag: fl("\\Recent"), NotFlag: fl(imap.FlagSeen)}}}},
		{"OR SEEN DELETED", imap.SearchCriteria{Or: [][2]imap.SearchCriteria{{{Flag: fl(imap.FlagSeen)}, {Flag: fl(imap.FlagDeleted)}}}}},
		{"OR SMALLER 100 LARGER 1000", imap.SearchCriteria{Or: [][2]imap.SearchCriteria{{{Smaller: 100}, {Larger: 1000}}}}},
		{"OR (SMALLER 200 SEEN) (LARGER 200 UNSEEN)", imap.SearchCriteria{Or: [][2]imap.SearchCriteria{{{Smaller: 200, Flag: fl(imap.FlagSeen)}, {Larger: 200, NotFlag: fl(imap.FlagSeen)}}}}},
		{"OR NEW OLD", imap.SearchCriteria{Or: [][2]imap.SearchCriteria{{{Flag: fl("\\Recent"), NotFlag: fl(imap.FlagSeen)}, {NotFlag: fl("\\Recent")}}}}},
		{"UID 2:200", imap.SearchCriteria{UID: []imap.UIDSet{{{Start: 2, Stop: 200}}}}},
		{"UID 50:*", imap.SearchCriteria{UID: []imap.UIDSet{{{Start: 50, Stop: 0}}}}},
		{"1:150", imap.SearchCriteria{SeqNum: []imap.SeqSet{{{Start: 1, Stop: 150}}}}},
		{"100:*", imap.SearchCriteria{SeqNum: []imap.SeqSet{{{Start: 100, Stop: 0}}}}},
		{"3,5,300", imap.SearchCriteria{SeqNum: []imap.SeqSet{{{Start: 3, Stop: 3}, {Start: 5, Stop: 5}, {Start: 300, Stop: 300}}}}},
		{"(SEEN SMALLER 1000)", imap.SearchCriteria{Flag: fl(imap.FlagSeen), Smaller: 1000}},
		{"(LARGER 100 (UNDELETED))", imap.SearchCriteria{Larger: 100, NotFlag: fl(imap.FlagDeleted)}},
	}
	return ks
}

func permutations(n int) [][]int {
	var out [][]int
	p := make([]int, n)
	for i := range p {
		p[i] = i
	}
	var rec func(k int)
	rec = func(k int) {
		if k == n {
			out = append(out, append([]int(nil), p...))
			return
		}
		for i := k; i < n; i++ {
			p[k], p[i] = p[i], p[k]
			rec(k + 1)
			p[k], p[i] = p[i], p[k]
		}
	}
	rec(0)
	return out
}

var searchKeyNames = map[string]bool{"ALL": true, "ANSWERED": true, "BCC": true, "BEFORE": true, "BODY": true, "CC": true, "DELETED": true, "FLAGGED": true, "FROM": true, "KEYWORD": true, "NEW": true, "OLD": true, "ON": true, "RECENT": true, "SEEN": true, "SINCE": true, "SUBJECT": true, "TEXT": true, "TO": true, "UNANSWERED": true, "UNDELETED": true, "UNFLAGGED": true, "UNKEYWORD": true, "UNSEEN": true, "DRAFT": true, "HEADER": true, "LARGER": true, "NOT": true, "OR": true, "SENTBEFORE": true, "SENTON": true, "SENTSINCE": true, "SMALLER": true, "UID": true, "UNDRAFT": true}

// respell writes the search-key names of a key list in lower or mixed case (search keys are
// case-insensitive atoms; their arguments are left alone).
func respell(rng *rand.Rand, text string) string {
	f := strings.Split(text, " ")
	mode := rng.Intn(2)
	for i, t := range f {
		bare := strings.TrimLeft(t, "(")
		if !searchKeyNames[strings.ToUpper(bare)] || bare != strings.ToUpper(bare) {
			continue
		}
		b := []byte(t)
		for k := range b {
			if b[k] >= 'A' && b[k] <= 'Z' && (mode == 0 || rng.Intn(2) == 0) {
				b[k] += 32
			}
		}
		f[i] = string(b)
	}
	return strings.Join(f, " ")
}

func serverKeys(w *hx.W, uni []sr.Msg, ctx sr.Ctx) {
	srv := kit.NewServer(kit.ServerCfg{Caps: imap.CapSet{imap.CapIMAP4rev1: {}, imap.CapIMAP4rev2: {}}, InsecureAuth: true})
	defer srv.Close()
	raw := srv.Dial()
	defer raw.Close()
	raw.Sync()
	raw.SendStr("a LOGIN u p\r\nb SELECT box\r\n")
	raw.Sync()
	ks := keyAlphabet()
	ksel := make([][]bool, len(ks))
	for i := range ks {
		ksel[i] = sr.Selected(&ks[i].ref, uni, ctx)
	}
	rng := w.Rand("keysets")
	nsets := w.Pick(120, 2500)
	var cmds int64
	runOne := func(idxs []int, uid bool) {
		perms := permutations(len(idxs))
		if len(perms) > 24 && w.Quick() {
			rng.Shuffle(len(perms), func(i, j int) { perms[i], perms[j] = perms[j], perms[i] })
			perms = perms[:24]
		}
		want := make([]bool, len(uni))
		for k := range want {
			want[k] = true
			for _, ix := range idxs {
				want[k] = want[k] && ksel[ix][k]
			}
		}
		for pi, perm := range perms {
			var parts []string
			for _, p := range perm {
				parts = append(parts, ks[idxs[p]].text)
			}
			line := "SEARCH " + strings.Join(parts, " ")
			if pi%3 == 1 {
				line = "SEARCH " + respell(rng, strings.Join(parts, " "))
				w.Metric("search_commands_with_respelled_keys", 1)
			}
			if uid {
				line = "UID " + line
			}
			tag := fmt.Sprintf("s%d", cmds)
			cmds++
			base := srv.B.NCalls()
			raw.SendStr(tag + " " + line + "\r\n")
			out, cond := raw.Sync()
			lines, _ := kit.ParseResponses(out)
			tg := kit.Tagged(lines)
			sig := func(class string) string {
				// signature: class + the sorted key *names* involved
				var names []string
				for _, ix := range idxs {
					names = append(names, strings.Fields(ks[ix].text)[0])
				}
				return class + "@" + strings.Join(names, "+")
			}
			if cond != "parked" || len(tg) != 1 || tg[0].Status != "OK" {
				w.Violation(sig("search-rejected"), fmt.Sprintf("valid command %q answered %q (%s)", line, out, cond), map[string]string{"command": line})
				if cond != "parked" {
					return
				}
				continue
			}
			var crit *imap.SearchCriteria
			for _, c := range srv.B.CallsSince(base) {
				if c.Method == "Search" {
					crit = c.Criteria
				}
			}
			if crit == nil {
				w.Violation(sig("search-not-delivered"), fmt.Sprintf("%q answered OK without a Search call", line), nil)
				continue
			}
			got := sr.Selected(crit, uni, ctx)
			if k := firstDiff(got, want); k >= 0 {
				m := &uni[k]
				w.Violation(sig("search-keys-not-intersection"),
					fmt.Sprintf("%q: recorded criteria {%s} select %s of the universe, the conjunction of the keys selects %s; e.g. message #%d (size=%d internal=%s sent=%s flags=%v): criteria=%v keys=%v",
						line, sr.Describe(crit), bits(got), bits(want), m.Seq, m.Size, m.Internal.Format("2006-01-02"), m.Sent.Format("2006-01-02"), flagList(m), got[k], want[k]),
					map[string]interface{}{"command": line, "recorded": sr.Describe(crit)})
			}
			w.CaseStr(line)
			if pi == 0 && cmds%500 < 24 {
				w.Sample(map[string]string{"kind": "SEARCH command", "command": line, "recorded_criteria": sr.Describe(crit), "selected": bits(got)})
			}
		}
		w.Class(fmt.Sprintf("search/%dkeys", len(idxs)))
	}
	// all single keys and all ordered pairs first (systematic), then random sets of 3..5
	for i := range ks {
		if w.Mine(i) {
			runOne([]int{i}, false)
		}
	}
	pi := 0
	for i := range ks {
		for j := i; j < len(ks); j++ {
			pi++
			if w.Mine(pi) && (!w.Quick() || pi%3 == 0) {
				runOne([]int{i, j}, pi%5 == 0)
			}
		}
	}
	for s := 0; s < nsets; s++ {
		n := 3 + rng.Intn(3)
		idxs := rng.Perm(len(ks))[:n]
		runOne(idxs, rng.Intn(4) == 0)
	}
	// keys whose sub-key is malformed must not be silently dropped
	for i, bad := range []string{"NOT KEYWORD", "OR SEEN", "SEEN NOT UID", "OR SEEN LARGER", "NOT LARGER x", "DELETED NOT BEFORE yesterday", "NOT", "OR (SEEN", "SEEN OR NOT"} {
		if !w.Mine(i) {
			continue
		}
		base := srv.B.NCalls()
		tag := fmt.Sprintf("bad%d", i)
		raw.SendStr(tag + " SEARCH " + bad + "\r\n")
		out, cond := raw.Sync()
		tg := kit.Tagged(parse(out))
		called := false
		for _, c := range srv.B.CallsSince(base) {
			if c.Method == "Search" {
				called = true
			}
		}
		w.CaseStr("bad:" + bad)
		w.Class("search/malformed-subkey")
		if cond == "parked" && len(tg) == 1 && tg[0].Status == "OK" || called {
			w.Violation("search-malformed-key-dropped@"+bad, fmt.Sprintf("SEARCH %s (malformed key) was answered %q and Search called=%v: a constraint was silently dropped", bad, strings.TrimSpace(string(out)), called), nil)
		}
		if cond != "parked" {
			break
		}
	}
	w.Metric("search_commands", cmds)
	if p := srv.Log.Panics(); len(p) > 0 {
		w.Violation("server-panic", p[0], nil)
	}
}

// memKeys: the last clause end to end, on the real in-memory backend (the property's reference use
// of the semantics, message.search). No model of matching is needed: the result of a multi-key
// SEARCH, in every order of its keys, has to be the intersection of the results the same server
// gives for each key alone.
func memKeys(w *hx.W) {
	mem := kit.NewMem(kit.MemCfg{})
	defer mem.Close()
	words := []string{"alpha", "bravo", "gamma delta"}
	var msgs [][]byte
	var flags [][]imap.Flag
	flagPool := [][]imap.Flag{nil, {imap.FlagSeen}, {imap.FlagDeleted}, {imap.FlagSeen, imap.FlagFlagged}, {imap.FlagAnswered, "kw1"}, {imap.FlagDraft, imap.FlagSeen, imap.FlagDeleted}}
	for i := 0; i < 24; i++ {
		body := "filler text\r\n"
		for b, wd := range words {
			if i&(1<<b) != 0 {
				body += "line with " + wd + " in it\r\n"
			}
		}
		body += strings.Repeat("x", []int{10, 90, 150, 400, 1200}[i%5])
		subject := []string{"hello world", "Other Things", "misc"}[i%3]
		from := []string{"bob@example.org", "alice@example.org"}[(i/3)%2]
		msgs = append(msgs, kit.SimpleMessage(subject, from, body, time.Date(2020, 1, 1+i, 12, 0, 0, 0, time.UTC)))
		flags = append(flags, flagPool[i%len(flagPool)])
	}
	mem.Populate("INBOX", msgs, flags)
	raw := mem.DialRaw()
	defer raw.Close()
	raw.Sync()
	raw.SendStr("a LOGIN user pass\r\nb SELECT INBOX\r\n")
	raw.Sync()
	var texts []string
	for _, k := range keyAlphabet() {
		texts = append(texts, k.text)
	}
	texts = append(texts, "BODY bravo", "NOT BODY alpha", "NOT BODY bravo", "OR BODY alpha BODY bravo", "OR BODY bravo BODY \"gamma delta\"", "NOT TEXT hello", "TEXT bravo", "OR TEXT alpha SUBJECT misc",
		"NOT (BODY alpha BODY bravo)", "OR (BODY alpha UNSEEN) (BODY bravo SEEN)", "NOT FROM bob", "OR FROM alice SUBJECT hello", "NOT HEADER Subject Other",
		"SINCE 10-Jan-2023", "BEFORE 20-Jan-2023", "ON 5-Jan-2023", "NOT SINCE 10-Jan-2023", "SENTSINCE 12-Jan-2020", "SENTBEFORE 20-Jan-2020", "NOT SENTON 15-Jan-2020", "OR SENTBEFORE 5-Jan-2020 SENTSINCE 20-Jan-2020",
		"LARGER 300", "SMALLER 500", "NOT SMALLER 300", "UID 5:20", "NOT UID 1:3", "2:4,10:*", "NOT 5:9")
	var cmds int64
	search := func(keys string, uid bool) (map[uint32]bool, bool) {
		tag := fmt.Sprintf("m%d", cmds)
		cmds++
		line := "SEARCH " + keys
		if uid {
			line = "UID " + line
		}
		raw.SendStr(tag + " " + line + "\r\n")
		out, cond := raw.Sync()
		lines, _ := kit.ParseResponses(out)
		tg := kit.Tagged(lines)
		if cond != "parked" || len(tg) != 1 || tg[0].Status != "OK" {
			w.Violation("mem-search-rejected@"+strings.Fields(keys)[0], fmt.Sprintf("valid command %q answered %q (%s) by the in-memory backend", line, out, cond), nil)
			return nil, false
		}
		res := map[uint32]bool{}
		for _, ln := range strings.Split(string(out), "\r\n") {
			if strings.HasPrefix(ln, "* SEARCH") {
				for _, f := range strings.Fields(ln)[2:] {
					var n uint32
					fmt.Sscanf(f, "%d", &n)
					res[n] = true
				}
			}
		}
		return res, true
	}
	show := func(m map[uint32]bool) string {
		var l []int
		for n := range m {
			l = append(l, int(n))
		}
		sort.Ints(l)
		return fmt.Sprint(l)
	}
	single := map[bool][]map[uint32]bool{false: make([]map[uint32]bool, len(texts)), true: make([]map[uint32]bool, len(texts))}
	for _, uid := range []bool{false, true} {
		for i, t := range texts {
			r, ok := search(t, uid)
			if !ok {
				return
			}
			single[uid][i] = r
		}
	}
	rng := w.Rand("memkeys")
	nsets := w.Pick(150, 3000)
	for sidx := 0; sidx < nsets; sidx++ {
		n := 2 + rng.Intn(3)
		idxs := rng.Perm(len(texts))[:n]
		uid := rng.Intn(3) == 0
		if !w.Mine(sidx) {
			continue
		}
		want := map[uint32]bool{}
		for num := range single[uid][idxs[0]] {
			in := true
			for _, ix := range idxs[1:] {
				in = in && single[uid][ix][num]
			}
			if in {
				want[num] = true
			}
		}
		perms := permutations(n)
		if len(perms) > 6 {
			rng.Shuffle(len(perms), func(i, j int) { perms[i], perms[j] = perms[j], perms[i] })
			perms = perms[:6]
		}
		for _, perm := range perms {
			var parts []string
			for _, p := range perm {
				parts = append(parts, texts[idxs[p]])
			}
			keys := strings.Join(parts, " ")
			got, ok := search(keys, uid)
			if !ok {
				return
			}
			if show(got) != show(want) {
				var names []string
				for _, ix := range idxs {
					names = append(names, strings.Fields(texts[ix])[0]+"/"+strings.Fields(texts[ix] + " .")[1])
				}
				sort.Strings(names)
				var each []string
				for _, ix := range idxs {
					each = append(each, fmt.Sprintf("%s -> %s", texts[ix], show(single[uid][ix])))
				}
				w.Violation("mem-search-keys-not-intersection@"+strings.Join(names, "+"),
					fmt.Sprintf("in-memory backend, uid=%v: SEARCH %s returned %s; the same server answers each key alone with {%s}, whose intersection is %s", uid, keys, show(got), strings.Join(each, "; "), show(want)),
					map[string]interface{}{"command": keys})
			}
			w.CaseStr("mem:" + keys)
		}
		w.Class(fmt.Sprintf("mem-search/%dkeys", n))
	}
	w.Metric("mem_search_commands", cmds)
}

func parse(b []byte) []kit.RespLine { l, _ := kit.ParseResponses(b); return l }

func body(w *hx.W) {
	uni, ctx := sr.Universe(400)
	andLaw(w, uni, ctx, "", 1)
	andHistories(w, uni, ctx)
	serverKeys(w, uni, ctx)
	memKeys(w)
	// the same law with every time (bounds and message dates) in one non-UTC zone: the calendar date
	// of each is still unambiguous, but no longer the UTC date
	for _, z := range []struct {
		name string
		loc  *time.Location
	}{{"/zone+09:00", time.FixedZone("", 9*3600)}, {"/zone-05:00", time.FixedZone("", -5*3600)}, {"/zone+05:30", time.FixedZone("", 5*3600+1800)}} {
		sr.Loc = z.loc
		zu, zc := sr.Universe(400)
		andLaw(w, zu, zc, z.name, 4)
	}
	sr.Loc = time.UTC
	_ = rand.Int
}

func main() {
	hx.Main(hx.Spec{
		ID:    "C19",
		Level: "exploration",
		Rule: "A: ordered pairs (a,b) from a pool of criteria (every single field with boundary values, unset bounds, NOT/OR trees, directly composed multi-field criteria), evaluated on a 400-message universe that distinguishes every field (each ordered pair distinct by construction); " +
			"B: SEARCH commands of 1..5 keys from a 56-key alphabet (incl. NEW, OLD, ON, SENTON, LARGER/SMALLER, KEYWORD, NOT/OR, parenthesised lists, sets) sent in every permutation (<=120) through a real server (distinct by command text)",
		Assumptions: []string{
			"reference matcher internal/ref/searchref written from RFC 9051 §6.4.4 and the SearchCriteria field docs: dates compared as calendar dates, flags case-insensitive, Larger/Smaller strict, zero = unset",
			"within one run all times (bounds and message dates) are in one zone - UTC, +09:00, -05:00 or +05:30 - so that the calendar date of each is unambiguous and the calendar-date and instant readings of the date bounds coincide; ModSeq is outside the property",
			"a key whose sub-key is malformed has no meaning: the command must not be answered OK",
		},
		WallQuick: 20 * time.Minute, WallThorough: 120 * time.Minute,
	}, body)
}
