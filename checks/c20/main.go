// C20 — LIST wildcard matching follows IMAP semantics.
//
// Monitor: imapserver.MatchList is called on exhaustively enumerated and
// random (name, delimiter, reference, pattern) tuples; the oracle resolves the
// pattern against the reference by the documented rule and decides the match
// with two independent implementations (dynamic programming and an anchored
// regular expression) that must agree with each other.
package main

import (
	"fmt"
	"regexp"
	"strings"
	"time"

	"github.com/emersion/go-imap/v2/imapserver"
	"github.com/emersion/go-imap/v2/verif/internal/hx"
)

// resolve implements the rule documented by the repository's own TestMatchList
// rows: a pattern that starts with the delimiter is absolute (reference dropped,
// leading delimiter removed); otherwise a non-empty reference, completed with the
// delimiter when it lacks one, is a literal prefix of the name.
// It returns the literal prefix and the wildcard pattern for the remainder.
func resolve(delim, reference, pattern string) (prefix, pat string) {
	if delim != "" && strings.HasPrefix(pattern, delim) {
		return "", pattern[len(delim):]
	}
	if reference != "" && delim != "" && !strings.HasSuffix(reference, delim) {
		reference += delim
	}
	return reference, pattern
}

// dpMatch: '*' any sequence, '%' any sequence without the delimiter, others literal.
func dpMatch(name, delim, pat string) bool {
	n, m := len(name), len(pat)
	// ok[i][j]: pat[j:] matches name[i:]
	ok := make([][]bool, n+1)
	for i := range ok {
		ok[i] = make([]bool, m+1)
	}
	for i := n; i >= 0; i-- {
		for j := m; j >= 0; j-- {
			switch {
			case j == m:
				ok[i][j] = i == n
			case pat[j] == '*':
				ok[i][j] = ok[i][j+1] || (i < n && ok[i+1][j])
			case pat[j] == '%':
				ok[i][j] = ok[i][j+1] || (i < n && !(delim != "" && name[i] == delim[0]) && ok[i+1][j])
			default:
				ok[i][j] = i < n && name[i] == pat[j] && ok[i+1][j+1]
			}
		}
	}
	return ok[0][0]
}

var reCache = map[string]*regexp.Regexp{}

func reMatch(name, delim, pat string) bool {
	key := delim + "\x00" + pat
	re := reCache[key]
	if re == nil {
		var sb strings.Builder
		sb.WriteString(`(?s)^`)
		lit := func(s string) {
			// byte-wise literal (names may contain arbitrary bytes)
			for i := 0; i < len(s); i++ {
				fmt.Fprintf(&sb, `\x%02x`, s[i])
			}
		}
		for i := 0; i < len(pat); i++ {
			switch pat[i] {
			case '*':
				sb.WriteString(`.*`)
			case '%':
				if delim == "" {
					sb.WriteString(`.*`)
				} else {
					fmt.Fprintf(&sb, `[^\x%02x]*`, delim[0])
				}
			default:
				lit(pat[i : i+1])
			}
		}
		sb.WriteString(`$`)
		re = regexp.MustCompile(sb.String())
		if len(reCache) > 1<<16 {
			reCache = map[string]*regexp.Regexp{}
		}
		reCache[key] = re
	}
	return re.MatchString(name)
}

type checker struct {
	w     *hx.W
	agree int64
}

func (c *checker) one(name string, delim rune, ref, pat string) bool {
	d := ""
	if delim != 0 {
		d = string(delim)
	}
	prefix, rp := resolve(d, ref, pat)
	want := false
	if strings.HasPrefix(name, prefix) {
		rest := name[len(prefix):]
		want = dpMatch(rest, d, rp)
		if asciiOnly(rest) && asciiOnly(rp) { // regexp works on runes; compare on ASCII only
			if re := reMatch(rest, d, rp); re != want {
				c.w.Violation("harness-oracles-disagree", fmt.Sprintf("DP=%v regexp=%v for name=%q delim=%q pattern=%q", want, re, rest, d, rp), nil)
				return want
			}
			c.agree++
		}
	}
	var got bool
	if p, msg := hx.Guard(func() { got = imapserver.MatchList(name, delim, ref, pat) }); p {
		c.w.Violation("matchlist-panic@"+pat, fmt.Sprintf("MatchList(%q,%q,%q,%q) panicked: %s", name, d, ref, pat, msg), nil)
		return want
	}
	if got != want {
		c.w.Violation(fmt.Sprintf("matchlist@pattern=%q/ref=%q/delim=%q/want=%v", pat, ref, d, want),
			fmt.Sprintf("MatchList(name=%q, delim=%q, ref=%q, pattern=%q) = %v, oracle says %v", name, d, ref, pat, got, want),
			map[string]interface{}{"name": name, "delim": d, "reference": ref, "pattern": pat, "got": got, "want": want})
	}
	return want
}

func asciiOnly(s string) bool {
	for i := 0; i < len(s); i++ {
		if s[i] >= 0x80 || s[i] == 0 {
			return false
		}
	}
	return true
}

func enumStrings(alpha string, maxLen int) []string {
	out := []string{""}
	prev := []string{""}
	for l := 1; l <= maxLen; l++ {
		var cur []string
		for _, p := range prev {
			for i := 0; i < len(alpha); i++ {
				cur = append(cur, p+alpha[i:i+1])
			}
		}
		out = append(out, cur...)
		prev = cur
	}
	return out
}

func body(w *hx.W) {
	c := &checker{w: w}
	L := w.Pick(4, 5)
	names := enumStrings("ab/.", L)
	pats := enumStrings("ab/*%", L)
	refs := []string{"", "a", "a/", "a/b", "/", "b.", "%", "a*"}
	delims := []rune{'/', '.', 0}
	var matched, total int64
	for pi, pat := range pats {
		if !w.Mine(pi) {
			continue
		}
		for _, d := range delims {
			for _, ref := range refs {
				if w.Quick() && ref != "" && pi%4 != 0 {
					// quick tier: non-empty references on every 4th pattern only
					continue
				}
				for _, name := range names {
					if c.one(name, d, ref, pat) {
						matched++
					}
					total++
				}
				w.Class(fmt.Sprintf("delim=%q/ref=%q", string(d), ref))
			}
		}
	}
	w.Enumerated(total)
	w.Metric("enumerated_tuples", total)
	w.Metric("oracle_matches_true", matched)
	w.Metric("dp_regexp_agreements", c.agree)
	w.Sample(map[string]interface{}{"kind": "exhaustive", "names": len(names), "patterns": len(pats), "references": refs, "delimiters": []string{"/", ".", "none"}, "max_len": L,
		"example": map[string]string{"name": names[len(names)/3], "pattern": pats[len(pats)/2]}})
	// targeted: names and patterns around "INBOX" in every case (only the wire decoder folds the
	// mailbox name INBOX; for the matcher every character other than the wildcards matches only itself)
	inb := []string{"INBOX", "inbox", "Inbox", "InBoX", "INBOXes", "inboxes", "Inbox/sub", "INBOX/sub", "inbox.sub", "inbox-archive", "xInbox", "INBO", "nbox"}
	inbPats := append(append([]string{}, inb...), "Inbox%", "inbox*", "INBOX%", "*box*", "%nbox", "I*", "i%", "%/sub", "*")
	ti := 0
	for _, d := range delims {
		for _, ref := range []string{"", "Inbox", "INBOX/", "inbox", "x"} {
			for _, pat := range inbPats {
				for _, name := range inb {
					ti++
					if !w.Mine(ti) {
						continue
					}
					c.one(name, d, ref, pat)
					w.CaseStr(fmt.Sprintf("inbox\x00%s\x00%c\x00%s\x00%s", name, d, ref, pat))
				}
			}
		}
	}
	w.Class("targeted/inbox-case")
	// random long names / patterns, incl. multi-byte runes and bytes
	rng := w.Rand("random")
	n := w.Pick(60000, 2000000)
	atoms := []string{"a", "b", "ab", "é", "日本", "/", ".", "x", " ", "INBOX", "-", "&", "inbox", "Inbox", "A", "B"}
	for i := 0; i < n; i++ {
		d := delims[rng.Intn(len(delims))]
		var nb, pb strings.Builder
		for k := rng.Intn(8); k >= 0; k-- {
			a := atoms[rng.Intn(len(atoms))]
			nb.WriteString(a)
			switch rng.Intn(6) {
			case 0:
				pb.WriteString("*")
			case 1:
				pb.WriteString("%")
			case 2: // drop / alter
				pb.WriteString(atoms[rng.Intn(len(atoms))])
			default:
				pb.WriteString(a)
			}
		}
		if rng.Intn(5) == 0 {
			pb.WriteString([]string{"*", "%", "%%", "*%", "%*"}[rng.Intn(5)])
		}
		name, pat := nb.String(), pb.String()
		ref := ""
		switch rng.Intn(6) {
		case 0:
			if len(name) > 0 { // a true prefix of the name, cut at a rune boundary
				k := rng.Intn(len(name) + 1)
				for k < len(name) && name[k]&0xC0 == 0x80 {
					k++
				}
				ref = name[:k]
				if rng.Intn(2) == 0 && k <= len(name) {
					pat = strings.TrimPrefix(pat, ref)
				}
			}
		case 1:
			ref = atoms[rng.Intn(len(atoms))]
		case 2:
			if d != 0 {
				pat = string(d) + pat
				ref = "zzz"
			}
		}
		c.one(name, d, ref, pat)
		w.CaseStr(fmt.Sprintf("%s\x00%c\x00%s\x00%s", name, d, ref, pat))
		w.Class("random")
		if i == 0 {
			w.Sample(map[string]string{"kind": "random", "name": name, "delim": string(d), "reference": ref, "pattern": pat})
		}
	}
}

func main() {
	hx.Main(hx.Spec{
		ID:    "C20",
		Level: "exploration",
		Rule: "every (name, pattern) over names in {a,b,/,.}^<=L and patterns in {a,b,/,*,%}^<=L, times references {\"\",a,a/,a/b,/,b.,%,a*} and delimiters {'/','.',none} (each tuple distinct by construction), " +
			"plus a targeted product of names and patterns spelling INBOX in every case, plus random long names/patterns with multi-byte runes and mixed case (distinct by hash)",
		Assumptions: []string{
			"reference resolution rule as documented by the last rows of the repository's TestMatchList: a pattern starting with the delimiter is absolute and loses it; otherwise the reference (completed with the delimiter) is a literal prefix; wildcards in the reference are not special",
			"'%' is defined on bytes: it does not match the (ASCII) delimiter byte; non-ASCII delimiters are outside IMAP's QUOTED-CHAR",
			"two oracle implementations (DP, anchored regexp) must agree; a disagreement is reported as a harness fault",
		},
		WallQuick: 20 * time.Minute, WallThorough: 120 * time.Minute,
	}, body)
}
