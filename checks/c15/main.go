// C15 — message number sets behave as mathematical sets under RFC semantics.
//
// Monitor: every operation sequence is applied in lock-step to the real
// imapnum.Set, imap.SeqSet and imap.UIDSet and to a reference model (explicit
// list of inserted intervals + a '*' bit). After EVERY step the oracle checks
// canonical form, membership on all interesting probes, Dynamic(), the
// String()/ParseSet round trip and, for static sets of small cardinality,
// that Nums() terminates and enumerates exactly the members in ascending order.
// Built with -d=checkptr so that the unsafe casts of numset.go / imapwire/num.go
// are instrumented.
package main

import (
	"bufio"
	"fmt"
	"math/rand"
	"reflect"
	"sort"
	"strconv"
	"strings"
	"time"

	imap "github.com/emersion/go-imap/v2"
	"github.com/emersion/go-imap/v2/internal/imapnum"
	"github.com/emersion/go-imap/v2/internal/imapwire"
	"github.com/emersion/go-imap/v2/verif/internal/hx"
)

const maxU = ^uint32(0)

// ---- reference model -------------------------------------------------------

type iv struct{ lo, hi uint32 } // lo<=hi, both non-zero

type refSet struct {
	ivs  []iv
	star bool
}

func (r *refSet) clone() *refSet {
	c := &refSet{star: r.star}
	c.ivs = append(c.ivs, r.ivs...)
	return c
}

// addRange implements the RFC 3501 meaning of seq-range a:b where 0 stands for '*':
// "n:*" (or "*:n") = all numbers >= n plus '*'; "*" = only '*'.
func (r *refSet) addRange(a, b uint32) {
	switch {
	case a == 0 && b == 0:
		r.star = true
	case a == 0 || b == 0:
		n := a
		if n == 0 {
			n = b
		}
		r.star = true
		r.ivs = append(r.ivs, iv{n, maxU})
	default:
		if a > b {
			a, b = b, a
		}
		r.ivs = append(r.ivs, iv{a, b})
	}
}

func (r *refSet) addSet(o *refSet) {
	r.ivs = append(r.ivs, o.ivs...)
	r.star = r.star || o.star
}

func (r *refSet) contains(q uint32) bool {
	for _, v := range r.ivs {
		if v.lo <= q && q <= v.hi {
			return true
		}
	}
	return false
}

// merged returns the union as sorted disjoint non-adjacent intervals.
func (r *refSet) merged() []iv {
	s := append([]iv(nil), r.ivs...)
	sort.Slice(s, func(i, j int) bool { return s[i].lo < s[j].lo })
	var out []iv
	for _, v := range s {
		if n := len(out); n > 0 && (out[n-1].hi == maxU || v.lo <= out[n-1].hi+1) {
			if v.hi > out[n-1].hi {
				out[n-1].hi = v.hi
			}
			continue
		}
		out = append(out, v)
	}
	return out
}

func (r *refSet) card() uint64 {
	var c uint64
	for _, v := range r.merged() {
		c += uint64(v.hi-v.lo) + 1
	}
	return c
}

func (r *refSet) probes() []uint32 {
	m := map[uint32]bool{1: true, 2: true, maxU - 1: true, maxU: true}
	for _, v := range r.ivs {
		for _, e := range []uint32{v.lo, v.hi} {
			for _, d := range []uint32{e - 1, e, e + 1} {
				if d != 0 {
					m[d] = true
				}
			}
		}
	}
	out := make([]uint32, 0, len(m))
	for k := range m {
		out = append(out, k)
	}
	sort.Slice(out, func(i, j int) bool { return out[i] < out[j] })
	return out
}

// ---- operations ------------------------------------------------------------

type op struct {
	kind int // 0 AddNum, 1 AddRange, 2 AddSet
	a, b uint32
	set  int // index into pool for AddSet
}

func (o op) String() string {
	n := func(v uint32) string {
		if v == 0 {
			return "*"
		}
		return strconv.FormatUint(uint64(v), 10)
	}
	switch o.kind {
	case 0:
		return "AddNum(" + n(o.a) + ")"
	case 1:
		return "AddRange(" + n(o.a) + "," + n(o.b) + ")"
	}
	return fmt.Sprintf("AddSet(pool[%d]=%s)", o.set, poolStr[o.set])
}

var poolStr = []string{"1", "2:3", "1,3,5", "5:*", "*", "4294967295", "4294967294:4294967295", "1:4294967294", "2,4294967295", "3:5,*", "1:2,4:5", "4294967294"}
var poolRef []*refSet
var poolSets []imapnum.Set
var poolPristine []imapnum.Set

func initPool() {
	for _, s := range poolStr {
		r := &refSet{}
		var set imapnum.Set
		for _, part := range strings.Split(s, ",") {
			ab := strings.Split(part, ":")
			pn := func(x string) uint32 {
				if x == "*" {
					return 0
				}
				v, _ := strconv.ParseUint(x, 10, 32)
				return uint32(v)
			}
			a := pn(ab[0])
			b := a
			if len(ab) == 2 {
				b = pn(ab[1])
			}
			r.addRange(a, b)
			// pool sets are built by hand in canonical form (independent of the code under test)
			if b == 0 && a != 0 {
				set = append(set, imapnum.Range{Start: a, Stop: 0})
			} else {
				set = append(set, imapnum.Range{Start: a, Stop: b})
			}
		}
		poolRef = append(poolRef, r)
		poolSets = append(poolSets, set)
		poolPristine = append(poolPristine, append(imapnum.Set(nil), set...))
	}
}

// triple of real sets driven in lock-step
type real3 struct {
	n imapnum.Set
	s imap.SeqSet
	u imap.UIDSet
}

func (t *real3) clone() *real3 {
	c := &real3{}
	c.n = append(imapnum.Set(nil), t.n...)
	c.s = append(imap.SeqSet(nil), t.s...)
	c.u = append(imap.UIDSet(nil), t.u...)
	return c
}

func toSeq(s imapnum.Set) imap.SeqSet {
	var o imap.SeqSet
	for _, r := range s {
		o = append(o, imap.SeqRange{Start: r.Start, Stop: r.Stop})
	}
	return o
}
func toUID(s imapnum.Set) imap.UIDSet {
	var o imap.UIDSet
	for _, r := range s {
		o = append(o, imap.UIDRange{Start: imap.UID(r.Start), Stop: imap.UID(r.Stop)})
	}
	return o
}

func (t *real3) apply(o op) {
	switch o.kind {
	case 0:
		t.n.AddNum(o.a)
		t.s.AddNum(o.a)
		t.u.AddNum(imap.UID(o.a))
	case 1:
		t.n.AddRange(o.a, o.b)
		t.s.AddRange(o.a, o.b)
		t.u.AddRange(imap.UID(o.a), imap.UID(o.b))
	case 2:
		t.n.AddSet(poolSets[o.set])
		t.s.AddSet(toSeq(poolSets[o.set]))
		t.u.AddSet(toUID(poolSets[o.set]))
	}
}

func applyRef(r *refSet, o op) {
	switch o.kind {
	case 0:
		r.addRange(o.a, o.a)
	case 1:
		r.addRange(o.a, o.b)
	case 2:
		r.addSet(poolRef[o.set])
	}
}

// ---- oracle ----------------------------------------------------------------

type checker struct {
	w *hx.W
}

func histStr(h []op) string {
	p := make([]string, len(h))
	for i, o := range h {
		p[i] = o.String()
	}
	return strings.Join(p, "; ")
}

func (c *checker) fail(class string, h []op, detail string) {
	last := ""
	if len(h) > 0 {
		last = h[len(h)-1].String()
	}
	c.w.Violation(class+"@"+last, fmt.Sprintf("%s after [%s]: %s", class, histStr(h), detail),
		map[string]interface{}{"history": histStr(h), "detail": detail})
}

func canonicalErr(s imapnum.Set) string {
	for i, r := range s {
		if r.Start == 0 && r.Stop != 0 {
			return fmt.Sprintf("range %d is {0,%d}", i, r.Stop)
		}
		if r.Stop != 0 && r.Start > r.Stop {
			return fmt.Sprintf("range %d has Start>Stop: %v", i, r)
		}
		if r.Stop == 0 && i != len(s)-1 {
			return fmt.Sprintf("dynamic range %v is not last", r)
		}
		if i > 0 {
			p := s[i-1]
			if p.Stop == 0 {
				return "range after a dynamic range"
			}
			if r.Start != 0 { // numeric lower bound: must be strictly beyond p.Stop+1
				if p.Stop == maxU || r.Start <= p.Stop+1 {
					return fmt.Sprintf("ranges %v and %v overlap or are adjacent / unsorted", p, r)
				}
			}
		}
	}
	return ""
}

func (c *checker) check(t *real3, r *refSet, h []op, nums bool) {
	// sets passed as arguments to AddSet must not be modified through the receiver (no shared storage)
	for _, o := range h {
		if o.kind == 2 && !reflect.DeepEqual(poolSets[o.set], poolPristine[o.set]) {
			c.fail("addset-argument-modified", h, fmt.Sprintf("argument set %q of an earlier AddSet now reads %q", poolStr[o.set], poolSets[o.set].String()))
			poolSets[o.set] = append(imapnum.Set(nil), poolPristine[o.set]...)
		}
	}
	// the three flavours must have identical representations
	if !reflect.DeepEqual(toSeq(t.n), append(imap.SeqSet(nil), t.s...)) && !(len(t.n) == 0 && len(t.s) == 0) {
		c.fail("seqset-differs-from-numset", h, fmt.Sprintf("imapnum=%v SeqSet=%v", t.n, t.s))
	}
	if !reflect.DeepEqual(toUID(t.n), append(imap.UIDSet(nil), t.u...)) && !(len(t.n) == 0 && len(t.u) == 0) {
		c.fail("uidset-differs-from-numset", h, fmt.Sprintf("imapnum=%v UIDSet=%v", t.n, t.u))
	}
	if e := canonicalErr(t.n); e != "" {
		c.fail("non-canonical", h, fmt.Sprintf("%s; set=%v", e, t.n))
	}
	for _, q := range r.probes() {
		want := r.contains(q)
		if got := t.n.Contains(q); got != want {
			c.fail("contains", h, fmt.Sprintf("imapnum.Set %q Contains(%d)=%v want %v", t.n.String(), q, got, want))
		}
		if got := t.s.Contains(q); got != want {
			c.fail("contains-seqset", h, fmt.Sprintf("SeqSet %q Contains(%d)=%v want %v", t.s.String(), q, got, want))
		}
		if got := t.u.Contains(imap.UID(q)); got != want {
			c.fail("contains-uidset", h, fmt.Sprintf("UIDSet %q Contains(%d)=%v want %v", t.u.String(), q, got, want))
		}
	}
	if t.n.Dynamic() != r.star || t.s.Dynamic() != r.star || t.u.Dynamic() != r.star {
		c.fail("dynamic", h, fmt.Sprintf("set %q Dynamic()=%v/%v/%v, '*' inserted=%v", t.n.String(), t.n.Dynamic(), t.s.Dynamic(), t.u.Dynamic(), r.star))
	}
	str := t.n.String()
	if t.s.String() != str || t.u.String() != str {
		c.fail("string-flavours", h, fmt.Sprintf("%q %q %q", str, t.s.String(), t.u.String()))
	}
	if len(t.n) > 0 {
		back, err := imapnum.ParseSet(str)
		if err != nil {
			c.fail("string-does-not-parse", h, fmt.Sprintf("String()=%q err=%v", str, err))
		} else if !reflect.DeepEqual(back, t.n) {
			c.fail("string-roundtrip", h, fmt.Sprintf("String()=%q parses to %v, set is %v", str, back, t.n))
		}
		if bs, err := imapwire.ParseSeqSet(str); err != nil || !reflect.DeepEqual(bs, t.s) {
			c.fail("string-roundtrip-seqset", h, fmt.Sprintf("String()=%q parses to %v err=%v, set is %v", str, bs, err, t.s))
		}
	} else if str != "" {
		c.fail("empty-string", h, fmt.Sprintf("empty set String()=%q", str))
	}
	if !nums {
		return
	}
	if r.star {
		if r.card() > 3000 {
			// Nums() on a dynamic set walks its static prefix first; for a huge prefix
			// this is merely slow, which the property does not forbid.
			return
		}
		end := c.w.Begin("nums@"+str, "Nums() on dynamic set "+str+" after ["+histStr(h)+"]", 60*time.Second)
		defer end()
		if _, ok := t.n.Nums(); ok {
			c.fail("nums-dynamic-ok", h, "Nums() of a dynamic set returned ok=true")
		}
		if _, ok := t.s.Nums(); ok {
			c.fail("nums-dynamic-ok", h, "SeqSet.Nums() of a dynamic set returned ok=true")
		}
		return
	}
	if r.card() > 3000 {
		return
	}
	var want []uint32
	for _, v := range r.merged() {
		for n := uint64(v.lo); n <= uint64(v.hi); n++ {
			want = append(want, uint32(n))
		}
	}
	end := c.w.Begin("nums@"+str, "Nums() on static set "+str+" after ["+histStr(h)+"]", 60*time.Second)
	got, ok := t.n.Nums()
	gs, oks := t.s.Nums()
	gu, oku := t.u.Nums()
	end()
	c.w.Metric("nums_enumerations", 1)
	if !ok || !oks || !oku {
		c.fail("nums-static-not-ok", h, fmt.Sprintf("set %q: ok=%v/%v/%v", str, ok, oks, oku))
		return
	}
	eq := func(g []uint32) bool {
		if len(g) != len(want) {
			return false
		}
		for i := range g {
			if g[i] != want[i] {
				return false
			}
		}
		return true
	}
	gu32 := make([]uint32, len(gu))
	for i, u := range gu {
		gu32[i] = uint32(u)
	}
	if !eq(got) || !eq(gs) || !eq(gu32) {
		c.fail("nums", h, fmt.Sprintf("set %q: Nums()=%v (len %d) want %v (len %d)", str, trunc(got), len(got), trunc(want), len(want)))
	}
}

func trunc(v []uint32) []uint32 {
	if len(v) > 12 {
		return v[:12]
	}
	return v
}

// ---- workload --------------------------------------------------------------

var endpoints = []uint32{1, 2, 3, 5, maxU - 1, maxU, 0}

func allOps() []op {
	var ops []op
	for _, a := range endpoints {
		ops = append(ops, op{kind: 0, a: a})
	}
	for _, a := range endpoints {
		for _, b := range endpoints {
			ops = append(ops, op{kind: 1, a: a, b: b})
		}
	}
	for i := range poolStr {
		ops = append(ops, op{kind: 2, set: i})
	}
	return ops
}

func (c *checker) dfs(t *real3, r *refSet, h []op, ops []op, depth int) {
	if depth == 0 {
		return
	}
	for i, o := range ops {
		if len(h) == 0 && !c.w.Mine(i) {
			continue
		}
		t2, r2 := t.clone(), r.clone()
		t2.apply(o)
		applyRef(r2, o)
		h2 := append(h[:len(h):len(h)], o)
		c.check(t2, r2, h2, true)
		c.w.Enumerated(1)
		if len(h2) <= 2 {
			c.w.Class(fmt.Sprintf("len%d/kind%d", len(h2), o.kind))
		}
		c.dfs(t2, r2, h2, ops, depth-1)
	}
}

func randEndpoint(rng *rand.Rand, base uint32) uint32 {
	switch rng.Intn(10) {
	case 0:
		return 0
	case 1:
		return maxU - uint32(rng.Intn(4))
	case 2:
		return uint32(1 + rng.Intn(3))
	case 3:
		return uint32(rng.Uint32()) | 1
	default:
		return base + uint32(rng.Intn(24))
	}
}

func (c *checker) random(rng *rand.Rand, n int) {
	for i := 0; i < n; i++ {
		t, r := &real3{}, &refSet{}
		base := uint32(1 + rng.Intn(50))
		if rng.Intn(6) == 0 {
			base = maxU - 40
		}
		L := 1 + rng.Intn(30)
		var h []op
		var sb strings.Builder
		for j := 0; j < L; j++ {
			var o op
			switch rng.Intn(7) {
			case 0, 1:
				o = op{kind: 0, a: randEndpoint(rng, base)}
			case 2:
				o = op{kind: 2, set: rng.Intn(len(poolStr))}
			default:
				o = op{kind: 1, a: randEndpoint(rng, base), b: randEndpoint(rng, base)}
			}
			t.apply(o)
			applyRef(r, o)
			h = append(h, o)
			sb.WriteString(o.String())
			c.check(t, r, h, j == L-1 || rng.Intn(4) == 0)
		}
		c.w.CaseStr(sb.String())
		c.w.Class(fmt.Sprintf("random/len%d", (L+9)/10*10))
		if i == 0 {
			c.w.Sample(map[string]string{"kind": "random operation sequence", "ops": histStr(h), "result": t.n.String()})
		}
	}
}

// ---- text: valid and invalid sequence-set strings -------------------------

func genNum(rng *rand.Rand) (string, uint32) {
	var v uint32
	switch rng.Intn(8) {
	case 0:
		return "*", 0
	case 1:
		v = maxU - uint32(rng.Intn(3))
	case 2:
		v = uint32(1 + rng.Intn(3))
	default:
		v = uint32(1 + rng.Intn(60))
	}
	return strconv.FormatUint(uint64(v), 10), v
}

func genValid(rng *rand.Rand) (string, *refSet) {
	r := &refSet{}
	n := 1 + rng.Intn(6)
	parts := make([]string, n)
	for i := range parts {
		a, av := genNum(rng)
		if rng.Intn(2) == 0 {
			b, bv := genNum(rng)
			parts[i] = a + ":" + b
			r.addRange(av, bv)
		} else {
			parts[i] = a
			r.addRange(av, av)
		}
	}
	return strings.Join(parts, ","), r
}

// validGrammar is an independent recognizer of RFC 3501 sequence-set:
// (seq-number / seq-range) *("," ...), seq-number = nz-number / "*",
// nz-number = digit-nz *DIGIT with value <= 2^32-1.
func validGrammar(s string) bool {
	if s == "" {
		return false
	}
	for _, part := range strings.Split(s, ",") {
		nums := strings.Split(part, ":")
		if len(nums) < 1 || len(nums) > 2 {
			return false
		}
		for _, n := range nums {
			if n == "*" {
				continue
			}
			if n == "" || n[0] < '1' || n[0] > '9' || len(n) > 10 {
				return false
			}
			for i := 0; i < len(n); i++ {
				if n[i] < '0' || n[i] > '9' {
					return false
				}
			}
			v, err := strconv.ParseUint(n, 10, 64)
			if err != nil || v > uint64(maxU) {
				return false
			}
		}
	}
	return true
}

func mutate(rng *rand.Rand, s string) string {
	b := []byte(s)
	alphabet := []byte("0123456789:,*$ -+x\x00")
	switch rng.Intn(5) {
	case 0: // insert
		i := rng.Intn(len(b) + 1)
		b = append(b[:i], append([]byte{alphabet[rng.Intn(len(alphabet))]}, b[i:]...)...)
	case 1: // delete
		if len(b) > 0 {
			i := rng.Intn(len(b))
			b = append(b[:i], b[i+1:]...)
		}
	case 2: // replace
		if len(b) > 0 {
			b[rng.Intn(len(b))] = alphabet[rng.Intn(len(alphabet))]
		}
	case 3: // overflow number
		over := []string{"4294967296", "99999999999", "18446744073709551616", "0", "00"}[rng.Intn(5)]
		parts := strings.Split(s, ",")
		parts[rng.Intn(len(parts))] = over
		return strings.Join(parts, ",")
	case 4: // leading zero
		i := rng.Intn(len(b) + 1)
		b = append(b[:i], append([]byte{'0'}, b[i:]...)...)
	}
	return string(b)
}

func (c *checker) texts(rng *rand.Rand, n int) {
	for i := 0; i < n; i++ {
		txt, ref := genValid(rng)
		c.w.CaseStr("valid:" + txt)
		c.w.Class("text/valid")
		set, err := imapnum.ParseSet(txt)
		if err != nil {
			c.w.Violation("parse-valid-rejected@"+txt, fmt.Sprintf("valid sequence-set %q rejected: %v", txt, err), map[string]string{"text": txt})
		} else {
			if e := canonicalErr(set); e != "" {
				c.w.Violation("parse-non-canonical@"+txt, fmt.Sprintf("ParseSet(%q)=%v: %s", txt, set, e), map[string]string{"text": txt})
			}
			for _, q := range ref.probes() {
				if set.Contains(q) != ref.contains(q) {
					c.w.Violation("parse-members@"+txt, fmt.Sprintf("ParseSet(%q)=%v Contains(%d)=%v want %v", txt, set, q, set.Contains(q), ref.contains(q)), map[string]string{"text": txt})
					break
				}
			}
			if set.Dynamic() != ref.star {
				c.w.Violation("parse-dynamic@"+txt, fmt.Sprintf("ParseSet(%q) Dynamic()=%v want %v", txt, set.Dynamic(), ref.star), map[string]string{"text": txt})
			}
			// the public wire entry point must agree
			if ss, err := imapwire.ParseSeqSet(txt); err != nil || !reflect.DeepEqual(toSeq(set), append(imap.SeqSet(nil), ss...)) {
				c.w.Violation("parse-seqset-differs@"+txt, fmt.Sprintf("ParseSeqSet(%q)=%v err=%v, ParseSet=%v", txt, ss, err, set), map[string]string{"text": txt})
			}
		}
		if i == 0 {
			c.w.Sample(map[string]string{"kind": "valid text", "text": txt, "parsed": set.String()})
		}
		// single-edit mutants: those outside the grammar must be rejected, those inside accepted
		for k := 0; k < 4; k++ {
			m := mutate(rng, txt)
			c.w.CaseStr("mutant:" + m)
			_, err := imapnum.ParseSet(m)
			c.entryPoints(m, validGrammar(m))
			if validGrammar(m) {
				c.w.Class("text/mutant-valid")
				if err != nil {
					c.w.Violation("parse-valid-rejected@"+m, fmt.Sprintf("valid sequence-set %q rejected: %v", m, err), map[string]string{"text": m})
				}
			} else {
				c.w.Class("text/mutant-invalid")
				if err == nil {
					c.w.Violation("parse-invalid-accepted@"+m, fmt.Sprintf("invalid sequence-set %q accepted", m), map[string]string{"text": m})
				}
			}
		}
	}
}

// entryPoints: every way a sequence-set text enters the library must agree with the grammar:
// imapwire.ParseSeqSet (bare SEARCH keys) and Decoder.ExpectNumSet / ExpectUIDSet (command and
// response arguments), not only imapnum.ParseSet.
func (c *checker) entryPoints(txt string, valid bool) {
	report := func(how string, accepted bool) {
		if accepted == valid {
			return
		}
		if valid {
			c.w.Violation("parse-valid-rejected@"+how+"/"+txt, fmt.Sprintf("%s rejects the valid sequence-set %q", how, txt), map[string]string{"text": txt, "entry": how})
		} else {
			c.w.Violation("parse-invalid-accepted@"+how+"/"+txt, fmt.Sprintf("%s accepts the invalid sequence-set %q", how, txt), map[string]string{"text": txt, "entry": how})
		}
	}
	_, err := imapwire.ParseSeqSet(txt)
	report("imapwire.ParseSeqSet", err == nil)
	// the decoder reads the characters of a set and stops at the first other one: only texts made of
	// set characters are comparable
	for i := 0; i < len(txt); i++ {
		if ch := txt[i]; !(ch >= '0' && ch <= '9') && ch != ':' && ch != ',' && ch != '*' {
			return
		}
	}
	if txt == "" {
		return
	}
	for _, kind := range []imapwire.NumKind{imapwire.NumKindSeq, imapwire.NumKindUID} {
		d := imapwire.NewDecoder(bufio.NewReader(strings.NewReader(txt+" SENTINEL\r\n")), imapwire.ConnSideServer)
		var ns imap.NumSet
		var sent string
		ok := d.ExpectNumSet(kind, &ns) && d.ExpectSP() && d.ExpectAtom(&sent) && sent == "SENTINEL"
		report(fmt.Sprintf("Decoder.ExpectNumSet(kind %d)", kind), ok)
	}
}

// largeSets: AddSet between two sets that each hold dozens of ranges (the small pool sets of the
// enumeration never get there), with and without a lone '*' or an 'n:*' range.
func (c *checker) largeSets(rng *rand.Rand, n int) {
	build := func() (*real3, *refSet, []op) {
		t, r := &real3{}, &refSet{}
		var h []op
		base := uint32(1 + rng.Intn(50))
		for k := 30 + rng.Intn(60); k > 0; k-- {
			var o op
			base += uint32(2 + rng.Intn(9))
			if rng.Intn(3) == 0 {
				o = op{kind: 1, a: base, b: base + uint32(rng.Intn(3))}
				base = o.b
			} else {
				o = op{kind: 0, a: base}
			}
			t.apply(o)
			applyRef(r, o)
			h = append(h, o)
		}
		switch rng.Intn(4) {
		case 0:
			o := op{kind: 0, a: 0} // lone '*'
			t.apply(o)
			applyRef(r, o)
			h = append(h, o)
		case 1:
			o := op{kind: 1, a: base + 100, b: 0} // n:*
			t.apply(o)
			applyRef(r, o)
			h = append(h, o)
		}
		return t, r, h
	}
	for i := 0; i < n; i++ {
		a, ra, ha := build()
		b, rb, hb := build()
		a.n.AddSet(b.n)
		a.s.AddSet(toSeq(b.n))
		a.u.AddSet(toUID(b.n))
		ra.addSet(rb)
		h := append(append(append([]op{}, ha...), op{kind: 0, a: 4242424}), hb...) // (history for the report: A's ops, a separator, B's ops)
		_ = h
		c.check(a, ra, nil, false)
		if c.w.NViolations() > 0 && i < 3 {
			c.w.Notef("large-set case %d: A built by %d operations, B by %d, then A.AddSet(B); A=%q", i, len(ha), len(hb), a.n.String())
		}
		c.w.CaseStr(fmt.Sprintf("large|%s|%s", a.n.String(), b.n.String()))
	}
	c.w.Class("large-sets")
}

// constructors: sets built by the public constructors and by variadic calls with empty argument
// lists are sets like any other: in particular an empty one contains nothing, is not dynamic, and
// is not the saved-search-result marker.
func (c *checker) constructors(rng *rand.Rand) {
	lists := [][]uint32{nil, {}, {1}, {4294967295}, {1, 2, 3}, {5, 1, 3, 2}, {4294967294, 4294967295}, {7, 7, 7}}
	for i := 0; i < 40; i++ {
		var l []uint32
		for k := rng.Intn(6); k > 0; k-- {
			l = append(l, randEndpoint(rng, 1)|1)
		}
		lists = append(lists, l)
	}
	for _, l := range lists {
		ref := &refSet{}
		var ul []imap.UID
		for _, n := range l {
			if n == 0 {
				continue
			}
			ref.addRange(n, n)
			ul = append(ul, imap.UID(n))
		}
		var sl []uint32
		for _, u := range ul {
			sl = append(sl, uint32(u))
		}
		desc := fmt.Sprintf("%v", sl)
		sets := map[string]imap.NumSet{"SeqSetNum": imap.SeqSetNum(sl...), "UIDSetNum": imap.UIDSetNum(ul...)}
		var s2 imap.SeqSet
		s2.AddNum(sl...)
		var u2 imap.UIDSet
		u2.AddNum(ul...)
		sets["SeqSet.AddNum"], sets["UIDSet.AddNum"] = s2, u2
		var u3 imap.UIDSet
		u3.AddSet(imap.UIDSetNum(ul...))
		sets["UIDSet.AddSet(UIDSetNum)"] = u3
		for how, ns := range sets {
			fail := func(class, detail string) {
				c.w.Violation(class+"@"+how, fmt.Sprintf("%s(%s): %s", how, desc, detail), map[string]interface{}{"constructor": how, "numbers": desc})
			}
			if ns.Dynamic() {
				fail("dynamic", "Dynamic()=true although no '*' was inserted")
			}
			if u, ok := ns.(imap.UIDSet); ok && imap.IsSearchRes(u) {
				fail("is-search-res", "a set built from numbers is reported as the saved-search-result marker '$'")
			}
			if str := ns.String(); len(sl) == 0 && str != "" {
				fail("string", fmt.Sprintf("an empty set has the text form %q", str))
			}
			for _, q := range ref.probes() {
				var got bool
				switch v := ns.(type) {
				case imap.SeqSet:
					got = v.Contains(q)
				case imap.UIDSet:
					got = v.Contains(imap.UID(q))
				}
				if got != ref.contains(q) {
					fail("contains", fmt.Sprintf("Contains(%d)=%v want %v", q, got, ref.contains(q)))
					break
				}
			}
			c.w.CaseStr("ctor|" + how + "|" + desc)
		}
	}
	c.w.Class("constructors")
}

func body(w *hx.W) {
	initPool()
	c := &checker{w: w}
	if w.Shard == 0 {
		c.constructors(w.Rand("constructors"))
	}
	ops := allOps()
	depth := w.Pick(3, 4)
	c.check(&real3{}, &refSet{}, nil, true)
	c.dfs(&real3{}, &refSet{}, nil, ops, depth)
	w.Sample(map[string]interface{}{"kind": "exhaustive operation sequences", "operations_per_step": len(ops), "max_length": depth,
		"example": histStr([]op{ops[5], ops[30], ops[60]})})
	c.random(w.Rand("random"), w.Pick(4000, 150000))
	c.texts(w.Rand("texts"), w.Pick(5000, 200000))
	for _, t := range []string{"01", "007", "010", "04294967295", "0", "00", "1:02", "01:2", "1,02", "4294967296", "1:", ":1", ",1", "1,", "1::2", "**", "*1", "1*", "*:*", "*", "1:*", "*:1", "5:1", "1,1", "4294967295"} {
		c.entryPoints(t, validGrammar(t))
		_, err := imapnum.ParseSet(t)
		if (err == nil) != validGrammar(t) {
			w.Violation("parse-grammar@"+t, fmt.Sprintf("imapnum.ParseSet(%q) err=%v, the grammar says valid=%v", t, err, validGrammar(t)), nil)
		}
		w.CaseStr("targeted-text:" + t)
	}
	c.largeSets(w.Rand("large"), w.Pick(300, 8000))
	w.SetExhaustive(false) // random part is not exhaustive; the enumerated part is (see metrics)
	w.Metric("exhaustive_depth", 0)
	w.MetricMax("max_exhaustive_depth", int64(depth))
}

func main() {
	hx.Main(hx.Spec{
		ID:    "C15",
		Level: "exploration",
		Rule: "operation sequences over {AddNum, AddRange, AddSet} with endpoints {1,2,3,5,2^32-2,2^32-1,*} enumerated exhaustively to a length bound (every sequence is a distinct case; the oracle runs after every prefix), " +
			"plus seeded random sequences of length <= 30 and grammar-generated valid / single-edit invalid sequence-set strings (distinct by hash of the case text)",
		Assumptions: []string{
			"reference model: explicit list of inserted intervals and a '*' bit; 'n:*' means all numbers >= n and '*', '*' alone only '*' (RFC 3501 seq-range)",
			"Contains is probed only on non-zero numbers (its documented domain); '*' membership is read through Dynamic()",
			"Nums() is executed only when the reference cardinality is <= 3000",
			"canonical form: sorted, disjoint, non-adjacent numeric ranges, at most one dynamic range, last; a separate '*' next to a range ending at 2^32-1 is not demanded to merge",
		},
		WallQuick: 20 * time.Minute, WallThorough: 120 * time.Minute,
	}, body)
}
