// C10 — every client command terminates, whatever happens to the connection.
//
// Monitor: scenarios covering all client commands run against the real server +
// in-memory backend through the fault-injecting in-process connection. A
// fault-free run measures the byte counts; then EVERY server->client offset x
// {EOF, read error, stall} and every client->server offset x {write error} is
// enumerated. After the fault the connection answers every I/O at once (error,
// EOF, or deadline-exceeded as soon as a read deadline exists: virtual time); a
// stall without deadline is ended by the harness calling Close once the client is
// parked. Oracle: every blocking call of the scenario returns, Client.Close
// returns, no imapclient goroutine survives, and a command that reported success
// had its tagged completion line fully delivered before the cut.
package main

import (
	"bufio"
	"bytes"
	"fmt"
	"io"
	"net"
	"runtime"
	"strconv"
	"strings"
	"sync"
	"time"

	"github.com/emersion/go-sasl"

	imap "github.com/emersion/go-imap/v2"
	"github.com/emersion/go-imap/v2/imapclient"
	"github.com/emersion/go-imap/v2/verif/internal/hx"
	"github.com/emersion/go-imap/v2/verif/internal/kit"
	"github.com/emersion/go-imap/v2/verif/internal/vconn"
)

type cmdResult struct {
	name string // wire command name, e.g. "UID FETCH"
	// also: further wire commands the same call stands for (the COPY + STORE + EXPUNGE a Move turns
	// into on a server without MOVE); success of the call needs the completion of all of them
	also []string
	err  error
	done bool
}

type ctx struct {
	c       *imapclient.Client
	conn    net.Conn
	mu      sync.Mutex
	current string
	cmds    []*cmdResult
	tls     bool
}

func (x *ctx) enter(call string) { x.mu.Lock(); x.current = call; x.mu.Unlock() }
func (x *ctx) leave()            { x.mu.Lock(); x.current = ""; x.mu.Unlock() }

// issue records that a command was just sent (in issue order).
func (x *ctx) issue(name string, also ...string) *cmdResult {
	r := &cmdResult{name: name, also: also}
	x.mu.Lock()
	x.cmds = append(x.cmds, r)
	x.mu.Unlock()
	return r
}

// wait runs a blocking completion call for a previously issued command.
func (x *ctx) wait(r *cmdResult, call string, f func() error) error {
	x.enter(call)
	err := f()
	x.leave()
	x.mu.Lock()
	r.err, r.done = err, true
	x.mu.Unlock()
	return err
}

// block runs a blocking call that is not a command completion.
func (x *ctx) block(call string, f func()) {
	x.enter(call)
	f()
	x.leave()
}

type scenario struct {
	name string
	tls  bool // uses NewStartTLS
	run  func(x *ctx)
	// peer, if set, replaces the real server by a scripted one: it returns the
	// bytes to send in answer to a command line (tag, upper-cased name, whole line).
	peer func(tag, name, line string) string
	// greeting of the scripted peer, when not the default one
	greeting string
}

// servePeer runs a scripted server on the given endpoint.
func servePeer(conn net.Conn, greeting string, respond func(tag, name, line string) string) {
	br := bufio.NewReader(conn)
	if greeting == "" {
		greeting = "* OK [CAPABILITY IMAP4rev1 IMAP4rev2 LITERAL- IDLE MOVE UIDPLUS] scripted server ready\r\n"
	}
	conn.Write([]byte(greeting))
	for {
		line, err := br.ReadString('\n')
		if err != nil {
			return
		}
		full := line
		// literals: ask for synchronising ones, swallow the payload
		for {
			t := strings.TrimRight(line, "\r\n")
			i := strings.LastIndexByte(t, '{')
			if i < 0 || !strings.HasSuffix(t, "}") {
				break
			}
			num := strings.TrimSuffix(t[i+1:len(t)-1], "+")
			n, perr := strconv.Atoi(num)
			if perr != nil {
				break
			}
			if !strings.HasSuffix(t, "+}") {
				conn.Write([]byte("+ go ahead\r\n"))
			}
			buf := make([]byte, n)
			if _, err := io.ReadFull(br, buf); err != nil {
				return
			}
			line, err = br.ReadString('\n')
			if err != nil {
				return
			}
			full += string(buf) + line
		}
		f := strings.Fields(full)
		if len(f) < 2 {
			continue
		}
		name := strings.ToUpper(f[1])
		if name == "UID" && len(f) > 2 {
			name = "UID " + strings.ToUpper(f[2])
		}
		if name == "DONE" || strings.ToUpper(f[0]) == "DONE" {
			continue
		}
		out := respond(f[0], name, full)
		if _, err := conn.Write([]byte(out)); err != nil {
			return
		}
		if name == "LOGOUT" {
			conn.Close()
			return
		}
	}
}

func manyItems(seq, n int, literalAt int) string {
	var sb strings.Builder
	fmt.Fprintf(&sb, "* %d FETCH (UID %d", seq, 100+seq)
	for i := 0; i < n; i++ {
		if i == literalAt {
			sb.WriteString(" BODY[TEXT] {11}\r\nhello world")
			continue
		}
		switch i % 4 {
		case 0:
			sb.WriteString(" FLAGS (\\Seen)")
		case 1:
			fmt.Fprintf(&sb, " RFC822.SIZE %d", 1000+i)
		case 2:
			sb.WriteString(" INTERNALDATE \"14-Jul-2023 10:00:00 +0000\"")
		case 3:
			fmt.Fprintf(&sb, " MODSEQ (%d)", 7+i)
		}
	}
	sb.WriteString(")\r\n")
	return sb.String()
}

func scriptedScenarios() []scenario {
	login := func(x *ctx) {
		r := x.issue("LOGIN")
		x.wait(r, "Login.Wait", x.c.Login("user", "pass").Wait)
		sel := x.c.Select("INBOX", nil)
		r = x.issue("SELECT")
		x.wait(r, "Select.Wait", func() error { _, err := sel.Wait(); return err })
	}
	selectResp := func(tag string) string {
		return "* 3 EXISTS\r\n* FLAGS (\\Seen)\r\n* OK [UIDVALIDITY 1] ok\r\n* OK [UIDNEXT 104] ok\r\n" + tag + " OK [READ-WRITE] done\r\n"
	}
	return []scenario{
		{name: "scripted-fetch-many-items", run: func(x *ctx) {
			login(x)
			f := x.c.Fetch(imap.SeqSetNum(1, 2, 3), &imap.FetchOptions{Flags: true, RFC822Size: true, InternalDate: true, ModSeq: true, UID: true, BodySection: []*imap.FetchItemBodySection{{Specifier: imap.PartSpecifierText}}})
			r := x.issue("FETCH")
			x.wait(r, "Fetch.Collect", func() error { _, err := f.Collect(); return err })
			f2 := x.c.Fetch(imap.SeqSetNum(1, 2), &imap.FetchOptions{Flags: true})
			r = x.issue("FETCH")
			x.enter("Fetch.Next")
			m := f2.Next()
			x.leave()
			if m != nil {
				x.enter("FetchMessageData.Next")
				m.Next()
				m.Next()
				x.leave()
			}
			x.wait(r, "Fetch.Close", f2.Close)
			r = x.issue("NOOP")
			x.wait(r, "Noop.Wait", x.c.Noop().Wait)
		}, peer: func(tag, name, line string) string {
			switch name {
			case "SELECT":
				return selectResp(tag)
			case "FETCH":
				return manyItems(1, 40, -1) + manyItems(2, 70, 45) + manyItems(3, 33, -1) + tag + " OK done\r\n"
			}
			return tag + " OK done\r\n"
		}},
		{name: "scripted-pipelined-behind-logout", run: func(x *ctx) {
			// LOGOUT succeeds and the server closes the connection without
			// answering the commands the caller had queued behind it
			login(x)
			lo := x.c.Logout()
			r0 := x.issue("LOGOUT")
			n := x.c.Noop()
			r1 := x.issue("NOOP")
			st := x.c.Status("INBOX", &imap.StatusOptions{NumMessages: true})
			r2 := x.issue("STATUS")
			f := x.c.Fetch(imap.SeqSetNum(1), &imap.FetchOptions{Flags: true})
			r3 := x.issue("FETCH")
			x.wait(r0, "Logout.Wait", lo.Wait)
			x.wait(r1, "Noop.Wait", n.Wait)
			x.wait(r2, "Status.Wait", func() error { _, err := st.Wait(); return err })
			x.wait(r3, "Fetch.Collect", func() error { _, err := f.Collect(); return err })
			// and a command issued after the connection is gone
			n2 := x.c.Noop()
			r4 := x.issue("NOOP")
			x.wait(r4, "Noop.Wait", n2.Wait)
		}, peer: func(tag, name, line string) string {
			switch name {
			case "SELECT":
				return selectResp(tag)
			case "LOGOUT":
				return "* BYE logging out\r\n" + tag + " OK LOGOUT completed\r\n"
			}
			return tag + " OK done\r\n"
		}},
		{name: "scripted-mass-expunge-slow-consumer", run: func(x *ctx) {
			// 300 EXPUNGE responses for one command; the consumer takes them one by one and calls
			// accessors of the client in between (nothing forbids it); then a second one is left to Close
			login(x)
			ex := x.c.Expunge()
			r := x.issue("EXPUNGE")
			x.wait(r, "Expunge.Next+State", func() error {
				for i := 0; i < 20; i++ {
					if n := ex.Next(); n == 0 {
						break
					}
					_ = x.c.State()
					if mb := x.c.Mailbox(); mb != nil {
						_ = mb.NumMessages
					}
				}
				return ex.Close()
			})
			ex2 := x.c.UIDExpunge(imap.UIDSetNum(1))
			r = x.issue("UID EXPUNGE")
			x.block("Mailbox()", func() { _ = x.c.Mailbox() })
			x.wait(r, "Expunge.Close", ex2.Close)
			r = x.issue("LOGOUT")
			x.wait(r, "Logout.Wait", x.c.Logout().Wait)
		}, peer: func(tag, name, line string) string {
			switch name {
			case "SELECT":
				return "* 700 EXISTS\r\n* FLAGS (\\Seen)\r\n* OK [UIDVALIDITY 1] ok\r\n" + tag + " OK [READ-WRITE] done\r\n"
			case "EXPUNGE", "UID EXPUNGE":
				return strings.Repeat("* 1 EXPUNGE\r\n", 300) + tag + " OK expunged\r\n"
			case "LOGOUT":
				return "* BYE\r\n" + tag + " OK\r\n"
			}
			return tag + " OK\r\n"
		}},
		{name: "scripted-binary-sections-unread", run: func(x *ctx) {
			// BINARY[] data (literal8, plain literal, quoted) that the caller skips or only starts reading
			login(x)
			bin := &imap.FetchItemBinarySection{Part: []int{1}}
			f := x.c.Fetch(imap.SeqSetNum(1, 2, 3), &imap.FetchOptions{Flags: true, BinarySection: []*imap.FetchItemBinarySection{bin}})
			r := x.issue("FETCH")
			x.wait(r, "Fetch.Next(skip binary)+Close", func() error {
				if m := f.Next(); m != nil {
					m.Next() // the first item; the rest (incl. unread literals) is skipped
				}
				if m := f.Next(); m != nil {
					for it := m.Next(); it != nil; it = m.Next() {
						if b, ok := it.(imapclient.FetchItemDataBinarySection); ok && b.Literal != nil {
							buf := make([]byte, 3)
							b.Literal.Read(buf) // start reading, never finish
						}
					}
				}
				return f.Close()
			})
			f2 := x.c.Fetch(imap.SeqSetNum(1), &imap.FetchOptions{BinarySection: []*imap.FetchItemBinarySection{bin}})
			r = x.issue("FETCH")
			x.wait(r, "Fetch.Collect", func() error { _, err := f2.Collect(); return err })
			r = x.issue("LOGOUT")
			x.wait(r, "Logout.Wait", x.c.Logout().Wait)
		}, peer: func(tag, name, line string) string {
			switch name {
			case "SELECT":
				return selectResp(tag)
			case "FETCH":
				return "* 1 FETCH (BINARY[1] ~{11}\r\nhello\x00world FLAGS (\\Seen))\r\n* 2 FETCH (FLAGS () BINARY[1] {26}\r\nabcdefghijklmnopqrstuvwxyz)\r\n* 3 FETCH (BINARY[1] \"quoted\" FLAGS (\\Deleted))\r\n" + tag + " OK fetched\r\n"
			case "LOGOUT":
				return "* BYE\r\n" + tag + " OK\r\n"
			}
			return tag + " OK\r\n"
		}},
		{name: "scripted-move-without-move-extension", greeting: "* OK [CAPABILITY IMAP4rev1 LITERAL- IDLE UIDPLUS] scripted server without MOVE ready\r\n", run: func(x *ctx) {
			// a Move on a server that has no MOVE is COPY + STORE + EXPUNGE: its success is the
			// completion of the three
			login(x)
			mv := x.c.Move(imap.SeqSetNum(1, 2), "Other")
			r := x.issue("COPY", "STORE", "EXPUNGE")
			x.wait(r, "Move.Wait", func() error { _, err := mv.Wait(); return err })
			mv = x.c.Move(imap.UIDSetNum(103), "Other")
			r = x.issue("UID COPY", "UID STORE", "UID EXPUNGE")
			x.wait(r, "Move.Wait", func() error { _, err := mv.Wait(); return err })
			n := x.c.Noop()
			r = x.issue("NOOP")
			x.wait(r, "Noop.Wait", n.Wait)
			r = x.issue("LOGOUT")
			x.wait(r, "Logout.Wait", x.c.Logout().Wait)
		}, peer: func(tag, name, line string) string {
			switch name {
			case "SELECT":
				return selectResp(tag)
			case "COPY":
				return tag + " OK [COPYUID 9 101:102 1:2] copied\r\n"
			case "UID COPY":
				return tag + " OK [COPYUID 9 103 3] copied\r\n"
			case "STORE", "UID STORE":
				return tag + " OK stored\r\n"
			case "EXPUNGE":
				return "* 1 EXPUNGE\r\n* 1 EXPUNGE\r\n" + tag + " OK expunged\r\n"
			case "UID EXPUNGE":
				return "* 1 EXPUNGE\r\n* 0 EXISTS\r\n" + tag + " OK expunged\r\n"
			case "LOGOUT":
				return "* BYE\r\n" + tag + " OK\r\n"
			}
			return tag + " OK\r\n"
		}},
		{name: "scripted-extension-commands", greeting: "* OK [CAPABILITY IMAP4rev1 LITERAL- QUOTA METADATA SORT THREAD=REFERENCES UNAUTHENTICATE] scripted server with extensions ready\r\n", run: func(x *ctx) {
			// the commands of the extensions the real server does not implement
			login(x)
			max := uint32(100)
			gm := x.c.GetMetadata("INBOX", []string{"/private/comment", "/shared/x"}, &imapclient.GetMetadataOptions{MaxSize: &max, Depth: imapclient.GetMetadataDepthOne})
			r := x.issue("GETMETADATA")
			x.wait(r, "GetMetadata.Wait", func() error { _, err := gm.Wait(); return err })
			val := []byte("a value\r\nwith two lines")
			sm := x.c.SetMetadata("INBOX", map[string]*[]byte{"/private/comment": &val})
			r = x.issue("SETMETADATA")
			x.wait(r, "SetMetadata.Wait", sm.Wait)
			gq := x.c.GetQuota("root")
			r = x.issue("GETQUOTA")
			x.wait(r, "GetQuota.Wait", func() error { _, err := gq.Wait(); return err })
			gr := x.c.GetQuotaRoot("INBOX")
			r = x.issue("GETQUOTAROOT")
			x.wait(r, "GetQuotaRoot.Wait", func() error { _, err := gr.Wait(); return err })
			sq := x.c.SetQuota("root", map[imap.QuotaResourceType]int64{imap.QuotaResourceStorage: 512})
			r = x.issue("SETQUOTA")
			x.wait(r, "SetQuota.Wait", sq.Wait)
			crit := &imap.SearchCriteria{Text: []string{"h\u00e9llo"}}
			so := &imapclient.SortOptions{SearchCriteria: crit, SortCriteria: []imapclient.SortCriterion{{Key: imapclient.SortKeyDate, Reverse: true}}}
			st := x.c.Sort(so)
			r = x.issue("SORT")
			x.wait(r, "Sort.Wait", func() error { _, err := st.Wait(); return err })
			ust := x.c.UIDSort(so)
			r = x.issue("UID SORT")
			x.wait(r, "Sort.Wait", func() error { _, err := ust.Wait(); return err })
			to := &imapclient.ThreadOptions{Algorithm: imap.ThreadReferences, SearchCriteria: crit}
			th := x.c.Thread(to)
			r = x.issue("THREAD")
			x.wait(r, "Thread.Wait", func() error { _, err := th.Wait(); return err })
			uth := x.c.UIDThread(to)
			r = x.issue("UID THREAD")
			x.wait(r, "Thread.Wait", func() error { _, err := uth.Wait(); return err })
			ua := x.c.Unauthenticate()
			r = x.issue("UNAUTHENTICATE")
			x.wait(r, "Unauthenticate.Wait", ua.Wait)
			r = x.issue("LOGOUT")
			x.wait(r, "Logout.Wait", x.c.Logout().Wait)
		}, peer: func(tag, name, line string) string {
			switch name {
			case "SELECT":
				return selectResp(tag)
			case "GETMETADATA":
				return "* METADATA \"INBOX\" (/private/comment {5}\r\nhello /shared/x NIL)\r\n" + tag + " OK [METADATA LONGENTRIES 2199] done\r\n"
			case "GETQUOTA", "SETQUOTA":
				return "* QUOTA \"root\" (STORAGE 10 512)\r\n" + tag + " OK done\r\n"
			case "GETQUOTAROOT":
				return "* QUOTAROOT INBOX \"root\" other\r\n* QUOTA \"root\" (STORAGE 10 512 MESSAGE 1 2)\r\n* QUOTA other ()\r\n" + tag + " OK done\r\n"
			case "SORT", "UID SORT":
				return "* SORT 3 1 2\r\n" + tag + " OK sorted\r\n"
			case "THREAD", "UID THREAD":
				return "* THREAD (1 2)(3 (4)(5 6))\r\n" + tag + " OK threaded\r\n"
			case "LOGOUT":
				return "* BYE\r\n" + tag + " OK\r\n"
			}
			return tag + " OK\r\n"
		}},
		{name: "scripted-odd-but-valid-responses", run: func(x *ctx) {
			login(x)
			l := x.c.List("", "*", &imap.ListOptions{ReturnStatus: &imap.StatusOptions{NumMessages: true}})
			r := x.issue("LIST")
			x.wait(r, "List.Collect", func() error { _, err := l.Collect(); return err })
			s := x.c.UIDSearch(&imap.SearchCriteria{}, &imap.SearchOptions{ReturnAll: true, ReturnCount: true})
			r = x.issue("UID SEARCH")
			x.wait(r, "Search.Wait", func() error { _, err := s.Wait(); return err })
			f := x.c.Fetch(imap.UIDSetNum(101, 102), &imap.FetchOptions{BodySection: []*imap.FetchItemBodySection{{}}, BodyStructure: &imap.FetchItemBodyStructure{Extended: true}, Envelope: true})
			r = x.issue("UID FETCH")
			x.wait(r, "Fetch.Collect", func() error { _, err := f.Collect(); return err })
			ex := x.c.Expunge()
			r = x.issue("EXPUNGE")
			x.wait(r, "Expunge.Collect", func() error { _, err := ex.Collect(); return err })
			mv := x.c.Move(imap.SeqSetNum(1), "Other")
			r = x.issue("MOVE")
			x.wait(r, "Move.Wait", func() error { _, err := mv.Wait(); return err })
			r = x.issue("LOGOUT")
			x.wait(r, "Logout.Wait", x.c.Logout().Wait)
		}, peer: func(tag, name, line string) string {
			switch name {
			case "SELECT":
				return selectResp(tag)
			case "LIST":
				return "* LIST (\\Noselect \\HasChildren) \"/\" Lists\r\n* LIST () \"/\" INBOX\r\n* STATUS INBOX (MESSAGES 3)\r\n* 4 EXISTS\r\n* LIST (\\Subscribed) NIL {5}\r\nA\"b\\c (\"CHILDINFO\" (\"SUBSCRIBED\"))\r\n" + tag + " OK\r\n"
			case "UID SEARCH":
				return "* 2 EXPUNGE\r\n* ESEARCH (TAG \"" + tag + "\") UID COUNT 2 ALL 101:102\r\n" + tag + " OK [CAPABILITY IMAP4rev1 IMAP4rev2] search done\r\n"
			case "UID FETCH":
				env := "(\"Mon, 7 Feb 1994 21:52:25 -0800\" {7}\r\nsubject ((\"A B\" NIL \"a\" \"b.c\")) NIL NIL ((NIL NIL \"to\" \"x.y\")(NIL NIL \"g\" NIL)) NIL NIL NIL \"<id@x>\")"
				bs := "((\"text\" \"plain\" (\"charset\" \"utf-8\") NIL NIL \"7bit\" 5 1 NIL NIL NIL NIL)(\"message\" \"rfc822\" NIL NIL NIL \"7bit\" 100 " + env + " (\"text\" \"html\" NIL NIL NIL \"base64\" 9 1) 3) \"mixed\" (\"boundary\" \"x\") (\"inline\" NIL) (\"en\" \"fr\") \"loc\")"
				return "* 1 FETCH (UID 101 ENVELOPE " + env + " BODYSTRUCTURE " + bs + " BODY[] {0}\r\n)\r\n* 3 FETCH (FLAGS (\\Deleted))\r\n* 2 FETCH (BODY[] {12}\r\nhello\r\nworld UID 102)\r\n" + tag + " OK\r\n"
			case "EXPUNGE":
				return "* 3 EXPUNGE\r\n* 1 EXPUNGE\r\n* 1 EXISTS\r\n" + tag + " OK expunged\r\n"
			case "MOVE":
				return "* OK [COPYUID 9 101 1] moved\r\n* 1 EXPUNGE\r\n" + tag + " OK done\r\n"
			case "LOGOUT":
				return "* BYE\r\n" + tag + " OK\r\n"
			}
			return tag + " OK\r\n"
		}},
	}
}

func bigBody(n int) []byte {
	return []byte("Subject: big\r\nFrom: a@b\r\n\r\n" + strings.Repeat("0123456789abcdef", n/16))
}

func scenarios() []scenario {
	return []scenario{
		{name: "login-select-fetch-logout", run: func(x *ctx) {
			c := x.c
			r := x.issue("LOGIN")
			x.wait(r, "Login.Wait", c.Login("user", "pass").Wait)
			sel := c.Select("INBOX", nil)
			r = x.issue("SELECT")
			x.wait(r, "Select.Wait", func() error { _, err := sel.Wait(); return err })
			f := c.Fetch(imap.SeqSetNum(1, 2, 3), &imap.FetchOptions{Flags: true, Envelope: true, UID: true, BodySection: []*imap.FetchItemBodySection{{}}})
			r = x.issue("FETCH")
			x.wait(r, "Fetch.Collect", func() error { _, err := f.Collect(); return err })
			r = x.issue("LOGOUT")
			x.wait(r, "Logout.Wait", c.Logout().Wait)
		}},
		{name: "append-sync-literal-status", run: func(x *ctx) {
			c := x.c
			r := x.issue("LOGIN")
			x.wait(r, "Login.Wait", c.Login("user", "pass").Wait)
			body := bigBody(6000)
			var ac *imapclient.AppendCommand
			x.block("Append(begin)", func() {
				ac = c.Append("INBOX", int64(len(body)), &imap.AppendOptions{Flags: []imap.Flag{imap.FlagSeen}})
			})
			r = x.issue("APPEND")
			x.block("Append.Write", func() { ac.Write(body) })
			x.block("Append.Close", func() { ac.Close() })
			x.wait(r, "Append.Wait", func() error { _, err := ac.Wait(); return err })
			small := bigBody(100)
			x.block("Append(begin)", func() { ac = c.Append("INBOX", int64(len(small)), nil) })
			r = x.issue("APPEND")
			x.block("Append.Write", func() { ac.Write(small) })
			x.block("Append.Close", func() { ac.Close() })
			x.wait(r, "Append.Wait", func() error { _, err := ac.Wait(); return err })
			st := c.Status("INBOX", &imap.StatusOptions{NumMessages: true, UIDNext: true, NumUnseen: true})
			r = x.issue("STATUS")
			x.wait(r, "Status.Wait", func() error { _, err := st.Wait(); return err })
		}},
		{name: "fetch-streaming-partial-consume", run: func(x *ctx) {
			c := x.c
			r := x.issue("LOGIN")
			x.wait(r, "Login.Wait", c.Login("user", "pass").Wait)
			sel := c.Select("INBOX", &imap.SelectOptions{ReadOnly: true})
			r = x.issue("EXAMINE")
			x.wait(r, "Select.Wait", func() error { _, err := sel.Wait(); return err })
			f := c.Fetch(imap.SeqSet{{Start: 1, Stop: 0}}, &imap.FetchOptions{UID: true, BodySection: []*imap.FetchItemBodySection{{Peek: true}, {Specifier: imap.PartSpecifierHeader, Peek: true}}})
			r = x.issue("FETCH")
			// first message: read the first literal in small pieces, second: skip, then Close with unread data
			x.enter("Fetch.Next")
			msg := f.Next()
			x.leave()
			if msg != nil {
				x.enter("FetchMessageData.Next")
				item := msg.Next()
				x.leave()
				for item != nil {
					if bs, ok := item.(imapclient.FetchItemDataBodySection); ok && bs.Literal != nil {
						buf := make([]byte, 700)
						x.enter("Literal.Read")
						for i := 0; i < 3; i++ {
							if _, err := bs.Literal.Read(buf); err != nil {
								break
							}
						}
						x.leave()
						break
					}
					x.enter("FetchMessageData.Next")
					item = msg.Next()
					x.leave()
				}
			}
			x.enter("Fetch.Next")
			f.Next()
			x.leave()
			x.wait(r, "Fetch.Close", f.Close)
		}},
		{name: "list-status-namespace", run: func(x *ctx) {
			c := x.c
			r := x.issue("LOGIN")
			x.wait(r, "Login.Wait", c.Login("user", "pass").Wait)
			l := c.List("", "*", &imap.ListOptions{ReturnStatus: &imap.StatusOptions{NumMessages: true, NumUnseen: true}, ReturnSubscribed: true})
			r = x.issue("LIST")
			x.wait(r, "List.Collect", func() error { _, err := l.Collect(); return err })
			l2 := c.List("", "%", nil)
			r = x.issue("LIST")
			x.enter("List.Next")
			l2.Next()
			x.leave()
			x.wait(r, "List.Close", l2.Close)
			ns := c.Namespace()
			r = x.issue("NAMESPACE")
			x.wait(r, "Namespace.Wait", func() error { _, err := ns.Wait(); return err })
		}},
		{name: "search-store-copy-move-expunge", run: func(x *ctx) {
			c := x.c
			r := x.issue("LOGIN")
			x.wait(r, "Login.Wait", c.Login("user", "pass").Wait)
			sel := c.Select("INBOX", nil)
			r = x.issue("SELECT")
			x.wait(r, "Select.Wait", func() error { _, err := sel.Wait(); return err })
			s := c.Search(&imap.SearchCriteria{Header: []imap.SearchCriteriaHeaderField{{Key: "Subject", Value: "hello"}}, NotFlag: []imap.Flag{imap.FlagDeleted}}, nil)
			r = x.issue("SEARCH")
			x.wait(r, "Search.Wait", func() error { _, err := s.Wait(); return err })
			us := c.UIDSearch(&imap.SearchCriteria{Body: []string{"é"}}, &imap.SearchOptions{ReturnMin: true, ReturnCount: true})
			r = x.issue("UID SEARCH")
			x.wait(r, "UIDSearch.Wait", func() error { _, err := us.Wait(); return err })
			st := c.Store(imap.SeqSetNum(1, 2), &imap.StoreFlags{Op: imap.StoreFlagsAdd, Flags: []imap.Flag{imap.FlagDeleted}}, nil)
			r = x.issue("STORE")
			x.wait(r, "Store.Collect", func() error { _, err := st.Collect(); return err })
			cp := c.Copy(imap.UIDSetNum(3), "Archive")
			r = x.issue("UID COPY")
			x.wait(r, "Copy.Wait", func() error { _, err := cp.Wait(); return err })
			mv := c.Move(imap.SeqSetNum(3), "Archive")
			r = x.issue("MOVE")
			x.wait(r, "Move.Wait", func() error { _, err := mv.Wait(); return err })
			ex := c.Expunge()
			r = x.issue("EXPUNGE")
			x.wait(r, "Expunge.Collect", func() error { _, err := ex.Collect(); return err })
			ue := c.UIDExpunge(imap.UIDSet{{Start: 1, Stop: 0}})
			r = x.issue("UID EXPUNGE")
			x.wait(r, "UIDExpunge.Close", ue.Close)
			r = x.issue("CLOSE")
			x.wait(r, "UnselectAndExpunge.Wait", c.UnselectAndExpunge().Wait)
		}},
		{name: "idle", run: func(x *ctx) {
			c := x.c
			r := x.issue("LOGIN")
			x.wait(r, "Login.Wait", c.Login("user", "pass").Wait)
			sel := c.Select("INBOX", nil)
			r = x.issue("SELECT")
			x.wait(r, "Select.Wait", func() error { _, err := sel.Wait(); return err })
			var idle *imapclient.IdleCommand
			var err error
			r = x.issue("IDLE")
			x.block("Idle()", func() { idle, err = c.Idle() })
			if err != nil {
				x.mu.Lock()
				r.err, r.done = err, true
				x.mu.Unlock()
				return
			}
			x.block("IdleCommand.Close", func() { idle.Close() })
			x.wait(r, "IdleCommand.Wait", idle.Wait)
			r = x.issue("NOOP")
			x.wait(r, "Noop.Wait", c.Noop().Wait)
		}},
		{name: "authenticate-plain", run: func(x *ctx) {
			c := x.c
			r := x.issue("AUTHENTICATE")
			x.wait(r, "Authenticate", func() error { return c.Authenticate(sasl.NewPlainClient("", "user", "pass")) })
			r = x.issue("ENABLE")
			en := c.Enable(imap.CapIMAP4rev2)
			x.wait(r, "Enable.Wait", func() error { _, err := en.Wait(); return err })
			cp := c.Capability()
			r = x.issue("CAPABILITY")
			x.wait(r, "Capability.Wait", func() error { _, err := cp.Wait(); return err })
		}},
		{name: "authenticate-no-sasl-ir", run: func(x *ctx) {
			c := x.c
			r := x.issue("AUTHENTICATE")
			x.wait(r, "Authenticate", func() error { return c.Authenticate(noIR{sasl.NewPlainClient("", "user", "pass")}) })
			r = x.issue("UNSELECT")
			x.wait(r, "Unselect.Wait", c.Unselect().Wait)
		}},
		{name: "starttls-login", tls: true, run: func(x *ctx) {
			var c *imapclient.Client
			var err error
			x.block("NewStartTLS", func() {
				c, err = imapclient.NewStartTLS(x.conn, &imapclient.Options{TLSConfig: kit.ClientTLSConfig()})
			})
			if err != nil {
				return
			}
			x.mu.Lock()
			x.c = c
			x.mu.Unlock()
			r := x.issue("LOGIN")
			x.wait(r, "Login.Wait", c.Login("user", "pass").Wait)
			r = x.issue("NOOP")
			x.wait(r, "Noop.Wait", c.Noop().Wait)
		}},
		{name: "pipelined", run: func(x *ctx) {
			c := x.c
			r := x.issue("LOGIN")
			x.wait(r, "Login.Wait", c.Login("user", "pass").Wait)
			sel := c.Select("INBOX", nil)
			r = x.issue("SELECT")
			x.wait(r, "Select.Wait", func() error { _, err := sel.Wait(); return err })
			n1 := c.Noop()
			r1 := x.issue("NOOP")
			st := c.Status("Archive", &imap.StatusOptions{NumMessages: true})
			r2 := x.issue("STATUS")
			f := c.Fetch(imap.UIDSet{{Start: 1, Stop: 0}}, &imap.FetchOptions{Flags: true, RFC822Size: true, InternalDate: true})
			r3 := x.issue("UID FETCH")
			l := c.List("", "*", nil)
			r4 := x.issue("LIST")
			cr := c.Create("New/Box", nil)
			r5 := x.issue("CREATE")
			x.wait(r5, "Create.Wait", cr.Wait)
			x.wait(r4, "List.Collect", func() error { _, err := l.Collect(); return err })
			x.wait(r3, "Fetch.Collect", func() error { _, err := f.Collect(); return err })
			x.wait(r2, "Status.Wait", func() error { _, err := st.Wait(); return err })
			x.wait(r1, "Noop.Wait", n1.Wait)
		}},
		{name: "mailbox-management", run: func(x *ctx) {
			c := x.c
			r := x.issue("LOGIN")
			x.wait(r, "Login.Wait", c.Login("user", "pass").Wait)
			r = x.issue("CREATE")
			x.wait(r, "Create.Wait", c.Create("Tmp", nil).Wait)
			r = x.issue("SUBSCRIBE")
			x.wait(r, "Subscribe.Wait", c.Subscribe("Tmp").Wait)
			r = x.issue("RENAME")
			x.wait(r, "Rename.Wait", c.Rename("Tmp", "Tmp2").Wait)
			r = x.issue("UNSUBSCRIBE")
			x.wait(r, "Unsubscribe.Wait", c.Unsubscribe("Tmp2").Wait)
			r = x.issue("DELETE")
			x.wait(r, "Delete.Wait", c.Delete("Tmp2").Wait)
			r = x.issue("DELETE")
			x.wait(r, "Delete.Wait(nonexistent)", c.Delete("nope").Wait)
			sel := c.Select("Archive", nil)
			r = x.issue("SELECT")
			x.wait(r, "Select.Wait", func() error { _, err := sel.Wait(); return err })
			r = x.issue("UNSELECT")
			x.wait(r, "Unselect.Wait", c.Unselect().Wait)
		}},
		{name: "fetch-bodystructure-many", run: func(x *ctx) {
			c := x.c
			r := x.issue("LOGIN")
			x.wait(r, "Login.Wait", c.Login("user", "pass").Wait)
			sel := c.Select("INBOX", nil)
			r = x.issue("SELECT")
			x.wait(r, "Select.Wait", func() error { _, err := sel.Wait(); return err })
			f := c.Fetch(imap.SeqSet{{Start: 1, Stop: 0}}, &imap.FetchOptions{BodyStructure: &imap.FetchItemBodyStructure{Extended: true}, Envelope: true, Flags: true, InternalDate: true, RFC822Size: true,
				BodySection: []*imap.FetchItemBodySection{{Specifier: imap.PartSpecifierText, Partial: &imap.SectionPartial{Offset: 0, Size: 50}}, {Part: []int{2}, Peek: true}}})
			r = x.issue("FETCH")
			x.wait(r, "Fetch.Collect", func() error { _, err := f.Collect(); return err })
		}},
	}
}

type noIR struct{ sasl.Client }

func (n noIR) Start() (string, []byte, error) {
	m, ir, err := n.Client.Start()
	_ = ir
	return m, nil, err
}

func (n noIR) Next(ch []byte) ([]byte, error) {
	if len(ch) == 0 {
		_, ir, _ := n.Client.Start()
		return ir, nil
	}
	return n.Client.Next(ch)
}

// ---- one run ----------------------------------------------------------------

type fault struct {
	kind string // none | eof | reset | stall | writeerr
	at   int64
}

type runResult struct {
	nIn, nOut int64 // bytes the client read / wrote in total
	hang      bool
}

var knownLeaks = map[string]bool{}
var hangCount = map[string]int{}
var totalHangs int

func clientGoroutines() map[string]string {
	buf := stackBuf[:runtime.Stack(stackBuf, true)]
	out := map[string]string{}
	for _, g := range strings.Split(string(buf), "\n\n") {
		if strings.Contains(g, "go-imap/v2/imapclient.") {
			id := g
			if i := strings.IndexByte(g, '['); i > 0 {
				id = g[:i]
			}
			out[id] = g
		}
	}
	return out
}

func firstClientFrame(g string) string {
	for _, l := range strings.Split(g, "\n") {
		if strings.Contains(l, "go-imap/v2/imapclient.") {
			l = strings.TrimSpace(l)
			if i := strings.LastIndex(l, "("); i > 0 {
				l = l[:i]
			}
			return strings.TrimPrefix(l, "github.com/emersion/go-imap/v2/")
		}
	}
	return "?"
}

func runOne(w *hx.W, sc *scenario, f fault) runResult {
	desc := fmt.Sprintf("scenario %s, fault %s at byte %d", sc.name, f.kind, f.at)
	sigBase := sc.name + "/" + f.kind
	if sc.peer != nil {
		return runPeer(w, sc, f, desc, sigBase)
	}
	mem := kit.NewMem(kit.MemCfg{TLS: sc.tls, Insecure: true})
	defer mem.Close()
	t0 := time.Date(2023, 3, 1, 12, 0, 0, 0, time.UTC)
	mem.Populate("INBOX", [][]byte{
		kit.SimpleMessage("hello one", "bob@example.org", "first body\r\nline two\r\n", t0),
		kit.MultipartMessage("hello two", t0, bytes.Repeat([]byte("QUJDREVGR0g="), 500)),
		kit.SimpleMessage("third é", "carol@example.org", strings.Repeat("x", 5000), t0),
		kit.SimpleMessage("fourth", "dave@example.org", "tiny", t0),
	}, [][]imap.Flag{{imap.FlagSeen}, nil, {imap.FlagFlagged}})
	mem.Populate("Archive", [][]byte{kit.SimpleMessage("old", "x@y", "old body", t0)}, nil)

	cEnd, _, log := mem.Pipe(func(c, s *vconn.Conn) { armFault(c, f) })
	return drive(w, sc, f, desc, sigBase, cEnd, log)
}

func armFault(c *vconn.Conn, f fault) {
	switch f.kind {
	case "eof":
		c.SetReadFault(f.at, vconn.FaultEOF)
	case "reset":
		c.SetReadFault(f.at, vconn.FaultReset)
	case "stall":
		c.SetReadFault(f.at, vconn.FaultStall)
	case "writeerr":
		c.SetWriteFault(f.at)
	}
}

func runPeer(w *hx.W, sc *scenario, f fault, desc, sigBase string) runResult {
	log := &vconn.Log{}
	cEnd, sEnd := vconn.Pipe("client", "server", log)
	armFault(cEnd, f)
	go servePeer(sEnd, sc.greeting, sc.peer)
	defer sEnd.Close()
	return drive(w, sc, f, desc, sigBase, cEnd, log)
}

func drive(w *hx.W, sc *scenario, f fault, desc, sigBase string, cEnd *vconn.Conn, log *vconn.Log) runResult {
	x := &ctx{conn: cEnd, tls: sc.tls}
	if !sc.tls {
		x.c = imapclient.New(cEnd, &imapclient.Options{})
	}
	done := make(chan struct{})
	go func() {
		defer close(done)
		sc.run(x)
		x.mu.Lock()
		c := x.c
		x.mu.Unlock()
		if c != nil {
			x.block("Client.Close", func() { c.Close() })
		} else {
			cEnd.Close()
		}
	}()
	// stall without deadline: the caller closes the client once it is parked in the stalled read
	stopMon := make(chan struct{})
	if f.kind == "stall" {
		go func() {
			for {
				select {
				case <-stopMon:
					return
				case <-done:
					return
				default:
				}
				if cEnd.Stalled() && cEnd.WaitParked(5*time.Millisecond) == "parked" && cEnd.Stalled() {
					x.mu.Lock()
					c := x.c
					x.mu.Unlock()
					if c != nil {
						c.Close()
					} else {
						cEnd.Close()
					}
					return
				}
				time.Sleep(200 * time.Microsecond)
			}
		}()
	}
	res := runResult{}
	select {
	case <-done:
	case <-time.After(60 * time.Second):
		close(stopMon)
		x.mu.Lock()
		cur := x.current
		x.mu.Unlock()
		gs := clientGoroutines()
		var stuck []string
		for id, g := range gs {
			if knownLeaks[id] {
				continue // left over from an earlier hang in this process
			}
			knownLeaks[id] = true
			stuck = append(stuck, g)
		}
		// the reader goroutine's position tells what blocked
		where := "?"
		for _, g := range stuck {
			if strings.Contains(g, "imapclient.(*Client).read(") || strings.Contains(g, "imapclient.(*Client).read\n") {
				where = firstClientFrame(g)
			}
		}
		w.Violation(fmt.Sprintf("call-never-returns@%s/%s/reader@%s", sigBase, cur, where),
			fmt.Sprintf("%s: blocking call %q has not returned although every I/O after the fault completes at once (reader goroutine at %s)", desc, cur, where),
			map[string]interface{}{"case": desc, "blocked_call": cur, "client_goroutines": stuck, "server_to_client": hx.Hex(log.Bytes("server"), 1500)})
		hangCount[sigBase]++
		totalHangs++
		cEnd.Close()
		res.hang = true
		return res
	}
	close(stopMon)
	res.nIn, res.nOut = cEnd.NRead(), cEnd.NWritten()
	// census: nothing of imapclient may still be running
	deadline := time.Now().Add(30 * time.Second)
	var gs map[string]string
	for {
		gs = clientGoroutines()
		for id := range gs {
			if knownLeaks[id] {
				delete(gs, id)
			}
		}
		if len(gs) == 0 || time.Now().After(deadline) {
			break
		}
		time.Sleep(200 * time.Microsecond)
	}
	for id, g := range gs {
		knownLeaks[id] = true
		w.Violation(fmt.Sprintf("goroutine-leak@%s/%s", sigBase, firstClientFrame(g)), fmt.Sprintf("%s: goroutine still alive after Client.Close returned (%s)", desc, firstClientFrame(g)), map[string]interface{}{"case": desc, "goroutine": g})
	}
	// success implies a fully delivered tagged completion
	if !sc.tls {
		delivered := log.Bytes("server")
		if int64(len(delivered)) > res.nIn {
			delivered = delivered[:res.nIn]
		}
		sent := tagsOf(log.Bytes("client"))
		x.mu.Lock()
		cmds := append([]*cmdResult(nil), x.cmds...)
		x.mu.Unlock()
		si := 0
	cmdLoop:
		for _, cr := range cmds {
			for _, wireName := range append([]string{cr.name}, cr.also...) {
				// find the next sent command with this name
				tag := ""
				for si < len(sent) {
					s := sent[si]
					si++
					if s.name == wireName {
						tag = s.tag
						break
					}
				}
				if tag == "" {
					break cmdLoop
				}
				if cr.done && cr.err == nil {
					line := []byte(tag + " OK")
					i := bytes.Index(delivered, line)
					complete := false
					if i >= 0 {
						if j := bytes.Index(delivered[i:], []byte("\r\n")); j >= 0 {
							complete = true
						}
					}
					if !complete {
						w.Violation(fmt.Sprintf("success-without-completion@%s/%s", sigBase, wireName),
							fmt.Sprintf("%s: %s (%s) reported success but its tagged OK line was not fully delivered before the cut (client read %d bytes: ...%s)", desc, wireName, tag, res.nIn, hx.Hex(tail(delivered, 80), 200)),
							map[string]interface{}{"case": desc, "command": wireName, "tag": tag})
					}
				}
			}
		}
	}
	return res
}

func tail(b []byte, n int) []byte {
	if len(b) > n {
		return b[len(b)-n:]
	}
	return b
}

type sentCmd struct{ tag, name string }

// tagsOf extracts (tag, command name) from the client->server stream.
func tagsOf(b []byte) []sentCmd {
	var out []sentCmd
	for _, ln := range bytes.Split(b, []byte("\r\n")) {
		f := strings.Fields(string(ln))
		if len(f) < 2 || len(f[0]) < 2 || f[0][0] != 'T' {
			continue
		}
		ok := true
		for _, ch := range f[0][1:] {
			if ch < '0' || ch > '9' {
				ok = false
			}
		}
		if !ok {
			continue
		}
		name := strings.ToUpper(f[1])
		if name == "UID" && len(f) > 2 {
			name = "UID " + strings.ToUpper(f[2])
		}
		out = append(out, sentCmd{f[0], name})
	}
	return out
}

func body(w *hx.W) {
	scs := append(scenarios(), scriptedScenarios()...)
	type job struct {
		sc *scenario
		f  fault
	}
	var jobs []job
	for i := range scs {
		sc := &scs[i]
		base := runOne(w, sc, fault{kind: "none"})
		if base.hang {
			continue
		}
		if w.Shard == 0 {
			w.Metric("scenario_bytes_in/"+sc.name, base.nIn)
			w.Metric("scenario_bytes_out/"+sc.name, base.nOut)
		}
		full := !w.Quick() || (i+int(w.Seed))%len(scs) < 5
		stride := int64(1)
		if !full {
			stride = 7
		}
		step := func(k int64, n int64) int64 {
			// inside long literal bodies every offset adds little: thin them out
			if n > 4000 && k > 1500 && k < n-300 {
				return stride * 5
			}
			return stride
		}
		for k := int64(0); k <= base.nIn; k += step(k, base.nIn) {
			jobs = append(jobs, job{sc, fault{"eof", k}}, job{sc, fault{"reset", k}}, job{sc, fault{"stall", k}})
		}
		for k := int64(0); k <= base.nOut; k += step(k, base.nOut) {
			jobs = append(jobs, job{sc, fault{"writeerr", k}})
		}
		if full {
			w.Class("scenario-every-offset/" + sc.name)
		} else {
			w.Class("scenario-stride7/" + sc.name)
		}
	}
	var n int64
	for i, j := range jobs {
		if !w.Mine(i) {
			continue
		}
		if hangCount[j.sc.name+"/"+j.f.kind] >= 1 || totalHangs >= 6 {
			continue // a hang was already witnessed for this scenario and fault kind (or the tree hangs all over)
		}
		runOne(w, j.sc, j.f)
		n++
		w.Class("fault/" + j.f.kind + "/" + j.sc.name)
	}
	w.Enumerated(n)
	w.Metric("fault_points", n)
	w.Sample(map[string]interface{}{"kind": "fault point", "example": "scenario fetch-streaming-partial-consume, read error at server->client byte 2310 (inside the BODY[] literal of message 1)", "fault_kinds": []string{"eof", "reset", "stall", "writeerr"}, "scenarios": len(scs)})
	_ = io.EOF
}

var stackBuf = make([]byte, 4<<20)

func main() {
	hx.Main(hx.Spec{
		ID:    "C10",
		Level: "fault_enumeration",
		Rule:  "fault points = for each of 14 client scenarios (all commands incl. sync literals, IDLE, AUTHENTICATE with and without initial response, STARTTLS, pipelining, streaming FETCH with partially consumed literals) 12 recorded live against the real server + in-memory backend and 5 against a scripted server emitting unusual but valid transcripts (40..70 data items per FETCH response, unilateral data, zero-length literals, responses without text, 300 EXPUNGE responses taken one by one by a consumer that calls State()/Mailbox() in between, BINARY sections as literal8 / literal / quoted string that the caller skips or leaves half read): every server->client byte offset x {EOF, read error, stall} and every client->server offset x {write error} (long literal bodies thinned to every 5th offset; quick: every offset of 5 scenarios, every 7th of the rest); each fault point is a distinct case",
		Assumptions: []string{
			"after the fault every I/O completes at once: errors immediately, a stalled read times out immediately when a read deadline is set (virtual time); a stalled read without deadline is ended by the harness calling Client.Close once the client is parked in it",
			"the 60 s / 30 s backstops are orders of magnitude above the observed run time (milliseconds)",
			"scenarios honour the documented contract: streaming commands are consumed or closed, Close is called last",
			"the success-implies-completion check is skipped for the STARTTLS scenario (ciphertext)",
		},
		RaceFrames: []string{"imapclient.", "imapwire."},
		Shards:     func(string) int { return 12 },
		WallQuick:  40 * time.Minute, WallThorough: 180 * time.Minute,
	}, body)
}
