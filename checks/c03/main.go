// C03 — server responses are decoded by the client into the data the backend supplied.
//
// Monitor: a real imapclient.Client talks to a real imapserver connection whose
// stub backend writes a generated response plan through the server's writer API
// (FetchWriter, ListWriter, UpdateWriter, return values). The client's
// Wait/Collect/Next results are compared with the plan under a documented
// normalisation (what the wire format cannot carry is not demanded); body
// literals are compared byte-for-byte and in order.
package main

import (
	"bytes"
	"fmt"
	"math/rand"
	"reflect"
	"sort"
	"strings"
	"time"

	imap "github.com/emersion/go-imap/v2"
	"github.com/emersion/go-imap/v2/imapclient"
	"github.com/emersion/go-imap/v2/imapserver"
	"github.com/emersion/go-imap/v2/verif/internal/hx"
	"github.com/emersion/go-imap/v2/verif/internal/kit"
	"github.com/emersion/go-imap/v2/verif/internal/vconn"
)

// ---- plans -----------------------------------------------------------------------

type msgPlan struct {
	seq      uint32
	uid      imap.UID
	flags    []imap.Flag
	date     time.Time
	size     int64
	envelope *imap.Envelope
	bs       imap.BodyStructure
	sections [][]byte // payloads for options.BodySection, in order
	binaries [][]byte // payloads for options.BinarySection
	binSizes []uint32
}

type plan struct {
	msgs      []msgPlan
	list      []imap.ListData
	status    *imap.StatusData
	selectD   *imap.SelectData
	search    *imap.SearchData
	appendD   *imap.AppendData
	copyD     *imap.CopyData
	expunged  []uint32
	namespace *imap.NamespaceData
}

type env struct {
	w     *hx.W
	rng   *rand.Rand
	srv   *kit.Server
	c     *imapclient.Client
	cur   *plan
	rev2  bool
	class string
	// queue / gate: plans for commands the client has pipelined; the backend answers the first of
	// them only once all of them have been sent (gate closed), so that all are in flight together
	queue []*plan
	gate  chan struct{}
	// count: the number of messages the wire has told the client the selected mailbox holds (the
	// last EXISTS minus the EXPUNGE responses since); it decides which message "*" addresses
	count uint32
}

func (e *env) viol(class, op, detail string) {
	e.w.Violation(class+"@"+op+"/"+e.class, fmt.Sprintf("%s: %s: %s [%s]", class, op, detail, e.class), map[string]interface{}{"op": op, "detail": detail})
}

// handler: writes the current plan through the server API
func (e *env) handler(s *kit.Sess, c *kit.Call, w *kit.Writers) kit.Result {
	p := e.cur
	if p == nil {
		return kit.DefaultHandler(s, c, w)
	}
	switch c.Method {
	case "Fetch", "Store":
		live := kit.LiveFetchOptions(c)
		for _, m := range p.msgs {
			rw := w.Fetch.CreateMessage(m.seq)
			if live == nil { // Store: flags only
				rw.WriteFlags(m.flags)
				if err := rw.Close(); err != nil {
					return kit.Result{Err: err}
				}
				continue
			}
			if live.UID {
				rw.WriteUID(m.uid)
			}
			if live.Flags {
				rw.WriteFlags(m.flags)
			}
			if live.InternalDate {
				rw.WriteInternalDate(m.date)
			}
			if live.RFC822Size {
				rw.WriteRFC822Size(m.size)
			}
			if live.Envelope {
				rw.WriteEnvelope(m.envelope)
			}
			if live.BodyStructure != nil {
				rw.WriteBodyStructure(m.bs)
			}
			for i, bs := range live.BodySection {
				wc := rw.WriteBodySection(bs, int64(len(m.sections[i])))
				wc.Write(m.sections[i])
				wc.Close()
			}
			for i, bs := range live.BinarySection {
				wc := rw.WriteBinarySection(bs, int64(len(m.binaries[i])))
				wc.Write(m.binaries[i])
				wc.Close()
			}
			for i, bss := range live.BinarySectionSize {
				rw.WriteBinarySectionSize(&imap.FetchItemBinarySection{Part: bss.Part}, m.binSizes[i])
			}
			if err := rw.Close(); err != nil {
				return kit.Result{Err: err}
			}
		}
		return kit.Result{}
	case "List":
		for i := range p.list {
			d := p.list[i]
			if err := w.List.WriteList(&d); err != nil {
				return kit.Result{Err: err}
			}
		}
		return kit.Result{}
	case "Status":
		return kit.Result{Status: p.status}
	case "Select":
		return kit.Result{Select: p.selectD}
	case "Search":
		if e.gate != nil {
			<-e.gate
			q := e.queue[0]
			e.queue = e.queue[1:]
			return kit.Result{Search: q.search}
		}
		return kit.Result{Search: p.search}
	case "Append":
		return kit.Result{Append: p.appendD}
	case "Copy":
		return kit.Result{Copy: p.copyD}
	case "Move":
		if err := w.Move.WriteCopyData(p.copyD); err != nil {
			return kit.Result{Err: err}
		}
		for _, q := range p.expunged {
			w.Move.WriteExpunge(q)
		}
		return kit.Result{}
	case "Expunge":
		for _, q := range p.expunged {
			w.Expunge.WriteExpunge(q)
		}
		return kit.Result{}
	case "Namespace":
		return kit.Result{Namespace: p.namespace}
	}
	return kit.DefaultHandler(s, c, w)
}

// ---- generators --------------------------------------------------------------------

var texts = []string{"plain", "two words", "héllo wörld", "日本語 テキスト", `quo"te\back`, "x@y.z", "a,b;c:d", "trailing space ", "UPPER lower 123", "€ uro — dash", "tab\there", "latin1 caf\xe9 \xff\xfe", "\xc3(", "nul-free\x01ctl", "=?gb2312?B?1tDOxA==?=", "=?windows-1252?Q?caf=E9?= tail", "=?x-unknown?q?abc?="}

func (e *env) text() string { return texts[e.rng.Intn(len(texts))] }

func (e *env) atomish() string {
	return []string{"example.org", "mail-1.example.com", "localhost", "host"}[e.rng.Intn(4)]
}

func (e *env) addrs() []imap.Address {
	switch e.rng.Intn(4) {
	case 0:
		return nil
	}
	var l []imap.Address
	for k := 1 + e.rng.Intn(3); k > 0; k-- {
		a := imap.Address{Mailbox: []string{"bob", "alice.smith", "o'neil", "with space", "q\"uote", "ren\xe9", "jos\xc3\xa9"}[e.rng.Intn(7)], Host: e.atomish()}
		if e.rng.Intn(2) == 0 {
			a.Name = e.text()
		}
		l = append(l, a)
	}
	if e.rng.Intn(6) == 0 { // group syntax
		l = append([]imap.Address{{Mailbox: "undisclosed"}}, append(l, imap.Address{})...)
	}
	return l
}

var tzs = []*time.Location{time.UTC, time.FixedZone("", 2*3600), time.FixedZone("", -7*3600-1800)}

func (e *env) when() time.Time {
	return time.Date(1995+e.rng.Intn(30), time.Month(1+e.rng.Intn(12)), 1+e.rng.Intn(28), e.rng.Intn(24), e.rng.Intn(60), e.rng.Intn(60), 0, tzs[e.rng.Intn(len(tzs))])
}

func (e *env) envelope() *imap.Envelope {
	if e.rng.Intn(12) == 0 {
		return nil
	}
	env := &imap.Envelope{From: e.addrs(), To: e.addrs(), Cc: e.addrs(), Bcc: e.addrs()}
	if e.rng.Intn(4) != 0 {
		env.Date = e.when()
	}
	if e.rng.Intn(5) != 0 {
		env.Subject = e.text()
	}
	if e.rng.Intn(3) == 0 {
		env.Sender = e.addrs()
	}
	if e.rng.Intn(3) == 0 {
		env.ReplyTo = e.addrs()
	}
	if e.rng.Intn(2) == 0 {
		env.MessageID = fmt.Sprintf("id%d@%s", e.rng.Intn(1000), e.atomish())
	}
	for k := e.rng.Intn(3); k > 0; k-- {
		env.InReplyTo = append(env.InReplyTo, fmt.Sprintf("ref%d@%s", e.rng.Intn(1000), e.atomish()))
	}
	return env
}

func (e *env) params() map[string]string {
	switch e.rng.Intn(4) {
	case 0:
		return nil
	case 1:
		return map[string]string{}
	case 2:
		return map[string]string{"charset": "utf-8"}
	}
	return map[string]string{"Name": e.text(), "boundary": "=_b" + fmt.Sprint(e.rng.Intn(99)), "x-unknown": ""}
}

func (e *env) disposition() *imap.BodyStructureDisposition {
	switch e.rng.Intn(3) {
	case 0:
		return nil
	case 1:
		return &imap.BodyStructureDisposition{Value: "inline"}
	}
	return &imap.BodyStructureDisposition{Value: "attachment", Params: map[string]string{"filename": e.text()}}
}

func (e *env) langs() []string {
	return [][]string{nil, {}, {"en"}, {"en", "fr-CA"}}[e.rng.Intn(4)]
}

func (e *env) bodyStructure(depth int, ext bool) imap.BodyStructure {
	if depth > 0 && e.rng.Intn(3) == 0 {
		mp := &imap.BodyStructureMultiPart{Subtype: []string{"mixed", "alternative", "RELATED", "signed"}[e.rng.Intn(4)]}
		for k := 1 + e.rng.Intn(3); k > 0; k-- {
			mp.Children = append(mp.Children, e.bodyStructure(depth-1, ext))
		}
		if ext {
			mp.Extended = &imap.BodyStructureMultiPartExt{Params: e.params(), Disposition: e.disposition(), Language: e.langs()}
			if e.rng.Intn(3) == 0 {
				mp.Extended.Location = "http://loc/" + fmt.Sprint(e.rng.Intn(9))
			}
		}
		return mp
	}
	sp := &imap.BodyStructureSinglePart{Params: e.params(), Size: big32(e.rng) >> uint(e.rng.Intn(2)*15)}
	switch e.rng.Intn(5) {
	case 0:
		sp.Type, sp.Subtype = "text", []string{"plain", "HTML"}[e.rng.Intn(2)]
		sp.Text = &imap.BodyStructureText{NumLines: int64(e.rng.Intn(500))}
	case 1:
		if depth > 0 {
			sp.Type, sp.Subtype = "message", "rfc822"
			env := e.envelope()
			if env == nil {
				env = &imap.Envelope{}
			}
			sp.MessageRFC822 = &imap.BodyStructureMessageRFC822{Envelope: env, BodyStructure: e.bodyStructure(depth-1, ext), NumLines: int64(e.rng.Intn(900))}
			break
		}
		fallthrough
	case 2:
		sp.Type, sp.Subtype = "application", "octet-stream"
	case 3:
		sp.Type, sp.Subtype = "IMAGE", "PNG"
	case 4:
		sp.Type, sp.Subtype = "audio", "x-weird+type"
	}
	if e.rng.Intn(2) == 0 {
		sp.ID = "<cid" + fmt.Sprint(e.rng.Intn(99)) + []string{"", "", "\xe9", "ü"}[e.rng.Intn(4)] + "@x>"
	}
	if e.rng.Intn(2) == 0 {
		sp.Description = e.text()
	}
	sp.Encoding = []string{"", "7bit", "base64", "QUOTED-PRINTABLE", "8bit"}[e.rng.Intn(5)]
	if ext {
		sp.Extended = &imap.BodyStructureSinglePartExt{Disposition: e.disposition(), Language: e.langs()}
		if e.rng.Intn(3) == 0 {
			sp.Extended.Location = "loc" + fmt.Sprint(e.rng.Intn(9))
		}
	}
	return sp
}

func (e *env) payload() []byte {
	n := []int{0, 1, 2, 100, 4095, 4096, 4097, 70000}[e.rng.Intn(8)]
	b := make([]byte, n)
	e.rng.Read(b)
	return b
}

var flagPool = []imap.Flag{imap.FlagSeen, imap.FlagAnswered, imap.FlagDeleted, imap.FlagDraft, imap.FlagFlagged, "$Forwarded", "custom", "Kw-2", "\\X-Ext"}

func (e *env) flags() []imap.Flag {
	var o []imap.Flag
	for k := e.rng.Intn(4); k > 0; k-- {
		o = append(o, flagPool[e.rng.Intn(len(flagPool))])
	}
	return o
}

var boxNames = []string{"INBOX", "Inboxes", "inbox/sub", "Work", "Lists/go-imap", "Entwürfe", "日本語", "with space", "R&D", "a\"q\\b", "ctl\x01"}

// ---- normalisation (what the wire format can carry) ----------------------------------

func normAddrs(l []imap.Address) []imap.Address {
	if len(l) == 0 {
		return nil
	}
	return l
}

func normEnvelope(e *imap.Envelope) *imap.Envelope {
	if e == nil {
		e = &imap.Envelope{}
	}
	o := *e
	o.From, o.To, o.Cc, o.Bcc = normAddrs(e.From), normAddrs(e.To), normAddrs(e.Cc), normAddrs(e.Bcc)
	o.Sender, o.ReplyTo = normAddrs(e.Sender), normAddrs(e.ReplyTo)
	if e.Sender == nil {
		o.Sender = o.From
	}
	if e.ReplyTo == nil {
		o.ReplyTo = o.From
	}
	if len(o.InReplyTo) == 0 {
		o.InReplyTo = nil
	}
	return &o
}

func envEqual(a, b *imap.Envelope) string {
	a, b = normEnvelope(a), normEnvelope(b)
	if a.Date.IsZero() != b.Date.IsZero() || (!a.Date.IsZero() && (!a.Date.Equal(b.Date) || zoneOff(a.Date) != zoneOff(b.Date))) {
		return fmt.Sprintf("date %v vs %v", a.Date, b.Date)
	}
	if a.Subject != b.Subject {
		return fmt.Sprintf("subject %q vs %q", a.Subject, b.Subject)
	}
	for _, f := range []struct {
		n    string
		x, y []imap.Address
	}{{"from", a.From, b.From}, {"sender", a.Sender, b.Sender}, {"reply-to", a.ReplyTo, b.ReplyTo}, {"to", a.To, b.To}, {"cc", a.Cc, b.Cc}, {"bcc", a.Bcc, b.Bcc}} {
		if !reflect.DeepEqual(f.x, f.y) {
			return fmt.Sprintf("%s %+v vs %+v", f.n, f.x, f.y)
		}
	}
	if !reflect.DeepEqual(a.InReplyTo, b.InReplyTo) || a.MessageID != b.MessageID {
		return fmt.Sprintf("in-reply-to/message-id %v %q vs %v %q", a.InReplyTo, a.MessageID, b.InReplyTo, b.MessageID)
	}
	return ""
}

func zoneOff(t time.Time) int { _, o := t.Zone(); return o }

func normParams(m map[string]string) map[string]string {
	if len(m) == 0 {
		return nil
	}
	o := map[string]string{}
	for k, v := range m {
		o[strings.ToLower(k)] = v
	}
	return o
}

func normDisp(d *imap.BodyStructureDisposition) string {
	if d == nil {
		return "nil"
	}
	return fmt.Sprintf("%s %v", d.Value, sortedMap(normParams(d.Params)))
}

func sortedMap(m map[string]string) string {
	var k []string
	for x := range m {
		k = append(k, x)
	}
	sort.Strings(k)
	var p []string
	for _, x := range k {
		p = append(p, fmt.Sprintf("%s=%q", x, m[x]))
	}
	return "{" + strings.Join(p, ",") + "}"
}

func normLang(l []string) []string {
	if len(l) == 0 {
		return nil
	}
	return l
}

// bsEqual compares a planned body structure with the delivered one.
func bsEqual(want, got imap.BodyStructure, ext bool, path string) string {
	switch w := want.(type) {
	case *imap.BodyStructureMultiPart:
		g, ok := got.(*imap.BodyStructureMultiPart)
		if !ok {
			return fmt.Sprintf("%s: multipart delivered as %T", path, got)
		}
		if w.Subtype != g.Subtype || len(w.Children) != len(g.Children) {
			return fmt.Sprintf("%s: multipart/%s with %d children delivered as multipart/%s with %d", path, w.Subtype, len(w.Children), g.Subtype, len(g.Children))
		}
		for i := range w.Children {
			if m := bsEqual(w.Children[i], g.Children[i], ext, fmt.Sprintf("%s.%d", path, i+1)); m != "" {
				return m
			}
		}
		if ext {
			if g.Extended == nil {
				return path + ": extension data missing"
			}
			if sortedMap(normParams(w.Extended.Params)) != sortedMap(normParams(g.Extended.Params)) || normDisp(w.Extended.Disposition) != normDisp(g.Extended.Disposition) || !reflect.DeepEqual(normLang(w.Extended.Language), normLang(g.Extended.Language)) || w.Extended.Location != g.Extended.Location {
				return fmt.Sprintf("%s: multipart extension %+v delivered as %+v", path, *w.Extended, *g.Extended)
			}
		} else if g.Extended != nil {
			return path + ": extension data delivered for BODY"
		}
	case *imap.BodyStructureSinglePart:
		g, ok := got.(*imap.BodyStructureSinglePart)
		if !ok {
			return fmt.Sprintf("%s: single part delivered as %T", path, got)
		}
		wantEnc := strings.ToUpper(w.Encoding)
		if wantEnc == "" {
			wantEnc = "7BIT"
		}
		if w.Type != g.Type || w.Subtype != g.Subtype || sortedMap(normParams(w.Params)) != sortedMap(normParams(g.Params)) || w.ID != g.ID || w.Description != g.Description || wantEnc != g.Encoding || w.Size != g.Size {
			return fmt.Sprintf("%s: part %s/%s params=%s id=%q desc=%q enc=%q size=%d delivered as %s/%s params=%s id=%q desc=%q enc=%q size=%d", path, w.Type, w.Subtype, sortedMap(normParams(w.Params)), w.ID, w.Description, wantEnc, w.Size, g.Type, g.Subtype, sortedMap(normParams(g.Params)), g.ID, g.Description, g.Encoding, g.Size)
		}
		if (w.Text == nil) != (g.Text == nil) || (w.Text != nil && w.Text.NumLines != g.Text.NumLines) {
			return fmt.Sprintf("%s: text lines %+v delivered as %+v", path, w.Text, g.Text)
		}
		if (w.MessageRFC822 == nil) != (g.MessageRFC822 == nil) {
			return fmt.Sprintf("%s: message/rfc822 data %v delivered as %v", path, w.MessageRFC822 != nil, g.MessageRFC822 != nil)
		}
		if w.MessageRFC822 != nil {
			if m := envEqual(w.MessageRFC822.Envelope, g.MessageRFC822.Envelope); m != "" {
				return path + ": embedded envelope: " + m
			}
			if w.MessageRFC822.NumLines != g.MessageRFC822.NumLines {
				return fmt.Sprintf("%s: embedded message lines %d delivered as %d", path, w.MessageRFC822.NumLines, g.MessageRFC822.NumLines)
			}
			if m := bsEqual(w.MessageRFC822.BodyStructure, g.MessageRFC822.BodyStructure, ext, path+".msg"); m != "" {
				return m
			}
		}
		if ext {
			if g.Extended == nil {
				return path + ": extension data missing"
			}
			if normDisp(w.Extended.Disposition) != normDisp(g.Extended.Disposition) || !reflect.DeepEqual(normLang(w.Extended.Language), normLang(g.Extended.Language)) || w.Extended.Location != g.Extended.Location {
				return fmt.Sprintf("%s: extension %+v (disp %s) delivered as %+v (disp %s)", path, *w.Extended, normDisp(w.Extended.Disposition), *g.Extended, normDisp(g.Extended.Disposition))
			}
		} else if g.Extended != nil {
			return path + ": extension data delivered for BODY"
		}
	}
	return ""
}

func canonFlags(fl []imap.Flag) []string {
	var o []string
	for _, f := range fl {
		o = append(o, strings.ToLower(string(f)))
	}
	return o
}

// ---- operations ----------------------------------------------------------------------

func (e *env) run(op string, f func() error) bool {
	errc := make(chan error, 1)
	go func() { errc <- f() }()
	select {
	case err := <-errc:
		e.w.Metric("responses", 1)
		e.w.Class(e.class + "/" + strings.Fields(op)[0])
		if err != nil {
			e.viol("client-rejected-response", op, err.Error())
			return false
		}
		return true
	case <-time.After(60 * time.Second):
		e.viol("command-hangs", op, "the client call did not return")
		return false
	}
}

func sectionKey(s *imap.FetchItemBodySection) string {
	off := "-"
	if s.Partial != nil {
		off = fmt.Sprint(s.Partial.Offset)
	}
	return fmt.Sprintf("%s|%v|%q|%q|%s", s.Specifier, s.Part, s.HeaderFields, s.HeaderFieldsNot, off)
}

type imapnum32 struct{ a, b uint32 }

func (e *env) opFetch() {
	rng := e.rng
	uidCmd := rng.Intn(2) == 0
	opts := &imap.FetchOptions{Flags: rng.Intn(2) == 0, UID: rng.Intn(2) == 0, InternalDate: rng.Intn(2) == 0, RFC822Size: rng.Intn(2) == 0, Envelope: rng.Intn(2) == 0}
	ext := rng.Intn(2) == 0
	if rng.Intn(2) == 0 {
		opts.BodyStructure = &imap.FetchItemBodyStructure{Extended: ext}
	}
	nsec := rng.Intn(3)
	for i := 0; i < nsec; i++ {
		bs := &imap.FetchItemBodySection{Peek: rng.Intn(2) == 0}
		// distinct parts so that the results can be told apart
		if i > 0 || rng.Intn(2) == 0 {
			bs.Part = []int{i + 1}
			if rng.Intn(3) == 0 {
				bs.Part = append(bs.Part, 1+rng.Intn(3))
			}
		}
		switch rng.Intn(7) {
		case 0:
			bs.Specifier = imap.PartSpecifierHeader
		case 1:
			bs.Specifier = imap.PartSpecifierText
		case 2:
			bs.Specifier = imap.PartSpecifierHeader
			bs.HeaderFields = []string{"Subject", "X-H" + fmt.Sprint(i)}
		case 3:
			bs.Specifier = imap.PartSpecifierHeader
			bs.HeaderFieldsNot = []string{"Received"}
		case 4:
			bs.Partial = &imap.SectionPartial{Offset: []int64{0, 10, 40, 1 << 31, 1<<32 - 1, 1 << 32, 1<<40 + 5, 1<<63 - 1}[rng.Intn(8)], Size: 1000}
		case 5:
			if len(bs.Part) > 0 {
				bs.Specifier = imap.PartSpecifierMIME
			}
		}
		opts.BodySection = append(opts.BodySection, bs)
	}
	nbin := 0
	if e.rev2 {
		nbin = rng.Intn(2)
		for i := 0; i < nbin; i++ {
			opts.BinarySection = append(opts.BinarySection, &imap.FetchItemBinarySection{Part: []int{i + 1}})
		}
		for i := 0; i < rng.Intn(2); i++ {
			opts.BinarySectionSize = append(opts.BinarySectionSize, &imap.FetchItemBinarySectionSize{Part: []int{i + 2, 1}})
		}
	}
	p := &plan{}
	dyn := false
	nm := 1 + rng.Intn(3)
	var seqs imap.SeqSet
	var uids imap.UIDSet
	uidBase := uint32(100)
	switch rng.Intn(6) {
	case 0:
		uidBase = 1<<31 - 4 // the run of UIDs straddles 2^31
	case 1:
		uidBase = 1<<32 - 20
	}
	for i := 0; i < nm; i++ {
		m := msgPlan{seq: uint32(1 + i*2 + rng.Intn(2)), uid: imap.UID(uidBase + uint32(i*3+rng.Intn(3))), flags: e.flags(), date: e.when(), size: int64(rng.Intn(1 << 30)), envelope: e.envelope()}
		if rng.Intn(20) == 0 {
			m.size = 1<<33 + int64(rng.Intn(1000))
		}
		if opts.BodyStructure != nil {
			m.bs = e.bodyStructure(3, ext)
		}
		for range opts.BodySection {
			m.sections = append(m.sections, e.payload())
		}
		for range opts.BinarySection {
			m.binaries = append(m.binaries, e.payload())
		}
		for range opts.BinarySectionSize {
			m.binSizes = append(m.binSizes, big32(rng))
		}
		seqs.AddNum(m.seq)
		uids.AddNum(m.uid)
		p.msgs = append(p.msgs, m)
	}
	var numSet imap.NumSet = seqs
	if uidCmd {
		numSet = uids
	}
	if e.count > 0 && rng.Intn(4) == 0 {
		// a set that addresses the last message only through "*": the backend writes the data of
		// message number count, and it has to reach this command
		p.msgs = p.msgs[:1]
		p.msgs[0].seq = e.count
		var r imapnum32
		switch rng.Intn(3) {
		case 0:
			r = imapnum32{0, 0}
		case 1:
			r = imapnum32{e.count + 1 + uint32(rng.Intn(5)), 0}
		case 2:
			r = imapnum32{0, e.count + 7}
		}
		if uidCmd {
			if r.a != 0 {
				r.a = uint32(p.msgs[0].uid) + 1 + uint32(rng.Intn(5))
				if r.a < uint32(p.msgs[0].uid) {
					r.a = 0
				}
			}
			if r.b != 0 {
				r.b = uint32(p.msgs[0].uid) + 3
				if r.b < uint32(p.msgs[0].uid) {
					r.b = 0
				}
			}
			var us imap.UIDSet
			us.AddRange(imap.UID(r.a), imap.UID(r.b)) // AddRange, so that "*:n" is stored the way the library stores it
			numSet = us
		} else {
			var ss imap.SeqSet
			ss.AddRange(r.a, r.b)
			numSet = ss
		}
		dyn = true
		e.w.Metric("fetches_addressed_through_star", 1)
	}
	e.cur = p
	var got []*imapclient.FetchMessageBuffer
	op := "FETCH " + shape(opts, uidCmd)
	if dyn {
		op = "FETCH* " + shape(opts, uidCmd)
	}
	if !e.run(op, func() error {
		var err error
		got, err = e.c.Fetch(numSet, opts).Collect()
		return err
	}) {
		return
	}
	if len(got) != len(p.msgs) {
		extra := ""
		if dyn {
			mb := e.c.Mailbox()
			extra = fmt.Sprintf("; set %s, data written for message %d, the wire announced %d messages, Mailbox() = %+v", numSet.String(), p.msgs[0].seq, e.count, mb)
		}
		e.viol("data-lost", op, fmt.Sprintf("%d messages written, %d delivered%s", len(p.msgs), len(got), extra))
		return
	}
	for i, m := range p.msgs {
		g := got[i]
		if g.SeqNum != m.seq {
			e.viol("data-differs", op, fmt.Sprintf("message #%d: sequence number %d delivered as %d (order changed?)", i, m.seq, g.SeqNum))
			return
		}
		if (opts.UID || uidCmd) && g.UID != m.uid {
			e.viol("data-differs", op, fmt.Sprintf("UID %d delivered as %d", m.uid, g.UID))
		}
		if opts.Flags && fmt.Sprint(canonFlags(g.Flags)) != fmt.Sprint(canonFlags(m.flags)) {
			e.viol("data-differs", op, fmt.Sprintf("flags %v delivered as %v", m.flags, g.Flags))
		}
		if opts.InternalDate && (!g.InternalDate.Equal(m.date) || zoneOff(g.InternalDate) != zoneOff(m.date)) {
			e.viol("data-differs", op, fmt.Sprintf("internal date %v delivered as %v", m.date, g.InternalDate))
		}
		if opts.RFC822Size && g.RFC822Size != m.size {
			e.viol("data-differs", op, fmt.Sprintf("RFC822.SIZE %d delivered as %d", m.size, g.RFC822Size))
		}
		if opts.Envelope {
			if g.Envelope == nil {
				e.viol("data-lost", op, "envelope not delivered")
			} else if msg := envEqual(m.envelope, g.Envelope); msg != "" {
				e.viol("data-differs", op, "envelope: "+msg)
			}
		}
		if opts.BodyStructure != nil {
			if g.BodyStructure == nil {
				e.viol("data-lost", op, "body structure not delivered")
			} else if msg := bsEqual(m.bs, g.BodyStructure, ext, "body"); msg != "" {
				e.viol("data-differs", op, "body structure: "+msg)
			}
		}
		if len(g.BodySection) != len(distinctSections(opts.BodySection)) {
			e.viol("data-lost", op, fmt.Sprintf("%d body sections written, %d delivered", len(opts.BodySection), len(g.BodySection)))
		}
		for si, sec := range opts.BodySection {
			found := false
			for k, v := range g.BodySection {
				if sectionKey(k) == sectionKey(sec) {
					found = true
					if !bytes.Equal(v, m.sections[si]) && lastWithKey(opts.BodySection, si) {
						e.viol("literal-differs", op, fmt.Sprintf("body section %s: %d bytes written, %d delivered (equal=%v)", sectionKey(sec), len(m.sections[si]), len(v), bytes.Equal(v, m.sections[si])))
					}
				}
			}
			if !found {
				var keys []string
				for k := range g.BodySection {
					keys = append(keys, sectionKey(k))
				}
				e.viol("data-lost", op, fmt.Sprintf("body section %s not delivered (delivered: %v)", sectionKey(sec), keys))
			}
		}
		for bi, sec := range opts.BinarySection {
			found := false
			for k, v := range g.BinarySection {
				if fmt.Sprint(k.Part) == fmt.Sprint(sec.Part) {
					found = true
					if !bytes.Equal(v, m.binaries[bi]) {
						e.viol("literal-differs", op, fmt.Sprintf("binary section %v: %d bytes written, %d delivered", sec.Part, len(m.binaries[bi]), len(v)))
					}
				}
			}
			if !found {
				e.viol("data-lost", op, fmt.Sprintf("binary section %v not delivered", sec.Part))
			}
		}
		if len(opts.BinarySectionSize) != len(g.BinarySectionSize) {
			e.viol("data-lost", op, fmt.Sprintf("%d binary sizes written, %d delivered", len(opts.BinarySectionSize), len(g.BinarySectionSize)))
		} else {
			for bi, bss := range opts.BinarySectionSize {
				if fmt.Sprint(g.BinarySectionSize[bi].Part) != fmt.Sprint(bss.Part) || g.BinarySectionSize[bi].Size != m.binSizes[bi] {
					e.viol("data-differs", op, fmt.Sprintf("BINARY.SIZE%v %d delivered as %v %d", bss.Part, m.binSizes[bi], g.BinarySectionSize[bi].Part, g.BinarySectionSize[bi].Size))
				}
			}
		}
	}
}

func distinctSections(l []*imap.FetchItemBodySection) map[string]bool {
	m := map[string]bool{}
	for _, s := range l {
		m[sectionKey(s)] = true
	}
	return m
}

func lastWithKey(l []*imap.FetchItemBodySection, i int) bool {
	for j := i + 1; j < len(l); j++ {
		if sectionKey(l[j]) == sectionKey(l[i]) {
			return false
		}
	}
	return true
}

func shape(o *imap.FetchOptions, uid bool) string {
	var p []string
	add := func(b bool, n string) {
		if b {
			p = append(p, n)
		}
	}
	add(uid, "UIDCMD")
	add(o.Flags, "FLAGS")
	add(o.UID, "UID")
	add(o.InternalDate, "DATE")
	add(o.RFC822Size, "SIZE")
	add(o.Envelope, "ENVELOPE")
	if o.BodyStructure != nil {
		add(o.BodyStructure.Extended, "BODYSTRUCTURE")
		add(!o.BodyStructure.Extended, "BODY")
	}
	add(len(o.BodySection) > 0, "BODY[]")
	add(len(o.BinarySection) > 0, "BINARY[]")
	add(len(o.BinarySectionSize) > 0, "BINARY.SIZE")
	return strings.Join(p, "+")
}

// big32 returns a non-zero 32-bit number; a quarter of them lie in the upper half of the range
// (2^31 .. 2^32-1), where signed arithmetic goes wrong.
func big32(r *rand.Rand) uint32 {
	switch r.Intn(8) {
	case 0:
		return 1<<32 - 1 - uint32(r.Intn(3))
	case 1:
		return 1<<31 + uint32(r.Intn(1<<30))
	}
	return uint32(1 + r.Intn(1<<31-1))
}

func u32p(v uint32) *uint32 { return &v }
func i64p(v int64) *int64   { return &v }

func (e *env) statusData(name string, o *imap.StatusOptions) *imap.StatusData {
	r := e.rng
	d := &imap.StatusData{Mailbox: name}
	if o.NumMessages {
		d.NumMessages = u32p(big32(r) >> uint(r.Intn(3)*11))
	}
	if o.UIDNext {
		d.UIDNext = imap.UID(big32(r))
	}
	if o.UIDValidity {
		d.UIDValidity = big32(r)
	}
	if o.NumUnseen {
		d.NumUnseen = u32p(uint32(r.Intn(1000)))
	}
	if o.NumDeleted {
		d.NumDeleted = u32p(uint32(r.Intn(1000)))
	}
	if o.Size {
		d.Size = i64p(int64(r.Intn(1<<40) + r.Intn(2)*(1<<33)))
	}
	if o.AppendLimit && r.Intn(2) == 0 {
		d.AppendLimit = u32p(big32(r))
	}
	if o.DeletedStorage {
		d.DeletedStorage = i64p(int64(r.Intn(1 << 30)))
	}
	return d
}

func statusEqual(w, g *imap.StatusData, o *imap.StatusOptions) string {
	if g == nil {
		return "no status delivered"
	}
	p := func(x *uint32) string {
		if x == nil {
			return "nil"
		}
		return fmt.Sprint(*x)
	}
	q := func(x *int64) string {
		if x == nil {
			return "nil"
		}
		return fmt.Sprint(*x)
	}
	ws := fmt.Sprintf("%s msgs=%s next=%d val=%d unseen=%s deleted=%s size=%s delstor=%s", w.Mailbox, p(w.NumMessages), w.UIDNext, w.UIDValidity, p(w.NumUnseen), p(w.NumDeleted), q(w.Size), q(w.DeletedStorage))
	gs := fmt.Sprintf("%s msgs=%s next=%d val=%d unseen=%s deleted=%s size=%s delstor=%s", g.Mailbox, p(g.NumMessages), g.UIDNext, g.UIDValidity, p(g.NumUnseen), p(g.NumDeleted), q(g.Size), q(g.DeletedStorage))
	if ws != gs {
		return ws + " delivered as " + gs
	}
	if o.AppendLimit {
		// NIL (no limit) is delivered as the maximum value
		if w.AppendLimit == nil {
			if g.AppendLimit == nil || *g.AppendLimit != ^uint32(0) {
				return "APPENDLIMIT NIL delivered as " + p(g.AppendLimit)
			}
		} else if g.AppendLimit == nil || *g.AppendLimit != *w.AppendLimit {
			return "APPENDLIMIT " + p(w.AppendLimit) + " delivered as " + p(g.AppendLimit)
		}
	}
	return ""
}

func (e *env) randStatusOpts() *imap.StatusOptions {
	r := e.rng
	o := &imap.StatusOptions{NumMessages: r.Intn(2) == 0, UIDNext: r.Intn(2) == 0, UIDValidity: r.Intn(2) == 0, NumUnseen: r.Intn(2) == 0, NumDeleted: r.Intn(2) == 0, Size: r.Intn(2) == 0, AppendLimit: r.Intn(3) == 0, DeletedStorage: r.Intn(3) == 0}
	if *o == (imap.StatusOptions{}) {
		o.NumMessages = true
	}
	return o
}

func (e *env) opStatus() {
	name := boxNames[e.rng.Intn(len(boxNames))]
	o := e.randStatusOpts()
	d := e.statusData(name, o)
	e.cur = &plan{status: d}
	var got *imap.StatusData
	if !e.run("STATUS", func() error { var err error; got, err = e.c.Status(name, o).Wait(); return err }) {
		return
	}
	if m := statusEqual(d, got, o); m != "" {
		e.viol("data-differs", "STATUS", m)
	}
}

var attrPool = []imap.MailboxAttr{imap.MailboxAttrNoSelect, imap.MailboxAttrHasChildren, imap.MailboxAttrHasNoChildren, imap.MailboxAttrSubscribed, imap.MailboxAttrSent, imap.MailboxAttrTrash, "\\X-Custom", imap.MailboxAttrNonExistent, imap.MailboxAttrMarked}

func (e *env) opList() {
	r := e.rng
	withStatus := r.Intn(2) == 0
	opts := &imap.ListOptions{ReturnChildren: r.Intn(2) == 0, ReturnSubscribed: r.Intn(2) == 0}
	if withStatus {
		opts.ReturnStatus = e.randStatusOpts()
	}
	p := &plan{}
	names := r.Perm(len(boxNames))[:1+r.Intn(5)]
	for _, ni := range names {
		d := imap.ListData{Mailbox: boxNames[ni], Delim: []rune{'/', '.', 0}[r.Intn(3)]}
		for k := r.Intn(3); k > 0; k-- {
			d.Attrs = append(d.Attrs, attrPool[r.Intn(len(attrPool))])
		}
		if r.Intn(4) == 0 {
			d.ChildInfo = &imap.ListDataChildInfo{Subscribed: r.Intn(2) == 0}
		}
		if r.Intn(5) == 0 {
			d.OldName = boxNames[r.Intn(len(boxNames))]
		}
		if withStatus && r.Intn(3) != 0 {
			d.Status = e.statusData(d.Mailbox, opts.ReturnStatus)
		}
		p.list = append(p.list, d)
	}
	e.cur = p
	var got []*imap.ListData
	op := fmt.Sprintf("LIST status=%v", withStatus)
	if !e.run(op, func() error { var err error; got, err = e.c.List("", "*", opts).Collect(); return err }) {
		return
	}
	if len(got) != len(p.list) {
		var gn []string
		for _, g := range got {
			gn = append(gn, g.Mailbox)
		}
		var wn []string
		for _, w := range p.list {
			wn = append(wn, fmt.Sprintf("%s(status=%v)", w.Mailbox, w.Status != nil))
		}
		e.viol("data-lost", op, fmt.Sprintf("%d mailboxes written %v, %d delivered %v", len(p.list), wn, len(got), gn))
		return
	}
	for i, wd := range p.list {
		g := got[i]
		if g.Mailbox != wd.Mailbox || g.Delim != wd.Delim || fmt.Sprint(g.Attrs) != fmt.Sprint(wd.Attrs) && !(len(g.Attrs) == 0 && len(wd.Attrs) == 0) || g.OldName != wd.OldName {
			e.viol("data-differs", op, fmt.Sprintf("list entry %+v delivered as %+v", wd, *g))
			continue
		}
		if (wd.ChildInfo == nil) != (g.ChildInfo == nil) || (wd.ChildInfo != nil && wd.ChildInfo.Subscribed != g.ChildInfo.Subscribed) {
			e.viol("data-differs", op, fmt.Sprintf("CHILDINFO %+v delivered as %+v", wd.ChildInfo, g.ChildInfo))
		}
		if (wd.Status == nil) != (g.Status == nil) {
			e.viol("data-differs", op, fmt.Sprintf("mailbox %q: status written=%v delivered=%v", wd.Mailbox, wd.Status != nil, g.Status != nil))
		} else if wd.Status != nil {
			if m := statusEqual(wd.Status, g.Status, opts.ReturnStatus); m != "" {
				e.viol("data-differs", op, "LIST-STATUS: "+m)
			}
		}
	}
}

func staticSeqSet(r *rand.Rand) imap.SeqSet {
	var s imap.SeqSet
	for k := r.Intn(4); k > 0; k-- {
		a := uint32(1 + r.Intn(200))
		if r.Intn(2) == 0 {
			s.AddNum(a)
		} else {
			s.AddRange(a, a+uint32(r.Intn(20)))
		}
	}
	return s
}

func (e *env) opSearch() {
	r := e.rng
	uid := r.Intn(2) == 0
	var opts *imap.SearchOptions
	if r.Intn(2) == 0 {
		opts = &imap.SearchOptions{ReturnMin: r.Intn(2) == 0, ReturnMax: r.Intn(2) == 0, ReturnAll: r.Intn(2) == 0, ReturnCount: r.Intn(2) == 0}
	}
	seq := staticSeqSet(r)
	d := &imap.SearchData{UID: uid}
	nums, _ := seq.Nums()
	if uid {
		var us imap.UIDSet
		for _, n := range nums {
			us.AddNum(imap.UID(n))
		}
		d.All = us
	} else {
		d.All = seq
	}
	if len(nums) > 0 {
		d.Min, d.Max = nums[0], nums[len(nums)-1]
	}
	d.Count = uint32(len(nums))
	e.cur = &plan{search: d}
	var got *imap.SearchData
	op := fmt.Sprintf("SEARCH uid=%v opts=%v", uid, opts != nil)
	if !e.run(op, func() error {
		var err error
		if uid {
			got, err = e.c.UIDSearch(&imap.SearchCriteria{}, opts).Wait()
		} else {
			got, err = e.c.Search(&imap.SearchCriteria{}, opts).Wait()
		}
		return err
	}) {
		return
	}
	wantAll := opts == nil || opts.ReturnAll || (!opts.ReturnMin && !opts.ReturnMax && !opts.ReturnCount)
	var gotNums []uint32
	if got.All != nil {
		if uid {
			for _, u := range got.AllUIDs() {
				gotNums = append(gotNums, uint32(u))
			}
		} else {
			gotNums = got.AllSeqNums()
		}
	}
	if wantAll && fmt.Sprint(gotNums) != fmt.Sprint(nums) && !(len(gotNums) == 0 && len(nums) == 0) {
		e.viol("data-differs", op, fmt.Sprintf("result set %v delivered as %v", nums, gotNums))
	}
	if opts != nil {
		if opts.ReturnMin && got.Min != d.Min {
			e.viol("data-differs", op, fmt.Sprintf("MIN %d delivered as %d", d.Min, got.Min))
		}
		if opts.ReturnMax && got.Max != d.Max {
			e.viol("data-differs", op, fmt.Sprintf("MAX %d delivered as %d", d.Max, got.Max))
		}
		if opts.ReturnCount && got.Count != d.Count {
			e.viol("data-differs", op, fmt.Sprintf("COUNT %d delivered as %d", d.Count, got.Count))
		}
	}
}

func (e *env) opSelect() {
	r := e.rng
	name := boxNames[r.Intn(len(boxNames))]
	d := &imap.SelectData{Flags: e.flags(), PermanentFlags: append(e.flags(), imap.FlagWildcard), NumMessages: uint32(r.Intn(1 << 20)), UIDNext: imap.UID(big32(r)), UIDValidity: big32(r)}
	if e.rev2 && r.Intn(2) == 0 {
		fold := name
		d.List = &imap.ListData{Mailbox: fold, Delim: '/', Attrs: []imap.MailboxAttr{imap.MailboxAttrHasNoChildren}}
	}
	e.cur = &plan{selectD: d}
	var got *imap.SelectData
	if !e.run("SELECT", func() error { var err error; got, err = e.c.Select(name, &imap.SelectOptions{ReadOnly: r.Intn(2) == 0}).Wait(); return err }) {
		return
	}
	e.count = d.NumMessages
	if got.NumMessages != d.NumMessages || got.UIDNext != d.UIDNext || got.UIDValidity != d.UIDValidity || fmt.Sprint(canonFlags(got.Flags)) != fmt.Sprint(canonFlags(d.Flags)) || fmt.Sprint(canonFlags(got.PermanentFlags)) != fmt.Sprint(canonFlags(d.PermanentFlags)) {
		e.viol("data-differs", "SELECT", fmt.Sprintf("%+v delivered as %+v", *d, *got))
	}
	if (d.List == nil) != (got.List == nil) || (d.List != nil && (got.List.Mailbox != d.List.Mailbox || got.List.Delim != d.List.Delim)) {
		e.viol("data-differs", "SELECT", fmt.Sprintf("LIST data %+v delivered as %+v", d.List, got.List))
	}
	// the client's mailbox mirror must agree as well
	if mb := e.c.Mailbox(); mb == nil || mb.NumMessages != d.NumMessages || fmt.Sprint(canonFlags(mb.Flags)) != fmt.Sprint(canonFlags(d.Flags)) {
		e.viol("data-differs", "SELECT", fmt.Sprintf("Mailbox() = %+v after selecting %+v", mb, *d))
	}
}

func (e *env) opAppendCopyMove() {
	r := e.rng
	switch r.Intn(4) {
	case 0:
		var d *imap.AppendData
		if r.Intn(4) != 0 {
			d = &imap.AppendData{UID: imap.UID(big32(r)), UIDValidity: big32(r)}
		}
		e.cur = &plan{appendD: d}
		var got *imap.AppendData
		body := e.payload()
		if !e.run("APPEND", func() error {
			ac := e.c.Append("Work", int64(len(body)), nil)
			ac.Write(body)
			ac.Close()
			var err error
			got, err = ac.Wait()
			return err
		}) {
			return
		}
		if d != nil && (got.UID != d.UID || got.UIDValidity != d.UIDValidity) || d == nil && (got.UID != 0 || got.UIDValidity != 0) {
			e.viol("data-differs", "APPEND", fmt.Sprintf("APPENDUID %+v delivered as %+v", d, *got))
		}
	case 1, 2:
		var d *imap.CopyData
		if r.Intn(4) != 0 {
			src := staticSeqSet(r)
			if len(src) == 0 {
				src.AddNum(3)
			}
			var su, du imap.UIDSet
			nums, _ := src.Nums()
			for i, n := range nums {
				su.AddNum(imap.UID(n))
				du.AddNum(imap.UID(1000 + i))
			}
			d = &imap.CopyData{UIDValidity: big32(r), SourceUIDs: su, DestUIDs: du}
		}
		isMove := r.Intn(2) == 0
		e.cur = &plan{copyD: d}
		if isMove {
			if d == nil {
				d = &imap.CopyData{UIDValidity: 5, SourceUIDs: imap.UIDSetNum(1), DestUIDs: imap.UIDSetNum(2)}
				e.cur.copyD = d
			}
			e.cur.expunged = e.expungePlan(2)
			var got *imapclient.MoveData
			if !e.run("MOVE", func() error { var err error; got, err = e.c.Move(imap.SeqSetNum(1, 2), "Trash").Wait(); return err }) {
				return
			}
			e.count -= uint32(len(e.cur.expunged))
			if got == nil || got.UIDValidity != d.UIDValidity || got.SourceUIDs == nil || got.SourceUIDs.String() != d.SourceUIDs.String() || got.DestUIDs.String() != d.DestUIDs.String() {
				e.viol("data-differs", "MOVE", fmt.Sprintf("COPYUID %d %s %s delivered as %+v", d.UIDValidity, d.SourceUIDs.String(), d.DestUIDs.String(), got))
			}
		} else {
			var got *imap.CopyData
			if !e.run("COPY", func() error { var err error; got, err = e.c.Copy(imap.SeqSetNum(1, 2), "Trash").Wait(); return err }) {
				return
			}
			if d != nil && (got.UIDValidity != d.UIDValidity || got.SourceUIDs.String() != d.SourceUIDs.String() || got.DestUIDs.String() != d.DestUIDs.String()) {
				e.viol("data-differs", "COPY", fmt.Sprintf("COPYUID %d %s %s delivered as %+v", d.UIDValidity, d.SourceUIDs.String(), d.DestUIDs.String(), *got))
			}
		}
	case 3:
		e.cur = &plan{expunged: e.expungePlan(r.Intn(5))}
		var got []uint32
		if !e.run("EXPUNGE", func() error { var err error; got, err = e.c.Expunge().Collect(); return err }) {
			return
		}
		e.count -= uint32(len(e.cur.expunged))
		if fmt.Sprint(got) != fmt.Sprint(e.cur.expunged) && !(len(got) == 0 && len(e.cur.expunged) == 0) {
			e.viol("data-differs", "EXPUNGE", fmt.Sprintf("expunged %v delivered as %v", e.cur.expunged, got))
		}
	}
}

// expungePlan: up to k sequence numbers a server could legitimately expunge one after the other from a
// mailbox of e.count messages
func (e *env) expungePlan(k int) []uint32 {
	var out []uint32
	n := e.count
	for ; k > 0 && n > 0; k-- {
		lim := n
		if lim > 50 {
			lim = 50
		}
		out = append(out, uint32(1+e.rng.Intn(int(lim))))
		n--
	}
	return out
}

// opPipelined: several commands of one kind in flight at once, the oldest completing first; each
// must receive the data the backend wrote for it (untagged SEARCH data names no command).
func (e *env) opPipelined() {
	r := e.rng
	n := 3 + r.Intn(3)
	var plans []*plan
	var want [][]uint32
	for i := 0; i < n; i++ {
		var seq imap.SeqSet
		var nums []uint32
		for k := 0; k < 1+r.Intn(4); k++ {
			v := uint32(1000*(i+1) + k*2)
			seq.AddNum(v)
			nums = append(nums, v)
		}
		plans = append(plans, &plan{search: &imap.SearchData{All: seq, Min: nums[0], Max: nums[len(nums)-1], Count: uint32(len(nums))}})
		want = append(want, nums)
	}
	e.cur = &plan{}
	e.queue, e.gate = plans, make(chan struct{})
	var cmds []*imapclient.SearchCommand
	for i := 0; i < n; i++ {
		cmds = append(cmds, e.c.Search(&imap.SearchCriteria{Larger: int64(i + 1)}, nil))
	}
	close(e.gate)
	for i, cmd := range cmds {
		var got *imap.SearchData
		op := fmt.Sprintf("SEARCH pipelined #%d of %d", i+1, n)
		if !e.run(op, func() error { var err error; got, err = cmd.Wait(); return err }) {
			break
		}
		var gotNums []uint32
		if got.All != nil {
			gotNums = got.AllSeqNums()
		}
		if fmt.Sprint(gotNums) != fmt.Sprint(want[i]) {
			e.viol("data-differs", "SEARCH-pipelined", fmt.Sprintf("command #%d of %d pipelined searches: the backend wrote %v for it, it received %v", i+1, n, want[i], gotNums))
		}
	}
	e.queue, e.gate = nil, nil
	e.w.Metric("pipelined_search_groups", 1)
}

func (e *env) opNamespace() {
	r := e.rng
	descr := func() []imap.NamespaceDescriptor {
		switch r.Intn(3) {
		case 0:
			return nil
		}
		var l []imap.NamespaceDescriptor
		for k := 1 + r.Intn(2); k > 0; k-- {
			l = append(l, imap.NamespaceDescriptor{Prefix: []string{"", "INBOX.", "Shared/", "Üser/", "a\"b", "raw\xe9/"}[r.Intn(6)], Delim: []rune{'/', '.', 0}[r.Intn(3)]})
		}
		return l
	}
	d := &imap.NamespaceData{Personal: descr(), Other: descr(), Shared: descr()}
	e.cur = &plan{namespace: d}
	var got *imap.NamespaceData
	if !e.run("NAMESPACE", func() error { var err error; got, err = e.c.Namespace().Wait(); return err }) {
		return
	}
	if !reflect.DeepEqual(d, got) {
		e.viol("data-differs", "NAMESPACE", fmt.Sprintf("%+v delivered as %+v", *d, *got))
	}
}

func runSession(w *hx.W, rng *rand.Rand, caps imap.CapSet, capsName string, enable string, nops int) {
	e := &env{w: w, rng: rng, class: capsName + "/enabled=" + enable}
	srv := kit.NewServer(kit.ServerCfg{Caps: caps, InsecureAuth: true, Kind: kit.SessFull})
	defer srv.Close()
	srv.B.Handler = e.handler
	e.srv = srv
	log := &vconn.Log{}
	cEnd, sEnd := vconn.Pipe("client", "server", log)
	srv.Ln.Inject(sEnd)
	c := imapclient.New(cEnd, nil)
	defer c.Close()
	e.c = c
	if err := c.Login("u", "p").Wait(); err != nil {
		e.viol("login-failed", "LOGIN", err.Error())
		return
	}
	// capabilities: what the client reports must be what the server put on the wire
	caps2 := c.Caps()
	wire := string(log.Bytes("server"))
	if i := strings.LastIndex(wire, "[CAPABILITY "); i >= 0 {
		j := strings.Index(wire[i:], "]")
		adv := strings.Fields(wire[i+len("[CAPABILITY ") : i+j])
		for _, a := range adv {
			if !caps2.Has(imap.Cap(a)) {
				e.viol("data-differs", "CAPABILITY", fmt.Sprintf("capability %s advertised on the wire is missing from Caps()", a))
			}
		}
		if len(caps2) != len(adv) {
			e.viol("data-differs", "CAPABILITY", fmt.Sprintf("%d capabilities on the wire, %d in Caps()", len(adv), len(caps2)))
		}
	}
	switch enable {
	case "IMAP4rev2":
		c.Enable(imap.CapIMAP4rev2).Wait()
		e.rev2 = true
	case "UTF8=ACCEPT":
		c.Enable(imap.CapUTF8Accept).Wait()
	}
	if caps.Has(imap.CapIMAP4rev2) || caps.Has(imap.CapBinary) {
		e.rev2 = true
	}
	e.opSelect()
	for i := 0; i < nops; i++ {
		if c.State() != imap.ConnStateSelected {
			e.cur = nil
			d, err := c.Select("INBOX", nil).Wait()
			if err != nil {
				e.viol("connection-lost", "session", "cannot re-select: "+err.Error()+fmt.Sprint(srv.Log.Lines()))
				return
			}
			e.count = d.NumMessages
		}
		switch rng.Intn(10) {
		case 0, 1, 2, 3:
			e.opFetch()
		case 4:
			e.opStatus()
		case 5:
			e.opList()
		case 6:
			e.opSearch()
		case 7:
			e.opSelect()
		case 8:
			e.opAppendCopyMove()
		case 9:
			if caps.Has(imap.CapNamespace) && rng.Intn(2) == 0 {
				e.opNamespace()
			} else {
				e.opPipelined()
			}
		}
		w.Case(uint64(rng.Int63()))
	}
	if p := srv.Log.Panics(); len(p) > 0 {
		e.viol("server-panic", "session", p[0])
	}
	_ = imapserver.NumKindSeq
}

func body(w *hx.W) {
	rng := w.Rand("c03")
	rounds := w.Pick(8, 80)
	if w.Quick() && w.Shard < 4 {
		rounds = 3 // these shards also run a long-lived session (below)
	}
	for r := 0; r < rounds; r++ {
		for _, cfg := range []struct {
			name string
			caps imap.CapSet
		}{
			{"rev1", imap.CapSet{imap.CapIMAP4rev1: {}}},
			{"rev1+rev2", imap.CapSet{imap.CapIMAP4rev1: {}, imap.CapIMAP4rev2: {}}},
			{"rev1+ext", imap.CapSet{imap.CapIMAP4rev1: {}, imap.CapMove: {}, imap.CapUIDPlus: {}, imap.CapESearch: {}, imap.CapListExtended: {}, imap.CapListStatus: {}, imap.CapNamespace: {}, imap.CapStatusSize: {}, imap.CapBinary: {}}},
		} {
			for _, en := range []string{"none", "UTF8=ACCEPT", "IMAP4rev2"} {
				if en == "IMAP4rev2" && !cfg.caps.Has(imap.CapIMAP4rev2) {
					continue
				}
				runSession(w, rng, cfg.caps, cfg.name, en, w.Pick(40, 60))
			}
		}
	}
	// long-lived connections: the client keeps one decoder for its whole life, so state that
	// survives a response (list depth, literal bookkeeping, pending-command list) must not drift
	longCfgs := []struct {
		name, en string
		caps     imap.CapSet
	}{
		{"rev1", "none", imap.CapSet{imap.CapIMAP4rev1: {}}},
		{"rev1+rev2", "IMAP4rev2", imap.CapSet{imap.CapIMAP4rev1: {}, imap.CapIMAP4rev2: {}}},
		{"rev1+ext", "UTF8=ACCEPT", imap.CapSet{imap.CapIMAP4rev1: {}, imap.CapMove: {}, imap.CapUIDPlus: {}, imap.CapESearch: {}, imap.CapListExtended: {}, imap.CapListStatus: {}, imap.CapNamespace: {}, imap.CapStatusSize: {}, imap.CapBinary: {}}},
		{"rev1+rev2", "none", imap.CapSet{imap.CapIMAP4rev1: {}, imap.CapIMAP4rev2: {}}},
	}
	for li, lc := range longCfgs {
		if w.Shard%len(longCfgs) != li || (w.Quick() && w.Shard >= len(longCfgs)) {
			continue
		}
		runSession(w, rng, lc.caps, lc.name, lc.en, w.Pick(2500, 6000))
		w.Metric("long_sessions", 1)
	}
	w.Sample(map[string]interface{}{"kind": "session", "operations": "FETCH with random attribute subsets, envelopes, nested body structures, body/binary literals of sizes {0,1,2,100,4095,4096,4097,70000}; STATUS; LIST with attributes/CHILDINFO/OLDNAME/STATUS pairing; SEARCH and ESEARCH; SELECT data; APPENDUID/COPYUID; MOVE; EXPUNGE; NAMESPACE"})
}

func main() {
	hx.Main(hx.Spec{
		ID:    "C03",
		Level: "exploration",
		Rule: "sessions of 40..60 commands (plus long-lived sessions of 2500..6000 commands on one connection) whose response data is generated and written by a stub backend through the server's writer API: FETCH (all attribute subsets, envelopes with NIL/empty/group address lists and RFC 2047 text, body structures nested to depth 3 with message/rfc822 and text parts, extension data, empty-vs-NIL variants, body and binary literals of sizes {0,1,2,100,4095,4096,4097,70000} with arbitrary bytes, BINARY.SIZE), STATUS (all items), LIST (attributes, delimiters, CHILDINFO, OLDNAME, LIST-STATUS pairing with missing STATUS), SEARCH/ESEARCH, SELECT data incl. rev2 LIST, APPENDUID, COPYUID tagged and untagged (MOVE), EXPUNGE streams, NAMESPACE, capabilities x 3 server configurations x {nothing, UTF8=ACCEPT, IMAP4rev2} enabled; distinct per command (seeded)",
		Assumptions: []string{
			"normalisation: envelope sender / reply-to default to From when nil; empty address lists, parameter maps and language lists are equivalent to NIL; parameter keys are lower-cased and the transfer encoding upper-cased with 7BIT as default; dates are compared to the second with their zone offset; a section's partial carries its offset only; APPENDLIMIT NIL is delivered as the maximum value",
			"the backend supplies message/rfc822 data exactly for message/rfc822 parts and text data exactly for text/* parts, and extension data whenever BODYSTRUCTURE is requested (the server API's documented contract)",
			"free-text fields do not contain RFC 2047 encoded-words in a charset the client decodes (utf-8, iso-8859-1, us-ascii; undecodable ones must be delivered unchanged), NUL, CR or LF (they may contain arbitrary other bytes, including invalid UTF-8)",
		},
		RaceFrames: []string{"imapclient.", "imapwire.", "imapserver."},
		Shards:     func(string) int { return 12 },
		WallQuick:  20 * time.Minute, WallThorough: 120 * time.Minute,
	}, body)
}
