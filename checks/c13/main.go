// C13 — client is safe for concurrent use.
//
// Monitor: N goroutines submit commands of every kind (plain, streaming,
// literal-bearing, IDLE) on one imapclient.Client against a scripted server that
// answers out of order, delays continuation requests and optionally resets the
// connection at a seed-chosen byte, while one goroutine polls State/Caps/Mailbox
// and one calls Close at a seed-chosen moment. Oracles: the Go race detector
// (reports with imapclient / imapwire frames), unique tags on the tee, exactly-once
// completion accounting with a watchdog on every blocking call, Client.Close
// returning. Interleavings are diversified by seeded yields injected at every
// lock/unlock site of package imapclient (source-level instrumentation generated
// from the current tree, see cmd/lockgen) and by GOMAXPROCS in {1,2,4,16}.
package main

import (
	"bufio"
	"bytes"
	"fmt"
	"io"
	"math/rand"
	"runtime"
	"strconv"
	"strings"
	"sync"
	"sync/atomic"
	"time"

	imap "github.com/emersion/go-imap/v2"
	"github.com/emersion/go-imap/v2/imapclient"
	"github.com/emersion/go-imap/v2/verif/internal/hx"
	"github.com/emersion/go-imap/v2/verif/internal/vconn"
	"github.com/emersion/go-imap/v2/verif/lockmon"
)

// ---- scripted concurrent server ---------------------------------------------------

type scmd struct {
	tag, name, line string
}

type cserver struct {
	conn        *vconn.Conn
	br          *bufio.Reader
	mu          sync.Mutex
	cond        *sync.Cond
	pending     []scmd
	rng         *rand.Rand
	closed      bool
	capsInLogin bool
	wg          sync.WaitGroup
	exists      int
}

const srvCaps = "IMAP4rev1 LITERAL- ENABLE UTF8=ACCEPT IDLE MOVE UIDPLUS ESEARCH"

func (s *cserver) write(b string) {
	s.conn.Write([]byte(b))
}

func (s *cserver) respond(c scmd) {
	t := c.tag
	switch c.name {
	case "CAPABILITY":
		s.write("* CAPABILITY " + srvCaps + "\r\n" + t + " OK done\r\n")
	case "LOGIN":
		if s.capsInLogin {
			s.write(t + " OK [CAPABILITY " + srvCaps + "] logged in\r\n")
		} else {
			s.write(t + " OK logged in\r\n")
		}
	case "SELECT", "EXAMINE":
		s.mu.Lock()
		s.exists = 3
		s.mu.Unlock()
		s.write("* 3 EXISTS\r\n* FLAGS (\\Seen)\r\n* OK [PERMANENTFLAGS (\\Seen \\*)] p\r\n* OK [UIDVALIDITY 1] v\r\n* OK [UIDNEXT 9] n\r\n" + t + " OK [READ-WRITE] selected\r\n")
	case "STATUS":
		f := strings.Fields(c.line)
		mb := "\"x\""
		if len(f) > 2 {
			mb = f[2]
		}
		s.write("* STATUS " + mb + " (MESSAGES 4 UNSEEN 1)\r\n" + t + " OK done\r\n")
	case "LIST":
		s.write("* LIST () \"/\" INBOX\r\n* LIST (\\Noselect) \"/\" \"a b\"\r\n" + t + " OK done\r\n")
	case "FETCH", "UID FETCH":
		s.write("* 1 FETCH (UID 1 FLAGS (\\Seen) BODY[] {11}\r\nhello world)\r\n* 2 FETCH (UID 2 FLAGS () BODY[] {3}\r\nabc)\r\n" + t + " OK done\r\n")
	case "STORE", "UID STORE":
		s.write("* 1 FETCH (FLAGS (\\Seen \\Flagged))\r\n" + t + " OK done\r\n")
	case "SEARCH", "UID SEARCH":
		if strings.Contains(c.line, "RETURN") {
			s.write("* ESEARCH (TAG \"" + t + "\") UID COUNT 2 ALL 1:2\r\n" + t + " OK done\r\n")
		} else {
			s.write("* SEARCH 1 3\r\n" + t + " OK done\r\n")
		}
	case "EXPUNGE", "UID EXPUNGE":
		s.mu.Lock()
		out := ""
		if s.exists > 1 {
			s.exists--
			out = "* 1 EXPUNGE\r\n"
		}
		s.mu.Unlock()
		s.write(out + t + " OK expunged\r\n")
	case "APPEND":
		s.write(t + " OK [APPENDUID 1 77] done\r\n")
	case "COPY", "UID COPY":
		s.write(t + " OK [COPYUID 1 1 5] done\r\n")
	case "ENABLE":
		s.write("* ENABLED UTF8=ACCEPT\r\n" + t + " OK done\r\n")
	case "NAMESPACE":
		s.write("* NAMESPACE ((\"\" \"/\")) NIL NIL\r\n" + t + " OK done\r\n")
	case "LOGOUT":
		s.write("* BYE bye\r\n" + t + " OK done\r\n")
	default:
		s.write(t + " OK done\r\n")
	}
}

// reader parses commands; responder answers them in random order.
func (s *cserver) reader() {
	defer s.wg.Done()
	for {
		line, err := s.br.ReadString('\n')
		if err != nil {
			break
		}
		full := line
		idle := false
		for {
			t := strings.TrimRight(line, "\r\n")
			i := strings.LastIndexByte(t, '{')
			if i < 0 || !strings.HasSuffix(t, "}") {
				break
			}
			num := strings.TrimSuffix(t[i+1:len(t)-1], "+")
			n, perr := strconv.Atoi(num)
			if perr != nil {
				break
			}
			if !strings.HasSuffix(t, "+}") {
				// synchronising literal: sometimes let other answers go first
				s.mu.Lock()
				d := s.rng.Intn(3)
				s.mu.Unlock()
				for ; d > 0; d-- {
					runtime.Gosched()
					time.Sleep(50 * time.Microsecond)
				}
				s.write("+ go ahead\r\n")
			}
			buf := make([]byte, n)
			if _, err := io.ReadFull(s.br, buf); err != nil {
				goto out
			}
			line, err = s.br.ReadString('\n')
			if err != nil {
				goto out
			}
			full += string(buf) + line
		}
		{
			f := strings.Fields(full)
			if len(f) < 2 {
				continue
			}
			name := strings.ToUpper(f[1])
			if name == "UID" && len(f) > 2 {
				name = "UID " + strings.ToUpper(f[2])
			}
			if name == "IDLE" {
				idle = true
				s.write("+ idling\r\n")
				// push an update while idling, then wait for DONE
				s.write("* 4 EXISTS\r\n")
				if _, err := s.br.ReadString('\n'); err != nil {
					goto out
				}
				s.write(f[0] + " OK idle done\r\n")
			}
			if name == "AUTHENTICATE" {
				idle = true
				s.write("+ \r\n")
				if _, err := s.br.ReadString('\n'); err != nil {
					goto out
				}
				s.write(f[0] + " OK [CAPABILITY " + srvCaps + "] authenticated\r\n")
			}
			if !idle {
				s.mu.Lock()
				s.pending = append(s.pending, scmd{f[0], name, full})
				s.cond.Broadcast()
				s.mu.Unlock()
			}
		}
	}
out:
	s.mu.Lock()
	s.closed = true
	s.cond.Broadcast()
	s.mu.Unlock()
}

func (s *cserver) responder() {
	defer s.wg.Done()
	for {
		s.mu.Lock()
		for len(s.pending) == 0 && !s.closed {
			s.cond.Wait()
		}
		if len(s.pending) == 0 && s.closed {
			s.mu.Unlock()
			return
		}
		// out of order: pick any pending command; sometimes wait for more to pile up
		if len(s.pending) < 3 && !s.closed && s.rng.Intn(3) == 0 {
			s.mu.Unlock()
			time.Sleep(time.Duration(20+s.rng.Intn(200)) * time.Microsecond)
			s.mu.Lock()
			if len(s.pending) == 0 {
				s.mu.Unlock()
				continue
			}
		}
		i := s.rng.Intn(len(s.pending))
		c := s.pending[i]
		s.pending = append(s.pending[:i], s.pending[i+1:]...)
		// unilateral mailbox updates in between (once a mailbox is selected)
		push := ""
		if s.exists > 0 {
			switch s.rng.Intn(6) {
			case 0:
				s.exists++
				push = fmt.Sprintf("* %d EXISTS\r\n", s.exists)
			case 1:
				push = fmt.Sprintf("* FLAGS (\\Seen \\Deleted kw%d)\r\n", s.rng.Intn(9))
			case 2:
				push = "* OK [PERMANENTFLAGS (\\Seen \\*)] changed\r\n"
			}
		}
		s.mu.Unlock()
		if push != "" {
			s.write(push)
		}
		s.respond(c)
	}
}

// ---- client workload ----------------------------------------------------------------

type account struct {
	mu        sync.Mutex
	submitted int64
	completed int64
	failed    int64
	current   map[int]string // goroutine index -> call in progress
}

func (a *account) enter(g int, what string) {
	a.mu.Lock()
	a.current[g] = what
	a.submitted++
	a.mu.Unlock()
}

func (a *account) leave(g int, err error) {
	a.mu.Lock()
	delete(a.current, g)
	a.completed++
	if err != nil {
		a.failed++
	}
	a.mu.Unlock()
}

func oneOp(c *imapclient.Client, rng *rand.Rand, a *account, g int) (string, error) {
	op := rng.Intn(15)
	var err error
	name := ""
	switch op {
	case 0:
		name = "Noop"
		a.enter(g, name)
		err = c.Noop().Wait()
	case 1:
		name = "Status"
		a.enter(g, name)
		_, err = c.Status(fmt.Sprintf("box%d", g), &imap.StatusOptions{NumMessages: true, NumUnseen: true}).Wait()
	case 2:
		name = "List.Collect"
		a.enter(g, name)
		_, err = c.List("", "*", nil).Collect()
	case 3:
		name = "Fetch.Collect"
		a.enter(g, name)
		_, err = c.Fetch(imap.SeqSetNum(1, 2), &imap.FetchOptions{Flags: true, UID: true, BodySection: []*imap.FetchItemBodySection{{}}}).Collect()
	case 4:
		name = "Fetch.Next+Close"
		a.enter(g, name)
		f := c.Fetch(imap.UIDSetNum(1, 2), &imap.FetchOptions{Flags: true, BodySection: []*imap.FetchItemBodySection{{}}})
		if m := f.Next(); m != nil {
			m.Next()
		}
		err = f.Close()
	case 5:
		name = "Search"
		a.enter(g, name)
		_, err = c.Search(&imap.SearchCriteria{Body: []string{"héllo"}}, nil).Wait()
	case 6:
		name = "UIDSearch(ESEARCH)"
		a.enter(g, name)
		_, err = c.UIDSearch(&imap.SearchCriteria{Flag: []imap.Flag{imap.FlagSeen}}, &imap.SearchOptions{ReturnAll: true, ReturnCount: true}).Wait()
	case 7:
		name = "Append(small)"
		a.enter(g, name)
		b := []byte("Subject: s\r\n\r\nsmall")
		ac := c.Append("INBOX", int64(len(b)), nil)
		ac.Write(b)
		ac.Close()
		_, err = ac.Wait()
	case 8:
		name = "Append(sync literal)"
		a.enter(g, name)
		b := bytes.Repeat([]byte("x"), 5000)
		ac := c.Append("INBOX", int64(len(b)), &imap.AppendOptions{Flags: []imap.Flag{imap.FlagSeen}})
		ac.Write(b)
		ac.Close()
		_, err = ac.Wait()
	case 9:
		name = "Store.Collect"
		a.enter(g, name)
		_, err = c.Store(imap.SeqSetNum(1), &imap.StoreFlags{Op: imap.StoreFlagsAdd, Flags: []imap.Flag{imap.FlagFlagged}}, nil).Collect()
	case 10:
		name = "Expunge.Collect"
		a.enter(g, name)
		_, err = c.Expunge().Collect()
	case 11:
		name = "Capability"
		a.enter(g, name)
		_, err = c.Capability().Wait()
	case 12:
		name = "Enable"
		a.enter(g, name)
		_, err = c.Enable(imap.CapUTF8Accept).Wait()
	case 13:
		name = "Create(long name: literal)"
		a.enter(g, name)
		err = c.Create(strings.Repeat("é", 30)+fmt.Sprint(g), nil).Wait()
	case 14:
		name = "Idle"
		a.enter(g, name)
		var idle *imapclient.IdleCommand
		idle, err = c.Idle()
		if err == nil {
			idle.Close()
			err = idle.Wait()
		}
	}
	a.leave(g, err)
	return name, err
}

type runCfg struct {
	workers        int
	ops            int
	procs          int
	resetAt        int64 // -1: no connection loss
	closeAt        int64 // -1: no concurrent Close; else after this many submitted commands
	capsInGreeting bool
	capsInLogin    bool
	yield          int
}

func (c runCfg) String() string {
	return fmt.Sprintf("workers=%d ops=%d GOMAXPROCS=%d resetAt=%d closeAt=%d capsGreeting=%v capsLogin=%v yield=%d‰", c.workers, c.ops, c.procs, c.resetAt, c.closeAt, c.capsInGreeting, c.capsInLogin, c.yield)
}

var fingerprints = map[uint64]bool{}
var snapshotSink int
var snapshotSink2 atomic.Int64
var hangs int

func runOnce(w *hx.W, rng *rand.Rand, cfg runCfg, seed int64) {
	desc := cfg.String()
	end := w.Begin("run", desc, 180*time.Second)
	defer end()
	runtime.GOMAXPROCS(cfg.procs)
	lockmon.Configure(seed, cfg.yield)
	lockmon.Reset(false)
	log := &vconn.Log{}
	cEnd, sEnd := vconn.Pipe("client", "server", log)
	if cfg.resetAt >= 0 {
		cEnd.SetReadFault(cfg.resetAt, vconn.FaultReset)
	}
	srv := &cserver{conn: sEnd, br: bufio.NewReader(sEnd), rng: rand.New(rand.NewSource(seed)), capsInLogin: cfg.capsInLogin}
	srv.cond = sync.NewCond(&srv.mu)
	if cfg.capsInGreeting {
		srv.write("* OK [CAPABILITY " + srvCaps + "] ready\r\n")
	} else {
		srv.write("* OK ready\r\n")
	}
	srv.wg.Add(2)
	go srv.reader()
	go srv.responder()
	// the unilateral-data handlers query the client they belong to (nothing forbids it): they run
	// on the reader goroutine, so a handler called while an internal lock is held blocks everything
	var cref atomic.Pointer[imapclient.Client]
	touch := func() {
		if c := cref.Load(); c != nil {
			_ = c.State()
			if mb := c.Mailbox(); mb != nil {
				snapshotSink2.Add(int64(mb.NumMessages))
			}
		}
	}
	c := imapclient.New(cEnd, &imapclient.Options{UnilateralDataHandler: &imapclient.UnilateralDataHandler{
		Mailbox: func(*imapclient.UnilateralDataMailbox) { touch() },
		Expunge: func(uint32) { touch() },
	}})
	cref.Store(c)
	acc := &account{current: map[int]string{}}
	viol := func(class, detail string, extra map[string]interface{}) {
		if extra == nil {
			extra = map[string]interface{}{}
		}
		extra["config"] = desc
		extra["seed"] = seed
		w.Violation(class, fmt.Sprintf("%s: %s [%s]", class, detail, desc), extra)
	}
	var wg sync.WaitGroup
	var stop int32
	var nSubmitted int64
	closed := make(chan struct{})
	var closeOnce sync.Once
	doClose := func() {
		closeOnce.Do(func() {
			done := make(chan struct{})
			go func() { c.Close(); close(done) }()
			select {
			case <-done:
			case <-time.After(60 * time.Second):
				buf := make([]byte, 1<<20)
				buf = buf[:runtime.Stack(buf, true)]
				viol("close-never-returns", "Client.Close did not return", map[string]interface{}{"goroutines": clientStacks(string(buf))})
			}
			close(closed)
		})
	}
	// login + select first (in the main goroutine), racing with the automatic CAPABILITY request
	loginErr := c.Login("u", "p").Wait()
	_, selErr := c.Select("INBOX", nil).Wait()
	_ = loginErr
	_ = selErr
	for g := 0; g < cfg.workers; g++ {
		wg.Add(1)
		go func(g int) {
			defer wg.Done()
			r := rand.New(rand.NewSource(seed*131 + int64(g)))
			for i := 0; i < cfg.ops; i++ {
				if atomic.LoadInt32(&stop) != 0 {
					return
				}
				n := atomic.AddInt64(&nSubmitted, 1)
				if cfg.closeAt >= 0 && n == cfg.closeAt {
					go doClose()
				}
				name, err := oneOp(c, r, acc, g)
				if err != nil && cfg.resetAt < 0 && cfg.closeAt < 0 {
					viol("command-failed-on-healthy-connection@"+name, fmt.Sprintf("%s failed although the connection was never lost nor closed: %v", name, err), nil)
				}
			}
		}(g)
	}
	// poller
	pollDone := make(chan struct{})
	go func() {
		defer close(pollDone)
		for atomic.LoadInt32(&stop) == 0 {
			_ = c.State()
			if mb := c.Mailbox(); mb != nil {
				// callers read the snapshot they were handed out
				snapshotSink += int(mb.NumMessages) + len(mb.Flags) + len(mb.PermanentFlags) + len(mb.Name)
			}
			if caps := c.Caps(); caps != nil {
				_ = caps.Has(imap.CapIdle)
			}
			runtime.Gosched()
		}
	}()
	workersDone := make(chan struct{})
	go func() { wg.Wait(); close(workersDone) }()
	select {
	case <-workersDone:
	case <-time.After(90 * time.Second):
		buf := make([]byte, 1<<20)
		buf = buf[:runtime.Stack(buf, true)]
		acc.mu.Lock()
		cur := fmt.Sprint(acc.current)
		acc.mu.Unlock()
		hangs++
		viol("command-never-completes", fmt.Sprintf("submitted commands are still blocked (calls in progress: %s); submitted=%d completed=%d", cur, acc.submitted, acc.completed), map[string]interface{}{"goroutines": clientStacks(string(buf))})
		atomic.StoreInt32(&stop, 1)
		cEnd.Close()
		sEnd.Close()
		return
	}
	atomic.StoreInt32(&stop, 1)
	select {
	case <-pollDone:
	case <-time.After(60 * time.Second):
		viol("caps-never-returns", "the goroutine polling State/Caps/Mailbox is blocked", nil)
	}
	doClose()
	<-closed
	sEnd.Close()
	srv.wg.Wait()
	// accounting
	if acc.submitted != acc.completed {
		viol("completion-accounting", fmt.Sprintf("submitted %d commands, %d completed", acc.submitted, acc.completed), nil)
	}
	// tags must be unique on the wire
	tags := map[string]int{}
	for _, ln := range bytes.Split(log.Bytes("client"), []byte("\r\n")) {
		f := bytes.Fields(ln)
		if len(f) >= 2 && len(f[0]) > 1 && f[0][0] == 'T' {
			if _, err := strconv.Atoi(string(f[0][1:])); err == nil {
				tags[string(f[0])]++
			}
		}
	}
	for t, n := range tags {
		if n > 1 {
			viol("duplicate-tag", fmt.Sprintf("tag %s was used for %d commands", t, n), nil)
		}
	}
	st := lockmon.Snapshot()
	fingerprints[st.Fingerprint] = true
	w.Metric("commands_submitted", acc.submitted)
	w.Metric("commands_completed", acc.completed)
	w.Metric("commands_failed_after_loss_or_close", acc.failed)
	w.MetricMax("max_lock_sites_exercised", int64(st.Sites))
}

// longLived: more than 10000 commands on ONE client, submitted by several goroutines, with one
// command kept pending the whole time. Tags must stay unique for the life of the connection and
// every command must complete with the status of the response bearing its own tag.
func longLived(w *hx.W, total, workers int) {
	desc := fmt.Sprintf("long-lived client: %d NOOPs from %d goroutines with a STATUS pending throughout", total, workers)
	end := w.Begin("long-lived", desc, 600*time.Second)
	defer end()
	log := &vconn.Log{}
	cEnd, sEnd := vconn.Pipe("client", "server", log)
	srvDone := make(chan struct{})
	go func() {
		defer close(srvDone)
		br := bufio.NewReader(sEnd)
		sEnd.Write([]byte("* OK [CAPABILITY IMAP4rev1 LITERAL-] ready\r\n"))
		held, seen := "", 0
		for {
			line, err := br.ReadString('\n')
			if err != nil {
				return
			}
			f := strings.Fields(line)
			if len(f) < 2 {
				continue
			}
			switch strings.ToUpper(f[1]) {
			case "STATUS":
				held = f[0]
			case "NOOP":
				seen++
				sEnd.Write([]byte(f[0] + " OK done\r\n"))
				if seen == total && held != "" {
					sEnd.Write([]byte(held + " NO [NONEXISTENT] no such mailbox\r\n"))
				}
			default:
				sEnd.Write([]byte(f[0] + " OK done\r\n"))
			}
		}
	}()
	c := imapclient.New(cEnd, nil)
	viol := func(class, detail string) {
		w.Violation(class+"/long-lived", fmt.Sprintf("%s: %s [%s]", class, detail, desc), nil)
	}
	if err := c.WaitGreeting(); err != nil {
		viol("command-failed-on-healthy-connection@greeting", err.Error())
		return
	}
	st := c.Status("held", &imap.StatusOptions{NumMessages: true})
	var wg sync.WaitGroup
	var nFailed int64
	for g := 0; g < workers; g++ {
		wg.Add(1)
		go func() {
			defer wg.Done()
			for i := 0; i < total/workers; i++ {
				if err := c.Noop().Wait(); err != nil {
					if atomic.AddInt64(&nFailed, 1) == 1 {
						viol("wrong-completion", fmt.Sprintf("a NOOP answered OK completed with %v", err))
					}
					return
				}
			}
		}()
	}
	doneCh := make(chan struct{})
	go func() { wg.Wait(); close(doneCh) }()
	select {
	case <-doneCh:
	case <-time.After(300 * time.Second):
		viol("command-never-completes", "NOOPs are still blocked")
		cEnd.Close()
		sEnd.Close()
		return
	}
	stErr := make(chan error, 1)
	go func() { _, err := st.Wait(); stErr <- err }()
	select {
	case err := <-stErr:
		if err == nil {
			viol("wrong-completion", "the STATUS that was answered NO completed successfully (it received another command's completion)")
		}
	case <-time.After(60 * time.Second):
		viol("command-never-completes", "the pending STATUS never completed although its tagged NO was sent")
	}
	c.Close()
	sEnd.Close()
	<-srvDone
	tags := map[string]int{}
	for _, ln := range bytes.Split(log.Bytes("client"), []byte("\r\n")) {
		f := bytes.Fields(ln)
		if len(f) >= 2 {
			tags[string(f[0])]++
		}
	}
	for t, n := range tags {
		if n > 1 {
			viol("duplicate-tag", fmt.Sprintf("tag %s was used for %d commands on one connection", t, n))
			break
		}
	}
	w.Metric("long_lived_commands", int64(len(tags)))
	w.Class("long-lived")
}

func clientStacks(all string) []string {
	var keep []string
	for _, g := range strings.Split(all, "\n\n") {
		if strings.Contains(g, "imapclient.") {
			keep = append(keep, g)
		}
	}
	return keep
}

func body(w *hx.W) {
	defer runtime.GOMAXPROCS(runtime.GOMAXPROCS(0))
	if w.Shard == 0 {
		longLived(w, w.Pick(10400, 40000), 4)
		w.CaseStr("long-lived")
	}
	rng := w.Rand("c13")
	n := w.Pick(150, 1700)
	for i := 0; i < n; i++ {
		cfg := runCfg{
			workers: []int{2, 4, 8}[rng.Intn(3)], ops: 6 + rng.Intn(10), procs: []int{1, 2, 4, 16}[rng.Intn(4)],
			resetAt: -1, closeAt: -1, capsInGreeting: rng.Intn(2) == 0, capsInLogin: rng.Intn(2) == 0, yield: []int{0, 50, 200, 500}[rng.Intn(4)],
		}
		switch rng.Intn(4) {
		case 0:
			cfg.resetAt = int64(rng.Intn(6000))
		case 1:
			cfg.closeAt = int64(1 + rng.Intn(cfg.workers*cfg.ops))
		case 2:
			cfg.resetAt = int64(rng.Intn(3000))
			cfg.closeAt = int64(1 + rng.Intn(cfg.workers*cfg.ops))
		}
		base := rng.Int63()
		if hangs >= 3 {
			break // enough witnesses of hanging commands
		}
		// the same workload under 3 yield seeds
		for k := 0; k < 3 && hangs < 3; k++ {
			runOnce(w, rng, cfg, base+int64(k))
			w.CaseStr(fmt.Sprintf("%s|%d", cfg, base+int64(k)))
		}
		cls := "healthy"
		switch {
		case cfg.resetAt >= 0 && cfg.closeAt >= 0:
			cls = "loss+close"
		case cfg.resetAt >= 0:
			cls = "connection-loss"
		case cfg.closeAt >= 0:
			cls = "concurrent-close"
		}
		w.Class(fmt.Sprintf("%s/workers=%d/procs=%d", cls, cfg.workers, cfg.procs))
		if i == 0 {
			w.Sample(map[string]interface{}{"config": cfg.String(), "ops": "random mix of Noop, Status, List, Fetch (Collect / partial consume), Search, UIDSearch, Append small and with synchronising literal, Store, Expunge, Capability, Enable, Create with literal name, Idle"})
		}
	}
	w.Metric("distinct_interleaving_fingerprints", int64(len(fingerprints)))
	st := lockmon.Snapshot()
	w.Metric("lock_acquisitions_observed", st.Acquires)
	w.Metric("yields_injected", st.Yields)
}

func main() {
	hx.Main(hx.Spec{
		ID:    "C13",
		Level: "exploration",
		Rule:  "runs = N in {2,4,8} goroutines x 6..15 random commands each (plain, streaming with full and partial consumption, synchronising and non-synchronising literals, ENABLE, IDLE) against a scripted server answering out of order, x {healthy, connection reset at a random byte, concurrent Close after a random number of submissions, both} x greeting / LOGIN with or without capability data x GOMAXPROCS in {1,2,4,16} x yield probability in {0,5,20,50}% at every lock boundary of package imapclient, each workload repeated under 3 yield seeds; plus one long-lived client with more than 10000 commands from 4 goroutines and one command pending throughout; distinct = distinct (configuration, seed)",
		Assumptions: []string{
			"the race detector only sees the interleavings the yield seeds and the scheduler produce; evidence reports the number of distinct lock-acquisition fingerprints observed",
			"on a healthy connection every command must succeed; after a connection loss or Close every command must still complete (with an error)",
			"yields are injected only before Lock and after Unlock (genuine suspension points)",
			"the unilateral-data handlers call State() and Mailbox() of their own client (quick, non-blocking accessors; Caps() is not called there because it is documented to wait for the server)",
		},
		RaceFrames: []string{"imapclient.", "imapwire."},
		Shards:     func(string) int { return 8 },
		WallQuick:  30 * time.Minute, WallThorough: 150 * time.Minute,
	}, body)
}
