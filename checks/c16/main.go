// C16 — modified UTF-7 mailbox-name encoding is lossless and safe.
//
// Monitor: the real internal/utf7 encoder and decoder are run (one-shot and
// through a hand-written transform.Transformer driver with tiny source chunks
// and destination buffers) on exhaustively enumerated and random inputs; an
// independent RFC 3501 reference (internal/ref/utf7ref) gives a three-valued
// verdict per decoder input (must accept with this output / must reject /
// unspecified).
package main

import (
	"bufio"
	"bytes"
	"fmt"
	"github.com/emersion/go-imap/v2/internal/imapwire"
	"math/rand"
	"strings"
	"time"
	"unicode/utf8"

	"golang.org/x/text/transform"

	"github.com/emersion/go-imap/v2/internal/utf7"
	"github.com/emersion/go-imap/v2/verif/internal/hx"
	"github.com/emersion/go-imap/v2/verif/internal/ref/utf7ref"
)

type res struct {
	out string
	ok  bool
	err string
}

// oneShot runs the package's public one-shot API under a panic guard.
func oneShot(dec bool, in string) (r res, panicMsg string) {
	p, msg := hx.Guard(func() {
		var t transform.Transformer
		if dec {
			t = utf7.Encoding.NewDecoder()
		} else {
			t = utf7.Encoding.NewEncoder()
		}
		out, _, err := transform.String(t, in)
		r.out, r.ok = out, err == nil
		if err != nil {
			r.err = err.Error()
		}
	})
	if p {
		return r, msg
	}
	return r, ""
}

// stream drives a fresh Transformer honouring the transform.Transformer
// contract: src is supplied in chunks of srcChunk bytes, dst has dstSize bytes
// and is grown only when a call made no progress at all with ErrShortDst.
func stream(dec bool, in string, srcChunk, dstSize int) (r res, panicMsg string, calls int) {
	p, msg := hx.Guard(func() {
		var t transform.Transformer
		if dec {
			t = utf7.Encoding.NewDecoder()
		} else {
			t = utf7.Encoding.NewEncoder()
		}
		// a transformer fresh from NewDecoder/NewEncoder is in its initial state: half of the runs use it
		// as it comes, the other half call Reset first
		if (srcChunk+dstSize)%2 == 0 {
			t.Reset()
		}
		var out []byte
		var pending []byte
		rest := []byte(in)
		dst := make([]byte, dstSize)
		feed := func() bool {
			if len(rest) == 0 {
				return false
			}
			n := srcChunk
			if n > len(rest) {
				n = len(rest)
			}
			pending = append(pending, rest[:n]...)
			rest = rest[n:]
			return true
		}
		feed()
		for guard := 0; guard < 1<<20; guard++ {
			atEOF := len(rest) == 0
			calls++
			nDst, nSrc, err := t.Transform(dst, pending, atEOF)
			if nDst < 0 || nDst > len(dst) || nSrc < 0 || nSrc > len(pending) {
				r.err = fmt.Sprintf("contract: nDst=%d nSrc=%d out of range (dst %d, src %d)", nDst, nSrc, len(dst), len(pending))
				return
			}
			out = append(out, dst[:nDst]...)
			pending = pending[nSrc:]
			switch err {
			case nil:
				if len(pending) != 0 {
					r.err = fmt.Sprintf("contract: nil error with %d unconsumed source bytes", len(pending))
					return
				}
				if atEOF {
					r.out, r.ok = string(out), true
					return
				}
				feed()
			case transform.ErrShortDst:
				if nDst == 0 && nSrc == 0 {
					if len(dst) > 1<<16 {
						r.err = "contract: ErrShortDst with a 64 KiB destination"
						return
					}
					dst = make([]byte, 2*len(dst))
				}
			case transform.ErrShortSrc:
				if atEOF {
					r.err = "contract: ErrShortSrc although atEOF"
					return
				}
				feed()
			default:
				r.out, r.err = string(out), err.Error()
				return
			}
		}
		r.err = "contract: no termination after 2^20 Transform calls"
	})
	if p {
		return r, msg, calls
	}
	return r, "", calls
}

type checker struct{ w *hx.W }

func short(s string) string { return fmt.Sprintf("%+q", s) }

func (c *checker) viol(class, in, detail string) {
	key := in
	if len(key) > 40 {
		key = key[:40]
	}
	c.w.Violation(class+"@"+short(key), fmt.Sprintf("%s: input %s: %s", class, short(in), detail), map[string]string{"input_quoted": short(in), "detail": detail})
}

// checkDecode: one decoder input against the reference verdict.
func (c *checker) checkDecode(in string) utf7ref.Verdict {
	v, want, why := utf7ref.Decode([]byte(in))
	got, pm := oneShot(true, in)
	if pm != "" {
		c.viol("decoder-panic", in, pm)
		return v
	}
	if got.ok && !utf8.ValidString(got.out) {
		c.viol("decoder-invalid-utf8-output", in, short(got.out))
	}
	switch v {
	case utf7ref.MustReject:
		if got.ok {
			c.viol("decoder-accepted-malformed", in, fmt.Sprintf("reference rejects (%s) but decoder returned %s", why, short(got.out)))
		}
	case utf7ref.MustAccept:
		if !got.ok {
			c.viol("decoder-rejected-wellformed", in, "decoder error "+got.err+"; reference decodes to "+short(want))
		} else if got.out != want {
			c.viol("decoder-wrong-output", in, fmt.Sprintf("got %s want %s", short(got.out), short(want)))
		}
	case utf7ref.Unspecified:
		if got.ok && got.out != want {
			c.viol("decoder-wrong-output", in, fmt.Sprintf("(sloppy base64) got %s want %s", short(got.out), short(want)))
		}
	}
	return v
}

// checkEncode: one valid UTF-8 string.
func (c *checker) checkEncode(s string) {
	got, pm := oneShot(false, s)
	if pm != "" {
		c.viol("encoder-panic", s, pm)
		return
	}
	if !got.ok {
		c.viol("encoder-error", s, got.err)
		return
	}
	for i := 0; i < len(got.out); i++ {
		if got.out[i] < 0x20 || got.out[i] > 0x7e {
			c.viol("encoder-nonprintable-output", s, short(got.out))
			break
		}
	}
	v, back, why := utf7ref.Decode([]byte(got.out))
	if v != utf7ref.MustAccept {
		c.viol("encoder-not-rfc-form", s, fmt.Sprintf("encoded %s: %s", short(got.out), why))
	} else if back != s {
		c.viol("encoder-lossy", s, fmt.Sprintf("encoded %s which means %s", short(got.out), short(back)))
	}
	d, pm := oneShot(true, got.out)
	if pm != "" {
		c.viol("decoder-panic", got.out, pm)
	} else if !d.ok || d.out != s {
		c.viol("roundtrip", s, fmt.Sprintf("Encode=%s Decode(Encode)=%s ok=%v err=%s", short(got.out), short(d.out), d.ok, d.err))
	}
}

// checkChunked: streamed result must equal the one-shot result for every
// (source chunk, destination size).
func (c *checker) checkChunked(dec bool, in string) {
	base, pm := oneShot(dec, in)
	if pm != "" {
		return // reported elsewhere
	}
	name := "encoder"
	if dec {
		name = "decoder"
	}
	for sc := 1; sc <= 8; sc++ {
		for ds := 1; ds <= 16; ds++ {
			got, pm, calls := stream(dec, in, sc, ds)
			c.w.Metric("transform_calls", int64(calls))
			c.w.Metric("chunked_runs", 1)
			if pm != "" {
				c.viol(name+"-panic-chunked", in, fmt.Sprintf("src chunk %d dst %d: %s", sc, ds, pm))
				return
			}
			if strings.HasPrefix(got.err, "contract:") {
				c.viol(name+"-transform-contract", in, fmt.Sprintf("src chunk %d dst %d: %s", sc, ds, got.err))
				return
			}
			if got.ok != base.ok || (got.ok && got.out != base.out) {
				c.viol(name+"-chunking-changes-result", in, fmt.Sprintf("src chunk %d dst %d: streamed ok=%v out=%s err=%q; one-shot ok=%v out=%s", sc, ds, got.ok, short(got.out), got.err, base.ok, short(base.out)))
				return
			}
		}
	}
}

var encAlpha = []string{"a", "&", "-", "~", "\x01", "é", "€", "𝄞", "�"}
var decAlpha = []byte{'&', '-', 'A', 'a', 'Q', '/', ',', '+', '=', 0x7F, 0xC3}

func body(w *hx.W) {
	c := &checker{w: w}
	// 1. encoder: exhaustive over a 9-symbol alphabet
	encLen := w.Pick(6, 7)
	idx := 0
	var rec func(prefix string, depth int)
	var sampleEnc []string
	rec = func(prefix string, depth int) {
		if depth > 0 {
			idx++
			if w.Mine(idx) {
				c.checkEncode(prefix)
				w.Enumerated(1)
				if idx%97 == 0 && (w.Quick() && idx%7 == 0 || !w.Quick() && idx%211 == 0) {
					c.checkChunked(false, prefix)
				}
				if len(sampleEnc) < 2 && depth == 4 {
					sampleEnc = append(sampleEnc, prefix)
				}
			}
		}
		if depth == encLen {
			return
		}
		for _, a := range encAlpha {
			rec(prefix+a, depth+1)
		}
	}
	rec("", 0)
	w.Class("encoder/exhaustive")
	for _, s := range sampleEnc {
		e, _ := oneShot(false, s)
		w.Sample(map[string]string{"kind": "encoder input (enumerated)", "utf8": short(s), "encoded": e.out})
	}
	// 2. decoder: exhaustive over an 11-symbol base64/shift alphabet
	decLen := w.Pick(6, 7)
	idx = 0
	verdicts := map[utf7ref.Verdict]int64{}
	buf := make([]byte, 0, 8)
	var recd func(depth int)
	recd = func(depth int) {
		if depth > 0 {
			idx++
			if w.Mine(idx) {
				v := c.checkDecode(string(buf))
				verdicts[v]++
				w.Enumerated(1)
				if (w.Quick() && idx%1511 == 0) || (!w.Quick() && idx%3301 == 0) {
					c.checkChunked(true, string(buf))
				}
			}
		}
		if depth == decLen {
			return
		}
		for _, a := range decAlpha {
			buf = append(buf, a)
			recd(depth + 1)
			buf = buf[:len(buf)-1]
		}
	}
	recd(0)
	w.Metric("decoder_ref_must_reject", verdicts[utf7ref.MustReject])
	w.Metric("decoder_ref_must_accept", verdicts[utf7ref.MustAccept])
	w.Metric("decoder_ref_unspecified", verdicts[utf7ref.Unspecified])
	w.Class("decoder/exhaustive")
	// 3. random long strings: valid UTF-8 to the encoder; encodings, mutated encodings and raw bytes to the decoder
	rng := w.Rand("random")
	n := w.Pick(3000, 60000)
	for i := 0; i < n; i++ {
		s := randUTF8(rng, 1+rng.Intn(40))
		c.checkEncode(s)
		if i%4 == 0 {
			c.wireMailbox(s)
			w.Class("wire-mailbox")
		}
		w.CaseStr("enc:" + s)
		w.Class("encoder/random")
		enc := utf7ref.Encode(s)
		if got, _ := oneShot(false, s); got.ok && got.out != enc {
			// canonical form is unique; a different output was already judged by the reference decoder above
			w.Metric("encoder_differs_from_reference_encoder", 1)
		}
		m := mutateBytes(rng, []byte(enc))
		c.checkDecode(string(m))
		w.CaseStr("dec:" + string(m))
		w.Class("decoder/mutated-encoding")
		if i%10 == 0 {
			c.checkChunked(false, s)
			c.checkChunked(true, enc)
			c.checkChunked(true, string(m))
			w.Class("chunked/random")
		}
		if i == 0 {
			w.Sample(map[string]string{"kind": "random utf8 and mutated encoding", "utf8": short(s), "reference_encoding": enc, "mutant_fed_to_decoder": short(string(m))})
		}
	}
	// 3b. long histories through the same process-wide codec
	if w.Shard < 4 {
		c.history(rng, w.Pick(1500, 20000))
		w.CaseStr(fmt.Sprintf("history/%d", w.Shard))
	}
	for i, nme := range []string{"&", "a&b", "R&D", "Q&-A", "&AOk-", "Tom & Jerry", "ctl\x01\x7f", "日本語/メール", "INBOX", "inbox", "with space \"q\" \\", "é", "𝄞clef", "a-b&-"} {
		if w.Mine(i) {
			c.wireMailbox(nme)
			w.CaseStr("wire:" + nme)
		}
	}
	// 4. targeted chunked cases: tokens that do not fit small buffers and state carried across calls
	for i, s := range []string{"&AGE-&Jjo-", "a&Jjo-&Jjo-", "&Jjo-a&Jjo-", "ab&-&AAA-&-", "&U,BTF2XlZyyKng-x", "&2D3eCg-&-&2D3eCw-", "x&AAAAHwB,AIA-&AAA-", "&AAA-&AAA-&AAA-", "&-&-&-&-", "&Jjo--&Jjo-"} {
		if w.Mine(i) {
			c.checkDecode(s)
			c.checkChunked(true, s)
			w.CaseStr("target:" + s)
			w.Class("chunked/targeted")
		}
	}
}

// history: the codec is used over and over by one process (every mailbox argument of every
// connection goes through it). Results must not depend on what was encoded or decoded before:
// thousands of distinct names are run through both directions, then all of them again in the same
// and in reverse order, and every result is judged by the reference codec each time.
func (c *checker) history(rng *rand.Rand, n int) {
	names := make([]string, 0, n)
	seen := map[string]bool{}
	for len(names) < n {
		var s string
		switch rng.Intn(4) {
		case 0:
			s = fmt.Sprintf("Projects/%c%c/%d", rune(0x4e00+rng.Intn(0x3000)), rune(0x3040+rng.Intn(0x60)), len(names))
		case 1:
			s = fmt.Sprintf("%c-%d&x", rune(0xc0+rng.Intn(0x500)), len(names))
		default:
			s = randUTF8(rng, 1+rng.Intn(12))
		}
		if !seen[s] && utf8.ValidString(s) {
			seen[s] = true
			names = append(names, s)
		}
	}
	pass := func(order []int) {
		for _, i := range order {
			c.checkEncode(names[i])
			enc := utf7ref.Encode(names[i])
			c.checkDecode(enc)
		}
	}
	fwd := make([]int, n)
	rev := make([]int, n)
	for i := range fwd {
		fwd[i], rev[i] = i, n-1-i
	}
	pass(fwd)
	pass(fwd)
	pass(rev)
	c.w.Metric("history_names", int64(n))
	c.w.Class("history")
}

// wireMailbox: the call sites through which mailbox names actually travel. Whatever the negotiated
// string mode (UTF-8 quoting on or off, literals or not), Encoder.Mailbox must put the RFC 3501
// modified UTF-7 form of the name on the wire (printable ASCII, judged by the reference codec) and
// Decoder.ExpectMailbox must give the name back.
func (c *checker) wireMailbox(name string) {
	for _, client := range []bool{true, false} {
		for _, utf8q := range []bool{false, true} {
			var buf bytes.Buffer
			side, peer := imapwire.ConnSideServer, imapwire.ConnSideClient
			if client {
				side, peer = imapwire.ConnSideClient, imapwire.ConnSideServer
			}
			e := imapwire.NewEncoder(bufio.NewWriter(&buf), side)
			e.QuotedUTF8, e.LiteralMinus, e.LiteralPlus = utf8q, true, client
			e.Mailbox(name).SP().Atom("END")
			if err := e.CRLF(); err != nil {
				c.viol("wire-mailbox-refused", name, err.Error())
				continue
			}
			mode := fmt.Sprintf("client=%v quotedUTF8=%v", client, utf8q)
			wire := buf.Bytes()
			for _, b := range wire {
				if b >= 0x80 {
					c.viol("wire-mailbox-not-ascii", name, fmt.Sprintf("[%s] Encoder.Mailbox wrote 8-bit bytes: %s", mode, short(string(wire))))
					break
				}
			}
			d := imapwire.NewDecoder(bufio.NewReader(bytes.NewReader(wire)), peer)
			var got, end string
			if !d.ExpectMailbox(&got) || !d.ExpectSP() || !d.ExpectAtom(&end) || end != "END" {
				c.viol("wire-mailbox-rejected", name, fmt.Sprintf("[%s] Decoder.ExpectMailbox cannot read what Encoder.Mailbox wrote (%s): %v", mode, short(string(wire)), d.Err()))
				continue
			}
			want := name
			if strings.EqualFold(name, "INBOX") {
				want = "INBOX"
			}
			if got != want {
				c.viol("wire-mailbox-roundtrip", name, fmt.Sprintf("[%s] wire %s decodes to %s", mode, short(string(wire)), short(got)))
			}
		}
	}
}

func randUTF8(rng *rand.Rand, n int) string {
	var sb strings.Builder
	for i := 0; i < n; i++ {
		switch rng.Intn(9) {
		case 0:
			sb.WriteByte('&')
		case 1:
			sb.WriteByte('-')
		case 2:
			sb.WriteRune(rune(rng.Intn(0x20))) // controls
		case 3:
			sb.WriteRune(rune(0x7f + rng.Intn(0x780)))
		case 4:
			r := rune(0x800 + rng.Intn(0xF800))
			if r >= 0xD800 && r <= 0xDFFF {
				r = 0x20AC
			}
			sb.WriteRune(r)
		case 5:
			sb.WriteRune(rune(0x10000 + rng.Intn(0x100000)))
		default:
			sb.WriteByte(byte(0x20 + rng.Intn(0x5f)))
		}
	}
	return sb.String()
}

func mutateBytes(rng *rand.Rand, b []byte) []byte {
	b = append([]byte(nil), b...)
	alpha := []byte("&-AaQ/,+=\x7f\xc3 \r\n\x00Z9")
	for k := rng.Intn(3); k >= 0; k-- {
		switch rng.Intn(3) {
		case 0:
			i := rng.Intn(len(b) + 1)
			b = append(b[:i], append([]byte{alpha[rng.Intn(len(alpha))]}, b[i:]...)...)
		case 1:
			if len(b) > 0 {
				i := rng.Intn(len(b))
				b = append(b[:i], b[i+1:]...)
			}
		case 2:
			if len(b) > 0 {
				b[rng.Intn(len(b))] = alpha[rng.Intn(len(alpha))]
			}
		}
	}
	return bytes.Clone(b)
}

func main() {
	hx.Main(hx.Spec{
		ID:    "C16",
		Level: "exploration",
		Rule: "encoder inputs: every string over the 9-symbol alphabet {a,&,-,~,U+0001,é,€,𝄞,U+FFFD} up to the length bound; decoder inputs: every byte string over {&,-,A,a,Q,/,',',+,=,0x7F,0xC3} up to the length bound (each enumerated string is a distinct case); " +
			"plus random long valid-UTF-8 strings, mutated encodings, histories of 1500..20000 distinct names encoded and decoded three times over in one process, and streamed runs for every source chunk size 1..8 x destination size 1..16 on a sample",
		Assumptions: []string{
			"reference codec internal/ref/utf7ref written from RFC 3501 §5.1.3; inputs whose only flaw is non-zero discarded base64 bits are 'unspecified' (accept or reject both admissible, but an accepted output must be the reference output)",
			"the streaming driver grows the destination only when a Transform call made no progress (nDst=nSrc=0) with ErrShortDst",
			"invalid UTF-8 given to the encoder is outside the property",
			"at the wire call sites (imapwire Encoder.Mailbox / Decoder.ExpectMailbox) mailbox names travel in modified UTF-7 in every string mode, as go-imap does today",
		},
		WallQuick: 20 * time.Minute, WallThorough: 120 * time.Minute,
	}, body)
}
