// C12 — client routes responses to the right command and mirrors protocol state.
//
// Monitor: a scripted, protocol-conformant server on the in-process connection
// answers sets of pipelined commands in a seed-chosen permitted order,
// interleaving untagged data and unilateral updates. After EVERY scripted step
// the harness waits until the client's reader is parked (everything sent has
// been processed: a logical barrier, not a sleep) and compares Client.State()
// and Client.Mailbox() with a reference interpretation of the transcript so
// far. At the end every command must have completed exactly once with the status
// of the tagged response bearing its tag and with exactly the data sent for it.
package main

import (
	"bufio"
	"errors"
	"fmt"
	"io"
	"math/rand"
	"sort"
	"strconv"
	"strings"
	"sync"
	"time"

	imap "github.com/emersion/go-imap/v2"
	"github.com/emersion/go-imap/v2/imapclient"
	"github.com/emersion/go-imap/v2/verif/internal/hx"
	"github.com/emersion/go-imap/v2/verif/internal/vconn"
)

// ---- reference interpretation of a transcript ---------------------------------

type refMailbox struct {
	name      string
	num       uint32
	flags     []string
	permFlags []string
}

type refState struct {
	state imap.ConnState
	mbox  *refMailbox
}

func normFlags(fl []imap.Flag) []string {
	var o []string
	for _, f := range fl {
		o = append(o, strings.ToLower(string(f)))
	}
	sort.Strings(o)
	return o
}

func eqStr(a, b []string) bool {
	if len(a) != len(b) {
		return false
	}
	for i := range a {
		if a[i] != b[i] {
			return false
		}
	}
	return true
}

// ---- scripted server ------------------------------------------------------------

type recvCmd struct {
	tag, name, line string
}

type peer struct {
	conn *vconn.Conn
	br   *bufio.Reader
}

// readCmd reads one command (non-synchronising literals are swallowed; a
// synchronising literal header ends the read: the caller decides).
func (p *peer) readCmd() (recvCmd, error) {
	line, err := p.br.ReadString('\n')
	if err != nil {
		return recvCmd{}, err
	}
	full := line
	for {
		t := strings.TrimRight(line, "\r\n")
		i := strings.LastIndexByte(t, '{')
		if i < 0 || !strings.HasSuffix(t, "+}") {
			break
		}
		n, perr := strconv.Atoi(t[i+1 : len(t)-2])
		if perr != nil {
			break
		}
		buf := make([]byte, n)
		if _, err := io.ReadFull(p.br, buf); err != nil {
			return recvCmd{}, err
		}
		line, err = p.br.ReadString('\n')
		if err != nil {
			return recvCmd{}, err
		}
		full += string(buf) + line
	}
	f := strings.Fields(full)
	if len(f) < 2 {
		return recvCmd{line: full}, nil
	}
	name := strings.ToUpper(f[1])
	if name == "UID" && len(f) > 2 {
		name = "UID " + strings.ToUpper(f[2])
	}
	return recvCmd{tag: f[0], name: name, line: full}, nil
}

// ---- case description -----------------------------------------------------------

type outcome struct {
	typ  string // OK | NO | BAD
	code string
	text string
}

// pcmd is one pipelined command of the case.
type pcmd struct {
	kind    string // STATUS, LIST, FETCH, ...
	arg     string
	issue   func(c *imapclient.Client) interface{} // returns the command object
	data    func(tag string) []string              // untagged lines sent for it (when not refused early)
	out     outcome
	okCode  string                                  // response code on OK (e.g. COPYUID ...)
	check   func(cmd interface{}, err error) string // compares delivered data with what was sent; "" = fine
	tag     string
	cmdObj  interface{}
	waitErr error
	waited  bool
}

type step struct {
	line string // bytes sent
	what string
	// effect on the reference state
	apply func(r *refState)
}

type runner struct {
	w     *hx.W
	class string
	hist  []string
	// respell: the scripted server writes its response keywords (status, data type, response code
	// name) in lower or mixed case; RFC 9051 section 9 rule (1): they are case-insensitive
	respell *rand.Rand
}

func mixCase(rng *rand.Rand, w string) string {
	b := []byte(w)
	all := rng.Intn(2) == 0
	for i := range b {
		if b[i] >= 'A' && b[i] <= 'Z' && (all || rng.Intn(2) == 0) {
			b[i] += 32
		}
	}
	return string(b)
}

// respellResponse rewrites only the head of the first line: "<tag|*> [n] KEYWORD" and, for status
// responses, the name of the bracketed response code. Arguments and literal data are left alone.
func respellResponse(rng *rand.Rand, s string) string {
	eol := strings.Index(s, "\r\n")
	if eol < 0 {
		return s
	}
	line, rest := s[:eol], s[eol:]
	f := strings.SplitN(line, " ", 4)
	if len(f) < 2 || f[0] == "+" {
		return s
	}
	k := 1
	if _, err := strconv.Atoi(f[1]); err == nil && f[0] == "*" && len(f) > 2 {
		k = 2
	}
	kw := strings.ToUpper(f[k])
	f[k] = mixCase(rng, f[k])
	switch kw {
	case "OK", "NO", "BAD", "BYE", "PREAUTH":
		if k+1 < len(f) && strings.HasPrefix(f[k+1], "[") {
			// [CODE] or [CODE arg ...]: the code name ends at the first space or ']'
			c := f[k+1]
			end := strings.IndexAny(c, " ]")
			if end < 0 {
				end = len(c)
			}
			f[k+1] = mixCase(rng, c[:end]) + c[end:]
		}
	}
	return strings.Join(f, " ") + rest
}

func (r *runner) fail(class, detail string, extra map[string]interface{}) {
	if extra == nil {
		extra = map[string]interface{}{}
	}
	extra["transcript"] = r.hist
	r.w.Violation(class+"/"+r.class, fmt.Sprintf("%s: %s [case class %s]", class, detail, r.class), extra)
}

func describeMailbox(m *imapclient.SelectedMailbox) string {
	if m == nil {
		return "<nil>"
	}
	return fmt.Sprintf("{%s n=%d flags=%v perm=%v}", m.Name, m.NumMessages, normFlags(m.Flags), normFlags(m.PermanentFlags))
}

func describeRef(m *refMailbox) string {
	if m == nil {
		return "<nil>"
	}
	return fmt.Sprintf("{%s n=%d flags=%v perm=%v}", m.name, m.num, m.flags, m.permFlags)
}

func (r *runner) compare(c *imapclient.Client, ref *refState, after string) bool {
	st := c.State()
	mb := c.Mailbox()
	ok := st == ref.state
	if ok {
		if (mb == nil) != (ref.mbox == nil) {
			ok = false
		} else if mb != nil {
			ok = mb.Name == ref.mbox.name && mb.NumMessages == ref.mbox.num && eqStr(normFlags(mb.Flags), ref.mbox.flags) && eqStr(normFlags(mb.PermanentFlags), ref.mbox.permFlags)
		}
	}
	if !ok {
		field := "state"
		if st == ref.state {
			switch {
			case (mb == nil) != (ref.mbox == nil):
				field = "mailbox-presence"
			case mb.NumMessages != ref.mbox.num:
				field = "num-messages"
			case !eqStr(normFlags(mb.Flags), ref.mbox.flags):
				field = "flags"
			case !eqStr(normFlags(mb.PermanentFlags), ref.mbox.permFlags):
				field = "permanent-flags"
			default:
				field = "name"
			}
		}
		r.fail("mirror-"+field, fmt.Sprintf("after %q the client reports state=%v mailbox=%s, the transcript implies state=%v mailbox=%s", after, st, describeMailbox(mb), ref.state, describeRef(ref.mbox)), nil)
	}
	return ok
}

// send writes one scripted step and waits until the client has processed it.
func (r *runner) send(p *peer, cEnd *vconn.Conn, s string) bool {
	if r.respell != nil {
		s = respellResponse(r.respell, s)
	}
	r.hist = append(r.hist, "S: "+strings.TrimRight(s, "\r\n"))
	if _, err := p.conn.Write([]byte(s)); err != nil {
		r.fail("connection-lost", "the client closed the connection although the server behaved conformantly: "+err.Error(), nil)
		return false
	}
	if st := cEnd.WaitParked(30 * time.Second); st != "parked" {
		if cEnd.Closed() || st == "closed" {
			r.fail("connection-lost", fmt.Sprintf("the client closed the connection after %q although the server behaved conformantly", strings.TrimSpace(s)), nil)
		} else {
			r.fail("client-stuck", fmt.Sprintf("the client did not finish processing %q", strings.TrimSpace(s)), nil)
		}
		return false
	}
	return true
}

type setup struct {
	c    *imapclient.Client
	p    *peer
	cEnd *vconn.Conn
	ref  *refState
	uni  *uniLog
}

type uniLog struct {
	mu      sync.Mutex
	expunge []uint32
	exists  []uint32
	fetch   []uint32
}

func (u *uniLog) fetchSnapshot() []uint32 {
	u.mu.Lock()
	defer u.mu.Unlock()
	return append([]uint32(nil), u.fetch...)
}

const capLine = "IMAP4rev1 IMAP4rev2 LITERAL- ESEARCH MOVE UIDPLUS NAMESPACE IDLE"

// newSetup brings a client to the selected state (checking the mirror on the way).
func (r *runner) newSetup(rng *rand.Rand, preauth bool, selected bool) *setup {
	log := &vconn.Log{}
	cEnd, sEnd := vconn.Pipe("client", "server", log)
	uni := &uniLog{}
	c := imapclient.New(cEnd, &imapclient.Options{UnilateralDataHandler: &imapclient.UnilateralDataHandler{
		Expunge: func(n uint32) { uni.mu.Lock(); uni.expunge = append(uni.expunge, n); uni.mu.Unlock() },
		Mailbox: func(d *imapclient.UnilateralDataMailbox) {
			if d.NumMessages != nil {
				uni.mu.Lock()
				uni.exists = append(uni.exists, *d.NumMessages)
				uni.mu.Unlock()
			}
		},
		Fetch: func(m *imapclient.FetchMessageData) {
			uni.mu.Lock()
			uni.fetch = append(uni.fetch, m.SeqNum)
			uni.mu.Unlock()
			for m.Next() != nil {
			}
		},
	}})
	s := &setup{c: c, cEnd: cEnd, p: &peer{conn: sEnd, br: bufio.NewReader(sEnd)}, ref: &refState{}, uni: uni}
	g := "* OK [CAPABILITY " + capLine + "] ready\r\n"
	s.ref.state = imap.ConnStateNotAuthenticated
	if preauth {
		g = "* PREAUTH [CAPABILITY " + capLine + "] hello\r\n"
		s.ref.state = imap.ConnStateAuthenticated
	}
	if !r.send(s.p, cEnd, g) || !r.compare(c, s.ref, "greeting") {
		return nil
	}
	if !preauth {
		cmd := c.Login("u", "p")
		rc, err := s.p.readCmd()
		if err != nil {
			return nil
		}
		r.hist = append(r.hist, "C: "+strings.TrimSpace(rc.line))
		if !r.send(s.p, cEnd, rc.tag+" OK [CAPABILITY "+capLine+"] logged in\r\n") {
			return nil
		}
		s.ref.state = imap.ConnStateAuthenticated
		if cmd.Wait() != nil || !r.compare(c, s.ref, "LOGIN OK") {
			return nil
		}
	}
	if selected {
		if !r.doSelect(s, rng, "INBOX", outcome{typ: "OK"}, false) {
			return nil
		}
	}
	return s
}

// doSelect issues SELECT and plays its responses step by step.
func (r *runner) doSelect(s *setup, rng *rand.Rand, name string, out outcome, sendClosed bool) bool {
	wasSelected := s.ref.state == imap.ConnStateSelected
	sel := s.c.Select(name, nil)
	rc, err := s.p.readCmd()
	if err != nil {
		r.fail("connection-lost", "reading SELECT: "+err.Error(), nil)
		return false
	}
	r.hist = append(r.hist, "C: "+strings.TrimSpace(rc.line))
	n := uint32(rng.Intn(20))
	flags := []string{`\Seen`, `\Deleted`, "kw" + fmt.Sprint(rng.Intn(3))}
	perm := []string{`\Seen`, `\*`}
	newBox := &refMailbox{name: name, num: n, flags: normFlags(toFlags(flags)), permFlags: normFlags(toFlags(perm))}
	if wasSelected && sendClosed {
		if !r.send(s.p, s.cEnd, "* OK [CLOSED] previous mailbox closed\r\n") {
			return false
		}
		s.ref.state, s.ref.mbox = imap.ConnStateAuthenticated, nil
		if !r.compare(s.c, s.ref, "* OK [CLOSED]") {
			return false
		}
	}
	if out.typ == "OK" {
		lines := []string{
			fmt.Sprintf("* %d EXISTS\r\n", n), "* 0 RECENT\r\n", "* OK [UIDVALIDITY 7] v\r\n", "* OK [UIDNEXT 50] n\r\n",
			"* FLAGS (" + strings.Join(flags, " ") + ")\r\n", "* OK [PERMANENTFLAGS (" + strings.Join(perm, " ") + ")] p\r\n",
		}
		rng.Shuffle(len(lines), func(i, j int) { lines[i], lines[j] = lines[j], lines[i] })
		for _, l := range lines {
			if !r.send(s.p, s.cEnd, l) {
				return false
			}
			// data of a SELECT in progress belongs to the mailbox being opened, not to the current one:
			// the client may keep reporting the old mailbox unchanged, or no mailbox at all
			if st, mb := s.c.State(), s.c.Mailbox(); wasSelected && st == imap.ConnStateAuthenticated && mb == nil {
				continue
			}
			if !r.compare(s.c, s.ref, strings.TrimSpace(l)+" (SELECT in progress)") {
				return false
			}
		}
	}
	if !r.send(s.p, s.cEnd, tagged(rc.tag, out, "READ-WRITE")) {
		return false
	}
	switch out.typ {
	case "OK":
		s.ref.state, s.ref.mbox = imap.ConnStateSelected, newBox
	case "NO":
		// RFC 9051 6.3.2: if the SELECT fails, no mailbox is selected
		s.ref.state, s.ref.mbox = imap.ConnStateAuthenticated, nil
	case "BAD":
		// the command was not recognised / executed: nothing changes
	}
	_, werr := sel.Wait()
	if msg := statusMismatch(werr, out); msg != "" {
		r.fail("wrong-status", "SELECT: "+msg, nil)
		return false
	}
	return r.compare(s.c, s.ref, "SELECT "+out.typ)
}

func toFlags(s []string) []imap.Flag {
	var o []imap.Flag
	for _, f := range s {
		o = append(o, imap.Flag(f))
	}
	return o
}

func tagged(tag string, out outcome, okCode string) string {
	code := out.code
	if out.typ == "OK" && code == "" {
		code = okCode
	}
	s := tag + " " + out.typ
	if code != "" {
		s += " [" + code + "]"
	}
	if out.text != "" {
		s += " " + out.text
	}
	return s + "\r\n"
}

func statusMismatch(err error, out outcome) string {
	switch out.typ {
	case "OK":
		if err != nil {
			return fmt.Sprintf("tagged OK but Wait returned %v", err)
		}
	default:
		var ie *imap.Error
		if err == nil {
			return fmt.Sprintf("tagged %s but Wait returned nil", out.typ)
		}
		if !errors.As(err, &ie) {
			return fmt.Sprintf("tagged %s but Wait returned a non-IMAP error: %v", out.typ, err)
		}
		if string(ie.Type) != out.typ {
			return fmt.Sprintf("tagged %s but Wait returned status %s", out.typ, ie.Type)
		}
		wantCode := strings.Fields(out.code + " x")[0]
		if out.code == "" {
			wantCode = ""
		}
		if string(ie.Code) != wantCode {
			return fmt.Sprintf("tagged %s [%s] but the error carries code %q", out.typ, out.code, ie.Code)
		}
		if ie.Text != out.text {
			return fmt.Sprintf("tagged %s with text %q but the error carries text %q", out.typ, out.text, ie.Text)
		}
	}
	return ""
}

func randOutcome(rng *rand.Rand) outcome {
	switch rng.Intn(8) {
	case 0:
		return outcome{typ: "NO", text: "nope"}
	case 1:
		return outcome{typ: "NO", code: "TRYCREATE", text: "create it"}
	case 2:
		return outcome{typ: "BAD", text: "syntax"}
	case 3:
		return outcome{typ: "NO", code: "ALERT", text: "look out"}
	case 4:
		return outcome{typ: "OK"} // no text at all (seen in the wild)
	}
	return outcome{typ: "OK", text: "done"}
}

// ---- command catalogue ----------------------------------------------------------

func u32s(v []uint32) string { return fmt.Sprint(v) }

func mkCommands(rng *rand.Rand, selected bool, numMsgs uint32) []*pcmd {
	var all []*pcmd
	// (mailbox names other than INBOX are case-sensitive: "Reports" and "reports" are two mailboxes)
	boxes := []string{"Work", "Lists/go", "Å", "Trash"}
	if rng.Intn(3) == 0 {
		boxes = []string{"Reports", "Lists/go", "reports", "REPORTS"}
	}
	box := func(i int) string { return boxes[i%4] }
	// STATUS x2 (distinct mailboxes): routed by mailbox name
	for i := 0; i < 2; i++ {
		name := box(i + rng.Intn(2)*2)
		n := uint32(rng.Intn(100))
		un := uint32(rng.Intn(10))
		all = append(all, &pcmd{kind: "STATUS", arg: name,
			issue: func(c *imapclient.Client) interface{} {
				return c.Status(name, &imap.StatusOptions{NumMessages: true, NumUnseen: true})
			},
			data: func(tag string) []string {
				return []string{fmt.Sprintf("* STATUS %s (MESSAGES %d UNSEEN %d)\r\n", encMailbox(name), n, un)}
			},
			check: func(cmd interface{}, err error) string {
				d, _ := cmd.(*imapclient.StatusCommand).Wait()
				if d.Mailbox != name || d.NumMessages == nil || *d.NumMessages != n || d.NumUnseen == nil || *d.NumUnseen != un {
					return fmt.Sprintf("STATUS %s: delivered %+v, sent MESSAGES %d UNSEEN %d", name, d, n, un)
				}
				return ""
			}})
	}
	// LIST
	names := []string{"INBOX", "Work", "Lists/go"}[:1+rng.Intn(3)]
	all = append(all, &pcmd{kind: "LIST",
		issue: func(c *imapclient.Client) interface{} { return c.List("", "*", nil) },
		data: func(tag string) []string {
			var l []string
			for _, n := range names {
				l = append(l, fmt.Sprintf("* LIST (\\HasNoChildren) \"/\" %s\r\n", encMailbox(n)))
			}
			return l
		},
		check: func(cmd interface{}, err error) string {
			l, _ := cmd.(*imapclient.ListCommand).Collect()
			var got []string
			for _, d := range l {
				got = append(got, d.Mailbox)
			}
			if fmt.Sprint(got) != fmt.Sprint(names) {
				return fmt.Sprintf("LIST: delivered %v, sent %v", got, names)
			}
			return ""
		}})
	// NAMESPACE, CAPABILITY, NOOP, CREATE
	all = append(all, &pcmd{kind: "NAMESPACE",
		issue: func(c *imapclient.Client) interface{} { return c.Namespace() },
		data:  func(tag string) []string { return []string{"* NAMESPACE ((\"\" \"/\")) NIL ((\"Shared/\" \"/\"))\r\n"} },
		check: func(cmd interface{}, err error) string {
			d, _ := cmd.(*imapclient.NamespaceCommand).Wait()
			if len(d.Personal) != 1 || len(d.Shared) != 1 || d.Shared[0].Prefix != "Shared/" || d.Other != nil {
				return fmt.Sprintf("NAMESPACE: delivered %+v", d)
			}
			return ""
		}})
	all = append(all, &pcmd{kind: "NOOP", issue: func(c *imapclient.Client) interface{} { return c.Noop() }})
	cn := "New" + fmt.Sprint(rng.Intn(100))
	all = append(all, &pcmd{kind: "CREATE", arg: cn, issue: func(c *imapclient.Client) interface{} { return c.Create(cn, nil) }})
	// APPEND (small, non-synchronising) with APPENDUID
	auid := uint32(1 + rng.Intn(1000))
	all = append(all, &pcmd{kind: "APPEND",
		issue: func(c *imapclient.Client) interface{} {
			b := []byte("Subject: x\r\n\r\nbody")
			ac := c.Append("Work", int64(len(b)), nil)
			ac.Write(b)
			ac.Close()
			return ac
		},
		okCode: fmt.Sprintf("APPENDUID 9 %d", auid),
		check: func(cmd interface{}, err error) string {
			d, _ := cmd.(*imapclient.AppendCommand).Wait()
			if uint32(d.UID) != auid || d.UIDValidity != 9 {
				return fmt.Sprintf("APPEND: delivered %+v, sent APPENDUID 9 %d", d, auid)
			}
			return ""
		}})
	if !selected {
		return all
	}
	// one FETCH-type command (FETCH / UID FETCH / STORE)
	if numMsgs >= 1 {
		k := rng.Intn(3)
		hi := 1 + uint32(rng.Intn(int(numMsgs)))
		lo := 1 + uint32(rng.Intn(int(hi)))
		var sent []uint32
		for q := lo; q <= hi; q++ {
			if rng.Intn(4) != 0 {
				sent = append(sent, q)
			}
		}
		mk := func(kind string, issue func(c *imapclient.Client) interface{}, withUID bool) *pcmd {
			return &pcmd{kind: kind, arg: fmt.Sprintf("%d:%d", lo, hi), issue: issue,
				data: func(tag string) []string {
					var l []string
					for _, q := range sent {
						if withUID {
							l = append(l, fmt.Sprintf("* %d FETCH (UID %d FLAGS (\\Seen))\r\n", q, 100+q))
						} else {
							l = append(l, fmt.Sprintf("* %d FETCH (FLAGS (\\Seen kw))\r\n", q))
						}
					}
					return l
				},
				check: func(cmd interface{}, err error) string {
					msgs, _ := cmd.(*imapclient.FetchCommand).Collect()
					var got []uint32
					for _, m := range msgs {
						got = append(got, m.SeqNum)
					}
					if u32s(got) != u32s(sent) {
						return fmt.Sprintf("%s %d:%d: delivered messages %v, the server sent %v for it", kind, lo, hi, got, sent)
					}
					return ""
				}}
		}
		switch k {
		case 0:
			all = append(all, mk("FETCH", func(c *imapclient.Client) interface{} {
				return c.Fetch(imap.SeqSet{{Start: lo, Stop: hi}}, &imap.FetchOptions{Flags: true})
			}, false))
		case 1:
			all = append(all, mk("UID FETCH", func(c *imapclient.Client) interface{} {
				return c.Fetch(imap.UIDSet{{Start: imap.UID(100 + lo), Stop: imap.UID(100 + hi)}}, &imap.FetchOptions{Flags: true})
			}, true))
		case 2:
			all = append(all, mk("STORE", func(c *imapclient.Client) interface{} {
				return c.Store(imap.SeqSet{{Start: lo, Stop: hi}}, &imap.StoreFlags{Op: imap.StoreFlagsAdd, Flags: []imap.Flag{imap.FlagSeen}}, nil)
			}, false))
		}
	}
	// SEARCH / UID SEARCH (ESEARCH)
	var found []uint32
	for q := uint32(1); q <= numMsgs; q++ {
		if rng.Intn(3) == 0 {
			found = append(found, q)
		}
	}
	if rng.Intn(2) == 0 {
		all = append(all, &pcmd{kind: "SEARCH",
			issue: func(c *imapclient.Client) interface{} {
				return c.Search(&imap.SearchCriteria{Flag: []imap.Flag{imap.FlagSeen}}, nil)
			},
			data: func(tag string) []string {
				s := "* SEARCH"
				for _, q := range found {
					s += fmt.Sprintf(" %d", q)
				}
				return []string{s + "\r\n"}
			},
			check: func(cmd interface{}, err error) string {
				d, _ := cmd.(*imapclient.SearchCommand).Wait()
				var got []uint32
				if d.All != nil {
					got = d.AllSeqNums()
				}
				if u32s(got) != u32s(found) && !(len(got) == 0 && len(found) == 0) {
					return fmt.Sprintf("SEARCH: delivered %v, sent %v", got, found)
				}
				return ""
			}})
	} else {
		all = append(all, &pcmd{kind: "UID SEARCH",
			issue: func(c *imapclient.Client) interface{} {
				return c.UIDSearch(&imap.SearchCriteria{}, &imap.SearchOptions{ReturnAll: true, ReturnCount: true})
			},
			data: func(tag string) []string {
				s := fmt.Sprintf("* ESEARCH (TAG \"%s\") UID COUNT %d", tag, len(found))
				if len(found) > 0 {
					var p []string
					for _, q := range found {
						p = append(p, fmt.Sprint(100+q))
					}
					s += " ALL " + strings.Join(p, ",")
				}
				return []string{s + "\r\n"}
			},
			check: func(cmd interface{}, err error) string {
				d, _ := cmd.(*imapclient.SearchCommand).Wait()
				var got []uint32
				if d.All != nil {
					for _, u := range d.AllUIDs() {
						got = append(got, uint32(u)-100)
					}
				}
				if int(d.Count) != len(found) || (u32s(got) != u32s(found) && !(len(got) == 0 && len(found) == 0)) {
					return fmt.Sprintf("UID SEARCH: delivered count=%d all=%v, sent %v", d.Count, got, found)
				}
				return ""
			}})
	}
	// COPY with COPYUID
	all = append(all, &pcmd{kind: "UID COPY",
		issue:  func(c *imapclient.Client) interface{} { return c.Copy(imap.UIDSetNum(101, 102), "Work") },
		okCode: "COPYUID 9 101:102 31:32",
		check: func(cmd interface{}, err error) string {
			d, _ := cmd.(*imapclient.CopyCommand).Wait()
			if d.UIDValidity != 9 || d.SourceUIDs.String() != "101:102" || d.DestUIDs.String() != "31:32" {
				return fmt.Sprintf("COPY: delivered %+v", d)
			}
			return ""
		}})
	return all
}

func encMailbox(n string) string {
	switch n {
	case "Å":
		return "&AMU-"
	}
	return "\"" + n + "\""
}

// ---- one pipelined case ---------------------------------------------------------

func (r *runner) pipelined(rng *rand.Rand) {
	selected := rng.Intn(4) != 0
	preauth := rng.Intn(5) == 0
	s := r.newSetup(rng, preauth, selected)
	if s == nil {
		return
	}
	defer s.cEnd.Close()
	defer s.p.conn.Close()
	var nmsgs uint32
	if s.ref.mbox != nil {
		nmsgs = s.ref.mbox.num
	}
	catalogue := mkCommands(rng, selected, nmsgs)
	rng.Shuffle(len(catalogue), func(i, j int) { catalogue[i], catalogue[j] = catalogue[j], catalogue[i] })
	k := 2 + rng.Intn(5)
	if k > len(catalogue) {
		k = len(catalogue)
	}
	cmds := catalogue[:k]
	hasSeqCmd := false
	for _, pc := range cmds {
		pc.out = randOutcome(rng)
		pc.cmdObj = pc.issue(s.c)
		rc, err := s.p.readCmd()
		if err != nil {
			r.fail("connection-lost", "reading a pipelined command: "+err.Error(), nil)
			return
		}
		pc.tag = rc.tag
		r.hist = append(r.hist, "C: "+strings.TrimSpace(firstLine(rc.line)))
		if rc.name != pc.kind {
			r.fail("harness-command-mismatch", fmt.Sprintf("expected %s, the client sent %q", pc.kind, rc.line), nil)
			return
		}
		if pc.kind == "FETCH" || pc.kind == "STORE" || pc.kind == "SEARCH" {
			hasSeqCmd = true
		}
	}
	// build the answer: per-command item lists, merged in a random order that keeps each command's own order
	type item struct {
		line string
		cmd  *pcmd
	}
	queues := make([][]item, len(cmds))
	for i, pc := range cmds {
		sendData := pc.data != nil && (pc.out.typ == "OK" || rng.Intn(3) == 0)
		if sendData {
			lines := pc.data(pc.tag)
			if pc.out.typ != "OK" {
				lines = lines[:rng.Intn(len(lines)+1)] // a refused command may have produced partial data
				pc.check = nil
			}
			for _, l := range lines {
				queues[i] = append(queues[i], item{l, pc})
			}
		} else if pc.out.typ != "OK" {
			pc.check = nil
		}
		queues[i] = append(queues[i], item{tagged(pc.tag, pc.out, pc.okCode), pc})
	}
	remaining := 0
	for _, q := range queues {
		remaining += len(q)
	}
	for remaining > 0 {
		// unilateral updates between any two lines
		if selected && s.ref.mbox != nil && rng.Intn(5) == 0 {
			switch rng.Intn(4) {
			case 0:
				s.ref.mbox.num += uint32(1 + rng.Intn(3))
				l := fmt.Sprintf("* %d EXISTS\r\n", s.ref.mbox.num)
				if !r.send(s.p, s.cEnd, l) || !r.compare(s.c, s.ref, strings.TrimSpace(l)) {
					return
				}
			case 1:
				if !hasSeqCmd && s.ref.mbox.num > 0 { // a server must not send EXPUNGE while FETCH/STORE/SEARCH are in progress
					q := 1 + uint32(rng.Intn(int(s.ref.mbox.num)))
					s.ref.mbox.num--
					l := fmt.Sprintf("* %d EXPUNGE\r\n", q)
					if !r.send(s.p, s.cEnd, l) || !r.compare(s.c, s.ref, strings.TrimSpace(l)) {
						return
					}
				}
			case 2:
				fl := []string{`\Answered`, `\Seen`, "new" + fmt.Sprint(rng.Intn(5))}
				s.ref.mbox.flags = normFlags(toFlags(fl))
				l := "* FLAGS (" + strings.Join(fl, " ") + ")\r\n"
				if !r.send(s.p, s.cEnd, l) || !r.compare(s.c, s.ref, strings.TrimSpace(l)) {
					return
				}
			case 3:
				pf := []string{`\Deleted`, `\*`}
				s.ref.mbox.permFlags = normFlags(toFlags(pf))
				l := "* OK [PERMANENTFLAGS (" + strings.Join(pf, " ") + ")] changed\r\n"
				if !r.send(s.p, s.cEnd, l) || !r.compare(s.c, s.ref, strings.TrimSpace(l)) {
					return
				}
			}
		}
		i := rng.Intn(len(queues))
		if len(queues[i]) == 0 {
			continue
		}
		it := queues[i][0]
		queues[i] = queues[i][1:]
		remaining--
		if !r.send(s.p, s.cEnd, it.line) {
			return
		}
		if !r.compare(s.c, s.ref, strings.TrimSpace(firstLine(it.line))) {
			return
		}
	}
	// every command must now be complete, exactly once, with its own status and data
	for _, pc := range cmds {
		type done struct {
			err error
			msg string
		}
		errc := make(chan done, 1)
		go func(pc *pcmd) {
			// streaming commands can be consumed only once: the data check (if any) does the consuming
			if pc.check != nil {
				msg := pc.check(pc.cmdObj, nil)
				errc <- done{waitOf(pc.cmdObj), msg}
				return
			}
			errc <- done{waitOf(pc.cmdObj), ""}
		}(pc)
		select {
		case d := <-errc:
			if msg := statusMismatch(d.err, pc.out); msg != "" {
				r.fail("wrong-status", fmt.Sprintf("%s (%s): %s", pc.kind, pc.tag, msg), nil)
				continue
			}
			if d.msg != "" {
				r.fail("wrong-data@"+pc.kind, d.msg, nil)
			}
		case <-time.After(60 * time.Second):
			r.fail("command-not-completed@"+pc.kind, fmt.Sprintf("%s (%s) has not completed although its tagged response was sent and processed", pc.kind, pc.tag), nil)
			return
		}
	}
	// the connection must still be usable
	n := s.c.Noop()
	rc, err := s.p.readCmd()
	if err != nil {
		r.fail("connection-lost", "the connection is unusable after the pipelined batch: "+err.Error(), nil)
		return
	}
	if !r.send(s.p, s.cEnd, rc.tag+" OK still here\r\n") {
		return
	}
	if err := n.Wait(); err != nil {
		r.fail("connection-lost", "NOOP after the batch failed: "+err.Error(), nil)
	}
	r.compare(s.c, s.ref, "final NOOP")
}

func firstLine(s string) string {
	if i := strings.Index(s, "\r\n"); i >= 0 {
		return s[:i]
	}
	return s
}

func waitOf(cmd interface{}) error {
	switch c := cmd.(type) {
	case *imapclient.Command:
		return c.Wait()
	case *imapclient.StatusCommand:
		_, err := c.Wait()
		return err
	case *imapclient.ListCommand:
		return c.Close()
	case *imapclient.NamespaceCommand:
		_, err := c.Wait()
		return err
	case *imapclient.AppendCommand:
		_, err := c.Wait()
		return err
	case *imapclient.FetchCommand:
		return c.Close()
	case *imapclient.SearchCommand:
		_, err := c.Wait()
		return err
	case *imapclient.CopyCommand:
		_, err := c.Wait()
		return err
	case *imapclient.SelectCommand:
		_, err := c.Wait()
		return err
	}
	return fmt.Errorf("harness: unknown command type %T", cmd)
}

// ---- state-sequence cases: SELECT outcomes, re-SELECT, UNSELECT, LOGOUT, BYE ------

func (r *runner) stateSequence(rng *rand.Rand) {
	s := r.newSetup(rng, rng.Intn(4) == 0, false)
	if s == nil {
		return
	}
	defer s.cEnd.Close()
	defer s.p.conn.Close()
	for step := 0; step < 3+rng.Intn(5); step++ {
		switch rng.Intn(6) {
		case 0, 1:
			out := outcome{typ: "OK", text: "selected"}
			switch rng.Intn(4) {
			case 0:
				out = outcome{typ: "NO", code: "NONEXISTENT", text: "no such mailbox"}
			case 1:
				out = outcome{typ: "BAD", text: "what"}
			}
			if !r.doSelect(s, rng, []string{"INBOX", "Work", "Lists/go"}[rng.Intn(3)], out, rng.Intn(2) == 0) {
				return
			}
		case 2:
			if s.ref.state != imap.ConnStateSelected {
				continue
			}
			var cmd *imapclient.Command
			if rng.Intn(2) == 0 {
				cmd = s.c.Unselect()
			} else {
				cmd = s.c.UnselectAndExpunge()
			}
			rc, err := s.p.readCmd()
			if err != nil {
				return
			}
			r.hist = append(r.hist, "C: "+strings.TrimSpace(rc.line))
			out := outcome{typ: "OK", text: "closed"}
			if rng.Intn(5) == 0 {
				out = outcome{typ: "BAD", text: "unknown"}
			}
			if !r.send(s.p, s.cEnd, tagged(rc.tag, out, "")) {
				return
			}
			if out.typ == "OK" {
				s.ref.state, s.ref.mbox = imap.ConnStateAuthenticated, nil
			}
			if msg := statusMismatch(cmd.Wait(), out); msg != "" {
				r.fail("wrong-status", rc.name+": "+msg, nil)
			}
			if !r.compare(s.c, s.ref, rc.name+" "+out.typ) {
				return
			}
		case 3:
			if s.ref.state != imap.ConnStateSelected {
				continue
			}
			// unilateral updates
			s.ref.mbox.num += 2
			l := fmt.Sprintf("* %d EXISTS\r\n", s.ref.mbox.num)
			if !r.send(s.p, s.cEnd, l) || !r.compare(s.c, s.ref, strings.TrimSpace(l)) {
				return
			}
			l = "* 1 EXPUNGE\r\n"
			s.ref.mbox.num--
			if !r.send(s.p, s.cEnd, l) || !r.compare(s.c, s.ref, strings.TrimSpace(l)) {
				return
			}
		case 4:
			st := s.c.Status("Work", &imap.StatusOptions{NumMessages: true})
			rc, err := s.p.readCmd()
			if err != nil {
				return
			}
			out := randOutcome(rng)
			if out.typ == "OK" {
				if !r.send(s.p, s.cEnd, "* STATUS \"Work\" (MESSAGES 4)\r\n") {
					return
				}
			}
			if !r.send(s.p, s.cEnd, tagged(rc.tag, out, "")) {
				return
			}
			_, err = st.Wait()
			if msg := statusMismatch(err, out); msg != "" {
				r.fail("wrong-status", "STATUS: "+msg, nil)
			}
			if !r.compare(s.c, s.ref, "STATUS "+out.typ) {
				return
			}
		case 5:
			cmd := s.c.Logout()
			rc, err := s.p.readCmd()
			if err != nil {
				return
			}
			if !r.send(s.p, s.cEnd, "* BYE logging out\r\n") {
				return
			}
			if !r.send(s.p, s.cEnd, rc.tag+" OK bye\r\n") {
				return
			}
			s.ref.state, s.ref.mbox = imap.ConnStateLogout, nil
			if err := cmd.Wait(); err != nil {
				r.fail("wrong-status", "LOGOUT: "+err.Error(), nil)
			}
			r.compare(s.c, s.ref, "LOGOUT OK")
			return
		}
	}
}

// ---- refused synchronising literal -------------------------------------------------

func (r *runner) refusedLiteral(rng *rand.Rand) {
	s := r.newSetup(rng, false, rng.Intn(2) == 0)
	if s == nil {
		return
	}
	defer s.cEnd.Close()
	defer s.p.conn.Close()
	// a command pipelined before the APPEND
	st := s.c.Status("Work", &imap.StatusOptions{NumMessages: true})
	stc, err := s.p.readCmd()
	if err != nil {
		return
	}
	r.hist = append(r.hist, "C: "+strings.TrimSpace(stc.line))
	body := []byte("Subject: x\r\n\r\n" + strings.Repeat("y", 5000)) // > 4096: synchronising even with LITERAL-
	type appendRes struct {
		werr, cerr, err error
	}
	resc := make(chan appendRes, 1)
	go func() {
		ac := s.c.Append("Work", int64(len(body)), nil)
		_, werr := ac.Write(body)
		cerr := ac.Close()
		_, err := ac.Wait()
		resc <- appendRes{werr, cerr, err}
	}()
	hdr, err := s.p.br.ReadString('\n')
	if err != nil {
		r.fail("connection-lost", "reading the APPEND header: "+err.Error(), nil)
		return
	}
	r.hist = append(r.hist, "C: "+strings.TrimSpace(hdr))
	f := strings.Fields(hdr)
	if len(f) < 2 || strings.ToUpper(f[1]) != "APPEND" || !strings.HasSuffix(strings.TrimSpace(hdr), "}") || strings.HasSuffix(strings.TrimSpace(hdr), "+}") {
		r.fail("harness-command-mismatch", fmt.Sprintf("expected a synchronising APPEND header, got %q", hdr), nil)
		return
	}
	out := outcome{typ: "NO", code: "OVERQUOTA", text: "quota exceeded"}
	if rng.Intn(3) == 0 {
		out = outcome{typ: "BAD", text: "too big"}
	}
	// answer the earlier STATUS before or after the refusal
	statusFirst := rng.Intn(2) == 0
	if statusFirst {
		if !r.send(s.p, s.cEnd, "* STATUS \"Work\" (MESSAGES 4)\r\n"+stc.tag+" OK done\r\n") {
			return
		}
	}
	r.hist = append(r.hist, "S: "+strings.TrimSpace(tagged(f[0], out, "")))
	s.p.conn.Write([]byte(tagged(f[0], out, "")))
	var ar appendRes
	select {
	case ar = <-resc:
	case <-time.After(60 * time.Second):
		r.fail("command-not-completed@APPEND", "APPEND with a refused synchronising literal never completed", nil)
		return
	}
	if msg := statusMismatch(ar.err, out); msg != "" {
		r.fail("wrong-status", "APPEND (literal refused): "+msg, nil)
	}
	// nothing of the payload may have been written
	if !statusFirst {
		if !r.send(s.p, s.cEnd, "* STATUS \"Work\" (MESSAGES 4)\r\n"+stc.tag+" OK done\r\n") {
			return
		}
	}
	d, err := st.Wait()
	if err != nil || d.NumMessages == nil || *d.NumMessages != 4 {
		r.fail("refusal-affects-other-command", fmt.Sprintf("STATUS pipelined with the refused APPEND returned %v / %+v", err, d), nil)
		return
	}
	// the connection must remain usable and carry no stray payload bytes
	n := s.c.Noop()
	rc, err := s.p.readCmd()
	if err != nil {
		r.fail("connection-lost", "after a tagged refusal of a synchronising literal the connection is dead: "+err.Error(), nil)
		return
	}
	if rc.name != "NOOP" {
		r.fail("stray-bytes-after-refusal", fmt.Sprintf("after the refusal the server received %q instead of the next command", rc.line), nil)
		return
	}
	if !r.send(s.p, s.cEnd, rc.tag+" OK\r\n") {
		return
	}
	if err := n.Wait(); err != nil {
		r.fail("connection-lost", "NOOP after the refusal failed: "+err.Error(), nil)
	}
	r.compare(s.c, s.ref, "NOOP after refused literal")
}

// ---- FETCH with sets containing '*' ---------------------------------------------

func (r *runner) fetchStar(rng *rand.Rand) {
	s := r.newSetup(rng, false, true)
	if s == nil || s.ref.mbox.num == 0 {
		if s != nil {
			s.cEnd.Close()
			s.p.conn.Close()
		}
		return
	}
	defer s.cEnd.Close()
	defer s.p.conn.Close()
	n := s.ref.mbox.num
	var set imap.NumSet
	uid := rng.Intn(2) == 0
	form := rng.Intn(2)
	if uid {
		if form == 0 {
			set = imap.UIDSet{{Start: 0, Stop: 0}}
		} else {
			set = imap.UIDSet{{Start: imap.UID(100 + n + 5), Stop: 0}} // n:* with n above the last UID still returns the last message
		}
	} else {
		if form == 0 {
			set = imap.SeqSet{{Start: 0, Stop: 0}}
		} else {
			set = imap.SeqSet{{Start: n + 3, Stop: 0}}
		}
	}
	r.class = fmt.Sprintf("fetch-star/uid=%v/form=%d", uid, form)
	fc := s.c.Fetch(set, &imap.FetchOptions{Flags: true, UID: true})
	rc, err := s.p.readCmd()
	if err != nil {
		return
	}
	r.hist = append(r.hist, "C: "+strings.TrimSpace(rc.line))
	if !r.send(s.p, s.cEnd, fmt.Sprintf("* %d FETCH (UID %d FLAGS (\\Seen))\r\n", n, 100+n)) {
		return
	}
	if !r.send(s.p, s.cEnd, rc.tag+" OK done\r\n") {
		return
	}
	msgs, err := fc.Collect()
	if err != nil || len(msgs) != 1 || msgs[0].SeqNum != n {
		var got []uint32
		for _, m := range msgs {
			got = append(got, m.SeqNum)
		}
		r.fail("wrong-data@FETCH-star", fmt.Sprintf("%s %s: the server answered with message %d, the command received %v (err %v); unilateral handler got %v", rc.name, set.String(), n, got, err, s.uni.fetchSnapshot()), nil)
	}
}

// ---- same-type commands answered in issue order -------------------------------------

// Untagged SEARCH / LIST / NAMESPACE data carries no tag: with several commands of
// the same type in flight a server answers them in the order they were issued, and
// each data line belongs to the oldest one still pending.
func (r *runner) sameTypeInOrder(rng *rand.Rand) {
	s := r.newSetup(rng, false, true)
	if s == nil {
		return
	}
	defer s.cEnd.Close()
	defer s.p.conn.Close()
	kind := []string{"SEARCH", "LIST", "NAMESPACE", "STATUS-same-mailbox", "ESEARCH-any-order", "ESEARCH-any-order"}[rng.Intn(6)]
	r.class = "same-type-in-order/" + kind
	n := 2 + rng.Intn(3)
	type one struct {
		cmd  interface{}
		tag  string
		sent []uint32
		name string
	}
	var cmds []*one
	issue := func(f func() interface{}) *one {
		o := &one{cmd: f()}
		rc, err := s.p.readCmd()
		if err != nil {
			return nil
		}
		o.tag = rc.tag
		r.hist = append(r.hist, "C: "+strings.TrimSpace(firstLine(rc.line)))
		return o
	}
	// commands in front that complete first (they make the pending queue shift)
	var front []*one
	for k := rng.Intn(3); k > 0; k-- {
		o := issue(func() interface{} { return s.c.Noop() })
		if o == nil {
			return
		}
		front = append(front, o)
	}
	for i := 0; i < n; i++ {
		var o *one
		switch kind {
		case "SEARCH":
			o = issue(func() interface{} { return s.c.Search(&imap.SearchCriteria{Larger: int64(i + 1)}, nil) })
		case "ESEARCH-any-order":
			o = issue(func() interface{} {
				if i%2 == 0 {
					return s.c.UIDSearch(&imap.SearchCriteria{Larger: int64(i + 1)}, &imap.SearchOptions{ReturnAll: true, ReturnCount: true})
				}
				return s.c.Search(&imap.SearchCriteria{Larger: int64(i + 1)}, &imap.SearchOptions{ReturnAll: true})
			})
		case "LIST":
			o = issue(func() interface{} { return s.c.List("", fmt.Sprintf("p%d*", i), nil) })
		case "NAMESPACE":
			o = issue(func() interface{} { return s.c.Namespace() })
		default:
			o = issue(func() interface{} { return s.c.Status("Work", &imap.StatusOptions{NumMessages: true}) })
		}
		if o == nil {
			return
		}
		cmds = append(cmds, o)
	}
	// complete the front commands in a random order first
	rng.Shuffle(len(front), func(i, j int) { front[i], front[j] = front[j], front[i] })
	for _, o := range front {
		if !r.send(s.p, s.cEnd, o.tag+" OK done\r\n") {
			return
		}
	}
	if kind == "ESEARCH-any-order" {
		// ESEARCH data names the command it answers (TAG correlator): the server may answer the
		// searches in any order, also with all the data first and the completions afterwards
		esearch := func(i int) string {
			o := cmds[i]
			var nums []string
			for q := 0; q < 1+rng.Intn(4); q++ {
				v := uint32(10*(i+1) + q)
				o.sent = append(o.sent, v)
				nums = append(nums, fmt.Sprint(v))
			}
			uid := ""
			if i%2 == 0 {
				uid = " UID COUNT " + fmt.Sprint(len(nums))
			}
			return fmt.Sprintf("* ESEARCH (TAG \"%s\")%s ALL %s\r\n", o.tag, uid, strings.Join(nums, ","))
		}
		order := rng.Perm(n)
		if rng.Intn(2) == 0 {
			for _, i := range order {
				if !r.send(s.p, s.cEnd, esearch(i)) {
					return
				}
				if rng.Intn(3) == 0 && !r.send(s.p, s.cEnd, "* OK still here\r\n") {
					return
				}
			}
			for _, i := range rng.Perm(n) {
				if !r.send(s.p, s.cEnd, cmds[i].tag+" OK done\r\n") {
					return
				}
			}
		} else {
			for _, i := range order {
				if !r.send(s.p, s.cEnd, esearch(i)) || !r.send(s.p, s.cEnd, cmds[i].tag+" OK done\r\n") {
					return
				}
			}
		}
		r.w.Metric("esearch_any_order_scripts", 1)
	}
	for i, o := range cmds {
		if kind == "ESEARCH-any-order" {
			break
		}
		switch kind {
		case "SEARCH":
			line := "* SEARCH"
			for q := 0; q < 1+rng.Intn(4); q++ {
				v := uint32(10*(i+1) + q)
				o.sent = append(o.sent, v)
				line += fmt.Sprintf(" %d", v)
			}
			if !r.send(s.p, s.cEnd, line+"\r\n") {
				return
			}
		case "LIST":
			o.name = fmt.Sprintf("p%dbox", i)
			if !r.send(s.p, s.cEnd, fmt.Sprintf("* LIST () \"/\" %s\r\n", o.name)) {
				return
			}
		case "NAMESPACE":
			o.name = fmt.Sprintf("ns%d/", i)
			if !r.send(s.p, s.cEnd, fmt.Sprintf("* NAMESPACE ((\"%s\" \"/\")) NIL NIL\r\n", o.name)) {
				return
			}
		default:
			o.sent = []uint32{uint32(100 + i)}
			if !r.send(s.p, s.cEnd, fmt.Sprintf("* STATUS \"Work\" (MESSAGES %d)\r\n", 100+i)) {
				return
			}
		}
		if !r.send(s.p, s.cEnd, o.tag+" OK done\r\n") {
			return
		}
	}
	for i, o := range cmds {
		res := make(chan string, 1)
		go func() {
			switch c := o.cmd.(type) {
			case *imapclient.SearchCommand:
				d, err := c.Wait()
				var got []uint32
				if err == nil && d.All != nil {
					if us, ok := d.All.(imap.UIDSet); ok {
						for _, u := range func() []imap.UID { l, _ := us.Nums(); return l }() {
							got = append(got, uint32(u))
						}
					} else {
						got = d.AllSeqNums()
					}
				}
				if err != nil || u32s(got) != u32s(o.sent) {
					res <- fmt.Sprintf("SEARCH #%d (%s): delivered %v (err %v), the server sent %v for it", i+1, o.tag, got, err, o.sent)
					return
				}
			case *imapclient.ListCommand:
				l, err := c.Collect()
				if err != nil || len(l) != 1 || l[0].Mailbox != o.name {
					var got []string
					for _, d := range l {
						got = append(got, d.Mailbox)
					}
					res <- fmt.Sprintf("LIST #%d (%s): delivered %v (err %v), the server sent [%s] for it", i+1, o.tag, got, err, o.name)
					return
				}
			case *imapclient.NamespaceCommand:
				d, err := c.Wait()
				if err != nil || len(d.Personal) != 1 || d.Personal[0].Prefix != o.name {
					res <- fmt.Sprintf("NAMESPACE #%d (%s): delivered %+v (err %v), the server sent prefix %s for it", i+1, o.tag, d.Personal, err, o.name)
					return
				}
			case *imapclient.StatusCommand:
				d, err := c.Wait()
				if err != nil || d.NumMessages == nil || *d.NumMessages != o.sent[0] {
					res <- fmt.Sprintf("STATUS #%d (%s): delivered %+v (err %v), the server sent MESSAGES %d for it", i+1, o.tag, d.NumMessages, err, o.sent[0])
					return
				}
			}
			res <- ""
		}()
		select {
		case msg := <-res:
			if msg != "" {
				r.fail("wrong-data@same-type/"+kind, msg, nil)
			}
		case <-time.After(60 * time.Second):
			r.fail("command-not-completed@same-type/"+kind, fmt.Sprintf("command #%d (%s) did not complete", i+1, o.tag), nil)
			return
		}
	}
	for _, o := range front {
		o.cmd.(*imapclient.Command).Wait()
	}
	r.compare(s.c, s.ref, "same-type batch")
}

// ---- EXPUNGE / MOVE commands: data goes to the command AND updates the mirror ----------

func (r *runner) expungeCommand(rng *rand.Rand) {
	s := r.newSetup(rng, false, true)
	if s == nil {
		return
	}
	defer s.cEnd.Close()
	defer s.p.conn.Close()
	if s.ref.mbox.num < 3 {
		return
	}
	// a unilateral EXPUNGE first (during NOOP)
	nc := s.c.Noop()
	rc, err := s.p.readCmd()
	if err != nil {
		return
	}
	s.ref.mbox.num--
	if !r.send(s.p, s.cEnd, "* 1 EXPUNGE\r\n") || !r.compare(s.c, s.ref, "* 1 EXPUNGE (unilateral)") {
		return
	}
	if !r.send(s.p, s.cEnd, rc.tag+" OK\r\n") {
		return
	}
	nc.Wait()
	useMove := rng.Intn(3) == 0
	uidExp := rng.Intn(2) == 0
	var cmdObj interface{}
	switch {
	case useMove:
		r.class = "expunge-command/MOVE"
		cmdObj = s.c.Move(imap.SeqSetNum(1, 2), "Trash")
	case uidExp:
		r.class = "expunge-command/UID EXPUNGE"
		cmdObj = s.c.UIDExpunge(imap.UIDSet{{Start: 1, Stop: 0}})
	default:
		r.class = "expunge-command/EXPUNGE"
		cmdObj = s.c.Expunge()
	}
	rc, err = s.p.readCmd()
	if err != nil {
		return
	}
	r.hist = append(r.hist, "C: "+strings.TrimSpace(rc.line))
	if useMove {
		if !r.send(s.p, s.cEnd, "* OK [COPYUID 9 101:102 7:8] moved\r\n") {
			return
		}
	}
	k := 1 + rng.Intn(int(s.ref.mbox.num)-1)
	if useMove {
		k = 2
	}
	var sent []uint32
	for i := 0; i < k; i++ {
		q := 1 + uint32(rng.Intn(int(s.ref.mbox.num)))
		sent = append(sent, q)
		s.ref.mbox.num--
		l := fmt.Sprintf("* %d EXPUNGE\r\n", q)
		if !r.send(s.p, s.cEnd, l) || !r.compare(s.c, s.ref, strings.TrimSpace(l)+" (answering "+rc.name+")") {
			return
		}
	}
	if !r.send(s.p, s.cEnd, rc.tag+" OK done\r\n") {
		return
	}
	done := make(chan string, 1)
	go func() {
		switch c := cmdObj.(type) {
		case *imapclient.ExpungeCommand:
			got, err := c.Collect()
			if err != nil || u32s(got) != u32s(sent) {
				done <- fmt.Sprintf("%s: delivered %v (err %v), the server sent %v", rc.name, got, err, sent)
				return
			}
		case *imapclient.MoveCommand:
			d, err := c.Wait()
			if err != nil || d == nil || d.UIDValidity != 9 || d.DestUIDs == nil || d.DestUIDs.String() != "7:8" {
				done <- fmt.Sprintf("MOVE: delivered %+v (err %v), the server sent COPYUID 9 101:102 7:8", d, err)
				return
			}
		}
		done <- ""
	}()
	select {
	case msg := <-done:
		if msg != "" {
			r.fail("wrong-data@"+rc.name, msg, nil)
		}
	case <-time.After(60 * time.Second):
		r.fail("command-not-completed@"+rc.name, rc.name+" did not complete", nil)
		return
	}
	if !r.compare(s.c, s.ref, rc.name+" OK") {
		return
	}
	// FETCH * afterwards must still be routed (the last message is defined by the mirrored count)
	if s.ref.mbox.num > 0 {
		fc := s.c.Fetch(imap.SeqSet{{Start: 0, Stop: 0}}, &imap.FetchOptions{Flags: true})
		rc, err = s.p.readCmd()
		if err != nil {
			return
		}
		if !r.send(s.p, s.cEnd, fmt.Sprintf("* %d FETCH (FLAGS ())\r\n%s OK\r\n", s.ref.mbox.num, rc.tag)) {
			return
		}
		msgs, err := fc.Collect()
		if err != nil || len(msgs) != 1 {
			r.fail("wrong-data@FETCH-star-after-expunge", fmt.Sprintf("FETCH * after %s: %d messages delivered (err %v), the server sent message %d", r.class, len(msgs), err, s.ref.mbox.num), nil)
		}
	}
}

// ---- the effects of a command are visible as soon as its Wait returns --------------

func (r *runner) stateAtCompletion(rng *rand.Rand) {
	log := &vconn.Log{}
	cEnd, sEnd := vconn.Pipe("client", "server", log)
	defer cEnd.Close()
	defer sEnd.Close()
	c := imapclient.New(cEnd, nil)
	p := &peer{conn: sEnd, br: bufio.NewReader(sEnd)}
	sEnd.Write([]byte("* OK [CAPABILITY " + capLine + "] ready\r\n"))
	step := func(name string, cmd func() error, resp func(tag string) string, want imap.ConnState, wantMailbox bool) bool {
		errc := make(chan error, 1)
		go func() { errc <- cmd() }()
		rc, err := p.readCmd()
		if err != nil {
			return false
		}
		r.hist = append(r.hist, "C: "+strings.TrimSpace(firstLine(rc.line)))
		out := resp(rc.tag)
		r.hist = append(r.hist, "S: "+strings.TrimSpace(out))
		sEnd.Write([]byte(out))
		select {
		case err := <-errc:
			if err != nil {
				r.fail("wrong-status", name+": "+err.Error(), nil)
				return false
			}
		case <-time.After(60 * time.Second):
			r.fail("command-not-completed@"+name, name+" did not complete", nil)
			return false
		}
		// no barrier here on purpose: Wait has returned, the state must already reflect the command
		st, mb := c.State(), c.Mailbox()
		if st != want || (mb != nil) != wantMailbox {
			r.fail("mirror-state-lags-completion@"+name, fmt.Sprintf("%s: Wait returned but the client still reports state=%v mailbox=%s (expected state=%v)", name, st, describeMailbox(mb), want), nil)
			return false
		}
		return true
	}
	for i := 0; i < 20; i++ {
		if !step("LOGIN", func() error { return c.Login("u", "p").Wait() }, func(t string) string { return t + " OK [CAPABILITY " + capLine + "] in\r\n" }, imap.ConnStateAuthenticated, false) {
			return
		}
		if !step("SELECT", func() error { _, err := c.Select("INBOX", nil).Wait(); return err }, func(t string) string {
			return "* 2 EXISTS\r\n* FLAGS (\\Seen)\r\n" + t + " OK [READ-WRITE] selected\r\n"
		}, imap.ConnStateSelected, true) {
			return
		}
		if !step("UNSELECT", func() error { return c.Unselect().Wait() }, func(t string) string { return t + " OK\r\n" }, imap.ConnStateAuthenticated, false) {
			return
		}
		if !step("UNAUTHENTICATE", func() error { return c.Unauthenticate().Wait() }, func(t string) string { return t + " OK [CAPABILITY " + capLine + "] out\r\n" }, imap.ConnStateNotAuthenticated, false) {
			return
		}
	}
	step("LOGOUT", func() error { return c.Logout().Wait() }, func(t string) string { return "* BYE\r\n" + t + " OK\r\n" }, imap.ConnStateLogout, false)
}

// ---- long-lived connection -------------------------------------------------------------
//
// One connection, thousands of commands: the client keeps one decoder, one pending-command
// list and one tag counter for its whole life. Every command must still complete with its
// own status and data, and the mirror must still follow the transcript, at command 3000 as
// at command 3. The server's answers use the empty forms that are legal everywhere
// ("FLAGS ()", "LIST ()", "PERMANENTFLAGS ()").
func (r *runner) longLived(rng *rand.Rand, n int) {
	s := r.newSetup(rng, false, true)
	if s == nil {
		return
	}
	defer s.cEnd.Close()
	defer s.p.conn.Close()
	trim := func() {
		if len(r.hist) > 40 {
			r.hist = append([]string{"... (earlier steps omitted)"}, r.hist[len(r.hist)-30:]...)
		}
	}
	read := func() (recvCmd, bool) {
		rc, err := s.p.readCmd()
		if err != nil {
			r.fail("connection-lost", "the client stopped sending: "+err.Error(), nil)
			return rc, false
		}
		r.hist = append(r.hist, "C: "+strings.TrimSpace(rc.line))
		return rc, true
	}
	for i := 0; i < n; i++ {
		trim()
		at := fmt.Sprintf("command #%d of a long-lived connection", i)
		switch rng.Intn(8) {
		case 0, 1, 2: // NOOP with unilateral updates in empty forms
			cmd := s.c.Noop()
			rc, ok := read()
			if !ok {
				return
			}
			for k := rng.Intn(4); k >= 0; k-- {
				var l string
				switch rng.Intn(5) {
				case 0:
					s.ref.mbox.num++
					l = fmt.Sprintf("* %d EXISTS\r\n", s.ref.mbox.num)
				case 1:
					if s.ref.mbox.num == 0 {
						continue
					}
					l = fmt.Sprintf("* %d FETCH (FLAGS ())\r\n", 1+rng.Intn(int(s.ref.mbox.num)))
				case 2:
					if s.ref.mbox.num == 0 {
						continue
					}
					l = fmt.Sprintf("* %d EXPUNGE\r\n", 1+rng.Intn(int(s.ref.mbox.num)))
					s.ref.mbox.num--
				case 3:
					if rng.Intn(2) == 0 {
						l = "* FLAGS ()\r\n"
						s.ref.mbox.flags = nil
					} else {
						l = "* FLAGS (\\Seen kwl)\r\n"
						s.ref.mbox.flags = normFlags(toFlags([]string{`\Seen`, "kwl"}))
					}
				default:
					if rng.Intn(2) == 0 {
						l = "* OK [PERMANENTFLAGS ()] none\r\n"
						s.ref.mbox.permFlags = nil
					} else {
						l = "* OK [PERMANENTFLAGS (\\Seen \\*)] some\r\n"
						s.ref.mbox.permFlags = normFlags(toFlags([]string{`\Seen`, `\*`}))
					}
				}
				if !r.send(s.p, s.cEnd, l) || !r.compare(s.c, s.ref, strings.TrimSpace(l)+" ("+at+")") {
					return
				}
			}
			if !r.send(s.p, s.cEnd, rc.tag+" OK done\r\n") {
				return
			}
			if err := cmd.Wait(); err != nil {
				r.fail("wrong-status", fmt.Sprintf("%s: NOOP answered OK, the client reports %v", at, err), nil)
				return
			}
		case 3: // LIST with empty attribute lists
			cmd := s.c.List("", "*", nil)
			rc, ok := read()
			if !ok {
				return
			}
			want := []string{fmt.Sprintf("box%d", i), fmt.Sprintf("other%d", i)}
			for _, nme := range want {
				if !r.send(s.p, s.cEnd, fmt.Sprintf("* LIST () \"/\" %s\r\n", nme)) {
					return
				}
			}
			if !r.send(s.p, s.cEnd, rc.tag+" OK listed\r\n") {
				return
			}
			l, err := cmd.Collect()
			var got []string
			for _, d := range l {
				got = append(got, d.Mailbox)
			}
			if err != nil || fmt.Sprint(got) != fmt.Sprint(want) {
				r.fail("wrong-data@LIST", fmt.Sprintf("%s: LIST answered with %v and OK, the command received %v (err %v)", at, want, got, err), nil)
				return
			}
		case 4: // STATUS
			cmd := s.c.Status("Work", &imap.StatusOptions{NumMessages: true})
			rc, ok := read()
			if !ok {
				return
			}
			nm := uint32(rng.Intn(1000))
			out := randOutcome(rng)
			if out.typ == "OK" {
				if !r.send(s.p, s.cEnd, fmt.Sprintf("* STATUS Work (MESSAGES %d)\r\n", nm)) {
					return
				}
			}
			if !r.send(s.p, s.cEnd, tagged(rc.tag, out, "")) {
				return
			}
			d, err := cmd.Wait()
			if msg := statusMismatch(err, out); msg != "" {
				r.fail("wrong-status", at+": STATUS: "+msg, nil)
				return
			}
			if out.typ == "OK" && (d == nil || d.NumMessages == nil || *d.NumMessages != nm) {
				r.fail("wrong-data@STATUS", fmt.Sprintf("%s: STATUS (MESSAGES %d) was not delivered to the command", at, nm), nil)
				return
			}
		case 5: // FETCH answered with an empty flag list
			if s.ref.mbox.num == 0 {
				continue
			}
			seq := uint32(1 + rng.Intn(int(s.ref.mbox.num)))
			cmd := s.c.Fetch(imap.SeqSetNum(seq), &imap.FetchOptions{Flags: true})
			rc, ok := read()
			if !ok {
				return
			}
			if !r.send(s.p, s.cEnd, fmt.Sprintf("* %d FETCH (FLAGS ())\r\n", seq)) || !r.send(s.p, s.cEnd, rc.tag+" OK fetched\r\n") {
				return
			}
			msgs, err := cmd.Collect()
			if err != nil || len(msgs) != 1 || msgs[0].SeqNum != seq || len(msgs[0].Flags) != 0 {
				r.fail("wrong-data@FETCH", fmt.Sprintf("%s: FETCH %d answered with FLAGS () and OK, the command received %d messages (err %v)", at, seq, len(msgs), err), nil)
				return
			}
		case 6: // re-select now and then
			if rng.Intn(6) != 0 {
				continue
			}
			if !r.doSelect(s, rng, []string{"INBOX", "Work"}[rng.Intn(2)], outcome{typ: "OK", text: "selected"}, rng.Intn(2) == 0) {
				return
			}
		default: // a refused command in between must not disturb anything
			cmd := s.c.Create(fmt.Sprintf("new%d", i), nil)
			rc, ok := read()
			if !ok {
				return
			}
			out := randOutcome(rng)
			if !r.send(s.p, s.cEnd, tagged(rc.tag, out, "")) {
				return
			}
			if msg := statusMismatch(cmd.Wait(), out); msg != "" {
				r.fail("wrong-status", at+": CREATE: "+msg, nil)
				return
			}
		}
		if !r.compare(s.c, s.ref, at) {
			return
		}
	}
	r.w.Metric("long_lived_connections", 1)
	r.w.Metric("long_lived_commands", int64(n))
}

func body(w *hx.W) {
	rng := w.Rand("c12")
	for k := 0; k < w.Pick(1, 4); k++ {
		r := &runner{w: w, class: "long-lived"}
		endLong := w.Begin("script/long-lived", "long-lived connection", 900*time.Second)
		r.longLived(rng, w.Pick(1500, 4000))
		endLong()
		w.CaseStr(fmt.Sprintf("long-lived/%d/%d", w.Shard, k))
		w.Class(r.class)
	}
	n := w.Pick(5000, 100000)
	for i := 0; i < n; i++ {
		r := &runner{w: w}
		if i%5 == 3 {
			r.respell = rand.New(rand.NewSource(rng.Int63()))
			w.Metric("scripts_with_respelled_response_keywords", 1)
		}
		// a script that does not finish (a client call blocked forever although the scripted server
		// answered everything) is a violation with the goroutine dump as witness, not a timeout of the run
		classes := []string{"pipelined", "pipelined", "pipelined", "pipelined", "same-type-in-order", "expunge-command", "state-sequence", "state-sequence", "refused-literal", "fetch-star"}
		endScript := w.Begin("script/"+classes[i%10], fmt.Sprintf("script #%d of class %s", i, classes[i%10]), 240*time.Second)
		switch {
		case i%10 < 4:
			r.class = "pipelined"
			r.pipelined(rng)
		case i%50 == 9:
			r.class = "state-at-completion"
			r.stateAtCompletion(rng)
		case i%10 == 4:
			r.class = "same-type-in-order"
			r.sameTypeInOrder(rng)
		case i%10 == 5:
			r.class = "expunge-command"
			r.expungeCommand(rng)
		case i%10 < 8:
			r.class = "state-sequence"
			r.stateSequence(rng)
		case i%10 == 8:
			r.class = "refused-literal"
			r.refusedLiteral(rng)
		default:
			r.class = "fetch-star"
			r.fetchStar(rng)
		}
		endScript()
		w.CaseStr(strings.Join(r.hist, "\n"))
		w.Class(r.class)
		w.Metric("scripted_steps", int64(len(r.hist)))
		if i < 3 {
			w.Sample(map[string]interface{}{"class": r.class, "transcript": r.hist})
		}
	}
}

func main() {
	hx.Main(hx.Spec{
		ID:    "C12",
		Level: "exploration",
		Rule:  "scripts for a conformant scripted server: (a) 2..6 pipelined commands that are unambiguous per RFC 9051 §5.5 (STATUS x2 on distinct mailboxes, LIST, NAMESPACE, NOOP, CREATE, APPEND, one of FETCH / UID FETCH / STORE, SEARCH or UID SEARCH/ESEARCH, COPY) with a random outcome each (OK with or without text / NO / BAD, with and without response codes), answered in a random interleaving that keeps each command's own order, with unilateral EXISTS / EXPUNGE / FLAGS / PERMANENTFLAGS in between; (b) state sequences of SELECT (OK / NO / BAD, with and without [CLOSED]), UNSELECT / CLOSE, STATUS, unilateral updates, LOGOUT; (c) tagged refusal of a synchronising literal with another command in flight; (d) FETCH with sets containing '*'; (e) 2..4 commands of the same type (SEARCH, LIST, NAMESPACE, STATUS on one mailbox) behind commands that complete first, answered in issue order; (g) LOGIN / SELECT / UNSELECT / UNAUTHENTICATE / LOGOUT loops checking State()/Mailbox() immediately after Wait returns, without barrier; (f) EXPUNGE / UID EXPUNGE / MOVE commands whose EXPUNGE data must reach the command and the mirrored count; (h) long-lived connections: 1500..4000 commands (NOOP with unilateral updates, LIST, STATUS, FETCH, CREATE with random outcomes, re-SELECT) on one connection, answers in the empty forms FLAGS () / LIST () / PERMANENTFLAGS (); distinct = distinct transcript",
		Assumptions: []string{
			"the client's reader being parked with nothing pending means everything sent so far has been processed; State()/Mailbox() are compared at exactly these points, after every scripted line",
			"reference interpretation: greeting OK => not authenticated, PREAUTH => authenticated; LOGIN OK => authenticated; [CLOSED] => authenticated and no mailbox; SELECT OK => selected with the EXISTS / FLAGS / PERMANENTFLAGS sent for it; SELECT NO => no mailbox selected; SELECT BAD => unchanged; UNSELECT / CLOSE OK => authenticated; LOGOUT OK => logout; unilateral EXISTS / EXPUNGE / FLAGS / PERMANENTFLAGS update the summary",
			"the scripted server never sends EXPUNGE while a non-UID FETCH / STORE / SEARCH is in progress",
		},
		RaceFrames: []string{"imapclient.", "imapwire."},
		Shards:     func(string) int { return 12 },
		WallQuick:  20 * time.Minute, WallThorough: 120 * time.Minute,
	}, body)
}
