// C08 — on-the-wire mailbox view consistency across sessions.
//
// Monitor: sequential histories by 1..4 sessions sharing mailboxes over raw
// connections against the real server + imapmemserver. A per-connection observer
// (internal/memsim) rebuilds the view each connection has been told about from
// EXISTS / EXPUNGE / FETCH responses alone and asserts on every line: sequence
// numbers within the announced count, no EXPUNGE while answering non-UID
// FETCH/STORE/SEARCH, the count shrinks only through EXPUNGE, UIDs consistent
// with positions; after every NOOP the rebuilt view must equal the mailbox's
// real content (listed through a fresh view on a probe connection).
package main

import (
	"encoding/json"
	"fmt"
	"strings"
	"time"

	"github.com/emersion/go-imap/v2/verif/internal/hx"
	"github.com/emersion/go-imap/v2/verif/internal/memsim"
)

type rep struct {
	w     *hx.W
	print bool
}

func sigOf(class string) string { return class }

func (r *rep) Violation(group, class, detail string, transcript []string, cfg memsim.Cfg) {
	if group != memsim.GroupView {
		// mailbox semantics and crashes are C09's subject; the history is cut
		r.w.Metric("histories_cut_by_model_difference", 1)
		return
	}
	if r.print {
		for _, l := range transcript {
			fmt.Println(l)
		}
	}
	if len(detail) > 900 {
		detail = detail[:900] + "..."
	}
	r.w.Violation(sigOf(class), fmt.Sprintf("%s: %s", class, detail), map[string]interface{}{"class": class, "detail": detail, "transcript": transcript, "cfg": cfg})
}
func (r *rep) ConcViolation(group, class, detail string, extra map[string]interface{}) {
	if group != memsim.GroupView {
		r.w.Metric("concurrent_histories_cut_by_model_difference", 1)
		return // C09's subject
	}
	r.w.Violation(class, detail, extra)
}
func (r *rep) Notef(f string, a ...interface{}) { r.w.Notef(f, a...) }
func (r *rep) Class(c string)                   { r.w.Class(c) }
func (r *rep) Metric(name string, n int64)      { r.w.Metric(name, n) }

func body(w *hx.W) {
	rng := w.Rand("c09")
	n := w.Pick(3000, 40000)
	r := &rep{w: w}
	for i := 0; i < n; i++ {
		seed := rng.Int63()
		if !w.Mine(i) {
			continue
		}
		cfg := memsim.Cfg{Seed: seed, Sessions: 1 + i%4, Boxes: 2 + i%2, Steps: 60, Rev2: i%2 == 0, NoopBias: []int{30, 80, 200}[i%3], Profile: "view", InitMsgs: 4 + i%9, WithJunk: false, WithAdmin: i%7 == 0}
		if i%10 == 9 {
			// a session that falls hundreds of updates behind and then issues NOOP
			cfg.Sleeper, cfg.Steps, cfg.Sessions, cfg.Boxes, cfg.NoopBias = true, 320, 2+i%3, 2, 60
			w.Metric("histories_with_a_sleeping_session", 1)
		}
		done := w.Begin(fmt.Sprintf("history-%d", seed), fmt.Sprintf("history seed=%d sessions=%d rev2=%v sleeper=%v steps=%d", seed, cfg.Sessions, cfg.Rev2, cfg.Sleeper, cfg.Steps), 300*time.Second)
		memsim.Run(cfg, r)
		done()
		w.Case(uint64(seed))
	}
	_ = strings.ToUpper
	// concurrent histories: the per-connection wire invariants hold under any interleaving, and so
	// does the view after a NOOP issued once everybody has stopped
	crng := w.Rand("c08-concurrent")
	nc := w.Pick(120, 1500)
	for i := 0; i < nc; i++ {
		seed := crng.Int63()
		sessions := 2 + crng.Intn(7)
		ops := 25 + crng.Intn(30)
		nb := 2 + crng.Intn(2)
		procs := []int{1, 2, 4, 16}[crng.Intn(4)]
		yield := []int{0, 50, 200, 500}[crng.Intn(4)]
		if !w.Mine(i) {
			continue
		}
		done := w.Begin("concurrent", fmt.Sprintf("concurrent history seed=%d sessions=%d ops=%d", seed, sessions, ops), 600*time.Second)
		memsim.ConcurrentRun(r, seed, sessions, ops, nb, procs, yield)
		done()
		w.Case(uint64(seed))
		w.Class(fmt.Sprintf("concurrent/sessions=%d/procs=%d/yield=%d", sessions, procs, yield))
	}
}

func replay(w *hx.W, raw json.RawMessage) {
	var v struct {
		Cfg memsim.Cfg `json:"cfg"`
	}
	if err := json.Unmarshal(raw, &v); err != nil {
		fmt.Println("cannot parse replay:", err)
		return
	}
	memsim.Verbose = true
	memsim.Run(v.Cfg, &rep{w: w, print: true})
}

func main() {
	hx.Main(hx.Spec{
		ID:    "C08",
		Level: "exploration",
		Rule:  "seeded histories of 60 commands (APPEND / SELECT / EXAMINE / STORE / EXPUNGE / UID EXPUNGE / COPY / MOVE / FETCH / SEARCH / NOOP / CHECK / IDLE / CLOSE / UNSELECT, UID and non-UID forms, numbers, ranges, '*', 'n:*', '$') issued one at a time by 1..4 sessions over 2..3 shared mailboxes, with NOOP probability 3%, 8% or 20% per step so that views stay stale for long stretches; IMAP4rev2 enabled in every second history",
		Assumptions: []string{
			"the real content of a mailbox is what a fresh view lists (EXAMINE + UID SEARCH ALL on a dedicated probe connection)",
			"new positions announced by EXISTS are identified with the next UIDs delivered to the mailbox (histories are sequential, so the order of deliveries is known); when the mailbox content itself differs from the reference model the discrepancy is attributed to C09, not reported here",
			"leaving IDLE is not treated as NOOP: the property demands the equality after NOOP only",
		},
		Replay:     replay,
		RaceFrames: []string{"imapserver.", "imapmemserver.", "imapwire."},
		Shards:     func(string) int { return 14 },
		WallQuick:  20 * time.Minute, WallThorough: 180 * time.Minute,
	}, body)
}
