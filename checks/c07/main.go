// C07 — sequence-number translation between a client's view and the mailbox.
//
// Monitor: the harness owns an imapserver.MailboxTracker and mirrors the true
// mailbox M as a list of unique message ids. Every session is a real server
// connection whose stub backend delegates Poll to its SessionTracker; the
// client's view V is reconstructed ONLY from the wire output (EXISTS / EXPUNGE /
// FETCH lines). After every step the oracle probes DecodeSeqNum for every
// number of every view and EncodeSeqNum for every number of the mailbox, and
// checks the emitted updates against the expected per-session event list
// (order, expunge permission, numbering).
package main

import (
	"fmt"
	"math/rand"
	"runtime"
	"strconv"
	"strings"
	"sync"
	"time"

	imap "github.com/emersion/go-imap/v2"
	"github.com/emersion/go-imap/v2/imapserver"
	"github.com/emersion/go-imap/v2/verif/internal/hx"
	"github.com/emersion/go-imap/v2/verif/internal/kit"
	"github.com/emersion/go-imap/v2/verif/internal/wiretok"
)

type event struct {
	kind  string // exists | expunge | fetch | mboxflags
	ids   []int  // exists: the new message ids; expunge/fetch: one id
	flags string
}

type session struct {
	name    string
	st      *imapserver.SessionTracker
	raw     *kit.Raw
	view    []int   // V: message ids the client knows, in order
	pending []event // events queued for this session and not yet delivered
	closed  bool
	nTag    int
}

type world struct {
	w       *hx.W
	srv     *kit.Server
	tracker *imapserver.MailboxTracker
	M       []int
	nextID  int
	sess    []*session
	hist    []string
	bad     bool
	// conc: a mutator goroutine changes the mailbox while another one polls; mu then makes each
	// mailbox operation (tracker call + expected-event bookkeeping) and each processing of a poll's
	// output atomic, so that the order of expected events is the order the tracker saw
	conc bool
	mu   sync.Mutex
}

func (wd *world) lock() {
	if wd.conc {
		wd.mu.Lock()
	}
}

func (wd *world) unlock() {
	if wd.conc {
		wd.mu.Unlock()
	}
}

func pos(list []int, id int) uint32 {
	for i, v := range list {
		if v == id {
			return uint32(i + 1)
		}
	}
	return 0
}

func (wd *world) fail(class, detail string) {
	last := ""
	if len(wd.hist) > 0 {
		last = wd.hist[len(wd.hist)-1]
		// strip arguments for the signature
		if i := strings.IndexByte(last, '('); i > 0 {
			last = last[:i]
		}
	}
	shape := pendingShape(wd)
	wd.w.Violation(class+"@"+last+"/"+shape, fmt.Sprintf("%s after [%s]: %s", class, strings.Join(wd.hist, "; "), detail),
		map[string]interface{}{"history": wd.hist, "detail": detail})
	wd.bad = true
}

// pendingShape summarises the pending queues (kinds only) for signatures / classes.
func pendingShape(wd *world) string {
	var parts []string
	for _, s := range wd.sess {
		if s.closed {
			continue
		}
		var sb strings.Builder
		for _, e := range s.pending {
			switch e.kind {
			case "exists":
				if len(e.ids) > 1 {
					sb.WriteByte('A') // append of more than one
				} else {
					sb.WriteByte('a')
				}
			case "expunge":
				sb.WriteByte('x')
			case "fetch":
				sb.WriteByte('f')
			default:
				sb.WriteByte('m')
			}
		}
		q := sb.String()
		if len(q) > 6 {
			q = q[:6] + "+"
		}
		parts = append(parts, q)
	}
	return strings.Join(parts, "|")
}

func newWorld(w *hx.W, srv *kit.Server, n int) *world {
	wd := &world{w: w, srv: srv, tracker: imapserver.NewMailboxTracker(uint32(n))}
	for i := 0; i < n; i++ {
		wd.nextID++
		wd.M = append(wd.M, wd.nextID)
	}
	return wd
}

func (wd *world) openSession() *session {
	s := &session{name: fmt.Sprintf("s%d", len(wd.sess))}
	s.raw = wd.srv.Dial()
	s.raw.Sync()
	s.raw.SendStr("a LOGIN u p\r\n")
	s.raw.Sync()
	sessions := wd.srv.B.Sessions()
	stub := sessions[len(sessions)-1]
	s.st = wd.tracker.NewSession()
	stub.User = s
	s.view = append([]int(nil), wd.M...)
	s.raw.SendStr("b SELECT box\r\n")
	s.raw.Sync()
	wd.sess = append(wd.sess, s)
	wd.hist = append(wd.hist, "open "+s.name)
	return s
}

func (wd *world) closeSession(s *session) {
	s.raw.SendStr("z UNSELECT\r\n") // stub Unselect closes the SessionTracker
	s.raw.Sync()
	s.raw.Close()
	s.closed = true
	wd.hist = append(wd.hist, "close "+s.name)
}

func handler(ss *kit.Sess, c *kit.Call, w *kit.Writers) kit.Result {
	s, _ := ss.User.(*session)
	switch c.Method {
	case "Poll":
		if s != nil && s.st != nil && !s.closed {
			return kit.Result{Err: s.st.Poll(w.Update, c.AllowExpunge)}
		}
		return kit.Result{}
	case "Unselect":
		if s != nil && s.st != nil {
			s.st.Close()
			s.st = nil
		}
		return kit.Result{}
	case "Select":
		n := uint32(0)
		if s != nil {
			n = uint32(len(s.view))
		}
		return kit.Result{Select: &imap.SelectData{NumMessages: n, UIDNext: 1000, UIDValidity: 1}}
	case "Fetch":
		return kit.Result{}
	}
	return kit.DefaultHandler(ss, c, w)
}

// ---- operations on the mailbox ---------------------------------------------

func (wd *world) appendK(k int) {
	wd.lock()
	defer wd.unlock()
	var ids []int
	for i := 0; i < k; i++ {
		wd.nextID++
		ids = append(ids, wd.nextID)
	}
	wd.M = append(wd.M, ids...)
	wd.tracker.QueueNumMessages(uint32(len(wd.M)))
	for _, s := range wd.sess {
		if !s.closed {
			s.pending = append(s.pending, event{kind: "exists", ids: ids})
		}
	}
	wd.hist = append(wd.hist, fmt.Sprintf("append(+%d)", k))
}

func (wd *world) expunge(seq int) {
	wd.lock()
	defer wd.unlock()
	if seq > len(wd.M) {
		return
	}
	id := wd.M[seq-1]
	wd.tracker.QueueExpunge(uint32(seq))
	wd.M = append(wd.M[:seq-1:seq-1], wd.M[seq:]...)
	for _, s := range wd.sess {
		if !s.closed {
			s.pending = append(s.pending, event{kind: "expunge", ids: []int{id}})
		}
	}
	wd.hist = append(wd.hist, fmt.Sprintf("expunge(%d)", seq))
}

func (wd *world) flags(seq int, src *session, fl string) {
	wd.lock()
	defer wd.unlock()
	if seq > len(wd.M) {
		return
	}
	id := wd.M[seq-1]
	var source *imapserver.SessionTracker
	if src != nil {
		source = src.st
	}
	wd.tracker.QueueMessageFlags(uint32(seq), imap.UID(id), []imap.Flag{imap.Flag(fl)}, source)
	for _, s := range wd.sess {
		if !s.closed && s != src {
			s.pending = append(s.pending, event{kind: "fetch", ids: []int{id}, flags: fl})
		}
	}
	sn := "nil"
	if src != nil {
		sn = src.name
	}
	wd.hist = append(wd.hist, fmt.Sprintf("flags(%d,src=%s)", seq, sn))
}

func (wd *world) mboxFlags() {
	wd.lock()
	defer wd.unlock()
	wd.tracker.QueueMailboxFlags([]imap.Flag{imap.FlagSeen, "kw"})
	for _, s := range wd.sess {
		if !s.closed {
			s.pending = append(s.pending, event{kind: "mboxflags"})
		}
	}
	wd.hist = append(wd.hist, "mailboxflags")
}

// poll issues NOOP (expunges allowed) or a non-UID FETCH (not allowed) on the
// session's connection and applies the emitted updates to the view.
func (wd *world) poll(s *session, allowExpunge bool) {
	s.nTag++
	tag := fmt.Sprintf("p%d", s.nTag)
	if allowExpunge {
		s.raw.SendStr(tag + []string{" NOOP\r\n", " noop\r\n", " NoOp\r\n"}[s.nTag%3])
		wd.lock()
		wd.hist = append(wd.hist, "poll-all "+s.name)
		wd.unlock()
	} else {
		// (command names are case-insensitive atoms)
		s.raw.SendStr(tag + []string{" FETCH 1 FLAGS\r\n", " fetch 1 FLAGS\r\n", " Fetch 1 flags\r\n", " STORE 1 +FLAGS.SILENT (x)\r\n", " store 1 +flags.silent (x)\r\n", " SEARCH ALL\r\n", " sEARCH all\r\n"}[s.nTag%7])
		wd.lock()
		wd.hist = append(wd.hist, "poll-noexpunge "+s.name)
		wd.unlock()
	}
	out, cond := s.raw.Sync()
	if cond != "parked" {
		wd.fail("poll-connection", fmt.Sprintf("connection %s during poll: %q", cond, out))
		return
	}
	lines, _ := kit.ParseResponses(out)
	tagged := kit.Tagged(lines)
	if len(tagged) != 1 || tagged[0].Status != "OK" {
		wd.fail("poll-failed", fmt.Sprintf("poll answered %q (log: %v)", out, wd.srv.Log.Lines()))
		return
	}
	wd.lock()
	defer wd.unlock()
	for _, l := range lines {
		if l.Tag != "*" || l.Status != "" {
			continue
		}
		wd.w.Metric("updates_observed", 1)
		switch l.Kind {
		case "EXISTS":
			if len(s.pending) == 0 || s.pending[0].kind != "exists" {
				wd.fail("unexpected-update", fmt.Sprintf("%s got %q but the next expected update is %v", s.name, strings.TrimSpace(string(l.Raw)), headOf(s.pending)))
				return
			}
			// an EXISTS may announce the messages of several consecutive appends at once
			// (merging count updates is legitimate): consume appended ids in order
			need := int(l.Num) - len(s.view)
			if need < 0 {
				wd.fail("exists-count", fmt.Sprintf("%s got EXISTS %d with %d messages already in its view", s.name, l.Num, len(s.view)))
				return
			}
			for need > 0 {
				if len(s.pending) == 0 || s.pending[0].kind != "exists" {
					wd.fail("exists-count", fmt.Sprintf("%s got EXISTS %d: that is %d more messages than were appended before the next pending update %v (view has %d)", s.name, l.Num, need, headOf(s.pending), len(s.view)))
					return
				}
				ev := &s.pending[0]
				k := len(ev.ids)
				if k > need {
					k = need
				}
				s.view = append(s.view, ev.ids[:k]...)
				ev.ids = ev.ids[k:]
				need -= k
				if len(ev.ids) == 0 {
					s.pending = s.pending[1:]
				}
			}
		case "EXPUNGE":
			if !allowExpunge {
				wd.fail("expunge-when-disallowed", fmt.Sprintf("%s got %q while answering a non-UID FETCH", s.name, strings.TrimSpace(string(l.Raw))))
				return
			}
			if len(s.pending) == 0 || s.pending[0].kind != "expunge" {
				wd.fail("unexpected-update", fmt.Sprintf("%s got %q but the next expected update is %v", s.name, strings.TrimSpace(string(l.Raw)), headOf(s.pending)))
				return
			}
			ev := s.pending[0]
			s.pending = s.pending[1:]
			if l.Num < 1 || int(l.Num) > len(s.view) {
				wd.fail("expunge-out-of-view", fmt.Sprintf("%s got EXPUNGE %d with %d messages in its view", s.name, l.Num, len(s.view)))
				return
			}
			if s.view[l.Num-1] != ev.ids[0] {
				wd.fail("expunge-wrong-message", fmt.Sprintf("%s got EXPUNGE %d which is message id %d in its view; message id %d was expunged", s.name, l.Num, s.view[l.Num-1], ev.ids[0]))
				return
			}
			s.view = append(s.view[:l.Num-1:l.Num-1], s.view[l.Num:]...)
		case "FETCH":
			if len(s.pending) == 0 || s.pending[0].kind != "fetch" {
				wd.fail("unexpected-update", fmt.Sprintf("%s got %q but the next expected update is %v", s.name, strings.TrimSpace(string(l.Raw)), headOf(s.pending)))
				return
			}
			ev := s.pending[0]
			s.pending = s.pending[1:]
			uid := fetchUID(l)
			if uid != ev.ids[0] {
				wd.fail("fetch-wrong-uid", fmt.Sprintf("%s got %q, expected a flag update for message id %d", s.name, strings.TrimSpace(string(l.Raw)), ev.ids[0]))
				return
			}
			if l.Num < 1 || int(l.Num) > len(s.view) || s.view[l.Num-1] != uid {
				wd.fail("fetch-wrong-seq", fmt.Sprintf("%s got FETCH %d for message id %d, which is at position %d of its view (%d messages)", s.name, l.Num, uid, pos(s.view, uid), len(s.view)))
				return
			}
		case "FLAGS":
			if len(s.pending) == 0 || s.pending[0].kind != "mboxflags" {
				wd.fail("unexpected-update", fmt.Sprintf("%s got %q but the next expected update is %v", s.name, strings.TrimSpace(string(l.Raw)), headOf(s.pending)))
				return
			}
			s.pending = s.pending[1:]
		}
	}
	if wd.conc {
		// (what was queued after the server dequeued is legitimately still pending)
		return
	}
	// what must have been delivered
	if allowExpunge {
		if len(s.pending) != 0 {
			wd.fail("updates-withheld", fmt.Sprintf("%s: %d updates still pending after a poll that allows everything: %v", s.name, len(s.pending), headOf(s.pending)))
			return
		}
		if fmt.Sprint(s.view) != fmt.Sprint(wd.M) {
			wd.fail("view-differs-from-mailbox", fmt.Sprintf("%s view %v, mailbox %v", s.name, s.view, wd.M))
		}
	} else if len(s.pending) > 0 && s.pending[0].kind != "expunge" {
		wd.fail("updates-withheld", fmt.Sprintf("%s: next pending update %v is not an expunge but was not delivered", s.name, headOf(s.pending)))
	}
}

func headOf(p []event) string {
	if len(p) == 0 {
		return "<none>"
	}
	return fmt.Sprintf("%s%v", p[0].kind, p[0].ids)
}

func fetchUID(l kit.RespLine) int {
	if len(l.Toks) < 4 || l.Toks[3].Kind != wiretok.List {
		return -1
	}
	items := l.Toks[3].L
	for i := 0; i+1 < len(items); i++ {
		if items[i].IsAtom("UID") {
			v, _ := strconv.Atoi(items[i+1].S)
			return v
		}
	}
	return -1
}

// probe checks Decode/Encode for every number of every view.
func (wd *world) probe() {
	for _, s := range wd.sess {
		if s.closed || s.st == nil {
			continue
		}
		for i := 1; i <= len(s.view); i++ {
			want := pos(wd.M, s.view[i-1])
			got := s.st.DecodeSeqNum(uint32(i))
			wd.w.Metric("probes", 1)
			if got != want {
				wd.fail("decode-seqnum", fmt.Sprintf("%s: DecodeSeqNum(%d)=%d, message id %d is at position %d of the mailbox (view %v, mailbox %v)", s.name, i, got, s.view[i-1], want, s.view, wd.M))
				return
			}
		}
		for j := 1; j <= len(wd.M); j++ {
			want := pos(s.view, wd.M[j-1])
			got := s.st.EncodeSeqNum(uint32(j))
			wd.w.Metric("probes", 1)
			if got != want {
				wd.fail("encode-seqnum", fmt.Sprintf("%s: EncodeSeqNum(%d)=%d, message id %d is at position %d of the client's view (view %v, mailbox %v)", s.name, j, got, wd.M[j-1], want, s.view, wd.M))
				return
			}
		}
	}
	wd.w.MetricMax("max_pending_queue", int64(maxPending(wd)))
}

func maxPending(wd *world) int {
	m := 0
	for _, s := range wd.sess {
		if len(s.pending) > m {
			m = len(s.pending)
		}
	}
	return m
}

func (wd *world) cleanup() {
	for _, s := range wd.sess {
		if !s.closed {
			s.raw.Close()
		}
	}
}

// ---- op alphabet for enumeration -------------------------------------------

// op codes: 0 append+1, 1 append+2, 2 append+3, 10+k expunge(k+1), 20+k flags(k+1,nil), 30+k flags(k+1, src=s0)
// 40 mboxflags, 50+s poll-all(s), 60+s poll-noexpunge(s), 70 open session, 80+s close session
func (wd *world) apply(op int) bool {
	switch {
	case op < 10:
		wd.appendK(op + 1)
	case op < 20:
		k := op - 10 + 1
		if k > len(wd.M) {
			return false
		}
		wd.expunge(k)
	case op < 30:
		k := op - 20 + 1
		if k > len(wd.M) {
			return false
		}
		wd.flags(k, nil, "\\Seen")
	case op < 40:
		k := op - 30 + 1
		if k > len(wd.M) || wd.sess[0].closed {
			return false
		}
		wd.flags(k, wd.sess[0], "\\Flagged")
	case op == 40:
		wd.mboxFlags()
	case op < 60:
		s := op - 50
		if s >= len(wd.sess) || wd.sess[s].closed {
			return false
		}
		wd.poll(wd.sess[s], true)
	case op < 70:
		s := op - 60
		if s >= len(wd.sess) || wd.sess[s].closed {
			return false
		}
		wd.poll(wd.sess[s], false)
	case op == 70:
		if len(wd.sess) >= 4 {
			return false
		}
		wd.openSession()
	case op < 90:
		s := op - 80
		if s >= len(wd.sess) || wd.sess[s].closed {
			return false
		}
		wd.closeSession(wd.sess[s])
	}
	return true
}

func runHistory(w *hx.W, srv *kit.Server, n0 int, nsess int, ops []int) {
	wd := newWorld(w, srv, n0)
	defer wd.cleanup()
	for i := 0; i < nsess; i++ {
		wd.openSession()
	}
	wd.probe()
	for _, op := range ops {
		if wd.bad {
			break
		}
		if !wd.apply(op) {
			continue
		}
		if wd.bad {
			break
		}
		wd.probe()
	}
	if !wd.bad {
		// final: every session polls everything and must see the mailbox
		for _, s := range wd.sess {
			if !s.closed && !wd.bad {
				wd.poll(s, true)
				wd.probe()
			}
		}
	}
	w.Class("queue-shape/" + pendingShapeClass(wd))
	if p := srv.Log.Panics(); len(p) > 0 && !wd.bad {
		wd.fail("server-panic", p[0])
	}
}

// concurrentHistory: one goroutine keeps changing the mailbox while another keeps polling the
// sessions. Every emitted update must still be the next one of that session's expected sequence
// (nothing lost, duplicated or reordered), correctly numbered for its view; once the mutator has
// stopped, a final poll must bring every view to the mailbox.
func concurrentHistory(w *hx.W, srv *kit.Server, seed int64, n0, nsess, nops int) {
	wd := newWorld(w, srv, n0)
	defer wd.cleanup()
	for i := 0; i < nsess; i++ {
		wd.openSession()
	}
	wd.conc = true
	stop := make(chan struct{})
	var wg sync.WaitGroup
	wg.Add(1)
	go func() {
		defer wg.Done()
		r := rand.New(rand.NewSource(seed))
		for i := 0; i < nops; i++ {
			switch r.Intn(10) {
			case 0, 1, 2:
				wd.appendK(1 + r.Intn(3))
			case 3, 4:
				wd.expunge(1 + r.Intn(8))
			case 5, 6, 7:
				wd.flags(1+r.Intn(8), nil, "\\Seen")
			case 8:
				wd.flags(1+r.Intn(8), wd.sess[0], "\\Flagged")
			default:
				wd.mboxFlags()
			}
			if r.Intn(3) == 0 {
				runtime.Gosched()
			}
		}
		close(stop)
	}()
	pr := rand.New(rand.NewSource(seed + 1))
polling:
	for !wd.bad {
		select {
		case <-stop:
			break polling
		default:
		}
		wd.poll(wd.sess[pr.Intn(len(wd.sess))], pr.Intn(3) != 0)
	}
	wg.Wait()
	wd.conc = false
	for _, s := range wd.sess {
		if !wd.bad {
			wd.poll(s, true)
			wd.probe()
		}
	}
	w.Metric("concurrent_histories", 1)
	w.Class("concurrent")
	if p := srv.Log.Panics(); len(p) > 0 && !wd.bad {
		wd.fail("server-panic", p[0])
	}
}

func pendingShapeClass(wd *world) string {
	return fmt.Sprintf("sessions%d/mailbox%d", len(wd.sess), len(wd.M))
}

func body(w *hx.W) {
	newSrv := func() *kit.Server {
		s := kit.NewServer(kit.ServerCfg{Caps: imap.CapSet{imap.CapIMAP4rev1: {}}, InsecureAuth: true})
		s.B.Handler = handler
		return s
	}
	srv := newSrv()
	defer func() { srv.Close() }()
	// the recording backend keeps every session and call it has seen: a server object is retired after
	// 1000 histories so that the cost of a history does not grow with the number of histories before it
	used := 0
	turn := func() {
		if used++; used%1000 == 0 {
			if p := srv.Log.Panics(); len(p) > 0 {
				w.Violation("server-panic", p[0], nil)
			}
			srv.Close()
			srv = newSrv()
		}
	}
	// exhaustive: all histories of length <= L over a 3-message mailbox with 2 sessions
	alphabet := []int{0, 1, 10, 11, 12, 20, 22, 30, 40, 50, 51, 60, 61}
	L := w.Pick(4, 5)
	idx := 0
	var rec func(ops []int)
	var enumerated int64
	rec = func(ops []int) {
		if len(ops) > 0 {
			idx++
			if w.Mine(idx) {
				turn()
				runHistory(w, srv, 3, 2, ops)
				enumerated++
			}
		}
		if len(ops) == L {
			return
		}
		for _, a := range alphabet {
			rec(append(ops[:len(ops):len(ops)], a))
		}
	}
	rec(nil)
	w.Enumerated(enumerated)
	w.Metric("exhaustive_histories", enumerated)
	w.Sample(map[string]interface{}{"kind": "exhaustive histories", "alphabet": "append(+1), append(+2), expunge(1..3), flags(1|3, src nil|s0), mailboxflags, poll-all(s0|s1), poll-noexpunge(s0|s1)", "max_length": L, "mailbox": 3, "sessions": 2})
	// random long histories
	rng := w.Rand("random")
	n := w.Pick(400, 6000)
	for i := 0; i < n; i++ {
		n0 := rng.Intn(13)
		ns := 1 + rng.Intn(4)
		var ops []int
		for k := 4 + rng.Intn(30); k > 0; k-- {
			switch rng.Intn(12) {
			case 0, 1:
				ops = append(ops, rng.Intn(4)) // append +1..+4
			case 2, 3, 4:
				ops = append(ops, 10+rng.Intn(8))
			case 5:
				ops = append(ops, 20+rng.Intn(8))
			case 6:
				ops = append(ops, 30+rng.Intn(8))
			case 7:
				ops = append(ops, 40)
			case 8:
				ops = append(ops, 50+rng.Intn(4))
			case 9, 10:
				ops = append(ops, 60+rng.Intn(4))
			case 11:
				if rng.Intn(2) == 0 {
					ops = append(ops, 70)
				} else {
					ops = append(ops, 80+rng.Intn(4))
				}
			}
		}
		turn()
		runHistory(w, srv, n0, ns, ops)
		w.CaseStr(fmt.Sprintf("%d|%d|%v", n0, ns, ops))
		if i == 0 {
			w.Sample(map[string]interface{}{"kind": "random history", "initial_messages": n0, "sessions": ns, "op_codes": ops})
		}
	}
	// long queues: the last session is never polled before the end, so that hundreds of updates
	// pile up for it (the exhaustive and random histories above keep queues short)
	nl := w.Pick(60, 900)
	for i := 0; i < nl; i++ {
		n0 := rng.Intn(13)
		var ops []int
		for k := 120 + rng.Intn(200); k > 0; k-- {
			switch rng.Intn(10) {
			case 0, 1, 2:
				ops = append(ops, rng.Intn(4))
			case 3, 4:
				ops = append(ops, 10+rng.Intn(8))
			case 5, 6:
				ops = append(ops, 20+rng.Intn(8))
			case 7:
				ops = append(ops, 30+rng.Intn(8))
			case 8:
				ops = append(ops, 40)
			default:
				ops = append(ops, []int{50, 60}[rng.Intn(2)]) // only session 0 polls
			}
		}
		if !w.Mine(i) {
			continue
		}
		turn()
		runHistory(w, srv, n0, 2, ops)
		w.CaseStr(fmt.Sprintf("long|%d|%v", n0, ops))
		w.Class("long-queue")
		w.Metric("long_queue_histories", 1)
	}
	// concurrent histories: mutation and polling overlap
	nc := w.Pick(120, 1500)
	for i := 0; i < nc; i++ {
		seed := rng.Int63()
		if !w.Mine(i) {
			continue
		}
		turn()
		concurrentHistory(w, srv, seed, rng.Intn(10), 1+rng.Intn(3), 150+rng.Intn(250))
		w.Case(uint64(seed))
	}
	_ = rand.Int
}

func main() {
	hx.Main(hx.Spec{
		ID:    "C07",
		Level: "exploration",
		Rule: "histories of QueueNumMessages(+k, k=1..4) / QueueExpunge / QueueMessageFlags (with and without source) / QueueMailboxFlags / session open / close / Poll(allowExpunge true|false): every history of length <= L over a 13-operation alphabet on a 3-message mailbox with 2 sessions (each distinct by construction), plus seeded random histories of length 4..33 with 1..4 sessions and 0..12 initial messages (distinct by hash), plus long-queue histories (120..319 operations while one session is never polled, then polled once), plus concurrent histories (150..399 tracker operations by one goroutine while another one polls 1..3 sessions); " +
			"DecodeSeqNum/EncodeSeqNum probed for every number of every view after every step",
		Assumptions: []string{
			"every message has a unique id, passed as the UID of flag updates; client views are reconstructed only from the wire output of real server connections",
			"DecodeSeqNum is probed only on numbers of the client's view (1..|V|), EncodeSeqNum on numbers of the mailbox (1..|M|)",
			"in the exhaustive, random and long-queue histories polls are issued one at a time; in the concurrent histories one goroutine mutates while another polls, each mailbox operation and each processing of a poll's output being atomic in the harness, and only order, numbering and final convergence are demanded there",
		},
		Shards:    func(string) int { return 12 },
		WallQuick: 20 * time.Minute, WallThorough: 120 * time.Minute,
	}, body)
}
