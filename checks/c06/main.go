// C06 — server survives arbitrary input and disconnects, cleaning up exactly once.
//
// Monitors (all over a real imapserver connection with a recording stub backend):
//   - fault enumeration: for each valid multi-command transcript, the connection
//     is cut at EVERY byte offset of the client->server stream (clean EOF and
//     reset) and at every byte offset of the server->client stream (write
//     error); after each cut the server must close its side, call Session.Close
//     exactly once, stop its idle goroutine and log no panic;
//   - hostile inputs: grammar-generated, mutated and garbage commands, deep
//     nesting families (run with a 64 MB stack bound: unbounded recursion kills the
//     worker, which the supervisor reports), literal size caps (no buffered
//     argument > 4096 bytes from a literal, no Append call and no '+' above the
//     APPEND limit).
package main

import (
	"bytes"
	"encoding/base64"
	"fmt"
	"math/rand"
	"runtime"
	"sort"
	"strings"
	"sync/atomic"
	"time"

	imap "github.com/emersion/go-imap/v2"
	"github.com/emersion/go-imap/v2/imapserver"
	"github.com/emersion/go-imap/v2/verif/internal/hx"
	"github.com/emersion/go-imap/v2/verif/internal/kit"
	"github.com/emersion/go-imap/v2/verif/internal/vconn"
)

const appendLimit = 100 * 1024 * 1024

var idleRunning int64

// backend: default outcomes, FETCH streams a 6000-byte body section, LIST writes 3 entries
func handler(s *kit.Sess, c *kit.Call, w *kit.Writers) kit.Result {
	switch c.Method {
	case "Idle":
		atomic.AddInt64(&idleRunning, 1)
		defer atomic.AddInt64(&idleRunning, -1)
		if w.Update != nil {
			w.Update.WriteNumMessages(4)
		}
		<-w.Stop
		return kit.Result{}
	case "Fetch":
		live := kit.LiveFetchOptions(c)
		rw := w.Fetch.CreateMessage(1)
		rw.WriteUID(7)
		rw.WriteFlags([]imap.Flag{imap.FlagSeen})
		if live != nil {
			for _, bs := range live.BodySection {
				wc := rw.WriteBodySection(bs, 6000)
				wc.Write(bytes.Repeat([]byte("0123456789"), 600))
				wc.Close()
			}
		}
		return kit.Result{Err: rw.Close()}
	case "List":
		for _, n := range []string{"INBOX", "a/b", "日本"} {
			if err := w.List.WriteList(&imap.ListData{Mailbox: n, Delim: '/', Attrs: []imap.MailboxAttr{imap.MailboxAttrHasNoChildren}}); err != nil {
				return kit.Result{Err: err}
			}
		}
		return kit.Result{}
	}
	return kit.DefaultHandler(s, c, w)
}

type seg struct {
	data       []byte
	tlsUpgrade bool // after this segment (STARTTLS OK) switch to TLS
}

type transcript struct {
	name     string
	implicit bool // implicit TLS
	segs     []seg
}

func S(s string) seg { return seg{data: []byte(s)} }

func transcripts() []transcript {
	plainAuth := base64.StdEncoding.EncodeToString([]byte("\x00user\x00pass"))
	body := strings.Repeat("Subject: x\r\n\r\nhello world\r\n", 8)
	return []transcript{
		{name: "login-select-fetch-logout", segs: []seg{S("a1 LOGIN user pass\r\n"), S("a2 SELECT INBOX\r\n"), S("a3 FETCH 1 (FLAGS BODY[])\r\n"), S("a4 LOGOUT\r\n")}},
		{name: "login-sync-literals", segs: []seg{S("b1 LOGIN {4}\r\n"), S("user {4}\r\n"), S("pass\r\n"), S("b2 CREATE {6}\r\n"), S("folder\r\n"), S("b3 LOGOUT\r\n")}},
		{name: "append-sync", segs: []seg{S("c1 LOGIN user pass\r\n"), S(fmt.Sprintf("c2 APPEND INBOX (\\Seen) {%d}\r\n", len(body))), S(body + "\r\n"), S("c3 LOGOUT\r\n")}},
		{name: "append-nonsync-pipelined", segs: []seg{S(fmt.Sprintf("d1 LOGIN user pass\r\nd2 APPEND INBOX {%d+}\r\n%s\r\nd3 NOOP\r\nd4 LOGOUT\r\n", len(body), body))}},
		{name: "authenticate-continuation", segs: []seg{S("e1 AUTHENTICATE PLAIN\r\n"), S(plainAuth + "\r\n"), S("e2 NAMESPACE\r\n"), S("e3 LOGOUT\r\n")}},
		{name: "idle-done", segs: []seg{S("f1 LOGIN user pass\r\n"), S("f2 SELECT INBOX\r\n"), S("f3 IDLE\r\n"), S("DONE\r\n"), S("f4 IDLE\r\n"), S("DONE\r\nf5 LOGOUT\r\n")}},
		{name: "starttls-login", segs: []seg{S("g1 CAPABILITY\r\n"), {data: []byte("g2 STARTTLS\r\n"), tlsUpgrade: true}, S("g3 LOGIN user pass\r\n"), S("g4 LIST \"\" *\r\n"), S("g5 LOGOUT\r\n")}},
		{name: "pipelined", segs: []seg{S("h1 LOGIN user pass\r\nh2 NOOP\r\nh3 CAPABILITY\r\nh4 LIST \"\" \"*\"\r\nh5 STATUS box (MESSAGES UIDNEXT)\r\nh6 ENABLE IMAP4rev2\r\nh7 SELECT box\r\nh8 UID FETCH 1:* (UID BODY.PEEK[HEADER])\r\nh9 CLOSE\r\nh10 LOGOUT\r\n")}},
		{name: "selected-commands", segs: []seg{S("i1 LOGIN user pass\r\n"), S("i2 EXAMINE box\r\n"), S("i3 SEARCH SUBJECT {5+}\r\nhello UNSEEN\r\n"), S("i4 STORE 1:2 +FLAGS.SILENT (\\Deleted)\r\n"), S("i5 COPY 1 other\r\ni6 UID MOVE 2 other\r\n"), S("i7 EXPUNGE\r\ni8 UID EXPUNGE 1:5\r\n"), S("i9 UNSELECT\r\n"), S("i10 LOGOUT\r\n")}},
		{name: "implicit-tls", implicit: true, segs: []seg{S("j1 LOGIN user pass\r\n"), S("j2 SELECT INBOX\r\n"), S("j3 FETCH 1 BODY[]\r\n"), S("j4 LOGOUT\r\n")}},
		{name: "list-extended-rename", segs: []seg{S("k1 LOGIN \"user\" \"pass\"\r\n"), S("k2 LIST (SUBSCRIBED) \"\" (\"%\" \"a/*\") RETURN (CHILDREN STATUS (MESSAGES))\r\n"), S("k3 RENAME a b\r\nk4 SUBSCRIBE b\r\nk5 UNSUBSCRIBE b\r\nk6 DELETE b\r\n"), S("k7 LSUB \"\" *\r\n"), S("k8 LOGOUT\r\n")}},
		{name: "no-logout", segs: []seg{S("l1 LOGIN user pass\r\n"), S("l2 SELECT INBOX\r\n"), S("l3 IDLE\r\n")}},
	}
}

// ---- the same fault enumeration over the in-memory backend -------------------------------

type countingSess struct {
	imapserver.Session
	closes *int32
}

func (c countingSess) Close() error {
	atomic.AddInt32(c.closes, 1)
	return c.Session.Close()
}

func memTranscripts() []transcript {
	body := strings.Repeat("Subject: x\r\n\r\nhello world\r\n", 8)
	return []transcript{
		{name: "mem-fetch-literals", segs: []seg{S("a1 LOGIN user pass\r\n"), S("a2 SELECT INBOX\r\n"), S("a3 FETCH 1:3 (FLAGS UID BODY[])\r\n"), S("a4 UID FETCH 2 (BODY.PEEK[HEADER] BODY.PEEK[TEXT] ENVELOPE BODYSTRUCTURE)\r\n"), S("a5 LOGOUT\r\n")}},
		{name: "mem-store-copy-expunge", segs: []seg{S("b1 LOGIN user pass\r\n"), S("b2 SELECT INBOX\r\n"), S("b3 STORE 1:3 +FLAGS (\\Deleted)\r\n"), S("b4 COPY 1:2 Archive\r\nb5 SEARCH DELETED\r\n"), S("b6 EXPUNGE\r\n"), S(fmt.Sprintf("b7 APPEND INBOX {%d+}\r\n%s\r\n", len(body), body)), S("b8 LIST \"\" * RETURN (STATUS (MESSAGES))\r\n"), S("b9 IDLE\r\n"), S("DONE\r\n")}},
	}
}

// runMem executes a transcript against the real in-memory backend with the given fault.
func runMem(w *hx.W, t *transcript, f fault) outcome {
	var closes int32
	mem := kit.NewMem(kit.MemCfg{Caps: imap.CapSet{imap.CapIMAP4rev1: {}}, Wrap: func(s imapserver.Session) imapserver.Session { return countingSess{s, &closes} }})
	defer func() {
		done := make(chan struct{})
		go func() { mem.Close(); close(done) }()
		select {
		case <-done:
		case <-time.After(20 * time.Second):
			// (a leaked connection keeps Server.Close waiting; already reported below)
		}
	}()
	t0 := time.Date(2023, 3, 1, 12, 0, 0, 0, time.UTC)
	mem.Populate("INBOX", [][]byte{
		kit.SimpleMessage("one", "bob@example.org", strings.Repeat("first body line\r\n", 400), t0),
		kit.MultipartMessage("two", t0, bytes.Repeat([]byte("QUJDREVGR0g="), 600)),
		kit.SimpleMessage("three", "carol@example.org", "tiny", t0),
	}, nil)
	mem.Populate("Archive", nil, nil)
	sig := fmt.Sprintf("%s/%s", t.name, f.kind)
	desc := fmt.Sprintf("transcript %s (in-memory backend) fault %s at byte %d", t.name, f.kind, f.at)
	end := w.Begin(sig, desc, 240*time.Second)
	defer end()
	c, sv, log := mem.Pipe(func(c, s *vconn.Conn) {
		switch f.kind {
		case "eof":
			s.SetReadFault(f.at, vconn.FaultEOF)
		case "reset":
			s.SetReadFault(f.at, vconn.FaultReset)
		case "writeerr":
			s.SetWriteFault(f.at)
		}
	})
	r := kit.NewRaw(c, sv, log)
	// (backstop of 15 s per step: observed latencies are milliseconds; a step that neither parks nor
	// closes is not a verdict by itself — what is decided below is whether the server lets go of
	// the connection once the client is gone)
	cond := sv.WaitParked(15 * time.Second)
	for _, sg := range t.segs {
		if cond != "parked" {
			break
		}
		if err := r.Send(sg.data); err != nil {
			break
		}
		cond = sv.WaitParked(15 * time.Second)
		r.Take()
	}
	r.Close()
	e := &env{w: w}
	deadline := time.Now().Add(30 * time.Second)
	for !sv.Closed() && time.Now().Before(deadline) {
		time.Sleep(100 * time.Microsecond)
	}
	if !sv.Closed() {
		e.leak(sig, desc, "server connection goroutine still holds the connection open after the peer is gone")
		return outcome{}
	}
	for atomic.LoadInt32(&closes) == 0 && time.Now().Before(deadline) {
		time.Sleep(100 * time.Microsecond)
	}
	if n := atomic.LoadInt32(&closes); n != 1 {
		w.Violation("session-close-count@"+sig, fmt.Sprintf("%s: Session.Close called %d times", desc, n), map[string]interface{}{"case": desc})
	}
	if p := mem.Log.Panics(); len(p) > 0 {
		w.Violation("server-panic@"+hx.PanicSite(p[0]), desc+": "+strings.SplitN(p[0], "\n", 2)[0], map[string]interface{}{"case": desc, "log": p[0]})
	}
	e.census(sig, desc)
	return outcome{nIn: sv.NRead(), nOut: sv.NWritten()}
}

// runMemStalledIdler: one client enters IDLE and stops reading (the server's writes to it block)
// while a second client changes the idled mailbox n times; then both clients go away. Both server
// connections must end and each session must be closed exactly once.
func runMemStalledIdler(w *hx.W, n int, abrupt bool) {
	var closes int32
	mem := kit.NewMem(kit.MemCfg{Caps: imap.CapSet{imap.CapIMAP4rev1: {}}, Wrap: func(s imapserver.Session) imapserver.Session { return countingSess{s, &closes} }})
	defer func() {
		done := make(chan struct{})
		go func() { mem.Close(); close(done) }()
		select {
		case <-done:
		case <-time.After(20 * time.Second):
		}
	}()
	t0 := time.Date(2023, 3, 1, 12, 0, 0, 0, time.UTC)
	mem.Populate("INBOX", [][]byte{kit.SimpleMessage("one", "a@b", "x", t0), kit.SimpleMessage("two", "a@b", "y", t0), kit.SimpleMessage("three", "a@b", "z", t0)}, nil)
	sig := "mem-stalled-idler"
	desc := fmt.Sprintf("in-memory backend: a client idles and stops reading while another one issues %d STORE commands on the same mailbox, then both disconnect (abrupt=%v)", n, abrupt)
	end := w.Begin(sig, desc, 300*time.Second)
	defer end()
	e := &env{w: w}
	ca, sa, la := mem.Pipe(nil)
	a := kit.NewRaw(ca, sa, la)
	cb, sb, lb := mem.Pipe(nil)
	b := kit.NewRaw(cb, sb, lb)
	step := func(r *kit.Raw, sv *vconn.Conn, line string) bool {
		r.SendStr(line)
		st := sv.WaitParked(15 * time.Second)
		r.Take()
		return st == "parked"
	}
	sa.WaitParked(15 * time.Second)
	sb.WaitParked(15 * time.Second)
	ok := step(a, sa, "a1 LOGIN user pass\r\n") && step(a, sa, "a2 SELECT INBOX\r\n") && step(a, sa, "a3 IDLE\r\n")
	sa.StallWrites(true)
	ok = ok && step(b, sb, "b1 LOGIN user pass\r\n") && step(b, sb, "b2 SELECT INBOX\r\n")
	stuckAt := -1
	for i := 0; ok && i < n; i++ {
		if !step(b, sb, fmt.Sprintf("c%d STORE 1:3 %sFLAGS (kw%d)\r\n", i, []string{"+", "-"}[i%2], i%5)) {
			stuckAt = i
			break
		}
	}
	if !abrupt && stuckAt < 0 {
		step(b, sb, "b9 LOGOUT\r\n")
	}
	a.Close()
	b.Close()
	deadline := time.Now().Add(30 * time.Second)
	for (!sa.Closed() || !sb.Closed()) && time.Now().Before(deadline) {
		time.Sleep(100 * time.Microsecond)
	}
	if !sa.Closed() || !sb.Closed() {
		e.leak(sig, desc, fmt.Sprintf("a server connection is still open after both peers are gone (idler closed=%v, writer closed=%v, writer stopped being answered at STORE #%d)", sa.Closed(), sb.Closed(), stuckAt))
		return
	}
	for atomic.LoadInt32(&closes) < 2 && time.Now().Before(deadline) {
		time.Sleep(100 * time.Microsecond)
	}
	if c := atomic.LoadInt32(&closes); c != 2 {
		w.Violation("session-close-count@"+sig, fmt.Sprintf("%s: Session.Close called %d times for 2 connections", desc, c), nil)
	}
	e.census(sig, desc)
	w.Class("fault/stalled-idler")
}

type env struct {
	w        *hx.W
	srv      *kit.Server
	nHostile int
}

type fault struct {
	kind string // none | eof | reset | writeerr
	at   int64
}

type outcome struct {
	nIn, nOut int64
}

// runTranscript executes t against a fresh connection with the given fault.
func (e *env) runTranscript(t *transcript, f fault) outcome {
	w := e.w
	srv := e.srv
	var r *kit.Raw
	// the fault is armed on the server endpoint before the server starts using it
	arm := func(sv *vconn.Conn) {
		switch f.kind {
		case "eof":
			sv.SetReadFault(f.at, vconn.FaultEOF)
		case "reset":
			sv.SetReadFault(f.at, vconn.FaultReset)
		case "writeerr":
			sv.SetWriteFault(f.at)
		}
	}
	nSessBefore := len(srv.B.Sessions())
	sig := fmt.Sprintf("%s/%s", t.name, f.kind)
	desc := fmt.Sprintf("transcript %s fault %s at byte %d", t.name, f.kind, f.at)
	end := w.Begin(sig, desc, 120*time.Second)
	defer end()
	if t.implicit {
		var err error
		r, err = srv.DialTLSArm(arm)
		if err != nil && f.kind == "none" {
			w.Violation("harness-tls", "implicit TLS dial failed without fault: "+err.Error(), nil)
			return outcome{}
		}
	} else {
		r = srv.DialArm(arm)
	}
	alive := r != nil && !(t.implicit && r.HandshakeErr != nil)
	if alive {
		_, cond := r.Sync()
		alive = cond == "parked"
	}
	for _, sg := range t.segs {
		if !alive {
			break
		}
		if err := r.Send(sg.data); err != nil {
			break
		}
		out, cond := r.Sync()
		if cond == "timeout" {
			e.leak(sig, desc, "server made no progress (neither waiting for input nor closed)")
			return outcome{}
		}
		if cond != "parked" {
			break
		}
		if sg.tlsUpgrade {
			if !bytes.Contains(out, []byte("OK")) {
				break
			}
			if err := r.StartTLSUpgrade(); err != nil {
				break
			}
		}
	}
	// the client goes away
	r.Close()
	// 1. the server must close its side
	deadline := time.Now().Add(40 * time.Second)
	for !r.S.Closed() && time.Now().Before(deadline) {
		time.Sleep(100 * time.Microsecond)
	}
	if !r.S.Closed() {
		e.leak(sig, desc, "server connection goroutine still holds the connection open after the peer is gone")
		return outcome{}
	}
	// 2. Session.Close exactly once
	sessions := srv.B.Sessions()
	if len(sessions) != nSessBefore+1 {
		w.Violation("session-count@"+sig, fmt.Sprintf("%s: %d sessions were created for one connection", desc, len(sessions)-nSessBefore), nil)
		return outcome{}
	}
	sess := sessions[len(sessions)-1]
	for sess.Closes() == 0 && time.Now().Before(deadline) {
		time.Sleep(100 * time.Microsecond)
	}
	if n := sess.Closes(); n != 1 {
		w.Violation("session-close-count@"+sig, fmt.Sprintf("%s: Session.Close called %d times", desc, n), map[string]interface{}{"case": desc})
	}
	// 3. idle goroutine stopped
	for atomic.LoadInt64(&idleRunning) != 0 && time.Now().Before(deadline) {
		time.Sleep(100 * time.Microsecond)
	}
	if n := atomic.LoadInt64(&idleRunning); n != 0 {
		e.leak(sig, desc, fmt.Sprintf("%d Session.Idle call(s) never told to stop", n))
		atomic.StoreInt64(&idleRunning, 0)
	}
	// 4. no panic
	e.checkPanics(sig, desc)
	// 5. no goroutine of this connection left
	e.census(sig, desc)
	return outcome{nIn: r.S.NRead(), nOut: r.S.NWritten()}
}

func (e *env) leak(sig, desc, what string) {
	buf := make([]byte, 1<<20)
	buf = buf[:runtime.Stack(buf, true)]
	var keep []string
	for _, g := range strings.Split(string(buf), "\n\n") {
		if strings.Contains(g, "imapserver.") {
			keep = append(keep, g)
		}
	}
	e.w.Violation("goroutine-leak@"+sig, desc+": "+what, map[string]interface{}{"case": desc, "imapserver_goroutines": keep})
}

var panicsSeen int

// census: at a quiescent point (the connection under test is closed) no goroutine may
// still be inside an imapserver.(*Conn) method. Goroutines are given a bounded time to
// finish; one that stays at the same place is a leak.
var reportedLeaks = map[string]bool{}

func connGoroutines() map[string]string {
	buf := stackBuf[:runtime.Stack(stackBuf, true)]
	out := map[string]string{}
	for _, g := range strings.Split(string(buf), "\n\n") {
		if strings.Contains(g, "imapserver.(*Conn).") {
			id := g
			if i := strings.IndexByte(g, '['); i > 0 {
				id = g[:i]
			}
			out[id] = g
		}
	}
	return out
}

func leakSite(g string) string {
	for _, l := range strings.Split(g, "\n") {
		if strings.Contains(l, "imapserver.(*Conn).") {
			site := strings.TrimSpace(l)
			if i := strings.LastIndex(site, "("); i > 0 {
				site = site[:i]
			}
			return site
		}
	}
	return "?"
}

var reportedSites = map[string]bool{}

func (e *env) census(sig, desc string) {
	e.w.Metric("goroutine_censuses", 1)
	deadline := time.Now().Add(30 * time.Second)
	var gs map[string]string
	for {
		gs = connGoroutines()
		fresh := false
		for id, g := range gs {
			if reportedLeaks[id] {
				delete(gs, id)
			} else if !reportedSites[leakSite(g)] {
				fresh = true
			}
		}
		// a leak at a site that was already reported is not waited for again (it is
		// re-examined at the next census)
		if len(gs) == 0 || !fresh || time.Now().After(deadline) {
			break
		}
		time.Sleep(200 * time.Microsecond)
	}
	for id, g := range gs {
		site := leakSite(g)
		if reportedSites[site] {
			continue
		}
		reportedLeaks[id] = true
		reportedSites[site] = true
		e.w.Violation("goroutine-leak@"+site, fmt.Sprintf("%s: a goroutine of the server connection is still alive after the peer is gone and the session was closed (%s)", desc, site), map[string]interface{}{"case": desc, "goroutine": g})
	}
}

func (e *env) checkPanics(sig, desc string) {
	p := e.srv.Log.Panics()
	if len(p) > panicsSeen {
		first := p[panicsSeen]
		panicsSeen = len(p)
		site := hx.PanicSite(first)
		e.w.Violation("server-panic@"+site, desc+": "+strings.SplitN(first, "\n", 2)[0], map[string]interface{}{"case": desc, "log": first})
	}
}

// ---- hostile inputs -----------------------------------------------------------

var corpus = []string{
	"LOGIN user pass", "LOGIN {4+}\r\nuser \"pa ss\"", "AUTHENTICATE PLAIN AHVzZXIAcGFzcw==", "CAPABILITY", "NOOP", "STARTTLS", "ENABLE UTF8=ACCEPT IMAP4rev2",
	"SELECT INBOX", "EXAMINE \"a b\"", "CREATE a/b (USE (\\Sent))", "DELETE a", "RENAME a b", "SUBSCRIBE a", "UNSUBSCRIBE a",
	"LIST \"\" *", "LIST (SUBSCRIBED RECURSIVEMATCH) \"\" (\"%\" \"x*\") RETURN (CHILDREN SUBSCRIBED STATUS (MESSAGES UNSEEN SIZE))", "LSUB \"\" %",
	"STATUS a (MESSAGES UIDNEXT UIDVALIDITY UNSEEN DELETED SIZE APPENDLIMIT RECENT)", "NAMESPACE", "APPEND a (\\Seen) \"14-Jul-2023 10:00:00 +0000\" {5+}\r\nhello", "APPEND a UTF8 (~{3+}\r\nabc)",
	"IDLE", "CLOSE", "UNSELECT", "EXPUNGE", "UID EXPUNGE 1:*", "UNAUTHENTICATE",
	"SEARCH RETURN (MIN MAX COUNT ALL SAVE) CHARSET UTF-8 OR (FROM a TO b) NOT (SINCE 1-Jan-2020 SMALLER 100) UID 1:* 2,4:7 HEADER X-A {1+}\r\nv KEYWORD k $",
	"UID SEARCH ALL", "FETCH 1:* (FLAGS UID ENVELOPE BODYSTRUCTURE BODY INTERNALDATE RFC822.SIZE BODY.PEEK[1.2.HEADER.FIELDS (A B)]<0.10> BINARY.PEEK[1]<5.5> BINARY.SIZE[2] RFC822 RFC822.HEADER RFC822.TEXT BODY[TEXT] BODY[1.MIME])",
	"LOGIN ", "SELECT ", "ENABLE ", "LIST \"\" * ", "STATUS INBOX ", "AUTHENTICATE PLAIN ", "NOOP ", "FETCH 1 ", "STORE 1 ", "SEARCH ", "UID ", "APPEND INBOX ", "CREATE ", "IDLE ",
	"FETCH 1 FULL", "UID FETCH $ FAST", "STORE 1 +FLAGS.SILENT (\\Seen $x)", "UID STORE 1:3 -FLAGS \\Deleted \\Seen", "STORE 2 FLAGS ()", "COPY 1:2 dest", "UID COPY * \"de st\"", "MOVE 1 dest", "UID MOVE 1:* dest", "LOGOUT",
}

func mutateLine(rng *rand.Rand, s string) string {
	if len(strings.Fields(s)) == 0 {
		return s + "x ("
	}
	b := []byte(s)
	alphabet := []byte("(){}[]<>\"\\ *%+~\r\n\x00\xff09aZ.:,$")
	switch rng.Intn(9) {
	case 0: // delete a byte range
		if len(b) > 1 {
			i := rng.Intn(len(b))
			j := i + 1 + rng.Intn(min(len(b)-i, 6))
			b = append(b[:i], b[j:]...)
		}
	case 1: // insert specials
		i := rng.Intn(len(b) + 1)
		ins := make([]byte, 1+rng.Intn(3))
		for k := range ins {
			ins[k] = alphabet[rng.Intn(len(alphabet))]
		}
		b = append(b[:i], append(ins, b[i:]...)...)
	case 2: // replace
		for k := rng.Intn(3); k >= 0; k-- {
			b[rng.Intn(len(b))] = alphabet[rng.Intn(len(alphabet))]
		}
	case 3: // duplicate a token
		f := strings.Fields(s)
		i := rng.Intn(len(f))
		f = append(f[:i+1], f[i:]...)
		return strings.Join(f, " ")
	case 4: // drop a token
		f := strings.Fields(s)
		if len(f) > 1 {
			i := rng.Intn(len(f))
			f = append(f[:i], f[i+1:]...)
		}
		return strings.Join(f, " ")
	case 5: // number boundary
		nums := []string{"0", "4294967295", "4294967296", "9223372036854775807", "9223372036854775808", "18446744073709551616", "-1", "00001"}
		f := strings.Fields(s)
		f[rng.Intn(len(f))] = nums[rng.Intn(len(nums))]
		return strings.Join(f, " ")
	case 6: // literal with wrong size
		return s + fmt.Sprintf(" {%d+}\r\nxyz", []int{0, 2, 3, 4, 10}[rng.Intn(5)])
	case 7: // truncate
		b = b[:rng.Intn(len(b)+1)]
	case 8: // swap two tokens
		f := strings.Fields(s)
		if len(f) > 2 {
			i, j := rng.Intn(len(f)), rng.Intn(len(f))
			f[i], f[j] = f[j], f[i]
		}
		return strings.Join(f, " ")
	}
	return string(b)
}

func min(a, b int) int {
	if a < b {
		return a
	}
	return b
}

// hostile feeds one input (a list of command lines) after optionally logging in / selecting.
func (e *env) hostile(class, state string, lines []string, descShort string) {
	w := e.w
	srv := e.srv
	sig := "hostile/" + class
	end := w.Begin(sig, fmt.Sprintf("%s [state %s]: %s", class, state, descShort), 120*time.Second)
	defer end()
	r := srv.Dial()
	nBase := srv.B.NCalls()
	nSess := len(srv.B.Sessions())
	r.Sync()
	pre := ""
	if state != "notauth" {
		pre += "p1 LOGIN user pass\r\n"
	}
	if state == "selected" {
		pre += "p2 SELECT INBOX\r\n"
	}
	if pre != "" {
		r.SendStr(pre)
		r.Sync()
	}
	for i, ln := range lines {
		if err := r.SendStr(fmt.Sprintf("x%d %s\r\n", i, ln)); err != nil {
			break
		}
		out, cond := r.Sync()
		if cond == "timeout" {
			e.leak(sig, descShort, "server made no progress on hostile input (spinning or stuck)")
			return
		}
		if strings.HasPrefix(class, "literal-cap") && cond == "parked" && !bytes.Contains(out, []byte(fmt.Sprintf("x%d ", i))) && strings.HasSuffix(ln, "}") {
			// only the header of an over-the-cap literal was sent: a server that says nothing and waits
			// is about to read (buffer or discard) octets it must refuse up front
			w.Violation("oversized-literal-awaited@"+strings.Fields(ln + " ?")[0], fmt.Sprintf("%s [state %s]: after the header of an over-the-cap literal the server sent nothing and waits for the payload (%q)", descShort, state, out), map[string]interface{}{"line": hx.Hex([]byte(ln), 200)})
		}
		if strings.HasPrefix(class, "literal-cap") {
			// every literal announced in these probes is over the cap for its position: a
			// continuation request would invite the client to send octets the server has to
			// buffer (or, for APPEND, to read although the size is over the limit)
			for _, l := range bytes.Split(out, []byte("\r\n")) {
				if bytes.HasPrefix(l, []byte("+")) {
					w.Violation("continuation-request-for-oversized-literal@"+strings.Fields(ln + " ?")[0], fmt.Sprintf("%s: the server answered an over-the-cap literal with a continuation request %q", descShort, l), map[string]interface{}{"lines": hx.Hex([]byte(ln), 200)})
				}
			}
		}
		if cond == "closed" {
			break
		}
		// a '+' means the server wants a literal / continuation: give it something and go on
		if bytes.HasPrefix(lastLine(out), []byte("+")) {
			r.SendStr("DONE\r\n")
			if _, c2 := r.Sync(); c2 != "parked" {
				break
			}
		}
	}
	r.Close()
	deadline := time.Now().Add(40 * time.Second)
	for !r.S.Closed() && time.Now().Before(deadline) {
		time.Sleep(100 * time.Microsecond)
	}
	if !r.S.Closed() {
		e.leak(sig, descShort, "server connection still open after the client closed")
		return
	}
	sessions := srv.B.Sessions()
	if len(sessions) == nSess+1 {
		sess := sessions[len(sessions)-1]
		for sess.Closes() == 0 && time.Now().Before(deadline) {
			time.Sleep(100 * time.Microsecond)
		}
		if n := sess.Closes(); n != 1 {
			w.Violation("session-close-count@"+sig, fmt.Sprintf("%s: Session.Close called %d times", descShort, n), map[string]interface{}{"lines": lines})
		}
	}
	for atomic.LoadInt64(&idleRunning) != 0 && time.Now().Before(deadline) {
		time.Sleep(100 * time.Microsecond)
	}
	if atomic.LoadInt64(&idleRunning) != 0 {
		e.leak(sig, descShort, "Session.Idle never told to stop")
		atomic.StoreInt64(&idleRunning, 0)
	}
	e.checkPanics(sig, descShort)
	e.nHostile++
	if e.nHostile%8 == 0 || strings.Contains(strings.Join(lines, " "), "IDLE") {
		e.census(sig, descShort)
	}
	// literal caps
	for _, c := range srv.B.CallsSince(nBase) {
		for name, v := range map[string]string{"mailbox": c.Mailbox, "mailbox2": c.Mailbox2, "username": c.Username, "password": c.Password, "ref": c.ListRef} {
			if len(v) > 4096 && strings.Contains(class, "literal") {
				w.Violation("buffered-literal-over-4096@"+c.Method+"/"+name, fmt.Sprintf("%s: Session.%s received a %d-byte %s that was sent as a literal", descShort, c.Method, len(v), name), nil)
			}
		}
		for _, p := range c.ListPatterns {
			if len(p) > 4096 && strings.Contains(class, "literal") {
				w.Violation("buffered-literal-over-4096@List/pattern", fmt.Sprintf("%s: %d-byte LIST pattern from a literal", descShort, len(p)), nil)
			}
		}
		if c.Criteria != nil && strings.Contains(class, "literal") {
			for _, h := range c.Criteria.Header {
				if len(h.Value) > 4096 || len(h.Key) > 4096 {
					w.Violation("buffered-literal-over-4096@Search/header", fmt.Sprintf("%s: %d-byte header value from a literal", descShort, len(h.Value)), nil)
				}
			}
			for _, b := range append(append([]string{}, c.Criteria.Body...), c.Criteria.Text...) {
				if len(b) > 4096 {
					w.Violation("buffered-literal-over-4096@Search/text", fmt.Sprintf("%s: %d-byte search string from a literal", descShort, len(b)), nil)
				}
			}
		}
		if c.Method == "Append" && c.AppendSize > appendLimit {
			w.Violation("append-over-limit-accepted", fmt.Sprintf("%s: Session.Append invoked for an announced size of %d bytes", descShort, c.AppendSize), nil)
		}
	}
	w.Metric("hostile_inputs", 1)
}

func lastLine(b []byte) []byte {
	b = bytes.TrimRight(b, "\r\n")
	if i := bytes.LastIndexByte(b, '\n'); i >= 0 {
		return b[i+1:]
	}
	return b
}

func deepFamilies(depth int) map[string]string {
	rep := strings.Repeat
	return map[string]string{
		"search-not":        "SEARCH " + rep("NOT ", depth) + "ALL",
		"search-or":         "SEARCH " + rep("OR ALL ", depth) + "ALL",
		"search-or-left":    "SEARCH " + rep("OR ", depth) + "ALL" + rep(" ALL", depth),
		"search-or-not":     "SEARCH " + rep("OR SEEN NOT ", depth) + "ALL",
		"search-parens":     "SEARCH " + rep("(", depth) + "ALL" + rep(")", depth),
		"search-not-parens": "SEARCH " + rep("NOT (", depth) + "ALL" + rep(")", depth),
		"fetch-parens":      "FETCH 1 " + rep("(", depth) + "FLAGS" + rep(")", depth),
		"list-parens":       "LIST " + rep("(", depth) + rep(")", depth) + " \"\" *",
		"list-patterns":     "LIST \"\" " + rep("(", depth) + "a" + rep(")", depth),
		"status-parens":     "STATUS a " + rep("(", depth) + "MESSAGES" + rep(")", depth),
		"append-flags":      "APPEND a " + rep("(", depth) + "\\Seen" + rep(")", depth) + " {1+}\r\nx",
		"store-flags":       "STORE 1 FLAGS " + rep("(", depth) + rep(")", depth),
		"create-use":        "CREATE a (USE " + rep("(", depth) + "\\Sent" + rep(")", depth) + ")",
		"tag-parens":        rep("(", depth),
		"body-section":      "FETCH 1 BODY[" + rep("1.", depth) + "1]",
		"header-fields":     "FETCH 1 BODY[HEADER.FIELDS " + rep("(", depth) + "a" + rep(")", depth) + "]",
	}
}

func body(w *hx.W) {
	kit.SyncTimeout = 90 * time.Second
	srv := kit.NewServer(kit.ServerCfg{Caps: imap.CapSet{imap.CapIMAP4rev1: {}, imap.CapIMAP4rev2: {}, imap.CapUnauthenticate: {}}, InsecureAuth: true, TLS: true, Kind: kit.SessFull})
	srv.B.Handler = handler
	defer srv.Close()
	e := &env{w: w, srv: srv}

	// ---- fault enumeration
	ts := transcripts()
	nT := len(ts)
	type job struct {
		t *transcript
		f fault
	}
	var jobs []job
	for ti := range ts {
		t := &ts[ti]
		base := e.runTranscript(t, fault{kind: "none"})
		full := !w.Quick() || (ti+int(w.Seed))%nT < 5
		stride := int64(1)
		if !full {
			stride = 7
		}
		for k := int64(0); k <= base.nIn; k += stride {
			jobs = append(jobs, job{t, fault{"eof", k}}, job{t, fault{"reset", k}})
		}
		ostride := stride
		if base.nOut > 3000 {
			ostride *= 3 // long literal bodies: every 3rd offset (and all of the first 1200)
		}
		for k := int64(0); k <= base.nOut; k++ {
			if k < 1200 && stride == 1 || k%ostride == 0 {
				jobs = append(jobs, job{t, fault{"writeerr", k}})
			}
		}
		if w.Shard == 0 {
			w.Metric("transcript_bytes_in/"+t.name, base.nIn)
			w.Metric("transcript_bytes_out/"+t.name, base.nOut)
		}
		if full {
			w.Class("transcript-every-offset/" + t.name)
		} else {
			w.Class("transcript-stride7/" + t.name)
		}
	}
	var nFault int64
	for i, j := range jobs {
		if !w.Mine(i) {
			continue
		}
		e.runTranscript(j.t, j.f)
		nFault++
		w.Class("fault/" + j.f.kind + "/" + j.t.name)
	}
	// the same enumeration with the real in-memory backend behind the protocol layer
	mts := memTranscripts()
	var mjobs []job
	for ti := range mts {
		t := &mts[ti]
		base := runMem(w, t, fault{kind: "none"})
		stride := int64(1)
		if w.Quick() {
			stride = 3
		}
		for k := int64(0); k <= base.nIn; k += stride {
			mjobs = append(mjobs, job{t, fault{"eof", k}}, job{t, fault{"reset", k}})
		}
		for k := int64(0); k <= base.nOut; k++ {
			// literal bodies: every 16th offset plus everything near the line structure
			if base.nOut > 3000 && k > 600 && k%16 != 0 {
				continue
			}
			if k%stride == 0 {
				mjobs = append(mjobs, job{t, fault{"writeerr", k}})
			}
		}
		if w.Shard == 0 {
			w.Metric("transcript_bytes_in/"+t.name, base.nIn)
			w.Metric("transcript_bytes_out/"+t.name, base.nOut)
		}
	}
	for i, j := range mjobs {
		if !w.Mine(i) {
			continue
		}
		runMem(w, j.t, j.f)
		nFault++
		w.Class("fault/" + j.f.kind + "/" + j.t.name)
	}
	for i, n := range []int{5, 30, 70, 150, 400} {
		if w.Mine(i) {
			runMemStalledIdler(w, n, i%2 == 0)
			nFault++
		}
	}
	w.Enumerated(nFault)
	w.Metric("fault_points", nFault)
	w.Sample(map[string]interface{}{"kind": "fault enumeration", "transcripts": nT, "example": "transcript idle-done cut by reset at client byte 47 (inside 'DONE')", "fault_kinds": []string{"eof", "reset", "writeerr"}})

	// ---- hostile inputs
	rng := w.Rand("hostile")
	states := []string{"notauth", "auth", "selected"}
	n := w.Pick(2500, 40000)
	for i := 0; i < n; i++ {
		k := 1 + rng.Intn(3)
		lines := make([]string, k)
		for j := range lines {
			ln := corpus[rng.Intn(len(corpus))]
			for m := rng.Intn(3); m > 0; m-- {
				ln = mutateLine(rng, ln)
			}
			lines[j] = ln
		}
		st := states[rng.Intn(3)]
		e.hostile("mutated", st, lines, hx.Hex([]byte(strings.Join(lines, "\n")), 300))
		w.CaseStr(st + strings.Join(lines, "\n"))
		w.Class("hostile/mutated/" + st)
		if i == 0 {
			w.Sample(map[string]interface{}{"kind": "mutated commands", "state": st, "lines": lines})
		}
	}
	// every corpus line as it is, with a trailing space, and with a doubled separator, in every state
	ci := 0
	for _, ln := range corpus {
		for vi, variant := range []string{ln, ln + " ", strings.Replace(ln, " ", "  ", 1), " " + ln, ln + "\t"} {
			for _, st := range states {
				ci++
				if !w.Mine(ci) {
					continue
				}
				e.hostile(fmt.Sprintf("corpus-variant%d", vi), st, []string{variant}, hx.Hex([]byte(variant), 120))
				w.CaseStr(fmt.Sprintf("corpus|%d|%s|%s", vi, st, variant))
				w.Class(fmt.Sprintf("hostile/corpus-variant%d/%s", vi, st))
			}
		}
	}
	for i := 0; i < w.Pick(300, 2500); i++ {
		g := make([]byte, 1+rng.Intn(200))
		for k := range g {
			g[k] = byte(rng.Intn(256))
		}
		st := states[rng.Intn(3)]
		e.hostile("garbage", st, []string{string(g)}, hx.Hex(g, 120))
		w.Case(hx.HashBytes(g))
		w.Class("hostile/garbage/" + st)
	}
	// literal caps (class name contains "literal": arguments came from literals)
	big := strings.Repeat("A", 5000)
	capCases := [][]string{
		{"LOGIN {5000}\r\n" + big + " pw"}, {"LOGIN {5000+}\r\n" + big + " pw"}, {"LOGIN u {4097}\r\n" + big[:4097]},
		{"CREATE {4097+}\r\n" + big[:4097]}, {"RENAME a {8192+}\r\n" + big + big[:3192]}, {"LIST \"\" {5000+}\r\n" + big}, {"LIST {5000+}\r\n" + big + " *"},
		{"SEARCH SUBJECT {5000+}\r\n" + big}, {"SEARCH HEADER {5000+}\r\n" + big + " v"}, {"SEARCH BODY {4097}\r\n" + big[:4097]},
		{"STATUS {70000+}\r\n" + strings.Repeat(big, 14) + " (MESSAGES)"}, {"SELECT {4096+}\r\n" + big[:4096]}, {"COPY 1 {4097+}\r\n" + big[:4097]},
		{fmt.Sprintf("APPEND a {%d}", appendLimit+1)}, {fmt.Sprintf("APPEND a {%d+}", appendLimit+1)}, {fmt.Sprintf("APPEND a (\\Seen) {%d}", int64(1)<<40)},
		{"APPEND a {9223372036854775807+}"}, {"APPEND a {9223372036854775808}"}, {"LOGIN {99999999999999999999}"},
	}
	srvPlus := kit.NewServer(kit.ServerCfg{Caps: imap.CapSet{imap.CapIMAP4rev1: {}, imap.CapLiteralPlus: {}}, InsecureAuth: true, Kind: kit.SessFull})
	srvPlus.B.Handler = handler
	defer srvPlus.Close()
	ePlus := &env{w: w, srv: srvPlus}
	for i, cs := range capCases {
		if !w.Mine(i) {
			continue
		}
		for _, st := range states {
			e.hostile("literal-cap", st, cs, hx.Hex([]byte(cs[0]), 60))
			ePlus.hostile("literal-cap/literal+", st, cs, hx.Hex([]byte(cs[0]), 60))
			w.CaseStr(fmt.Sprintf("cap%d%s", i, st))
			w.CaseStr(fmt.Sprintf("cap+%d%s", i, st))
			w.Class("hostile/literal-cap/" + st)
			w.Class("hostile/literal-cap-literal+/" + st)
		}
	}
	// deep nesting: depths scaled up to 2*10^5 (64 MB stack bound in this process)
	depths := []int{999, 1000, 1001, 5000, 100000}
	if !w.Quick() {
		depths = append(depths, 200000, 400000)
	}
	di := 0
	for _, dpt := range depths {
		fams := deepFamilies(dpt)
		var famNames []string
		for name := range fams {
			famNames = append(famNames, name)
		}
		sort.Strings(famNames) // the shards must agree on the index of a family (map order differs per process)
		for _, name := range famNames {
			ln := fams[name]
			di++
			if !w.Mine(di) {
				continue
			}
			for _, st := range []string{"auth", "selected"} {
				nb := srv.B.NCalls()
				e.hostile(fmt.Sprintf("deep-nesting/%s", name), st, []string{ln}, fmt.Sprintf("%s depth %d", name, dpt))
				// nesting beyond the bound must be refused by the protocol layer: the command must not reach the backend
				// (body-section is a long part path, not nesting)
				if dpt > 1000 && name != "body-section" {
					for _, c := range srv.B.CallsSince(nb) {
						switch c.Method {
						case "Search", "Fetch", "List", "Status", "Append", "Store", "Create":
							w.Violation("over-deep-nesting-accepted@"+name, fmt.Sprintf("%s with nesting depth %d was accepted and handed to Session.%s: nesting is not bounded", name, dpt, c.Method), nil)
						}
					}
				}
				w.CaseStr(fmt.Sprintf("deep%s%d%s", name, dpt, st))
				w.Class("hostile/deep/" + name)
			}
		}
	}
	w.MetricMax("max_nesting_depth_fed", int64(depths[len(depths)-1]))
}

var stackBuf = make([]byte, 4<<20)

func main() {
	hx.Main(hx.Spec{
		ID:    "C06",
		Level: "fault_enumeration",
		Rule: "fault points = for each of 12 valid multi-command transcripts (literals sync and non-sync, AUTHENTICATE exchange, IDLE, STARTTLS, implicit TLS, pipelining, long FETCH literal): every byte offset of the client->server stream x {clean EOF, reset} and every byte offset of the server->client stream x {write error} (quick: every offset of 5 transcripts, every 7th of the others); each fault point is a distinct case; " +
			"plus hostile inputs: mutated grammar-generated commands, raw garbage, literal-size cap probes and deep-nesting families up to 4*10^5 levels (distinct by hash)",
		Assumptions: []string{
			"the server must close its endpoint and call Session.Close exactly once after the peer is gone; waiting is bounded by a 40 s backstop that is several orders of magnitude above the observed latency",
			"unbounded recursion is detected by a 64 MB stack bound on the worker process (legitimate parsing of the 1000-level list cap needs < 2 MB)",
			"only literals are subject to the 4096-byte buffering cap (quoted strings are not mentioned by the property)",
		},
		MaxStack:   64 << 20,
		LogCurrent: true,
		Shards:     func(string) int { return 12 },
		WallQuick:  30 * time.Minute, WallThorough: 150 * time.Minute,
	}, body)
}
