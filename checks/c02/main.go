// C02 — client commands reach the server backend with the caller's arguments intact.
//
// Monitor: a real imapclient.Client talks over the in-process connection to a
// real imapserver connection whose backend is a recording stub. After each
// client API call the recorded backend call is compared with the expectation
// computed from the caller's arguments by an explicit normalisation (INBOX fold,
// case-canonical flags, calendar dates, header keys case-folded, ON = SINCE +
// BEFORE+24h, server defaults such as "no return option => ALL").
package main

import (
	"bytes"
	"crypto/sha256"
	"encoding/hex"
	"fmt"
	"math/rand"
	"sort"
	"strings"
	"time"

	"github.com/emersion/go-sasl"

	imap "github.com/emersion/go-imap/v2"
	"github.com/emersion/go-imap/v2/imapclient"
	"github.com/emersion/go-imap/v2/imapserver"
	"github.com/emersion/go-imap/v2/verif/internal/hx"
	"github.com/emersion/go-imap/v2/verif/internal/kit"
	sr "github.com/emersion/go-imap/v2/verif/internal/ref/searchref"
	"github.com/emersion/go-imap/v2/verif/internal/vconn"
)

type srvCfg struct {
	name string
	caps imap.CapSet
}

var srvCfgs = []srvCfg{
	{"rev1", imap.CapSet{imap.CapIMAP4rev1: {}}},
	{"rev1+rev2", imap.CapSet{imap.CapIMAP4rev1: {}, imap.CapIMAP4rev2: {}}},
	{"rev1+literal+", imap.CapSet{imap.CapIMAP4rev1: {}, imap.CapLiteralPlus: {}}},
	{"rev1+ext", imap.CapSet{imap.CapIMAP4rev1: {}, imap.CapMove: {}, imap.CapUIDPlus: {}, imap.CapESearch: {}, imap.CapSearchRes: {}, imap.CapListExtended: {}, imap.CapListStatus: {}, imap.CapNamespace: {}, imap.CapStatusSize: {}, imap.CapCreateSpecialUse: {}, imap.CapUnauthenticate: {}}},
}

type env struct {
	w       *hx.W
	rng     *rand.Rand
	cfg     srvCfg
	enabled string
	srv     *kit.Server
	c       *imapclient.Client
	sessID  int
	uni     []sr.Msg
	ctx     sr.Ctx
	rev2    bool
	hist    []string
	lossOK  bool
	log     *vconn.Log
	logPos  int
	ro      bool // the mailbox is currently selected read-only (EXAMINE)
}

func (e *env) class() string { return e.cfg.name + "/enabled=" + e.enabled }

func (e *env) viol(class, op, detail string) {
	e.w.Violation(class+"@"+op+"/"+e.class(), fmt.Sprintf("%s: %s: %s [server %s, enabled %s]", class, op, detail, e.cfg.name, e.enabled), map[string]interface{}{"op": op, "detail": detail})
}

// ---- argument generators ---------------------------------------------------------

var strClasses = []string{"ascii", "space", "quote-backslash", "nul", "cr", "lf", "crlf-cmd", "utf8", "utf8-then-crlf", "badutf8", "latin1", "empty", "brace", "paren-star", "nil-word", "long", "exact4096", "over4096"}

func genStr(rng *rand.Rand, class string) string {
	switch class {
	case "ascii":
		return "atom" + fmt.Sprint(rng.Intn(1000))
	case "space":
		return "two  words "
	case "quote-backslash":
		return `a"b\c` + "\\"
	case "nul":
		return "a\x00b"
	case "cr":
		return "a\rb"
	case "lf":
		return "a\nb"
	case "crlf-cmd":
		return "x\r\nZ1 LOGOUT\r\n"
	case "utf8":
		return "héllo wörld €𝄞"
	case "utf8-then-crlf":
		return "andré\r\nZ9 DELETE INBOX"
	case "badutf8":
		return "bad\xff\xfeutf8"
	case "latin1":
		return "caf\xe9"
	case "empty":
		return ""
	case "brace":
		return "{5}"
	case "paren-star":
		return "(a) %* ]"
	case "nil-word":
		return "NIL"
	case "long":
		return strings.Repeat("L", 2000+rng.Intn(2000))
	case "exact4096":
		return strings.Repeat("b", 4096)
	case "over4096":
		return strings.Repeat("c", 4097+rng.Intn(2000))
	}
	return "x"
}

var mboxClasses = []string{"ascii", "inbox-case", "inbox-prefix", "ampersand", "unicode", "space-quote", "control", "hier", "percent-star", "long"}

func genMailbox(rng *rand.Rand, class string) string {
	switch class {
	case "ascii":
		return "Box" + fmt.Sprint(rng.Intn(1000))
	case "inbox-case":
		return []string{"INBOX", "inbox", "InBoX"}[rng.Intn(3)]
	case "inbox-prefix":
		// only INBOX itself is case-insensitive
		return []string{"Inboxes", "inbox-2023", "Inbox2/Lists", "inbox/sub", "InBoX.old", "inboxx", "Inbox/"}[rng.Intn(7)] + fmt.Sprint(rng.Intn(5))
	case "ampersand":
		return []string{"R&D", "&", "a&-b", "&AOk-", "x&y&z"}[rng.Intn(5)]
	case "unicode":
		return []string{"Entwürfe", "日本語/メール", "𝄞clef", "Å"}[rng.Intn(4)]
	case "space-quote":
		return `with space "q" \bs`
	case "control":
		return "ctl\x01\x7f"
	case "hier":
		return "a/b/c" + fmt.Sprint(rng.Intn(10))
	case "percent-star":
		return "odd%name*]"
	case "long":
		return strings.Repeat("é", 1000+rng.Intn(500))
	}
	return "m"
}

func (e *env) str() (string, string) {
	c := strClasses[e.rng.Intn(len(strClasses))]
	return genStr(e.rng, c), c
}

func (e *env) mbox() (string, string) {
	c := mboxClasses[e.rng.Intn(len(mboxClasses))]
	return genMailbox(e.rng, c), c
}

func foldMailbox(n string) string {
	if strings.EqualFold(n, "INBOX") {
		return "INBOX"
	}
	return n
}

func randNumSet(rng *rand.Rand, uid bool, allowDollar bool) imap.NumSet {
	if allowDollar && uid && rng.Intn(8) == 0 {
		return imap.SearchRes()
	}
	var ss imap.SeqSet
	var us imap.UIDSet
	for k := rng.Intn(4); k >= 0; k-- {
		a := uint32(1 + rng.Intn(40))
		b := uint32(1 + rng.Intn(40))
		switch rng.Intn(6) {
		case 0:
			b = 0
		case 1:
			a, b = 0, 0
		case 2:
			a = 4294967295
		}
		if rng.Intn(2) == 0 {
			ss.AddNum(a)
			us.AddNum(imap.UID(a))
		} else {
			ss.AddRange(a, b)
			us.AddRange(imap.UID(a), imap.UID(b))
		}
	}
	if uid {
		return us
	}
	return ss
}

func sameNumSet(a, b imap.NumSet) bool {
	if a == nil || b == nil {
		return a == nil && b == nil
	}
	_, au := a.(imap.UIDSet)
	_, bu := b.(imap.UIDSet)
	return au == bu && a.String() == b.String() && imap.IsSearchRes(a) == imap.IsSearchRes(b)
}

func canonFlags(fl []imap.Flag) []string {
	var o []string
	for _, f := range fl {
		o = append(o, strings.ToLower(string(f)))
	}
	return o
}

var flagPool = []imap.Flag{imap.FlagSeen, imap.FlagAnswered, imap.FlagFlagged, imap.FlagDeleted, imap.FlagDraft, imap.FlagForwarded, imap.FlagJunk, "custom", "$Label1", "\\X-Ext", "UPPER", "\\seen", "\\RECENT", "Seen", "deleted", "Draft", "FLAGGED", "answered", "Recent", "Forwarded", "Junk"}

func randFlags(rng *rand.Rand, min int) []imap.Flag {
	var o []imap.Flag
	for k := min + rng.Intn(4); k > 0; k-- {
		o = append(o, flagPool[rng.Intn(len(flagPool))])
	}
	return o
}

// ---- search criteria: generation and canonical rendering ---------------------------

var zones = []*time.Location{time.UTC, time.FixedZone("p", 5*3600+1800), time.FixedZone("m", -8*3600)}

func randDate(rng *rand.Rand) time.Time {
	return time.Date(2019+rng.Intn(3), time.Month(1+rng.Intn(12)), 1+rng.Intn(28), rng.Intn(24), rng.Intn(60), rng.Intn(60), 0, zones[rng.Intn(len(zones))])
}

func (e *env) randCriteria(depth int) imap.SearchCriteria {
	rng := e.rng
	var c imap.SearchCriteria
	for k := rng.Intn(4); k >= 0; k-- {
		switch rng.Intn(16) {
		case 0:
			c.SeqNum = append(c.SeqNum, randNumSet(rng, false, false).(imap.SeqSet))
		case 1:
			ns := randNumSet(rng, true, e.rev2)
			c.UID = append(c.UID, ns.(imap.UIDSet))
		case 2:
			c.Since = randDate(rng)
		case 3:
			c.Before = randDate(rng)
		case 4:
			c.SentSince = randDate(rng)
		case 5:
			c.SentBefore = randDate(rng)
		case 6: // ON
			d := randDate(rng)
			d = time.Date(d.Year(), d.Month(), d.Day(), 0, 0, 0, 0, time.UTC)
			c.Since, c.Before = d, d.Add(24*time.Hour)
		case 7:
			v, _ := e.str()
			key := []string{"Subject", "FROM", "to", "Cc", "BCC", "X-Custom", "Message-Id", "x key"}[rng.Intn(8)]
			if key == "x key" {
				key, _ = e.str()
				if key == "" {
					key = "k"
				}
			}
			c.Header = append(c.Header, imap.SearchCriteriaHeaderField{Key: key, Value: v})
		case 8:
			v, _ := e.str()
			c.Body = append(c.Body, v)
		case 9:
			v, _ := e.str()
			c.Text = append(c.Text, v)
		case 10:
			c.Flag = append(c.Flag, flagPool[rng.Intn(len(flagPool))])
		case 11:
			c.NotFlag = append(c.NotFlag, flagPool[rng.Intn(len(flagPool))])
		case 12:
			c.Larger = int64(1 + rng.Intn(100000))
		case 13:
			c.Smaller = int64(1 + rng.Intn(100000))
		case 14:
			if depth > 0 {
				c.Not = append(c.Not, e.randCriteria(depth-1))
			}
		case 15:
			if depth > 0 {
				c.Or = append(c.Or, [2]imap.SearchCriteria{e.randCriteria(depth - 1), e.randCriteria(depth - 1)})
			}
		}
	}
	return c
}

func dateKey(t time.Time) string {
	if t.IsZero() {
		return ""
	}
	return t.Format("2006-01-02")
}

// canon renders a criteria tree in a normal form: what must be preserved between
// the caller's criteria and the criteria the backend receives.
func canon(c *imap.SearchCriteria) string {
	var p []string
	for _, s := range c.SeqNum {
		p = append(p, "seq:"+s.String())
	}
	for _, s := range c.UID {
		p = append(p, "uid:"+s.String())
	}
	if k := dateKey(c.Since); k != "" {
		p = append(p, "since:"+k)
	}
	if k := dateKey(c.Before); k != "" {
		p = append(p, "before:"+k)
	}
	if k := dateKey(c.SentSince); k != "" {
		p = append(p, "sentsince:"+k)
	}
	if k := dateKey(c.SentBefore); k != "" {
		p = append(p, "sentbefore:"+k)
	}
	for _, h := range c.Header {
		p = append(p, fmt.Sprintf("header:%q=%q", strings.ToLower(h.Key), h.Value))
	}
	for _, s := range c.Body {
		p = append(p, fmt.Sprintf("body:%q", s))
	}
	for _, s := range c.Text {
		p = append(p, fmt.Sprintf("text:%q", s))
	}
	for _, f := range c.Flag {
		p = append(p, "flag:"+strings.ToLower(string(f)))
	}
	for _, f := range c.NotFlag {
		p = append(p, "notflag:"+strings.ToLower(string(f)))
	}
	if c.Larger != 0 {
		p = append(p, fmt.Sprintf("larger:%d", c.Larger))
	}
	if c.Smaller != 0 {
		p = append(p, fmt.Sprintf("smaller:%d", c.Smaller))
	}
	for i := range c.Not {
		p = append(p, "not("+canon(&c.Not[i])+")")
	}
	for i := range c.Or {
		a, b := canon(&c.Or[i][0]), canon(&c.Or[i][1])
		if b < a {
			a, b = b, a
		}
		p = append(p, "or("+a+"|"+b+")")
	}
	sort.Strings(p)
	return strings.Join(p, " ")
}

// expectedCriteria is what the wire format can carry of the caller's criteria:
// dates are calendar dates (in the time's own zone) at 00:00 UTC.
func expectedCriteria(c *imap.SearchCriteria) *imap.SearchCriteria {
	o := kit.CloneCriteria(c) // (keeps the '$' marker)
	fix := func(t *time.Time) {
		if !t.IsZero() {
			*t = time.Date(t.Year(), t.Month(), t.Day(), 0, 0, 0, 0, time.UTC)
		}
	}
	// ON: the client folds since/before 24h apart into ON <since date>
	if !o.Since.IsZero() && !o.Before.IsZero() && o.Before.Sub(o.Since) == 24*time.Hour {
		d := time.Date(o.Since.Year(), o.Since.Month(), o.Since.Day(), 0, 0, 0, 0, time.UTC)
		o.Since, o.Before = d, d.Add(24*time.Hour)
	} else {
		fix(&o.Since)
		fix(&o.Before)
	}
	if !o.SentSince.IsZero() && !o.SentBefore.IsZero() && o.SentBefore.Sub(o.SentSince) == 24*time.Hour {
		d := time.Date(o.SentSince.Year(), o.SentSince.Month(), o.SentSince.Day(), 0, 0, 0, 0, time.UTC)
		o.SentSince, o.SentBefore = d, d.Add(24*time.Hour)
	} else {
		fix(&o.SentSince)
		fix(&o.SentBefore)
	}
	for i := range o.Not {
		o.Not[i] = *expectedCriteria(&o.Not[i])
	}
	for i := range o.Or {
		o.Or[i][0] = *expectedCriteria(&o.Or[i][0])
		o.Or[i][1] = *expectedCriteria(&o.Or[i][1])
	}
	return o
}

func maxStrLen(c *imap.SearchCriteria) int {
	m := 0
	up := func(s string) {
		if len(s) > m {
			m = len(s)
		}
	}
	for _, h := range c.Header {
		up(h.Key)
		up(h.Value)
	}
	for _, s := range c.Body {
		up(s)
	}
	for _, s := range c.Text {
		up(s)
	}
	for i := range c.Not {
		if n := maxStrLen(&c.Not[i]); n > m {
			m = n
		}
	}
	for i := range c.Or {
		for j := 0; j < 2; j++ {
			if n := maxStrLen(&c.Or[i][j]); n > m {
				m = n
			}
		}
	}
	return m
}

// ---- one operation -----------------------------------------------------------------

// do runs a client call, finds the backend call of the given method and verifies it.
// oversized: an argument exceeds the server's 4096-byte buffering limit (refusal is legitimate).
func (e *env) do(op, method string, oversized bool, run func() error, verify func(c *kit.Call) string) {
	base := e.srv.B.NCalls()
	errc := make(chan error, 1)
	go func() { errc <- run() }()
	var err error
	select {
	case err = <-errc:
	case <-time.After(60 * time.Second):
		e.viol("command-hangs", op, "the client call did not return")
		return
	}
	var call *kit.Call
	for _, c := range e.srv.B.CallsSince(base) {
		if c.ConnID == e.sessID && c.Method == method {
			call = c
		}
	}
	e.w.Metric("commands", 1)
	e.w.Class(e.class() + "/" + strings.Fields(op)[0])
	// the case is identified by the bytes the client put on the wire for it (tag stripped)
	{
		cmdBytes, next := e.log.Since("client", e.logPos)
		e.logPos = next
		if i := bytes.IndexByte(cmdBytes, ' '); i >= 0 {
			cmdBytes = cmdBytes[i:]
		}
		e.w.Case(hx.HashBytes(append([]byte(e.class()), cmdBytes...)))
	}
	e.hist = append(e.hist, fmt.Sprintf("%s -> err=%v", op, err))
	if len(e.hist) > 6 {
		e.hist = e.hist[1:]
	}
	if method == "" {
		if err != nil {
			e.viol("command-rejected", op, err.Error())
		}
		return
	}
	if call == nil {
		if oversized {
			// (a refused non-synchronising literal may legitimately end the connection, RFC 7888)
			e.w.Metric("oversized_refused", 1)
			e.lossOK = true
			return
		}
		e.viol("command-not-delivered", op, fmt.Sprintf("no Session.%s call was made (client error: %v) although every argument is representable", method, err))
		return
	}
	if msg := verify(call); msg != "" {
		e.viol("argument-altered", op, msg)
	}
}

func strDesc(s string) string {
	if len(s) > 40 {
		return fmt.Sprintf("%q...(%d bytes)", s[:40], len(s))
	}
	return fmt.Sprintf("%q", s)
}

func (e *env) oneOp() {
	rng := e.rng
	c := e.c
	switch rng.Intn(21) {
	case 20: // IDLE (and, where the server offers it, UNAUTHENTICATE followed by a fresh login)
		e.do("IDLE", "Idle", false, func() error {
			idle, err := c.Idle()
			if err != nil {
				return err
			}
			if err := idle.Close(); err != nil {
				return err
			}
			return idle.Wait()
		}, func(*kit.Call) string { return "" })
		if e.cfg.caps.Has(imap.CapUnauthenticate) && rng.Intn(3) == 0 {
			e.do("UNAUTHENTICATE", "Unauthenticate", false, func() error { return c.Unauthenticate().Wait() }, func(*kit.Call) string { return "" })
			u, uc := e.str()
			pw, pc := e.str()
			if len(u) > 4096 || len(pw) > 4096 {
				u, uc, pw, pc = "user", "ascii", "pass", "ascii"
			}
			e.do("LOGIN (after UNAUTHENTICATE) <"+uc+"> <"+pc+">", "Login", false, func() error { return c.Login(u, pw).Wait() }, func(k *kit.Call) string {
				if k.Username != u || k.Password != pw {
					return fmt.Sprintf("credentials (%s, %s) delivered as (%s, %s)", strDesc(u), strDesc(pw), strDesc(k.Username), strDesc(k.Password))
				}
				return ""
			})
			e.ro = false
			e.do("SELECT (re-select)", "Select", false, func() error { _, err := c.Select("INBOX", nil).Wait(); return err }, func(*kit.Call) string { return "" })
		}
	case 0: // CREATE with special-use
		name, mc := e.mbox()
		var su []imap.MailboxAttr
		if rng.Intn(2) == 0 {
			su = []imap.MailboxAttr{[]imap.MailboxAttr{imap.MailboxAttrSent, imap.MailboxAttrTrash, "\\X-Mine", imap.MailboxAttrArchive}[rng.Intn(4)]}
		}
		e.do("CREATE <"+mc+">", "Create", false, func() error { return c.Create(name, &imap.CreateOptions{SpecialUse: su}).Wait() }, func(k *kit.Call) string {
			if k.Mailbox != foldMailbox(name) {
				return fmt.Sprintf("mailbox %s delivered as %s", strDesc(name), strDesc(k.Mailbox))
			}
			if fmt.Sprint(k.CreateOpts.SpecialUse) != fmt.Sprint(su) && !(len(su) == 0 && len(k.CreateOpts.SpecialUse) == 0) {
				return fmt.Sprintf("special-use %v delivered as %v", su, k.CreateOpts.SpecialUse)
			}
			return ""
		})
	case 1:
		name, mc := e.mbox()
		m := []string{"Delete", "Subscribe", "Unsubscribe"}[rng.Intn(3)]
		e.do(strings.ToUpper(m)+" <"+mc+">", m, false, func() error {
			switch m {
			case "Delete":
				return c.Delete(name).Wait()
			case "Subscribe":
				return c.Subscribe(name).Wait()
			}
			return c.Unsubscribe(name).Wait()
		}, func(k *kit.Call) string {
			if k.Mailbox != foldMailbox(name) {
				return fmt.Sprintf("mailbox %s delivered as %s", strDesc(name), strDesc(k.Mailbox))
			}
			return ""
		})
	case 2:
		a, ac := e.mbox()
		b, bc := e.mbox()
		e.do("RENAME <"+ac+"> <"+bc+">", "Rename", false, func() error { return c.Rename(a, b).Wait() }, func(k *kit.Call) string {
			if k.Mailbox != foldMailbox(a) || k.Mailbox2 != foldMailbox(b) {
				return fmt.Sprintf("(%s, %s) delivered as (%s, %s)", strDesc(a), strDesc(b), strDesc(k.Mailbox), strDesc(k.Mailbox2))
			}
			return ""
		})
	case 3, 4: // LIST
		ref := ""
		rc := "empty"
		if rng.Intn(2) == 0 {
			ref, rc = e.mbox()
		}
		pat, pc := e.mbox()
		switch rng.Intn(4) {
		case 0:
			pat += "*"
		case 1:
			pat = "%/" + pat
		case 2:
			pat = []string{"*", "%", "", "INBOX", "a/%/b*"}[rng.Intn(5)]
			pc = "wild"
		}
		opts := &imap.ListOptions{SelectSubscribed: rng.Intn(3) == 0, SelectRemote: rng.Intn(4) == 0, ReturnSubscribed: rng.Intn(3) == 0, ReturnChildren: rng.Intn(3) == 0}
		if opts.SelectSubscribed && rng.Intn(2) == 0 {
			opts.SelectRecursiveMatch = true
		}
		if rng.Intn(3) == 0 {
			opts.ReturnStatus = e.randStatusOpts()
		}
		if rng.Intn(4) == 0 {
			opts = nil
		}
		e.do("LIST ref<"+rc+"> pattern<"+pc+">", "List", false, func() error { return c.List(ref, pat, opts).Close() }, func(k *kit.Call) string {
			if k.ListRef != foldMailbox(ref) {
				return fmt.Sprintf("reference %s delivered as %s", strDesc(ref), strDesc(k.ListRef))
			}
			want := []string{pat}
			if pat == "" {
				want = nil
			}
			if fmt.Sprintf("%q", k.ListPatterns) != fmt.Sprintf("%q", want) {
				return fmt.Sprintf("pattern %q delivered as %q", want, k.ListPatterns)
			}
			wo := imap.ListOptions{}
			if opts != nil {
				wo = *opts
			}
			g := k.ListOpts
			if g.SelectSubscribed != wo.SelectSubscribed || g.SelectRemote != wo.SelectRemote || g.SelectRecursiveMatch != wo.SelectRecursiveMatch || g.ReturnSubscribed != wo.ReturnSubscribed || g.ReturnChildren != wo.ReturnChildren {
				return fmt.Sprintf("options %+v delivered as %+v", wo, *g)
			}
			if (g.ReturnStatus == nil) != (wo.ReturnStatus == nil) || (g.ReturnStatus != nil && *g.ReturnStatus != *wo.ReturnStatus) {
				return fmt.Sprintf("RETURN (STATUS %+v) delivered as %+v", wo.ReturnStatus, g.ReturnStatus)
			}
			return ""
		})
	case 5: // STATUS
		name, mc := e.mbox()
		opts := e.randStatusOpts()
		e.do("STATUS <"+mc+">", "Status", false, func() error { _, err := c.Status(name, opts).Wait(); return err }, func(k *kit.Call) string {
			if k.Mailbox != foldMailbox(name) {
				return fmt.Sprintf("mailbox %s delivered as %s", strDesc(name), strDesc(k.Mailbox))
			}
			if *k.StatusOpts != *opts {
				return fmt.Sprintf("items %+v delivered as %+v", *opts, *k.StatusOpts)
			}
			return ""
		})
	case 6, 7: // APPEND
		name, mc := e.mbox()
		size := []int{0, 1, 100, 4095, 4096, 4097, 70000}[rng.Intn(7)]
		payload := make([]byte, size)
		rng.Read(payload)
		opts := &imap.AppendOptions{}
		if rng.Intn(2) == 0 {
			opts.Flags = randFlags(rng, 1)
		}
		if rng.Intn(2) == 0 {
			opts.Time = randDate(rng)
		}
		if rng.Intn(5) == 0 {
			opts = nil
		}
		sum := sha256.Sum256(payload)
		e.do(fmt.Sprintf("APPEND <%s> %d bytes", mc, size), "Append", false, func() error {
			ac := c.Append(name, int64(size), opts)
			if _, err := ac.Write(payload); err != nil {
				ac.Close()
				return err
			}
			if err := ac.Close(); err != nil {
				return err
			}
			_, err := ac.Wait()
			return err
		}, func(k *kit.Call) string {
			if k.Mailbox != foldMailbox(name) {
				return fmt.Sprintf("mailbox %s delivered as %s", strDesc(name), strDesc(k.Mailbox))
			}
			if k.AppendSize != int64(size) || k.AppendSHA != hex.EncodeToString(sum[:]) {
				return fmt.Sprintf("payload of %d bytes (sha %x) delivered as %d bytes read (sha %s)", size, sum[:4], k.AppendRead, k.AppendSHA[:8])
			}
			var wf []imap.Flag
			var wt time.Time
			if opts != nil {
				wf, wt = opts.Flags, opts.Time
			}
			if fmt.Sprint(canonFlags(k.AppendOpts.Flags)) != fmt.Sprint(canonFlags(wf)) {
				return fmt.Sprintf("flags %v delivered as %v", wf, k.AppendOpts.Flags)
			}
			if wt.IsZero() != k.AppendOpts.Time.IsZero() || (!wt.IsZero() && (!wt.Equal(k.AppendOpts.Time) || zoneOff(wt) != zoneOff(k.AppendOpts.Time))) {
				return fmt.Sprintf("date %v delivered as %v", wt, k.AppendOpts.Time)
			}
			return ""
		})
	case 8: // SELECT / EXAMINE
		name, mc := e.mbox()
		ro := rng.Intn(2) == 0
		e.do("SELECT <"+mc+">", "Select", false, func() error { _, err := c.Select(name, &imap.SelectOptions{ReadOnly: ro}).Wait(); return err }, func(k *kit.Call) string {
			if k.Mailbox != foldMailbox(name) || k.SelectOpts.ReadOnly != ro {
				return fmt.Sprintf("(%s, readonly=%v) delivered as (%s, readonly=%v)", strDesc(name), ro, strDesc(k.Mailbox), k.SelectOpts.ReadOnly)
			}
			return ""
		})
		e.ro = ro
	case 9, 10, 11: // SEARCH
		crit := e.randCriteria(2)
		uid := rng.Intn(2) == 0
		opts := &imap.SearchOptions{ReturnMin: rng.Intn(3) == 0, ReturnMax: rng.Intn(3) == 0, ReturnAll: rng.Intn(3) == 0, ReturnCount: rng.Intn(3) == 0, ReturnSave: e.rev2 && rng.Intn(3) == 0}
		if rng.Intn(3) == 0 {
			opts = nil
		}
		over := maxStrLen(&crit) > 4096
		name := "SEARCH"
		if uid {
			name = "UID SEARCH"
		}
		e.do(name+" {"+sr.Fields(&crit)+"}", "Search", over, func() error {
			var err error
			if uid {
				_, err = c.UIDSearch(&crit, opts).Wait()
			} else {
				_, err = c.Search(&crit, opts).Wait()
			}
			return err
		}, func(k *kit.Call) string {
			if (k.NumKind == imapserver.NumKindUID) != uid {
				return "UID-ness of the command changed"
			}
			want := expectedCriteria(&crit)
			if canon(want) != canon(k.Criteria) {
				return fmt.Sprintf("criteria {%s} delivered as {%s}", canon(want), canon(k.Criteria))
			}
			// semantic cross-check on the message universe (a representation change must not hide a loss)
			if !hasSearchRes(want) {
				a, b := sr.Selected(want, e.uni, e.ctx), sr.Selected(k.Criteria, e.uni, e.ctx)
				for i := range a {
					if a[i] != b[i] {
						return fmt.Sprintf("criteria {%s} and delivered {%s} select different messages (e.g. #%d)", canon(want), canon(k.Criteria), i+1)
					}
				}
			}
			wo := imap.SearchOptions{}
			if opts != nil {
				wo = *opts
			}
			if !wo.ReturnMin && !wo.ReturnMax && !wo.ReturnAll && !wo.ReturnCount {
				wo.ReturnAll = true // documented server default
			}
			if *k.SearchOpts != wo {
				return fmt.Sprintf("return options %+v delivered as %+v", wo, *k.SearchOpts)
			}
			return ""
		})
	case 12, 13, 14: // FETCH
		uid := rng.Intn(2) == 0
		ns := randNumSet(rng, uid, e.rev2)
		opts := e.randFetchOpts()
		over := false
		for _, bs := range opts.BodySection {
			for _, h := range append(append([]string{}, bs.HeaderFields...), bs.HeaderFieldsNot...) {
				if len(h) > 4096 {
					over = true
				}
			}
		}
		e.do("FETCH "+fetchShape(opts), "Fetch", over, func() error { return c.Fetch(ns, opts).Close() }, func(k *kit.Call) string {
			if !sameNumSet(ns, k.NumSet) {
				return fmt.Sprintf("set %T %q delivered as %T %q", ns, ns.String(), k.NumSet, k.NumSet.String())
			}
			return cmpFetch(opts, k.FetchOpts, uid)
		})
	case 15: // STORE
		uid := rng.Intn(2) == 0
		ns := randNumSet(rng, uid, e.rev2)
		sf := &imap.StoreFlags{Op: imap.StoreFlagsOp(rng.Intn(3)), Silent: rng.Intn(2) == 0, Flags: randFlags(rng, 0)}
		e.do(fmt.Sprintf("STORE op=%d silent=%v", sf.Op, sf.Silent), "Store", false, func() error { return c.Store(ns, sf, nil).Close() }, func(k *kit.Call) string {
			if !sameNumSet(ns, k.NumSet) {
				return fmt.Sprintf("set %q delivered as %q", ns.String(), k.NumSet.String())
			}
			if k.StoreFlags.Op != sf.Op || k.StoreFlags.Silent != sf.Silent || fmt.Sprint(canonFlags(k.StoreFlags.Flags)) != fmt.Sprint(canonFlags(sf.Flags)) {
				return fmt.Sprintf("store %+v delivered as %+v", *sf, *k.StoreFlags)
			}
			return ""
		})
	case 16: // COPY / MOVE
		uid := rng.Intn(2) == 0
		ns := randNumSet(rng, uid, e.rev2)
		dest, mc := e.mbox()
		if rng.Intn(2) == 0 {
			e.do("COPY <"+mc+">", "Copy", false, func() error { _, err := c.Copy(ns, dest).Wait(); return err }, func(k *kit.Call) string {
				if !sameNumSet(ns, k.NumSet) || k.Mailbox != foldMailbox(dest) {
					return fmt.Sprintf("(%q, %s) delivered as (%q, %s)", ns.String(), strDesc(dest), k.NumSet.String(), strDesc(k.Mailbox))
				}
				return ""
			})
		} else if e.cfg.name != "rev1" && e.cfg.name != "rev1+literal+" { // MOVE advertised
			e.do("MOVE <"+mc+">", "Move", false, func() error { _, err := c.Move(ns, dest).Wait(); return err }, func(k *kit.Call) string {
				if !sameNumSet(ns, k.NumSet) || k.Mailbox != foldMailbox(dest) {
					return fmt.Sprintf("(%q, %s) delivered as (%q, %s)", ns.String(), strDesc(dest), k.NumSet.String(), strDesc(k.Mailbox))
				}
				return ""
			})
		}
	case 17: // EXPUNGE / UID EXPUNGE
		if rng.Intn(2) == 0 {
			e.do("EXPUNGE", "Expunge", false, func() error { return c.Expunge().Close() }, func(k *kit.Call) string {
				if k.UIDs != nil {
					return fmt.Sprintf("EXPUNGE delivered with a UID set %q", k.UIDs.String())
				}
				return ""
			})
		} else {
			us := randNumSet(rng, true, e.rev2).(imap.UIDSet)
			e.do("UID EXPUNGE", "Expunge", false, func() error { return c.UIDExpunge(us).Close() }, func(k *kit.Call) string {
				if k.UIDs == nil || !sameNumSet(us, *k.UIDs) {
					return fmt.Sprintf("UID set %q delivered as %v", us.String(), k.UIDs)
				}
				return ""
			})
		}
	case 18:
		e.do("NOOP", "", false, func() error { return c.Noop().Wait() }, nil)
		if e.cfg.name != "rev1" && e.cfg.name != "rev1+literal+" {
			e.do("NAMESPACE", "Namespace", false, func() error { _, err := c.Namespace().Wait(); return err }, func(*kit.Call) string { return "" })
		}
	case 19: // CLOSE / UNSELECT then re-select
		if rng.Intn(2) == 0 {
			e.do("UNSELECT", "Unselect", false, func() error { return c.Unselect().Wait() }, func(*kit.Call) string { return "" })
		} else {
			base := e.srv.B.NCalls()
			e.do("CLOSE", "Unselect", false, func() error { return c.UnselectAndExpunge().Wait() }, func(*kit.Call) string {
				expunged := false
				for _, k := range e.srv.B.CallsSince(base) {
					if k.ConnID == e.sessID && k.Method == "Expunge" && k.UIDs == nil {
						expunged = true
					}
				}
				// CLOSE removes the deleted messages only if the mailbox was selected read-write
				switch {
				case !e.ro && !expunged:
					return "CLOSE did not expunge"
				case e.ro && expunged:
					return "CLOSE expunged a mailbox selected with EXAMINE"
				}
				return ""
			})
		}
		e.ro = false
		e.do("SELECT (re-select)", "Select", false, func() error { _, err := c.Select("INBOX", nil).Wait(); return err }, func(*kit.Call) string { return "" })
	}
}

func tailLog(l []string) []string {
	if len(l) > 3 {
		l = l[len(l)-3:]
	}
	return l
}

func zoneOff(t time.Time) int { _, o := t.Zone(); return o }

func hasSearchRes(c *imap.SearchCriteria) bool {
	for _, u := range c.UID {
		if imap.IsSearchRes(u) {
			return true
		}
	}
	for i := range c.Not {
		if hasSearchRes(&c.Not[i]) {
			return true
		}
	}
	for i := range c.Or {
		if hasSearchRes(&c.Or[i][0]) || hasSearchRes(&c.Or[i][1]) {
			return true
		}
	}
	return false
}

func (e *env) randStatusOpts() *imap.StatusOptions {
	r := e.rng
	o := &imap.StatusOptions{NumMessages: r.Intn(2) == 0, UIDNext: r.Intn(2) == 0, UIDValidity: r.Intn(2) == 0, NumUnseen: r.Intn(2) == 0, NumDeleted: r.Intn(2) == 0, Size: r.Intn(2) == 0, AppendLimit: r.Intn(3) == 0, DeletedStorage: r.Intn(3) == 0}
	if *o == (imap.StatusOptions{}) {
		o.NumMessages = true
	}
	return o
}

func (e *env) randPart() []int {
	var p []int
	for k := e.rng.Intn(4); k > 0; k-- {
		p = append(p, 1+e.rng.Intn(5))
	}
	return p
}

func (e *env) randPartial() *imap.SectionPartial {
	if e.rng.Intn(2) == 0 {
		return nil
	}
	return &imap.SectionPartial{Offset: []int64{0, 1, 4096, 1 << 32, 1<<63 - 1}[e.rng.Intn(5)], Size: []int64{0, 1, 100, 1 << 31, 1<<63 - 1}[e.rng.Intn(5)]}
}

func (e *env) randFetchOpts() *imap.FetchOptions {
	r := e.rng
	o := &imap.FetchOptions{Envelope: r.Intn(2) == 0, Flags: r.Intn(2) == 0, InternalDate: r.Intn(2) == 0, RFC822Size: r.Intn(2) == 0, UID: r.Intn(2) == 0}
	if r.Intn(3) == 0 {
		o.BodyStructure = &imap.FetchItemBodyStructure{Extended: r.Intn(2) == 0}
	}
	for k := r.Intn(4); k > 0; k-- {
		bs := &imap.FetchItemBodySection{Peek: r.Intn(2) == 0, Part: e.randPart(), Partial: e.randPartial()}
		switch r.Intn(6) {
		case 0:
			bs.Specifier = imap.PartSpecifierHeader
		case 1:
			bs.Specifier = imap.PartSpecifierText
		case 2:
			if len(bs.Part) > 0 {
				bs.Specifier = imap.PartSpecifierMIME
			}
		case 3:
			bs.Specifier = imap.PartSpecifierHeader
			for j := 1 + r.Intn(3); j > 0; j-- {
				h, _ := e.str()
				if h == "" {
					h = "Subject"
				}
				bs.HeaderFields = append(bs.HeaderFields, h)
			}
		case 4:
			bs.Specifier = imap.PartSpecifierHeader
			bs.HeaderFieldsNot = []string{"Received", "X-" + fmt.Sprint(r.Intn(9))}
		}
		o.BodySection = append(o.BodySection, bs)
	}
	if e.rev2 || e.cfg.name == "rev1+ext" {
		// BINARY is part of IMAP4rev2; the server parses it unconditionally
	}
	for k := r.Intn(2); k > 0; k-- {
		o.BinarySection = append(o.BinarySection, &imap.FetchItemBinarySection{Part: e.randPart(), Partial: e.randPartial(), Peek: r.Intn(2) == 0})
	}
	for k := r.Intn(2); k > 0; k-- {
		o.BinarySectionSize = append(o.BinarySectionSize, &imap.FetchItemBinarySectionSize{Part: e.randPart()})
	}
	return o
}

func fetchShape(o *imap.FetchOptions) string {
	var p []string
	add := func(b bool, n string) {
		if b {
			p = append(p, n)
		}
	}
	add(o.Envelope, "ENVELOPE")
	add(o.Flags, "FLAGS")
	add(o.InternalDate, "INTERNALDATE")
	add(o.RFC822Size, "SIZE")
	add(o.UID, "UID")
	add(o.BodyStructure != nil, "BODYSTRUCTURE")
	add(len(o.BodySection) > 0, fmt.Sprintf("BODY[]x%d", len(o.BodySection)))
	add(len(o.BinarySection) > 0, "BINARY")
	add(len(o.BinarySectionSize) > 0, "BINARY.SIZE")
	return strings.Join(p, "+")
}

func partialStr(p *imap.SectionPartial) string {
	if p == nil {
		return "-"
	}
	return fmt.Sprintf("<%d.%d>", p.Offset, p.Size)
}

func sectionStr(s *imap.FetchItemBodySection) string {
	return fmt.Sprintf("{spec=%s part=%v fields=%q not=%q partial=%s peek=%v}", s.Specifier, s.Part, lower(s.HeaderFields), lower(s.HeaderFieldsNot), partialStr(s.Partial), s.Peek)
}

func lower(l []string) []string {
	var o []string
	for _, s := range l {
		o = append(o, s)
	}
	return o
}

func cmpFetch(want, got *imap.FetchOptions, uid bool) string {
	wUID := want.UID || uid
	if got.Envelope != want.Envelope || got.Flags != want.Flags || got.InternalDate != want.InternalDate || got.RFC822Size != want.RFC822Size || got.UID != wUID {
		return fmt.Sprintf("items env=%v flags=%v date=%v size=%v uid=%v delivered as env=%v flags=%v date=%v size=%v uid=%v", want.Envelope, want.Flags, want.InternalDate, want.RFC822Size, wUID, got.Envelope, got.Flags, got.InternalDate, got.RFC822Size, got.UID)
	}
	if (want.BodyStructure == nil) != (got.BodyStructure == nil) || (want.BodyStructure != nil && want.BodyStructure.Extended != got.BodyStructure.Extended) {
		return fmt.Sprintf("body structure %+v delivered as %+v", want.BodyStructure, got.BodyStructure)
	}
	if len(want.BodySection) != len(got.BodySection) {
		return fmt.Sprintf("%d body sections delivered as %d", len(want.BodySection), len(got.BodySection))
	}
	for i := range want.BodySection {
		if sectionStr(want.BodySection[i]) != sectionStr(got.BodySection[i]) {
			return fmt.Sprintf("body section #%d %s delivered as %s", i, sectionStr(want.BodySection[i]), sectionStr(got.BodySection[i]))
		}
	}
	if len(want.BinarySection) != len(got.BinarySection) || len(want.BinarySectionSize) != len(got.BinarySectionSize) {
		return fmt.Sprintf("%d/%d binary items delivered as %d/%d", len(want.BinarySection), len(want.BinarySectionSize), len(got.BinarySection), len(got.BinarySectionSize))
	}
	for i := range want.BinarySection {
		a, b := want.BinarySection[i], got.BinarySection[i]
		if fmt.Sprint(a.Part) != fmt.Sprint(b.Part) || partialStr(a.Partial) != partialStr(b.Partial) || a.Peek != b.Peek {
			return fmt.Sprintf("binary section #%d %+v %s delivered as %+v %s", i, *a, partialStr(a.Partial), *b, partialStr(b.Partial))
		}
	}
	for i := range want.BinarySectionSize {
		if fmt.Sprint(want.BinarySectionSize[i].Part) != fmt.Sprint(got.BinarySectionSize[i].Part) {
			return fmt.Sprintf("binary size #%d part %v delivered as %v", i, want.BinarySectionSize[i].Part, got.BinarySectionSize[i].Part)
		}
	}
	return ""
}

func pipeTo(srv *kit.Server) (*vconn.Conn, *vconn.Conn, *vconn.Log) {
	log := &vconn.Log{}
	c, s := vconn.Pipe("client", "server", log)
	srv.Ln.Inject(s)
	return c, s, log
}

func body(w *hx.W) {
	uni, ctx := sr.Universe(200)
	rng := w.Rand("c02")
	rounds := w.Pick(6, 100)
	if w.Shard < 3 {
		// a long-lived connection (thousands of commands): what reaches the backend must not depend
		// on how much the connection has already carried
		if w.Quick() {
			rounds = 3
		}
		cfg := srvCfgs[w.Shard%len(srvCfgs)]
		runSession(w, rng, cfg, []string{"none", "UTF8=ACCEPT", "none"}[w.Shard%3], uni, ctx, w.Pick(1200, 5000))
		w.Metric("long_sessions", 1)
	}
	for round := 0; round < rounds; round++ {
		for _, cfg := range srvCfgs {
			for _, enabled := range []string{"none", "UTF8=ACCEPT", "IMAP4rev2"} {
				if enabled == "IMAP4rev2" && !cfg.caps.Has(imap.CapIMAP4rev2) {
					continue
				}
				runSession(w, rng, cfg, enabled, uni, ctx, w.Pick(45, 60))
			}
		}
	}
}

func runSession(w *hx.W, rng *rand.Rand, cfg srvCfg, enabled string, uni []sr.Msg, ctx sr.Ctx, nops int) {
	srv := kit.NewServer(kit.ServerCfg{Caps: cfg.caps, InsecureAuth: true, Kind: kit.SessFull})
	defer srv.Close()
	cEnd, _, log := pipeTo(srv)
	c := imapclient.New(cEnd, nil)
	defer c.Close()
	e := &env{w: w, rng: rng, cfg: cfg, enabled: enabled, srv: srv, c: c, uni: uni, ctx: ctx, log: log}
	if err := c.WaitGreeting(); err != nil {
		e.viol("greeting", "connect", err.Error())
		return
	}
	e.sessID = len(srv.B.Sessions()) - 1
	// credentials: arbitrary byte strings through LOGIN; AUTHENTICATE PLAIN cannot carry NUL
	u, uc := e.str()
	p, pc := e.str()
	over := len(u) > 4096 || len(p) > 4096
	if rng.Intn(3) == 0 && !strings.Contains(u+p, "\x00") {
		e.do("AUTHENTICATE PLAIN <"+uc+"> <"+pc+">", "Login", over, func() error { return c.Authenticate(sasl.NewPlainClient("", u, p)) }, func(k *kit.Call) string {
			if k.Username != u || k.Password != p {
				return fmt.Sprintf("credentials (%s, %s) delivered as (%s, %s)", strDesc(u), strDesc(p), strDesc(k.Username), strDesc(k.Password))
			}
			return ""
		})
	} else {
		e.do("LOGIN <"+uc+"> <"+pc+">", "Login", over, func() error { return c.Login(u, p).Wait() }, func(k *kit.Call) string {
			if k.Username != u || k.Password != p {
				return fmt.Sprintf("credentials (%s, %s) delivered as (%s, %s)", strDesc(u), strDesc(p), strDesc(k.Username), strDesc(k.Password))
			}
			return ""
		})
	}
	if e.lossOK {
		if err := c.Noop().Wait(); err != nil {
			return
		}
		e.lossOK = false
	}
	if c.State() != imap.ConnStateAuthenticated {
		// the login was refused (oversized credentials): log in plainly
		if err := c.Login("user", "pass").Wait(); err != nil {
			e.viol("login-failed", "LOGIN user pass", err.Error())
			return
		}
	}
	switch enabled {
	case "UTF8=ACCEPT":
		c.Enable(imap.CapUTF8Accept).Wait()
	case "IMAP4rev2":
		c.Enable(imap.CapIMAP4rev2).Wait()
		e.rev2 = true
	}
	if cfg.caps.Has(imap.CapIMAP4rev2) || cfg.caps.Has(imap.CapSearchRes) {
		e.rev2 = true // '$' and SAVE are available
	}
	if _, err := c.Select("INBOX", nil).Wait(); err != nil {
		e.viol("select-failed", "SELECT INBOX", err.Error())
		return
	}
	for i := 0; i < nops; i++ {
		e.oneOp()
		if e.lossOK {
			// a refused non-synchronising literal may have ended the connection: probe it
			if err := c.Noop().Wait(); err != nil {
				break
			}
			e.lossOK = false
		}
		if c.State() == imap.ConnStateLogout {
			e.viol("connection-lost", "session", fmt.Sprintf("the connection died during the session; last operations: %v; server log: %v", e.hist, tailLog(e.srv.Log.Lines())))
			return
		}
		if c.State() != imap.ConnStateSelected {
			c.Select("INBOX", nil).Wait()
			e.ro = false
		}
	}
	if p := srv.Log.Panics(); len(p) > 0 {
		e.viol("server-panic", "session", p[0])
	}
	_ = bytes.MinRead
}

func main() {
	hx.Main(hx.Spec{
		ID:    "C02",
		Level: "exploration",
		Rule:  "sessions of 45..60 client API calls (plus long-lived sessions of 1200..5000 calls on one connection) over every command the server implements (LOGIN / AUTHENTICATE PLAIN, CREATE with special-use, DELETE, RENAME, SUBSCRIBE, UNSUBSCRIBE, LIST with select/return options and STATUS items, STATUS, APPEND with flags/date/payload sizes around 4096, SELECT/EXAMINE, UNSELECT, CLOSE, EXPUNGE, UID EXPUNGE, SEARCH/UID SEARCH with criteria trees of depth <= 2 over every field and return options incl. SAVE, FETCH/UID FETCH with all attribute subsets and body/binary sections with parts, specifiers, header lists and partials, STORE, COPY, MOVE, NAMESPACE, IDLE, UNAUTHENTICATE + LOGIN) x string arguments from 18 classes and mailbox names from 10 classes x servers {IMAP4rev1, rev1+rev2, rev1+LITERAL+, rev1+extensions} x {nothing enabled, UTF8=ACCEPT, IMAP4rev2}; distinct = distinct (server configuration, enabled extension, command bytes on the wire without the tag)",
		Assumptions: []string{
			"normalisation: INBOX case-fold; flags and header field names compared case-insensitively; search dates compared as calendar dates in the time's own zone; since+before 24h apart is equivalent to ON; Larger/Smaller zero = unset; a search without return option is delivered with ReturnAll (documented server default); UID commands imply the UID fetch item",
			"an argument longer than 4096 bytes that the server has to buffer may be refused (checked by C06); if it is accepted it must be intact",
			"features the server does not implement (CONDSTORE, SPECIAL-USE listing, METADATA, QUOTA, SORT, THREAD) are not generated",
		},
		RaceFrames: []string{"imapclient.", "imapwire.", "imapserver."},
		Shards:     func(string) int { return 12 },
		WallQuick:  20 * time.Minute, WallThorough: 120 * time.Minute,
	}, body)
}
