// C18 — client only uses syntax the server advertised and respects literal sync.
//
// Monitor: a scripted server advertises a capability set and answers every
// command; the client's output byte stream (the tee of the in-process
// connection) is tokenised by the independent scanner internal/wiretok and
// checked against what the server had advertised / enabled when each command
// was written: '{n+}' only with LITERAL+ or (n <= 4096 and LITERAL- / IMAP4rev2),
// 8-bit bytes in quoted strings only with IMAP4rev2 or an enabled UTF8=ACCEPT,
// never CR / LF / NUL in quoted strings. The global ordered event log decides
// literal synchronisation: no payload byte of a synchronising literal before the
// server's '+', and none at all after a tagged refusal. The scripted server
// reacts to a synchronising literal with '+' at once, '+' after unrelated
// untagged data, or a tagged NO / BAD.
package main

import (
	"bufio"
	"bytes"
	"fmt"
	"io"
	"math/rand"
	"runtime"
	"strconv"
	"strings"
	"sync"
	"time"

	imap "github.com/emersion/go-imap/v2"
	"github.com/emersion/go-imap/v2/imapclient"
	"github.com/emersion/go-imap/v2/verif/internal/hx"
	"github.com/emersion/go-imap/v2/verif/internal/vconn"
	"github.com/emersion/go-imap/v2/verif/internal/wiretok"
)

type capCfg struct {
	name      string
	caps      string // advertised in the greeting and after LOGIN
	litPlus   bool
	litMinus  bool // LITERAL- or IMAP4rev2
	rev2      bool
	utf8Avail bool // UTF8=ACCEPT advertised (may be enabled)
}

var cfgs = []capCfg{
	{name: "rev1-bare", caps: "IMAP4rev1"},
	{name: "rev1-literal-", caps: "IMAP4rev1 LITERAL-", litMinus: true},
	{name: "rev1-literal+", caps: "IMAP4rev1 LITERAL+", litPlus: true},
	{name: "rev2", caps: "IMAP4rev2", litMinus: true, rev2: true},
	{name: "rev1+rev2", caps: "IMAP4rev1 IMAP4rev2", litMinus: true, rev2: true},
	{name: "rev1-utf8accept", caps: "IMAP4rev1 ENABLE UTF8=ACCEPT", utf8Avail: true},
	{name: "rev1-utf8accept-literal-", caps: "IMAP4rev1 ENABLE UTF8=ACCEPT LITERAL-", utf8Avail: true, litMinus: true},
	// UTF8=ONLY implies UTF8=ACCEPT (RFC 6855) but, like it, takes effect only once enabled
	{name: "rev1-utf8only", caps: "IMAP4rev1 ENABLE UTF8=ACCEPT UTF8=ONLY", utf8Avail: true},
	{name: "rev1-utf8only-literal+", caps: "IMAP4rev1 ENABLE UTF8=ONLY LITERAL+", utf8Avail: true, litPlus: true},
}

// downgraded is what the scripted server announces (untagged CAPABILITY while the client idles) in
// the capability-change dialogues: everything optional is gone
var downgraded = capCfg{name: "downgraded", caps: "IMAP4rev1 IDLE"}

// reaction of the scripted server to a synchronising literal
type reaction int

const (
	plusNow reaction = iota
	plusAfterData
	refuseNO
	refuseBAD
)

type litRecord struct {
	cmdTag    string
	size      int
	nonSync   bool
	headerEnd int // offset in the client stream just after the header's CRLF
	react     reaction
	plusSeq   int // event sequence number of the server's '+' (or of the refusal)
}

type server struct {
	conn     *vconn.Conn
	client   *vconn.Conn
	br       *bufio.Reader
	cfg      capCfg
	log      *vconn.Log
	mu       sync.Mutex
	enabled  bool // UTF8=ACCEPT enabled
	consumed int  // bytes of the client stream consumed so far
	lits     []litRecord
	reacts   []reaction // plan for the next synchronising literals
	// enableMode: how ENABLE is answered: 0 grant what is available, 1 OK with an empty ENABLED
	// response, 2 OK without any ENABLED response, 3 tagged NO, 4 tagged BAD (all conformant:
	// a capability is enabled only if the server lists it in an ENABLED response)
	enableMode int
	// cur is the capability set currently in force (cfg until a change is announced);
	// changeInIdle makes the next IDLE announce `downgraded` once the client is idling
	cur            capCfg
	changeInIdle   bool
	idleAnnounced  chan struct{}
	announceGo     chan struct{} // closed by the harness when the announcement may be sent
	unauthWithCode bool          // the OK to UNAUTHENTICATE carries a CAPABILITY code
	cmdStart       map[string]cmdInfo
	done           chan struct{}
}

type cmdInfo struct {
	start   int    // offset of the command's first byte in the client stream
	enabled bool   // UTF8=ACCEPT enabled when the command started
	caps    capCfg // what the server had advertised (and the client had processed) when the command started
}

func (s *server) nextReaction() reaction {
	s.mu.Lock()
	defer s.mu.Unlock()
	if len(s.reacts) == 0 {
		return plusNow
	}
	r := s.reacts[0]
	s.reacts = s.reacts[1:]
	return r
}

// lastSeq returns the sequence number of the last event written by this server
// (the server goroutine is the only writer on its side).
func (s *server) lastSeq() int {
	ev := s.log.Events()
	for i := len(ev) - 1; i >= 0; i-- {
		if ev[i].From == "server" {
			return ev[i].Seq
		}
	}
	return -1
}

func (s *server) readLine() (string, error) {
	l, err := s.br.ReadString('\n')
	s.consumed += len(l)
	return l, err
}

func (s *server) serve() {
	defer close(s.done)
	fmt.Fprintf(s.conn, "* OK [CAPABILITY %s] ready\r\n", s.cfg.caps)
	for {
		start := s.consumed
		line, err := s.readLine()
		if err != nil {
			return
		}
		f := strings.Fields(line)
		if len(f) < 2 {
			continue
		}
		tag, name := f[0], strings.ToUpper(f[1])
		s.mu.Lock()
		s.cmdStart[tag] = cmdInfo{start: start, enabled: s.enabled, caps: s.cur}
		s.mu.Unlock()
		refused := false
		// literals on this command line
		for {
			h, ok := wiretok.ParseLitHeader([]byte(strings.TrimRight(line, "\r\n")))
			if !ok {
				break
			}
			rec := litRecord{cmdTag: tag, size: int(h.Size), nonSync: h.NonSync, headerEnd: s.consumed}
			if !h.NonSync {
				rec.react = s.nextReaction()
				switch rec.react {
				case plusNow:
					s.conn.Write([]byte("+ go ahead\r\n"))
					rec.plusSeq = s.lastSeq()
				case plusAfterData:
					// let the client sit in its wait, send unrelated data, let it be processed, then '+'
					s.client.WaitParked(20 * time.Second)
					s.conn.Write([]byte("* 3 EXISTS\r\n* OK still thinking\r\n"))
					s.client.WaitParked(20 * time.Second)
					s.conn.Write([]byte("+ now\r\n"))
					rec.plusSeq = s.lastSeq()
				case refuseNO, refuseBAD:
					st := "NO [TOOBIG] literal refused"
					if rec.react == refuseBAD {
						st = "BAD literal refused"
					}
					fmt.Fprintf(s.conn, "%s %s\r\n", tag, st)
					rec.plusSeq = s.lastSeq()
					refused = true
				}
			}
			s.mu.Lock()
			s.lits = append(s.lits, rec)
			s.mu.Unlock()
			if refused {
				break
			}
			buf := make([]byte, h.Size)
			if _, err := io.ReadFull(s.br, buf); err != nil {
				return
			}
			s.consumed += int(h.Size)
			line, err = s.readLine()
			if err != nil {
				return
			}
		}
		if refused {
			continue
		}
		switch name {
		case "LOGIN":
			fmt.Fprintf(s.conn, "%s OK [CAPABILITY %s] logged in\r\n", tag, s.cur.caps)
		case "CAPABILITY":
			fmt.Fprintf(s.conn, "* CAPABILITY %s\r\n%s OK done\r\n", s.cur.caps, tag)
		case "ENABLE":
			s.mu.Lock()
			em := s.enableMode
			s.mu.Unlock()
			if em != 0 {
				switch em {
				case 1:
					fmt.Fprintf(s.conn, "* ENABLED\r\n%s OK nothing enabled\r\n", tag)
				case 2:
					fmt.Fprintf(s.conn, "%s OK nothing enabled\r\n", tag)
				case 3:
					fmt.Fprintf(s.conn, "%s NO cannot enable\r\n", tag)
				default:
					fmt.Fprintf(s.conn, "%s BAD unknown command\r\n", tag)
				}
			} else if s.cfg.utf8Avail && strings.Contains(strings.ToUpper(line), "UTF8=ACCEPT") {
				s.mu.Lock()
				s.enabled = true
				s.mu.Unlock()
				fmt.Fprintf(s.conn, "* ENABLED UTF8=ACCEPT\r\n%s OK enabled\r\n", tag)
			} else {
				fmt.Fprintf(s.conn, "* ENABLED\r\n%s OK nothing enabled\r\n", tag)
			}
		case "SELECT", "EXAMINE":
			fmt.Fprintf(s.conn, "* 3 EXISTS\r\n* FLAGS (\\Seen)\r\n* OK [UIDVALIDITY 1] ok\r\n%s OK [READ-WRITE] selected\r\n", tag)
		case "LOGOUT":
			fmt.Fprintf(s.conn, "* BYE bye\r\n%s OK done\r\n", tag)
			return
		case "IDLE":
			s.conn.Write([]byte("+ idling\r\n"))
			s.mu.Lock()
			change := s.changeInIdle
			s.changeInIdle = false
			s.mu.Unlock()
			if change {
				select {
				case <-s.announceGo:
				case <-time.After(60 * time.Second):
				}
				// announce the new capability set and let the client process it: from here on it
				// is the advertised set for every command whose bytes are written later
				s.client.WaitParked(20 * time.Second)
				fmt.Fprintf(s.conn, "* CAPABILITY %s\r\n", downgraded.caps)
				s.client.WaitParked(20 * time.Second)
				s.mu.Lock()
				s.cur = downgraded
				s.mu.Unlock()
				close(s.idleAnnounced)
			}
			if _, err := s.readLine(); err != nil {
				return
			}
			fmt.Fprintf(s.conn, "%s OK done\r\n", tag)
		case "UNAUTHENTICATE":
			// RFC 8437: the extensions enabled on the connection are disabled again; the tagged OK may
			// or may not carry the new capability list
			s.mu.Lock()
			s.enabled = false
			withCode := s.unauthWithCode
			s.mu.Unlock()
			if withCode {
				fmt.Fprintf(s.conn, "%s OK [CAPABILITY %s] unauthenticated\r\n", tag, s.cur.caps)
			} else {
				fmt.Fprintf(s.conn, "%s OK unauthenticated\r\n", tag)
			}
		case "AUTHENTICATE":
			if len(f) < 4 {
				s.conn.Write([]byte("+ \r\n"))
				if _, err := s.readLine(); err != nil {
					return
				}
			}
			fmt.Fprintf(s.conn, "%s OK [CAPABILITY %s] authenticated\r\n", tag, s.cfg.caps)
		default:
			fmt.Fprintf(s.conn, "%s OK done\r\n", tag)
		}
	}
}

// ---- argument strings -----------------------------------------------------------

var strClasses = []string{"utf8-then-crlf", "utf8-then-nul", "latin1-then-lf", "crlf-then-utf8", "mix", "ascii", "space", "quote-backslash", "nul", "cr", "lf", "crlf-cmd", "utf8", "badutf8", "latin1", "empty", "brace", "long-ascii", "long-utf8", "exact4096", "over4096"}

func genStr(rng *rand.Rand, class string) string {
	switch class {
	case "utf8-then-crlf":
		return "andré\r\nZ9 DELETE INBOX"
	case "utf8-then-nul":
		return "é\x00tail"
	case "latin1-then-lf":
		return "caf\xe9\nmore"
	case "crlf-then-utf8":
		return "a\r\nb é"
	case "mix":
		base := []string{"ascii", "space", "quote-backslash", "nul", "cr", "lf", "crlf-cmd", "utf8", "badutf8", "latin1", "brace"}
		return genStr(rng, base[rng.Intn(len(base))]) + genStr(rng, base[rng.Intn(len(base))]) + genStr(rng, base[rng.Intn(len(base))])
	case "ascii":
		return "plainAtom" + fmt.Sprint(rng.Intn(100))
	case "space":
		return "two words"
	case "quote-backslash":
		return `a"b\c` + "\\"
	case "nul":
		return "a\x00b"
	case "cr":
		return "a\rb"
	case "lf":
		return "a\nb"
	case "crlf-cmd":
		return "x\r\nZ1 LOGOUT\r\n"
	case "utf8":
		return "héllo wörld €"
	case "badutf8":
		return "bad\xff\xfeutf8"
	case "latin1":
		return "caf\xe9"
	case "empty":
		return ""
	case "brace":
		return "{5}"
	case "long-ascii":
		return strings.Repeat("a", 3000+rng.Intn(1000))
	case "long-utf8":
		return strings.Repeat("é", 1500+rng.Intn(400))
	case "exact4096":
		return strings.Repeat("b", 4096)
	case "over4096":
		return strings.Repeat("c", 4097+rng.Intn(3000))
	}
	return "x"
}

// ---- one case ---------------------------------------------------------------------

var hangs int

type caseRes struct {
	cfg   capCfg
	steps []string
}

func runCase(w *hx.W, rng *rand.Rand, cfg capCfg) {
	log := &vconn.Log{}
	cEnd, sEnd := vconn.Pipe("client", "server", log)
	srv := &server{conn: sEnd, client: cEnd, br: bufio.NewReader(sEnd), cfg: cfg, log: log, cmdStart: map[string]cmdInfo{}, done: make(chan struct{}), cur: cfg, idleAnnounced: make(chan struct{}), announceGo: make(chan struct{})}
	go srv.serve()
	c := imapclient.New(cEnd, nil)
	var steps []string
	note := func(f string, a ...interface{}) { steps = append(steps, fmt.Sprintf(f, a...)) }
	settle := func() { cEnd.WaitParked(20 * time.Second) } // the client has processed everything the server sent
	hung := false
	wait := func(name string, f func() error) {
		if hung {
			return
		}
		ch := make(chan error, 1)
		go func() { ch <- f() }()
		select {
		case <-ch:
		case <-time.After(60 * time.Second):
			hung = true
			hangs++
			w.Violation("command-hangs@"+name+"/"+cfg.name, fmt.Sprintf("%s did not complete against a conformant scripted server (caps %s); steps %v", name, cfg.caps, steps), nil)
		}
		settle()
	}
	c.WaitGreeting()
	settle()
	cls := func() string { return strClasses[rng.Intn(len(strClasses))] }
	u, p := cls(), cls()
	note("LOGIN <%s> <%s>", u, p)
	setReacts(srv, rng, 2)
	wait("LOGIN", c.Login(genStr(rng, u), genStr(rng, p)).Wait)
	if cfg.utf8Avail && rng.Intn(2) == 0 || !cfg.utf8Avail && rng.Intn(8) == 0 {
		// the server may grant, answer OK without enabling anything, or refuse
		if !cfg.utf8Avail || rng.Intn(2) == 0 {
			srv.mu.Lock()
			srv.enableMode = 1 + rng.Intn(4)
			srv.mu.Unlock()
		}
		srv.mu.Lock()
		em := srv.enableMode
		srv.mu.Unlock()
		note("ENABLE UTF8=ACCEPT (server answer mode %d)", em)
		// (a NO/BAD answer is a conformant outcome, not a failure of the dialogue)
		wait("ENABLE", func() error { c.Enable(imap.CapUTF8Accept).Wait(); return nil })
	}
	if rng.Intn(6) == 0 && !hung {
		// UNAUTHENTICATE puts the connection back to square one (enabled extensions included), then a
		// new LOGIN with arbitrary strings
		srv.mu.Lock()
		srv.unauthWithCode = rng.Intn(2) == 0
		wc := srv.unauthWithCode
		srv.mu.Unlock()
		note("UNAUTHENTICATE (OK with CAPABILITY code: %v), LOGIN again", wc)
		wait("UNAUTHENTICATE", func() error { return c.Unauthenticate().Wait() })
		u2, p2 := cls(), cls()
		note("LOGIN <%s> <%s>", u2, p2)
		setReacts(srv, rng, 2)
		wait("LOGIN", c.Login(genStr(rng, u2), genStr(rng, p2)).Wait)
	}
	note("SELECT")
	wait("SELECT", func() error { _, err := c.Select("INBOX", nil).Wait(); return err })
	if (cfg.litPlus || cfg.litMinus || cfg.rev2) && rng.Intn(4) == 0 && !hung {
		// capability change while the encoder is held by IDLE, with another command already
		// submitted from a second goroutine: its bytes are written after the change was
		// announced and processed, so they must be legal for the new set
		qs := genStr(rng, []string{"utf8", "latin1", "badutf8", "long-utf8", "mix", "space"}[rng.Intn(6)])
		note("IDLE; the server announces CAPABILITY %s; a SEARCH is queued behind the IDLE", downgraded.caps)
		srv.mu.Lock()
		srv.changeInIdle = true
		srv.mu.Unlock()
		var idle *imapclient.IdleCommand
		wait("IDLE(begin)", func() error { var err error; idle, err = c.Idle(); return err })
		if idle != nil && !hung {
			// the second goroutine submits while the first one idles and BEFORE the change is
			// announced; it can only write once the IDLE is over, i.e. after the change
			queued := make(chan error, 1)
			go func() {
				_, err := c.Search(&imap.SearchCriteria{Body: []string{qs}}, nil).Wait()
				queued <- err
			}()
			// let the queued command reach the encoder lock (affects only how often the window is hit)
			for y := 0; y < 50; y++ {
				runtime.Gosched()
			}
			time.Sleep(2 * time.Millisecond)
			close(srv.announceGo)
			select {
			case <-srv.idleAnnounced:
			case <-time.After(60 * time.Second):
			}
			wait("IDLE(end)", func() error {
				if err := idle.Close(); err != nil {
					return err
				}
				return idle.Wait()
			})
			select {
			case <-queued:
			case <-time.After(60 * time.Second):
				if !hung {
					hung = true
					hangs++
					w.Violation("command-hangs@queued-SEARCH/"+cfg.name, fmt.Sprintf("a SEARCH submitted while another goroutine was idling did not complete; steps %v", steps), nil)
				}
			}
			settle()
			w.Metric("capability_change_dialogues", 1)
		}
	}
	for k := 2 + rng.Intn(5); k > 0; k-- {
		sc := cls()
		s1 := genStr(rng, sc)
		setReacts(srv, rng, 3)
		switch rng.Intn(13) {
		case 0:
			note("SEARCH HEADER/BODY <%s>", sc)
			wait("SEARCH", func() error {
				_, err := c.Search(&imap.SearchCriteria{Header: []imap.SearchCriteriaHeaderField{{Key: "X-Test", Value: s1}}, Body: []string{genStr(rng, cls())}}, nil).Wait()
				return err
			})
		case 1:
			note("UID SEARCH TEXT <%s> NOT/OR", sc)
			wait("UID SEARCH", func() error {
				_, err := c.UIDSearch(&imap.SearchCriteria{Text: []string{s1}, Not: []imap.SearchCriteria{{Header: []imap.SearchCriteriaHeaderField{{Key: s1, Value: "v"}}}}}, &imap.SearchOptions{ReturnCount: true}).Wait()
				return err
			})
		case 2:
			note("CREATE/RENAME mailbox <%s>", sc)
			wait("CREATE", c.Create(s1+"x", nil).Wait)
			wait("RENAME", c.Rename(s1+"x", "dst"+s1).Wait)
		case 3:
			note("LIST ref <%s> pattern", sc)
			wait("LIST", func() error { return c.List(s1, genStr(rng, cls())+"*", nil).Close() })
		case 4:
			note("STATUS/SUBSCRIBE <%s>", sc)
			wait("STATUS", func() error {
				_, err := c.Status(s1+"s", &imap.StatusOptions{NumMessages: true}).Wait()
				return err
			})
			wait("SUBSCRIBE", c.Subscribe(s1+"s").Wait)
		case 5:
			note("FETCH HEADER.FIELDS <%s>", sc)
			wait("FETCH", func() error {
				return c.Fetch(imap.SeqSetNum(1), &imap.FetchOptions{BodySection: []*imap.FetchItemBodySection{{Specifier: imap.PartSpecifierHeader, HeaderFields: []string{s1 + "h", "Subject"}}}}).Close()
			})
		case 6, 7:
			size := []int{0, 1, 4095, 4096, 4097, 100000}[rng.Intn(6)]
			note("APPEND %d bytes", size)
			payload := bytes.Repeat([]byte{0xA7}, size)
			wait("APPEND", func() error {
				ac := c.Append("box"+genStr(rng, "ascii"), int64(size), &imap.AppendOptions{Flags: []imap.Flag{imap.FlagSeen}})
				ac.Write(payload)
				ac.Close()
				_, err := ac.Wait()
				return err
			})
		case 9:
			note("DELETE/UNSUBSCRIBE <%s>", sc)
			wait("DELETE", c.Delete(s1+"d").Wait)
			wait("UNSUBSCRIBE", c.Unsubscribe(s1+"u").Wait)
		case 10:
			note("GETMETADATA/SETMETADATA mailbox, entry and value <%s>", sc)
			max := uint32(1024)
			wait("GETMETADATA", func() error {
				_, err := c.GetMetadata(s1+"g", []string{"/private/comment", "/shared/" + genStr(rng, "ascii")}, &imapclient.GetMetadataOptions{MaxSize: &max, Depth: imapclient.GetMetadataDepthInfinity}).Wait()
				return err
			})
			val := []byte(genStr(rng, cls()))
			wait("SETMETADATA", c.SetMetadata(s1+"g", map[string]*[]byte{"/private/comment": &val, "/private/gone": nil}).Wait)
		case 11:
			note("GETQUOTA/GETQUOTAROOT/SETQUOTA <%s>", sc)
			wait("GETQUOTA", func() error { _, err := c.GetQuota(s1 + "q").Wait(); return err })
			wait("GETQUOTAROOT", func() error { _, err := c.GetQuotaRoot(s1 + "r").Wait(); return err })
			wait("SETQUOTA", c.SetQuota(s1+"q", map[imap.QuotaResourceType]int64{imap.QuotaResourceStorage: 512}).Wait)
		case 12:
			note("SORT/UID SORT/THREAD/UID THREAD with <%s>", sc)
			crit := &imap.SearchCriteria{Text: []string{s1}, Header: []imap.SearchCriteriaHeaderField{{Key: "Subject", Value: genStr(rng, cls())}}}
			so := &imapclient.SortOptions{SearchCriteria: crit, SortCriteria: []imapclient.SortCriterion{{Key: imapclient.SortKeyDate, Reverse: true}, {Key: imapclient.SortKeySubject}}}
			to := &imapclient.ThreadOptions{Algorithm: imap.ThreadReferences, SearchCriteria: crit}
			switch rng.Intn(4) {
			case 0:
				wait("SORT", func() error { _, err := c.Sort(so).Wait(); return err })
			case 1:
				wait("UID SORT", func() error { _, err := c.UIDSort(so).Wait(); return err })
			case 2:
				wait("THREAD", func() error { _, err := c.Thread(to).Wait(); return err })
			case 3:
				wait("UID THREAD", func() error { _, err := c.UIDThread(to).Wait(); return err })
			}
		case 8:
			note("COPY/MOVE to <%s>", sc)
			wait("COPY", func() error { _, err := c.Copy(imap.SeqSetNum(1), s1+"c").Wait(); return err })
			wait("MOVE", func() error { _, err := c.Move(imap.UIDSetNum(2), s1+"m").Wait(); return err })
		}
	}
	if hung {
		c.Close()
		sEnd.Close()
		check(w, cfg, srv, log, steps)
		return
	}
	note("NOOP (connection must still be usable)")
	usable := make(chan error, 1)
	go func() { usable <- c.Noop().Wait() }()
	select {
	case err := <-usable:
		if err != nil {
			w.Violation("connection-unusable/"+cfg.name, fmt.Sprintf("NOOP at the end of the dialogue failed: %v (steps %v)", err, steps), nil)
		}
	case <-time.After(90 * time.Second):
		w.Violation("command-hangs@final-NOOP/"+cfg.name, fmt.Sprintf("final NOOP did not complete; steps %v", steps), nil)
	}
	c.Close()
	sEnd.Close()
	<-srv.done
	check(w, cfg, srv, log, steps)
	w.CaseStr(cfg.name + "|" + strings.Join(steps, "|") + fmt.Sprint(len(log.Bytes("client"))))
}

func setReacts(srv *server, rng *rand.Rand, n int) {
	srv.mu.Lock()
	srv.reacts = nil
	for i := 0; i < n; i++ {
		r := plusNow
		switch rng.Intn(6) {
		case 0:
			r = refuseNO
		case 1:
			r = refuseBAD
		case 2, 3:
			r = plusAfterData
		}
		srv.reacts = append(srv.reacts, r)
	}
	srv.mu.Unlock()
}

// ---- oracle over the recorded byte stream and event order ---------------------------

func check(w *hx.W, cfg capCfg, srv *server, log *vconn.Log, steps []string) {
	events := log.Events()
	clientBytes := log.Bytes("client")
	// offset -> event sequence of the client event that carried the byte
	type span struct{ from, to, seq int }
	var spans []span
	off := 0
	for _, e := range events {
		if e.From == "client" {
			spans = append(spans, span{off, off + len(e.Data), e.Seq})
			off += len(e.Data)
		}
	}
	seqOfOffset := func(o int) int {
		for _, sp := range spans {
			if o >= sp.from && o < sp.to {
				return sp.seq
			}
		}
		return 1 << 30
	}
	viol := func(class, detail string, at int) {
		lo := at - 60
		if lo < 0 {
			lo = 0
		}
		hi := at + 80
		if hi > len(clientBytes) {
			hi = len(clientBytes)
		}
		w.Violation(class+"/"+cfg.name, fmt.Sprintf("%s: %s [advertised: %s] near %s", class, detail, cfg.caps, hx.Hex(clientBytes[lo:hi], 200)), map[string]interface{}{"caps": cfg.caps, "steps": steps})
	}
	srv.mu.Lock()
	lits := append([]litRecord(nil), srv.lits...)
	cmdStart := srv.cmdStart
	srv.mu.Unlock()
	// 1. literal forms and synchronisation
	for _, l := range lits {
		w.Metric("literals_observed", 1)
		if l.nonSync {
			w.Metric("nonsync_literals", 1)
			cc := cfg
			if ci, ok := cmdStart[l.cmdTag]; ok {
				cc = ci.caps
			}
			if !(cc.litPlus || (cc.litMinus && l.size <= 4096)) {
				viol("nonsync-literal-not-advertised", fmt.Sprintf("the client sent {%d+} in command %s (capabilities in force for it: %s)", l.size, l.cmdTag, cc.caps), l.headerEnd)
			}
			continue
		}
		w.Metric("sync_literals", 1)
		next := seqOfOffset(l.headerEnd) // event carrying the first client byte after the header
		switch l.react {
		case plusNow, plusAfterData:
			w.Class(fmt.Sprintf("%s/sync-literal/reaction%d", cfg.name, l.react))
			if next < l.plusSeq {
				viol("payload-before-continuation-request", fmt.Sprintf("command %s: bytes after the {%d} header were written (event %d) before the server's '+' (event %d)", l.cmdTag, l.size, next, l.plusSeq), l.headerEnd)
			}
		case refuseNO, refuseBAD:
			w.Class(fmt.Sprintf("%s/sync-literal/refused", cfg.name))
			if next < l.plusSeq {
				viol("payload-before-refusal", fmt.Sprintf("command %s: bytes after the {%d} header were written before the server answered", l.cmdTag, l.size), l.headerEnd)
			} else if l.headerEnd < len(clientBytes) {
				// whatever follows must be a new command, not the payload
				rest := clientBytes[l.headerEnd:]
				if !looksLikeCommand(rest) {
					viol("payload-after-tagged-refusal", fmt.Sprintf("command %s: the literal {%d} was refused with a tagged response but the client wrote %s afterwards", l.cmdTag, l.size, hx.Hex(rest, 60)), l.headerEnd)
				}
			}
		}
	}
	// 2. quoted strings, per command line (split the stream into logical lines, skipping refused literals)
	pos := 0
	for pos < len(clientBytes) {
		// find this command's tag to know whether UTF8=ACCEPT was enabled when it was written
		n, _ := wiretok.Frame(clientBytes[pos:])
		refusedHere := false
		for _, l := range lits {
			if (l.react == refuseNO || l.react == refuseBAD) && !l.nonSync && l.headerEnd > pos && (n == 0 || l.headerEnd <= pos+n || true) {
				// a refused literal ends the command at its header
				if l.headerEnd > pos && (n == 0 || l.headerEnd < pos+n) {
					n = l.headerEnd - pos
					refusedHere = true
					break
				}
			}
		}
		if n == 0 {
			break
		}
		line := clientBytes[pos : pos+n]
		f := bytes.Fields(line)
		enabled := false
		cc := cfg
		if len(f) > 0 {
			if ci, ok := cmdStart[string(f[0])]; ok {
				enabled = ci.enabled
				cc = ci.caps
			}
		}
		scan := line
		if refusedHere {
			// strip the literal header: the line is incomplete by design
			if i := bytes.LastIndexByte(bytes.TrimRight(scan, "\r\n"), '{'); i >= 0 {
				scan = append(append([]byte(nil), scan[:i]...), "x\r\n"...)
			}
		}
		toks, st := wiretok.Tokenize(scan)
		_ = toks
		if st.QuotedCtl {
			viol("ctl-in-quoted-string", "CR, LF or NUL inside a quoted string", pos)
		}
		if st.Quoted8bit && !(cc.rev2 || enabled) {
			viol("8bit-in-quoted-string", "8-bit bytes inside a quoted string although neither IMAP4rev2 is advertised nor UTF8=ACCEPT enabled", pos)
		}
		if st.BadEscape || st.UnterminatedQ || (st.Unbalanced && !refusedHere) {
			viol("malformed-command-line", st.String(), pos)
		}
		// SEARCH with 8-bit strings needs CHARSET UTF-8 unless UTF-8 is the connection's native charset
		if len(f) > 2 && (strings.EqualFold(string(f[1]), "SEARCH") || (strings.EqualFold(string(f[1]), "UID") && strings.EqualFold(string(f[2]), "SEARCH"))) {
			has8 := false
			for _, b := range line {
				if b >= 0x80 {
					has8 = true
				}
			}
			// (the CHARSET rule is not one of the property's explicit clauses: across a capability
			// change it is judged against either set, the client decides on it before it queues)
			if has8 && !(cc.rev2 || cfg.rev2 || enabled) && !bytes.Contains(bytes.ToUpper(line), []byte("CHARSET UTF-8")) {
				viol("search-8bit-without-charset", "SEARCH with 8-bit strings but without CHARSET UTF-8", pos)
			}
			w.Metric("search_commands", 1)
		}
		w.Metric("command_lines_checked", 1)
		if st.Quoted8bit {
			w.Metric("quoted_8bit_strings_seen", 1)
		}
		pos += n
	}
	w.Class(cfg.name)
}

func looksLikeCommand(b []byte) bool {
	// T<digits> SP <letters>
	if len(b) < 4 || b[0] != 'T' {
		return false
	}
	i := 1
	for i < len(b) && b[i] >= '0' && b[i] <= '9' {
		i++
	}
	if i == 1 || i >= len(b) || b[i] != ' ' {
		return false
	}
	_, err := strconv.Atoi(string(b[1:i]))
	return err == nil
}

func body(w *hx.W) {
	rng := w.Rand("c18")
	n := w.Pick(1200, 15000)
	for i := 0; i < n; i++ {
		cfg := cfgs[i%len(cfgs)]
		if hangs >= 5 {
			break // the tree hangs all over: enough witnesses
		}
		runCase(w, rng, cfg)
		if i < len(cfgs) && w.Shard == 0 {
			w.Sample(map[string]interface{}{"caps": cfg.caps, "kind": "dialogue of LOGIN, optional ENABLE, SELECT and 2..6 commands with string arguments from 21 classes (incl. 8-bit bytes followed by CR/LF/NUL and random mixtures) / APPEND sizes around 4096, random reactions to synchronising literals"})
		}
	}
}

func main() {
	hx.Main(hx.Spec{
		ID:    "C18",
		Level: "exploration",
		Rule:  "dialogues against a scripted server for 9 capability sets (bare IMAP4rev1, LITERAL-, LITERAL+, IMAP4rev2, rev1+rev2, UTF8=ACCEPT enabled or not, with and without LITERAL-, UTF8=ONLY with and without LITERAL+), a share of them with a capability downgrade announced while one goroutine idles and a second one has a SEARCH queued behind it, x commands with string arguments from 21 classes (incl. 8-bit bytes followed by CR/LF/NUL and random mixtures) (NUL, CR, LF, CRLF+command text, quotes, 8-bit valid / invalid UTF-8, latin-1, lengths around 4096) x APPEND sizes {0,1,4095,4096,4097,10^5} x SEARCH with non-ASCII text x server reactions to synchronising literals {'+' at once, '+' after unrelated untagged data once the client is parked, tagged NO, tagged BAD}; distinct = distinct (capability set, dialogue)",
		Assumptions: []string{
			"the advertised set in force for a command is what the scripted server had sent, and the client had processed, before the command's first byte was written (greeting, LOGIN code, untagged CAPABILITY during IDLE); UTF8=ACCEPT (also when advertised as UTF8=ONLY) counts from the command after the ENABLED response that lists it",
			"before every client command the harness waits until the client has processed everything the server sent",
			"event order is the global order of writes on the in-process connection",
		},
		RaceFrames: []string{"imapclient.", "imapwire."},
		Shards:     func(string) int { return 12 },
		WallQuick:  20 * time.Minute, WallThorough: 120 * time.Minute,
	}, body)
}
