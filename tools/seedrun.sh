#!/bin/bash
# tools/seedrun.sh <name> <patch.diff|-> <tier> <check ids...>
# Runs checks against a scratch worktree of /repo (HEAD + the patch) from a scratch copy of /verif, so that
# several seeded changes can be tried in parallel without touching /repo. Output: /tmp/seedrun/<name>/<id>.out and a
# summary line per check on stdout. Everything is removed afterwards except the .out files.
# (The registered checks always run from /verif against /repo; this is a development tool only.)
set -u
export GOFLAGS=-mod=mod GOPROXY=off GOSUMDB=off GOTOOLCHAIN=local
name="$1"; patch="$2"; tier="$3"; shift 3
base=/tmp/seedrun/$name
rm -rf "$base"; mkdir -p "$base"
wt=$base/repo; vc=$base/verif
git -C /repo worktree add --detach "$wt" HEAD -q || exit 2
if [ "$patch" != "-" ]; then git -C "$wt" apply "$(readlink -f "$patch")" || { echo "$name: patch does not apply"; git -C /repo worktree remove --force "$wt"; exit 2; }; fi
rsync -a --exclude .work --exclude replays --exclude .git --exclude evidence /verif/ "$vc/"
mkdir -p "$vc/evidence"
sed -i "s#=> /repo#=> $wt#" "$vc/go.mod"
cd "$vc"
for c in "$@"; do
  start=$(date +%s)
  VERIF_REPO="$wt" timeout 3000 ./check "$c" "$tier" > "$base/$c.out" 2>&1; rc=$?
  echo "$name: check $c $tier: exit=$rc ($(( $(date +%s)-start ))s) $(grep -c '^VIOLATION' "$base/$c.out") violations; first: $(grep -A1 '^VIOLATION' "$base/$c.out" | grep sig= | head -1 | cut -c1-300)"
done
cd /
git -C /repo worktree remove --force "$wt"
rm -rf "$vc"
