#!/bin/bash
# tools/coverage.sh [ids...] : coverage audit — run the quick tier of each check from a scratch copy of
# /verif with coverage counters compiled into the tree under test, then list, per package, the
# functions of /repo that no check reached. Informational (never a verdict); output in coverage/.
set -u
export GOFLAGS=-mod=mod GOPROXY=off GOSUMDB=off GOTOOLCHAIN=local
ids="${*:-$(jq -r '.checks[].property_id' /verif/MANIFEST.json)}"
scratch=$(mktemp -d /tmp/verifcov.XXXX)
rsync -a --exclude .work --exclude replays --exclude .git /verif/ "$scratch/verif/"
cov="$scratch/cov"; mkdir -p "$cov"
cd "$scratch/verif"
for id in $ids; do
  VERIF_COVER_DIR="$cov" ./check "$id" quick > "$scratch/$id.out" 2>&1
  echo "$id exit=$? $(tail -1 "$scratch/$id.out" | cut -c1-120)"
done
dirs=$(ls -d "$cov"/* | paste -sd, -)
mkdir -p /verif/coverage
go tool covdata func -i="$dirs" 2> "$scratch/covdata.err" | grep -v "/verif/" > /verif/coverage/func_all.txt; cat "$scratch/covdata.err"
for id in $ids; do go tool covdata func -i="$cov/$id" 2>/dev/null | grep -v "/verif/" | awk -v id=$id '$NF!="0.0%" && $1!="total" {print id, $1, $2, $NF}' ; done > /verif/coverage/func_by_check.txt
awk '$NF=="0.0%" {print $1, $2}' /verif/coverage/func_all.txt > /verif/coverage/unreached.txt
grep "^total" /verif/coverage/func_all.txt
echo "functions: $(grep -vc '^total' /verif/coverage/func_all.txt), unreached: $(wc -l < /verif/coverage/unreached.txt)"
[ -s /verif/coverage/func_all.txt ] && rm -rf "$scratch"
