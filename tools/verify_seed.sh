#!/bin/bash
# tools/verify_seed.sh <dir with patch.diff demo_test.go meta.json> <name, e.g. C20-A> [check ids...]
# 1. confirms in a scratch worktree: demo passes without the change; with it: builds, suite passes, demo fails
# 2. stores it as /verif/seeded/<name>/
# 3. applies it to /repo, runs the given checks (default: the property's own) in quick tier, reverts
set -u
export GOFLAGS=-mod=mod GOPROXY=off GOSUMDB=off GOTOOLCHAIN=local
src="$(readlink -f "$1")"; name="$2"; shift 2
prop=$(python3 -c "import json,sys;print(json.load(open('$src/meta.json'))['property'])")
demodir=$(python3 -c "import json,sys;print(json.load(open('$src/meta.json'))['demo_pkg_dir'])")
democmd=$(python3 -c "import json,sys;print(json.load(open('$src/meta.json'))['demo_cmd'])")
checks=("$@"); [ ${#checks[@]} -eq 0 ] && checks=("$prop")
wt=/tmp/wt/verify_$name
git -C /repo worktree remove --force "$wt" 2>/dev/null
git -C /repo worktree add --detach "$wt" HEAD -q || exit 2
res=()
(
 cd "$wt"
 cp "$src/demo_test.go" "$demodir/zz_demo_test.go"
 if $democmd -count=1 >/tmp/wt/verify_$name.clean.log 2>&1; then echo "clean: demo passes"; else echo "clean: DEMO FAILS (bad seed)"; fi
 if git apply "$src/patch.diff"; then echo "patch applies"; else echo "PATCH DOES NOT APPLY"; fi
 if go build ./... 2>/tmp/wt/verify_$name.build.log; then echo "patched: builds"; else echo "patched: BUILD FAILS"; fi
 rm "$demodir/zz_demo_test.go"
 if go test -vet=off -count=1 ./... >/tmp/wt/verify_$name.suite.log 2>&1; then echo "patched: suite passes"; else echo "patched: SUITE FAILS"; fi
 cp "$src/demo_test.go" "$demodir/zz_demo_test.go"
 if $democmd -count=1 >/tmp/wt/verify_$name.patched.log 2>&1; then echo "patched: DEMO PASSES (bad seed)"; else echo "patched: demo fails (good)"; fi
) | tee /tmp/wt/verify_$name.summary
git -C /repo worktree remove --force "$wt"
mkdir -p /verif/seeded/$name
cp "$src/patch.diff" "$src/demo_test.go" "$src/meta.json" /verif/seeded/$name/
cp /tmp/wt/verify_$name.summary /verif/seeded/$name/verification.txt
# run our checks against /repo with the patch applied
cd /verif
if ! git -C /repo diff --quiet; then echo "/repo is dirty, not applying"; exit 2; fi
git -C /repo apply "$src/patch.diff" || { echo "patch does not apply to /repo"; exit 2; }
for c in "${checks[@]}"; do
  start=$(date +%s)
  ./check "$c" quick > /tmp/wt/verify_$name.$c.out 2>&1; rc=$?
  echo "check $c on seeded $name: exit=$rc ($(( $(date +%s)-start ))s) $(grep -c '^VIOLATION' /tmp/wt/verify_$name.$c.out) violations" | tee -a /verif/seeded/$name/verification.txt
  grep -A1 '^VIOLATION' /tmp/wt/verify_$name.$c.out | grep sig= | head -3 | tee -a /verif/seeded/$name/verification.txt
done
git -C /repo checkout -- .
git -C /repo status --short | head -3
