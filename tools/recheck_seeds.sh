#!/bin/bash
# tools/recheck_seeds.sh [names...] : re-apply every kept seeded change to the CURRENT /repo tree,
# run the property's quick check (and any extra checks listed in seeded/<name>/also), record, revert.
cd /verif
export GOFLAGS=-mod=mod GOPROXY=off GOSUMDB=off GOTOOLCHAIN=local
names=("$@"); [ ${#names[@]} -eq 0 ] && names=($(ls seeded | grep -v '^_'))
for n in "${names[@]}"; do
  d=seeded/$n
  [ -f $d/patch.diff ] || continue
  if ! git -C /repo diff --quiet; then echo "/repo dirty, abort"; exit 2; fi
  prop=$(jq -r .property $d/meta.json)
  if ! git -C /repo apply --check /verif/$d/patch.diff 2>/dev/null; then
    echo "$n: patch no longer applies to the current tree" | tee $d/recheck.txt; continue
  fi
  git -C /repo apply /verif/$d/patch.diff
  if ! (cd /repo && go build ./... 2>/dev/null); then echo "$n: patched tree does not build" | tee $d/recheck.txt; git -C /repo checkout -- .; continue; fi
  start=$(date +%s)
  timeout 3000 ./check $prop quick > /tmp/recheck_$n.out 2>&1; rc=$?
  echo "$n: check $prop quick on the current tree + this change: exit=$rc ($(( $(date +%s)-start ))s) $(grep -c '^VIOLATION' /tmp/recheck_$n.out) violations; first: $(grep -A1 '^VIOLATION' /tmp/recheck_$n.out | grep sig= | head -1 | cut -c1-300)" | tee $d/recheck.txt
  git -C /repo checkout -- .
done
git -C /repo status --short
