#!/usr/bin/env python3
"""Regenerates /verif/MANIFEST.json from the table below (one place to edit)."""
import json, os, sys
ROOT = os.path.dirname(os.path.dirname(os.path.abspath(__file__)))
ALL = ["C%02d" % i for i in range(1, 21)]

CHECKS = {
 "C15": dict(
  category="exploration",
  technique="runtime oracle: real imapnum.Set / imap.SeqSet / imap.UIDSet driven in lock-step with an explicit-interval reference model after every operation; checkptr-instrumented build; per-case watchdog and heap guard for non-termination",
  text="Exhaustive enumeration of all operation sequences up to a length bound over boundary endpoints (incl. 2^32-2, 2^32-1, '*') plus seeded random long sequences and grammar/mutation generated texts; every prefix is checked for canonical form, membership on all interesting probes, Dynamic(), String/Parse round trip and terminating ascending Nums(). Held-on-what-was-enumerated; not a proof for longer sequences.",
  design_ref="DESIGN.md §3 C15",
  note="Trusts the ~60-line reference set model and the independent grammar recognizer in checks/c15; Nums() only executed for cardinality <= 3000."),
}

NOT_YET = "check not built yet in this round (planned in DESIGN.md §3; runtime monitoring applies)"

def main():
    checks = []
    for pid in ALL:
        if pid not in CHECKS:
            continue
        c = CHECKS[pid]
        checks.append({
            "property_id": pid,
            "quick_cmd": f"./check {pid} quick",
            "thorough_cmd": f"./check {pid} thorough",
            "evidence_file": f"/verif/evidence/{pid}.json",
            "replay_cmd_template": f"./check {pid} --replay {{path}}",
            "engine": "hx",
            "level_claimed": {"category": c["category"], "text": c["text"], "design_ref": c["design_ref"]},
            "level_note": c["note"],
            "technique": c["technique"],
        })
    m = {
        "version": 1,
        "setup_cmd": "./setup.sh",
        "hooks": {
            "guard": "verif",
            "enable": "no hook is committed to /repo: lock instrumentation for C13/C14 is generated from the current working tree by cmd/lockgen and injected with `go build -overlay` by ./check; the build tag `verif` guards nothing in /repo",
            "baseline_off_cmd": "cd /repo && GOFLAGS=-mod=mod GOPROXY=off GOSUMDB=off GOTOOLCHAIN=local go test -vet=off -count=1 -timeout 25m ./...",
            "source_commits": [],
            "add_only": True,
        },
        "engines": [
            {"name": "hx", "path": "/verif/internal/hx", "serves_properties": [c["property_id"] for c in checks],
             "kind_free_text": "supervisor + sharded child-process workers running the real go-imap code under runtime oracles (reference models, independent tokenizer, race detector / checkptr, watchdogs); merges observations into evidence"},
        ],
        "checks": checks,
        "not_applicable": [{"property_id": p, "reason": NOT_YET} for p in ALL if p not in CHECKS],
        "notes": "Technique family: runtime monitoring and sanitizers. See DESIGN.md. Known findings: known_findings.json.",
    }
    with open(os.path.join(ROOT, "MANIFEST.json"), "w") as f:
        json.dump(m, f, indent=1)
        f.write("\n")
    try:
        import jsonschema
        jsonschema.validate(m, json.load(open("/root/.vp/MANIFEST.schema.json")))
        print("MANIFEST.json valid,", len(checks), "checks")
    except ImportError:
        print("MANIFEST.json written (jsonschema not available)")

if __name__ == "__main__":
    main()
