#!/usr/bin/env python3
"""Regenerates /verif/MANIFEST.json from the table below (one place to edit)."""
import json, os, sys
ROOT = os.path.dirname(os.path.dirname(os.path.abspath(__file__)))
ALL = ["C%02d" % i for i in range(1, 21)]

CHECKS = {
 "C15": dict(
  category="exploration",
  technique="runtime oracle: real imapnum.Set / imap.SeqSet / imap.UIDSet driven in lock-step with an explicit-interval reference model after every operation; checkptr-instrumented build; per-case watchdog and heap guard for non-termination",
  text="Exhaustive enumeration of all operation sequences up to a length bound over boundary endpoints (incl. 2^32-2, 2^32-1, '*') plus seeded random long sequences, AddSet between sets of 30..90 ranges, the public constructors with empty and boundary lists, and grammar/mutation generated texts through every text entry point (imapnum.ParseSet, imapwire.ParseSeqSet, Decoder.ExpectNumSet of both kinds); every prefix is checked for canonical form, membership on all interesting probes, Dynamic(), String/Parse round trip and terminating ascending Nums(). Held-on-what-was-enumerated; not a proof for longer sequences.",
  design_ref="DESIGN.md §3 C15",
  note="Trusts the ~60-line reference set model and the independent grammar recognizer in checks/c15; Nums() only executed for cardinality <= 3000."),

 "C16": dict(
  category="exploration",
  technique="runtime oracle: real internal/utf7 encoder/decoder (one-shot and hand-driven streaming Transform with tiny buffers) compared with an independent RFC 3501 reference codec giving a three-valued verdict per input",
  text="Exhaustive enumeration of encoder inputs over a 9-symbol alphabet and of decoder inputs over an 11-symbol base64/shift alphabet up to a length bound, random long strings, mutated encodings, histories of 1500..20000 distinct names run three times through the process-wide codec, the wire call sites Encoder.Mailbox -> Decoder.ExpectMailbox in every string mode, and streamed runs (transformers used fresh or after Reset) for every source chunk 1..8 x destination size 1..16 on a sample. Decides round trip, RFC form, rejection of the named malformed forms, UTF-8 validity of outputs, panic freedom and chunking independence on everything enumerated.",
  design_ref="DESIGN.md §3 C16",
  note="Trusts internal/ref/utf7ref (independent codec written from the RFC) and the Transformer driver in checks/c16."),
 "C20": dict(
  category="exploration",
  technique="runtime oracle: imapserver.MatchList vs two independent matchers (DP and anchored regexp) that must agree with each other",
  text="Exhaustive over names and patterns up to a length bound on small alphabets x 8 references x 3 delimiters, plus random long names/patterns with multi-byte runes.",
  design_ref="DESIGN.md §3 C20",
  note="Reference-resolution rule taken from the repository's own TestMatchList rows; ASCII delimiters only."),
 "C05": dict(
  category="exploration",
  technique="runtime trace monitor: recording stub Session behind a real imapserver connection driven in lock-step by a raw client; independent RFC 9051 state machine predicts permitted backend calls, response class, close and next state for every command; race detector on",
  text="Coverage pass forcing every (state, command, backend outcome) triple for each of 84 configurations (transport x InsecureAuth x greeting x session kind x caps), then seeded random command histories (every third command spelled in lower/mixed case; UID forms of commands that have none are unknown commands), plus STARTTLS pipelined with credentials in one segment. Every backend call is checked against the reference state at call time; credentials never reach the backend on plaintext without InsecureAuth; capability lists checked against state.",
  design_ref="DESIGN.md §3 C05",
  note="Trusts the reference state machine in checks/c05 and crypto/tls; Unselect / Expunge-in-CLOSE failures are not scripted."),

 "C04": dict(
  category="exploration",
  technique="runtime trace monitor: raw lock-step client against a real imapserver connection with a recording stub backend; payloads are marker commands with unique tags/names; the dialogue generator is the reference framer; the vconn park signal decides 'no response is coming'; race detector on",
  text="Dialogues over command templates in all three states x string argument forms (quoted / sync / non-sync / literal8) x announced sizes around 4096 and the APPEND limit x server literal policies, syntax errors before literals, trailing garbage, AUTHENTICATE and IDLE exchanges (incl. an Idle goroutine streaming updates while DONE and further commands arrive), rejected commands followed by 200..70000 bytes on the same line, dialogues of 45 failing LOGINs with 2..4 KiB synchronising literals on one unauthenticated connection, a backend that panics in the middle of an accepted APPEND literal, ENABLE prefixes with a backend echoing the requested sections, plus random multi-command dialogues; each dialogue in lock-step, those without synchronising exchanges also in one single write (tagged-response order checked), a share with the server's reads cut into 1..5-byte segments. Decides: every tagged response answers a command that was really sent, exactly once; a continuation request is never followed by the tagged completion of the same command before any literal octet was sent; no backend call originates from payload text; output is whole well-formed lines; '+' only when a sync literal / AUTHENTICATE / IDLE waits for it; accepted literal arguments arrive byte-exact.",
  design_ref="DESIGN.md §3 C04",
  note="For a refused non-synchronising literal both RFC 7888 behaviours (discard, close) are accepted. Trusts the independent tokenizer internal/wiretok and the dialogue generator's by-construction knowledge of payload bytes."),

 "C19": dict(
  category="exploration",
  technique="runtime oracle: SearchCriteria.And and the server's SEARCH parser evaluated with an independent reference matcher on a 400-message universe that distinguishes every field; SEARCH commands sent in every key permutation through a real server with a recording stub backend",
  text="A: all ordered pairs from a pool of several hundred criteria (every field, boundary values, unset bounds, NOT/OR trees, multi-field) checked for match(And(a,b),m) == match(a,m) && match(b,m) on every message, operand unchanged, in UTC and with every time in +09:00 / -05:00 / +05:30; And histories (an operand with spare slice capacity shared by several receivers that are refined afterwards: every result re-evaluated at the end); the saved-result marker '$' in the pool. B: 1..5-key SEARCH commands over a 56-key alphabet in all permutations, every third one with the key names in lower/mixed case; the recorded criteria must select exactly the conjunction of the keys; malformed sub-keys must not be dropped silently. C: on the real in-memory backend (24 messages over all subsets of three body words, six flag sets, five sizes), 2..4-key SEARCH / UID SEARCH commands over an 85-key alphabet (incl. NOT / OR over BODY, TEXT, headers, dates) in up to 6 key orders must return the intersection of what the same server returns for each key alone.",
  design_ref="DESIGN.md §3 C19",
  note="Trusts internal/ref/searchref (matcher + universe); dates all UTC; ModSeq outside the property."),

 "C01": dict(
  category="exploration",
  technique="runtime oracle: real imapwire.Encoder of one side -> bytes -> real Decoder of the peer side with sentinel/CRLF/EOF accounting, plus legality of the emitted bytes judged by the independent tokenizer; race/checkptr build",
  text="Every value kind (strings via 4 decode paths, mailboxes, flags, attributes, numbers, number sets of both flavours and '$', list nestings around the cap, streamed literals) over 15 byte-string classes x 8 lengths around 4096 under all 16 encoder modes, plus random compositions, plus long-lived sessions (one encoder and one decoder exchanging 2600..6000 lines of mixed values, > 1000 empty lists). Decides value equality modulo the documented canonicalisations, exact byte consumption, legal syntax for the mode, and refusal of unrepresentable values.",
  design_ref="DESIGN.md §3 C01",
  note="Sync literals use an already granted continuation request; 8-bit bytes in flags are not demanded to be refused."),

 "C06": dict(
  category="fault_enumeration",
  technique="runtime fault injection: byte-offset faults (EOF, reset, write error) injected by the instrumented in-process connection under a real imapserver connection with a counting stub backend; hostile-input workers with a 64 MB stack bound; race detector on",
  text="For each of 12 valid transcripts (sync and non-sync literals, AUTHENTICATE exchange, IDLE, STARTTLS, implicit TLS, pipelining, long FETCH literal) every client->server byte offset x {EOF, reset} and every server->client offset x {write error} is enumerated (quick: all offsets of 5 transcripts, every 7th of the rest); after each cut the server must close its side, call Session.Close exactly once, stop Idle, and log no panic. The same enumeration is run with the real in-memory backend behind the protocol layer (2 transcripts: FETCH with long literals / STORE-COPY-EXPUNGE-APPEND-LIST-IDLE); a command nested deeper than 1000 must not reach the backend, plus a stalled-idler scenario (a client idles and stops reading while another changes its mailbox 5..400 times, then both leave). Plus mutated/garbage inputs, literal-cap probes (4096 / APPEND limit / sizes >= 2^32; no continuation request may be sent for an over-the-cap literal) and deep-nesting families to 4*10^5 levels.",
  design_ref="DESIGN.md §3 C06",
  note="Backstops (40 s) are orders of magnitude above observed latencies; only literals are subject to the 4096-byte cap; stalls (peer silent but connected) are outside the property."),

 "C07": dict(
  category="exploration",
  technique="runtime trace monitor: harness-owned MailboxTracker mirrored by a unique-id message list; client views reconstructed only from wire output of real server connections whose stub Poll delegates to SessionTracker; Decode/EncodeSeqNum probed for every number after every step; race detector on",
  text="Every history of length <= L over a 13-operation alphabet (appends of +1/+2, expunges, flag updates with and without source, mailbox flags, polls with and without expunge permission on 2 sessions) on a 3-message mailbox, plus seeded random histories with 1..4 sessions created/closed at arbitrary points, plus long-queue histories (120..319 operations while one session is never polled, then polled once), plus concurrent histories (one goroutine mutates while another polls; order, numbering and final convergence are decided). Decides: emitted updates are exactly the expected per-session event prefix, in order, correctly numbered, no EXPUNGE when disallowed, Poll(true) makes the view equal the mailbox, and both translations agree with the mirror for every number.",
  design_ref="DESIGN.md §3 C07",
  note="Sequential histories (one poll at a time); DecodeSeqNum probed on 1..|V|, EncodeSeqNum on 1..|M|."),

 "C17": dict(
  category="exploration",
  technique="runtime trace monitor with marker injection: raw client / scripted peer over the instrumented in-process connection deliver injected plaintext after the STARTTLS line under every two-write split, one write and byte-at-a-time, then run a real crypto/tls handshake; recording stub backend and unilateral-data callbacks as observers; race detector on",
  text="Server: 12 injected command suffixes x all splits x InsecureAuth on/off: no backend call or response (plaintext or inside TLS) may carry a marker, bytes after the tagged OK must be TLS records; credential policy matrix {TLS configuration, none} x InsecureAuth x {plain, SASL, basic sessions} x 5 ways of presenting credentials (greeting and CAPABILITY must not offer, backend must not be reached on plaintext unless InsecureAuth; offered and accepted over STARTTLS and implicit TLS). Client: 12 injected response suffixes x all splits x OK/PREAUTH/BYE greetings: no callback, capability, state change or command completion from injected bytes; PREAUTH and BYE refused. Positive controls without injection must complete the handshake and carry LOGIN/NOOP over TLS. OS transports: the credential policy again over a Unix-domain and a loopback TCP listener served by Server.Serve; a ClientHello sent in the same segment as the STARTTLS line must yield a working TLS session; DialStartTLS against a scripted loopback server that greets OK / PREAUTH (3 spellings), accepts STARTTLS and completes a real handshake (PREAUTH must be refused).",
  design_ref="DESIGN.md §3 C17",
  note="Dropping the early plaintext is accepted as well as feeding it to the handshake. Trusts crypto/tls."),

 "C10": dict(
  category="fault_enumeration",
  technique="runtime fault injection with virtual time: the instrumented in-process connection injects EOF / read error / stall / write error at every byte offset of live client<->server exchanges; per-call return tracking, goroutine census of package imapclient after Close, and a delivered-prefix oracle for 'success implies fully received completion'; race detector on",
  text="18 scenarios covering every client command (12 against the real server + in-memory backend, 6 against a scripted server with unusual but valid transcripts: 40..70 items per FETCH, commands pipelined behind LOGOUT, 300 EXPUNGE responses with a slow consumer that calls State()/Mailbox(), unread BINARY sections, Move on a peer without MOVE = COPY+STORE+EXPUNGE whose success needs all three completions) x every server->client offset x {EOF, reset, stall} and every client->server offset x {write error}. Liveness is decided in logical time: after the fault all I/O completes at once, read deadlines expire at once, a deadline-less stall is ended by Client.Close once the client is parked.",
  design_ref="DESIGN.md §3 C10",
  note="Backstops of 30-60 s are orders of magnitude above the millisecond run time; the completion oracle is skipped for the STARTTLS scenario (ciphertext)."),

 "C11": dict(
  category="exploration",
  technique="runtime monitoring of a real client fed hostile byte streams: recover()-guarded accessor walk over every returned value, reader-panic detection, worker processes with a 64 MB stack bound and heap guard (fatal errors attributed to the logged current stream), deterministic allocation counters on scaling families; race detector on",
  text="Targeted invariant probes (with and without pending commands), grammar-generated responses of every kind the client parses with boundary numbers, byte/token mutations, raw garbage, 16 scaling families (8x range of N), truncated-literal probes (19 buffered-string positions x announced sizes 64 MiB..2^63-1 with 3 octets sent: allocation must follow the bytes received), must-reject probes (overflowing numbers, over-deep nesting incl. message/rfc822 chains) and deep-nesting probes to 10^6 levels, each against a client with 20 pending commands of every kind; probes without the leading message number and with data after UNAUTHENTICATE (one of 21 pending commands); the STARTTLS entry point (NewStartTLS) with 8 spellings of the answer x 14 trailers in the same segment plus generated / random trailers. Decides: no reader or accessor panic, no fatal recursion, no zero/dynamic numbers delivered without error, no super-linear allocation per input byte.",
  design_ref="DESIGN.md §3 C11",
  note="CPU time is recorded nowhere as a verdict (allocation counters only); set-enumerating accessors are called only for spans <= 2*10^6; one known finding (ESEARCH span) is listed in known_findings.json."),

 "C12": dict(
  category="exploration",
  technique="runtime trace monitor: scripted conformant server on the instrumented in-process connection; after every scripted line the vconn park signal (reader blocked with nothing pending) is the barrier at which Client.State()/Mailbox() are compared with a reference interpretation of the transcript; per-command exactly-once completion, status and data accounting; race detector on",
  text="Random sets of 2..6 unambiguous pipelined commands with random outcomes (OK with/without text, NO/BAD with/without codes), answered in random order-preserving interleavings with unilateral EXISTS/EXPUNGE/FLAGS/PERMANENTFLAGS in between; state sequences around SELECT OK/NO/BAD, [CLOSED], UNSELECT/CLOSE, LOGOUT; tagged refusal of a synchronising literal with another command in flight; FETCH with '*' sets; long-lived connections of 1500..4000 commands answered in the empty forms FLAGS () / LIST () / PERMANENTFLAGS (); every fifth script with the server's response names, status conditions and response-code names in lower or mixed case; STATUS under case variants of the mailbox name; 2..4 pipelined searches with RETURN options answered by ESEARCH in any order (TAG correlator); every script under a watchdog (a client call that never returns is a violation with the goroutine dump).",
  design_ref="DESIGN.md §3 C12",
  note="During a SELECT in progress the client may report either the old mailbox unchanged or no mailbox. Trusts the reference interpreter in checks/c12."),

 "C18": dict(
  category="exploration",
  technique="runtime trace monitor: the client's output on the instrumented in-process connection is tokenised by the independent scanner and checked against the capability set the scripted server had advertised / enabled; the global ordered event log decides literal synchronisation (no payload byte before '+', none after a tagged refusal); race detector on",
  text="Dialogues for 7 capability sets x string arguments from 16 classes in every command that takes strings x APPEND sizes around 4096 x SEARCH with non-ASCII text x 9 capability sets incl. UTF8=ONLY x a capability downgrade announced during IDLE with a SEARCH queued from a second goroutine (each command judged against the set in force when its first byte was written) x four server reactions to synchronising literals ('+' at once, '+' after unrelated untagged data once the client is parked, tagged NO, tagged BAD) x five server answers to ENABLE (granted, OK with empty ENABLED, OK without ENABLED, NO, BAD; UTF8=ACCEPT counts as enabled only when listed in an ENABLED response), UNAUTHENTICATE (OK with / without CAPABILITY code) followed by a new LOGIN, ending with a usability probe.",
  design_ref="DESIGN.md §3 C18",
  note="Capability sets are constant within a dialogue; UTF8=ACCEPT counts from the command after the ENABLED response."),

 "C13": dict(
  category="exploration",
  technique="Go race detector + exactly-once completion accounting + tag-uniqueness on the tee, under stress workloads with schedule perturbation: seeded yields injected at every lock/unlock site of package imapclient by source-level instrumentation generated from the current tree (cmd/lockgen, go build -overlay), GOMAXPROCS varied, connection resets and concurrent Close at seed-chosen points",
  text="Runs of 2/4/8 goroutines x 6..15 random commands of every kind against a scripted server that answers out of order and delays continuation requests, in four regimes (healthy, connection reset at a random byte, concurrent Close, both), with and without capability data in greeting / LOGIN, each workload under 3 yield seeds; unilateral-data handlers that call State()/Mailbox(); one long-lived client with more than 10000 commands and one command pending throughout. Decides on the executions produced: zero deduplicated race reports with imapclient/imapwire frames, unique tags, every submitted command completes exactly once, Close returns.",
  design_ref="DESIGN.md §3 C13",
  note="Sees only the interleavings produced; evidence counts distinct lock-acquisition fingerprints. Yields only at genuine suspension points."),

 "C02": dict(
  category="exploration",
  technique="runtime oracle at the backend boundary: real client -> in-process connection -> real server with a recording stub Session; each recorded call is compared with the caller's arguments under an explicit normalisation table, search criteria additionally evaluated with the independent reference matcher on a message universe; race detector on",
  text="Sessions of 45..60 client API calls over every command the server implements x argument strings from 18 classes and mailbox names from 9 classes, all fetch-attribute subsets with body/binary sections, search-criteria trees over every field, list/status option subsets, sets incl. '*' and '$', payload sizes around 4096 x 4 server capability configurations x {nothing, UTF8=ACCEPT, IMAP4rev2} enabled.",
  design_ref="DESIGN.md §3 C02",
  note="Arguments over 4096 bytes that the server must buffer may be refused (then only 'not altered if delivered' is checked); features the server does not implement are not generated."),
 "C03": dict(
  category="exploration",
  technique="runtime oracle at the client API boundary: a stub backend writes generated response plans through the real server's writer API, the real client decodes them over an in-process connection, and every Wait/Collect result is compared field-by-field (literals byte-for-byte, order preserved) with the plan under an explicit normalisation table; race detector on",
  text="Sessions of 40..60 commands (plus long-lived sessions of 2500..6000 commands on one connection): FETCH over all attribute subsets with envelopes (NIL / empty / group address lists, 8-bit and quoted-special text), body structures nested to depth 3 with message/rfc822 and text parts and extension data, body and binary literals of sizes {0,1,2,100,4095,4096,4097,70000}, BINARY.SIZE; STATUS all items; LIST attributes / delimiters / CHILDINFO / OLDNAME / LIST-STATUS pairing; SEARCH vs ESEARCH; SELECT data incl. IMAP4rev2 LIST; APPENDUID; COPYUID tagged and untagged (MOVE and its COPY fallback); EXPUNGE streams; groups of 3..5 pipelined searches all in flight before the backend answers the first; a quarter of the fetches address the last message only through '*', 'n:*' or '*:n' with the message count tracked from the wire (EXISTS minus EXPUNGE, incl. those consumed by EXPUNGE / MOVE commands); NAMESPACE; capabilities x 3 server configurations x {nothing, UTF8=ACCEPT, IMAP4rev2} enabled.",
  design_ref="DESIGN.md §3 C03",
  note="Only data the wire format can carry is demanded (normalisation listed in the evidence assumptions); the server's encoder is the producer, so server-side encoding defects that the client happens to tolerate are seen only when the decoded value differs."),
 "C08": dict(
  category="exploration",
  technique="online trace checker over the raw response stream of every connection (independent tokenizer): per-connection announced view rebuilt from EXISTS/EXPUNGE/FETCH, invariants asserted on every line, view compared after every NOOP with the real mailbox content listed through a fresh view on a probe connection; sequential multi-session histories against the real server + in-memory backend; race detector on",
  text="Seeded histories of 60 commands (APPEND/SELECT/EXAMINE/STORE/EXPUNGE/UID EXPUNGE/COPY/MOVE/FETCH/SEARCH/NOOP/IDLE/CLOSE, UID and non-UID forms, numbers, ranges, '*', 'n:*', '$') issued one at a time by 1..4 sessions over shared mailboxes with NOOP probability 3/8/20 % so that views are stale most of the time; every 10th history has a sleeper session that selects and then stays silent for 320 commands of the others before its NOOP; command names in lower/mixed case; plus concurrent histories (2..8 sessions at once, each connection's response stream checked for the invariants that hold under any interleaving, view after a NOOP at quiescence compared with the mailbox). Refutes: a sequence number outside 1..announced count (incl. 0), EXPUNGE during non-UID FETCH/STORE/SEARCH, EXISTS below the announced count, a UID inconsistent with its position, a reconstructed view that differs from the mailbox after NOOP.",
  design_ref="DESIGN.md §3 C08",
  note="Commands are not overlapped (C14 does that); IDLE pushes are consumed when the session leaves IDLE."),

 "C09": dict(
  category="exploration",
  technique="reference-model monitor: sequential multi-session histories (and concurrent histories whose outcome is interleaving-independent because every message, identified by a unique token, is touched by its owner only) over raw connections against the real server + in-memory backend; every response parsed by the independent tokenizer and compared with a reference mailbox model (UID allocation, UIDVALIDITY history, flags, expunge/move sets, STATUS, LIST with an independent wildcard matcher, SEARCH through the independent reference matcher, FETCH sections / partials / BODYSTRUCTURE / ENVELOPE against MIME trees the messages were generated from); crash oracle = missing tagged reply, closed connection or panic in the server log; race detector on",
  text="Seeded histories of 50 commands (CREATE/DELETE/RENAME/SUBSCRIBE/LIST/LSUB/STATUS/APPEND/SELECT/EXAMINE/STORE/COPY/MOVE/EXPUNGE/UID EXPUNGE/SEARCH/FETCH/NOOP/IDLE/CLOSE) by 1..3 sessions over 2..4 mailboxes; search keys of every kind with NOT/OR/group nesting and RETURN options incl. SAVE/$; sections with part paths, HEADER.FIELDS(.NOT), MIME, TEXT, partials with offsets and sizes up to 2^63-1; LIST patterns with references, multiple patterns, SUBSCRIBED and STATUS return options; every 5th history appends malformed messages (crash probing only); every 25th history is 500 commands long; final audit of every mailbox through a fresh connection. Concurrent phase: 2..8 sessions x 25..54 commands (APPEND, UID STORE, STORE by own-view sequence number, UID COPY, UID MOVE, \\Deleted + UID EXPUNGE, UID FETCH, UID SEARCH by token) with GOMAXPROCS in {1,2,4,16} and yields at the lock boundaries of imapserver/imapmemserver; APPENDUID/COPYUID/FETCH/SEARCH compared on-line with the owner's model, every mailbox audited at quiescence (UIDs strictly increasing, each message present once with its owner's flags and text).",
  design_ref="DESIGN.md §3 C09",
  note="Latitude granted where RFC 3501/9051 leave the outcome open is listed in the evidence assumptions; DELETE of a selected mailbox, RENAME of INBOX and write commands under EXAMINE are not generated."),
 "C14": dict(
  category="exploration",
  technique="Go race detector + Goodlock-style lock-order graph (instance level, gate-lock aware, sync.Mutex and sync.RWMutex incl. recursive read-lock detection) + per-command watchdog decided on two goroutine dumps, under stress workloads of concurrent sessions with schedule perturbation: seeded yields injected at every lock/unlock site of packages imapserver and imapmemserver by source-level instrumentation generated from the current tree (cmd/lockgen, go build -overlay), GOMAXPROCS varied",
  text="Runs of 2..8 concurrently running sessions x 20..44 random commands over 2..3 shared mailboxes (COPY/MOVE in both directions, FETCH with literals, STORE, EXPUNGE, APPEND, SEARCH, LIST/LSUB with STATUS, CREATE/DELETE/RENAME/SUBSCRIBE of scratch and shared mailboxes, IDLE with DONE or abrupt disconnect, CLOSE) (LIST forms incl. empty and multiple patterns) in profiles mixed / copy-storm / namespace / stalled-idler (one session idles and stops reading while the others change its mailbox hundreds of times). Server-lifecycle rounds: Serve on further listeners and Close racing with 0..3 running sessions (Close returns, every Serve returns once it did). Decides on the executions produced: every command gets its tagged reply, no lock-order cycle taken by different goroutines without a common gate (reported even if the run did not hang), zero deduplicated race reports with imapserver / imapmemserver frames, no panic in the server log.",
  design_ref="DESIGN.md §3 C14",
  note="Sees only the interleavings produced; evidence counts lock acquisitions, order edges, lock instances and distinct fingerprints. A watchdog expiry while server goroutines are still running is recorded as an inconclusive run, not a violation."),
}

NOT_YET = "check not built yet in this round (planned in DESIGN.md §3; runtime monitoring applies)"

def main():
    checks = []
    for pid in ALL:
        if pid not in CHECKS:
            continue
        c = CHECKS[pid]
        checks.append({
            "property_id": pid,
            "quick_cmd": f"./check {pid} quick",
            "thorough_cmd": f"./check {pid} thorough",
            "evidence_file": f"/verif/evidence/{pid}.json",
            "replay_cmd_template": f"./check {pid} --replay {{path}}",
            "engine": "hx",
            "level_claimed": {"category": c["category"], "text": c["text"], "design_ref": c["design_ref"]},
            "level_note": c["note"],
            "technique": c["technique"],
        })
    m = {
        "version": 1,
        "setup_cmd": "./setup.sh",
        "hooks": {
            "guard": "verif",
            "enable": "no hook is committed to /repo: lock instrumentation for C13/C14 is generated from the current working tree by cmd/lockgen and injected with `go build -overlay` by ./check; the build tag `verif` guards nothing in /repo",
            "baseline_off_cmd": "cd /repo && GOFLAGS=-mod=mod GOPROXY=off GOSUMDB=off GOTOOLCHAIN=local go test -vet=off -count=1 -timeout 25m ./...",
            "source_commits": [],
            "add_only": True,
        },
        "engines": [
            {"name": "hx", "path": "/verif/internal/hx", "serves_properties": [c["property_id"] for c in checks],
             "kind_free_text": "supervisor + sharded child-process workers running the real go-imap code under runtime oracles (reference models, independent tokenizer, race detector / checkptr, watchdogs); merges observations into evidence"},
        ],
        "checks": checks,
        "not_applicable": [{"property_id": p, "reason": NOT_YET} for p in ALL if p not in CHECKS],
        "notes": "Technique family: runtime monitoring and sanitizers. See DESIGN.md. Known findings: known_findings.json.",
    }
    with open(os.path.join(ROOT, "MANIFEST.json"), "w") as f:
        json.dump(m, f, indent=1)
        f.write("\n")
    try:
        import jsonschema
        jsonschema.validate(m, json.load(open("/root/.vp/MANIFEST.schema.json")))
        print("MANIFEST.json valid,", len(checks), "checks")
    except ImportError:
        print("MANIFEST.json written (jsonschema not available)")

if __name__ == "__main__":
    main()
