#!/bin/bash
# tools/intake_queue.sh <file with "dir name" lines> [parallelism] : take several seeded changes in, at most P at a time
P="${2:-3}"
xargs -P "$P" -L 1 sh -c '/verif/tools/intake_seed.sh "$0" "$1" > /tmp/intake_$1.log 2>&1' < "$1"
