#!/bin/bash
# tools/intake_r3.sh <Cxx> : take in /tmp/seedgen/<Cxx>/out${R:-3}/{X,Y} under the next two free letters
p="$1"
letters=(A B C D E F G H I J K L M N O P Q R)
n=$(ls -d /verif/seeded/$p-* 2>/dev/null | wc -l)
for v in X Y; do
  l=${letters[$n]}; n=$((n+1))
  [ -f /tmp/seedgen/$p/out${R:-3}/$v/meta.json ] || { echo "$p $v: no deliverable"; continue; }
  mkdir -p /verif/seeded/$p-$l   # reserve the name
  echo "/tmp/seedgen/$p/out${R:-3}/$v $p-$l"
done
