#!/bin/bash
# tools/sweep.sh <tier> <seed...> : run every registered check and summarise (exit code + last line)
tier="$1"; shift
cd /verif
for seed in "$@"; do
  for id in $(jq -r '.checks[].property_id' MANIFEST.json); do
    start=$(date +%s)
    VERIF_SEED=$seed ./check $id $tier > /tmp/sweep_$id.out 2>&1; rc=$?
    echo "seed=$seed $id exit=$rc $(( $(date +%s)-start ))s: $(grep -c '^VIOLATION' /tmp/sweep_$id.out) violations, $(grep -c '^KNOWN-FINDING' /tmp/sweep_$id.out) known | $(tail -1 /tmp/sweep_$id.out | cut -c1-160)"
    [ $rc -ne 0 ] && cp /tmp/sweep_$id.out /tmp/sweep_fail_${id}_$seed.out
  done
done
