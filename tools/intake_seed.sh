#!/bin/bash
# tools/intake_seed.sh <dir with patch.diff demo_test.go meta.json> <name, e.g. C13-C> [check ids...]
# Like verify_seed.sh, but runs the checks through tools/seedrun.sh (scratch worktree + scratch copy of /verif),
# so several seeds can be taken in concurrently and /repo is never touched.
set -u
export GOFLAGS=-mod=mod GOPROXY=off GOSUMDB=off GOTOOLCHAIN=local
src="$(readlink -f "$1")"; name="$2"; shift 2
prop=$(jq -r .property "$src/meta.json")
demodir=$(jq -r .demo_pkg_dir "$src/meta.json")
democmd=$(jq -r .demo_cmd "$src/meta.json")
checks=("$@"); [ ${#checks[@]} -eq 0 ] && checks=("$prop")
mkdir -p /tmp/wt
wt=/tmp/wt/intake_$name
git -C /repo worktree remove --force "$wt" 2>/dev/null
git -C /repo worktree add --detach "$wt" HEAD -q || exit 2
(
 cd "$wt"
 cp "$src/demo_test.go" "$demodir/zz_demo_test.go"
 if timeout 600 $democmd >/tmp/wt/intake_$name.clean.log 2>&1; then echo "clean: demo passes"; else echo "clean: DEMO FAILS (bad seed)"; fi
 if git apply "$src/patch.diff"; then echo "patch applies"; else echo "PATCH DOES NOT APPLY"; fi
 if go build ./... 2>/tmp/wt/intake_$name.build.log; then echo "patched: builds"; else echo "patched: BUILD FAILS"; fi
 rm "$demodir/zz_demo_test.go"
 if go test -vet=off -count=1 ./... >/tmp/wt/intake_$name.suite.log 2>&1; then echo "patched: suite passes"; else echo "patched: SUITE FAILS"; fi
 cp "$src/demo_test.go" "$demodir/zz_demo_test.go"
 if timeout 600 $democmd >/tmp/wt/intake_$name.patched.log 2>&1; then echo "patched: DEMO PASSES (bad seed)"; else echo "patched: demo fails (good)"; fi
) | tee /tmp/wt/intake_$name.summary
git -C /repo worktree remove --force "$wt"
mkdir -p /verif/seeded/$name
cp "$src/patch.diff" "$src/demo_test.go" "$src/meta.json" /verif/seeded/$name/
cp /tmp/wt/intake_$name.summary /verif/seeded/$name/verification.txt
/verif/tools/seedrun.sh "$name" "$src/patch.diff" quick "${checks[@]}" | tee -a /verif/seeded/$name/verification.txt
