package memsim

// sim.go: the reference mailbox model, the per-connection view observer and the
// sequential history driver.

import (
	"fmt"
	"math/rand"
	"sort"
	"strings"
	"time"

	"github.com/emersion/go-imap/v2/verif/internal/kit"
	sr "github.com/emersion/go-imap/v2/verif/internal/ref/searchref"
	"github.com/emersion/go-imap/v2/verif/internal/ref/utf7ref"
	"github.com/emersion/go-imap/v2/verif/internal/wiretok"
)

// Groups of violations.
const (
	GroupView  = "view"  // C08: on-the-wire view consistency
	GroupModel = "model" // C09: results differ from the reference model
	GroupCrash = "crash" // C09: connection crash / no tagged reply
)

// Reporter receives what the simulation observes.
type Reporter interface {
	Violation(group, class, detail string, transcript []string, cfg Cfg)
	Class(c string)
	Metric(name string, n int64)
}

// Cfg configures one history.
type Cfg struct {
	Seed      int64 `json:"Seed,string"`
	Sessions  int   // 1..4
	Boxes     int   // initial mailboxes (2..4)
	Steps     int
	Rev2      bool // ENABLE IMAP4rev2 on every session
	NoopBias  int  // per-mille probability that a step is a NOOP (low = stale views)
	Profile   string
	InitMsgs  int
	WithJunk  bool // append malformed messages too (crash probing only)
	WithAdmin bool // CREATE/DELETE/RENAME/SUBSCRIBE/LIST/STATUS
	// Sleeper: the last session selects a mailbox and then stays silent for the whole history
	// (its view becomes arbitrarily stale); it only issues the final NOOP
	Sleeper bool
}

type Msg struct {
	UID       uint32
	P         *Part
	Raw       []byte
	Flags     map[string]bool
	Date      time.Time
	DateKnown bool
	Junk      bool
	srm       *sr.Msg
}

type Box struct {
	ID         int
	Name       string
	UV         uint32 // 0: not learned yet
	UIDNext    uint32 // lower bound
	Msgs       []*Msg
	All        []uint32 // every UID ever assigned, in order
	Subscribed bool
}

func (b *Box) find(uid uint32) *Msg {
	for _, m := range b.Msgs {
		if m.UID == uid {
			return m
		}
	}
	return nil
}

func (b *Box) maxUID() uint32 {
	if len(b.Msgs) == 0 {
		return 0
	}
	return b.Msgs[len(b.Msgs)-1].UID
}

type Sess struct {
	ID      int
	raw     *kit.Raw
	sel     *Box
	ro      bool
	view    []uint32
	hw      int // index into sel.All: everything below is known (or already gone)
	tagN    int
	idleTag string
	res     []uint32 // SEARCHRES ($), UIDs
	pending bool     // updates may be pending (another session changed the mailbox since our last NOOP)
}

type Sim struct {
	cfg        Cfg
	rng        *rand.Rand
	mem        *kit.Mem
	rep        Reporter
	boxes      map[string]*Box
	sess       []*Sess
	uvSeen     map[string]map[uint32]int
	nextBoxID  int
	transcript []string
	stopped    bool
	bctr       int
	pool       []*Part // message pool
	probe      *Sess
}

// Verbose keeps transcripts complete (replay / debugging).
var Verbose bool

func (sm *Sim) logf(format string, a ...interface{}) {
	s := fmt.Sprintf(format, a...)
	if len(s) > 600 && !Verbose {
		s = s[:600] + fmt.Sprintf("...(%d bytes)", len(s))
	}
	sm.transcript = append(sm.transcript, s)
}

func (sm *Sim) fail(group, class, detail string) {
	if sm.stopped {
		return
	}
	sm.stopped = true
	tr := sm.transcript
	if len(tr) > 120 && !Verbose {
		tr = append([]string{fmt.Sprintf("(%d earlier lines omitted)", len(tr)-120)}, tr[len(tr)-120:]...)
	}
	sm.rep.Violation(group, class, detail, tr, sm.cfg)
}

// failView reports a view inconsistency (C08) unless the mailbox content itself
// differs from the model, in which case the cause is a semantic difference (C09).
func (sm *Sim) failView(s *Sess, class, detail string) {
	if sm.stopped {
		return
	}
	if s != nil && s.sel != nil {
		if actual, ok := sm.actual(s.sel); ok && fmt.Sprint(actual) != fmt.Sprint(s.sel.uids()) {
			sm.fail(GroupModel, "mailbox-content-differs", fmt.Sprintf("mailbox %q holds UIDs %v, model says %v (noticed through: %s)", s.sel.Name, actual, s.sel.uids(), detail))
			return
		}
	}
	sm.fail(GroupView, class, detail)
}

// actual lists the UIDs a mailbox really holds, through a fresh view on a
// dedicated probe connection.
func (sm *Sim) actual(b *Box) ([]uint32, bool) {
	if sm.probe == nil {
		sm.probe = &Sess{ID: 99, raw: sm.mem.DialRaw()}
		sm.probe.raw.Sync()
		if _, tg, ok := sm.exchange(sm.probe, "LOGIN user pass"); !ok || tg.Status != "OK" {
			return nil, false
		}
	}
	p := sm.probe
	if _, tg, ok := sm.exchange(p, "EXAMINE "+quote(utf7ref.Encode(b.Name))); !ok || tg.Status != "OK" {
		return nil, false
	}
	pre, tg, ok := sm.exchange(p, "UID SEARCH ALL")
	if !ok || tg.Status != "OK" {
		return nil, false
	}
	var uids []uint32
	for _, l := range pre {
		if l.Kind == "SEARCH" {
			for _, t := range l.Toks[2:] {
				v, _ := num(t)
				uids = append(uids, uint32(v))
			}
		}
		if l.Kind == "ESEARCH" {
			for i, t := range l.Toks {
				if t.IsAtom("ALL") && i+1 < len(l.Toks) {
					set, _ := ParseSet(l.Toks[i+1].S)
					uids = append(uids, SetNums(set)...)
				}
			}
		}
	}
	sm.exchange(p, "UNSELECT")
	sort.Slice(uids, func(i, j int) bool { return uids[i] < uids[j] })
	return uids, !sm.stopped
}

func (b *Box) uids() []uint32 {
	var l []uint32
	for _, m := range b.Msgs {
		l = append(l, m.UID)
	}
	return l
}

// checkContent compares the real content of a mailbox with the model right
// after a command that removes messages.
func (sm *Sim) checkContent(b *Box, after string) {
	if sm.stopped || b == nil {
		return
	}
	if actual, ok := sm.actual(b); ok && fmt.Sprint(actual) != fmt.Sprint(b.uids()) {
		sm.fail(GroupModel, "wrong-messages-removed@"+after, fmt.Sprintf("after %s mailbox %q holds UIDs %v, model says %v", after, b.Name, actual, b.uids()))
	}
}

// ---- wire helpers ------------------------------------------------------------------------

func quote(s string) string {
	return `"` + strings.NewReplacer(`\`, `\\`, `"`, `\"`).Replace(s) + `"`
}

func (sm *Sim) mboxArg(name string) string {
	enc := utf7ref.Encode(name) // go-imap uses modified UTF-7 for mailbox names on every connection
	plain := enc != ""
	for i := 0; i < len(enc); i++ {
		c := enc[i]
		if c <= ' ' || c >= 0x7f || strings.ContainsRune(`(){%*"\]`, rune(c)) {
			plain = false
		}
	}
	if plain && sm.rng.Intn(2) == 0 {
		return enc
	}
	return quote(enc)
}

func cmdName(line string) string {
	f := strings.Fields(line)
	if len(f) == 0 {
		return "?"
	}
	n := strings.ToUpper(f[0])
	if n == "UID" && len(f) > 1 {
		n += " " + strings.ToUpper(f[1])
	}
	return n
}

// respellCommand rewrites the command name (and the word after "UID") in lower or mixed case.
func respellCommand(rng *rand.Rand, line string) string {
	f := strings.SplitN(line, " ", 3)
	mix := func(w string) string {
		b := []byte(w)
		all := rng.Intn(2) == 0
		for i := range b {
			if b[i] >= 'A' && b[i] <= 'Z' && (all || rng.Intn(2) == 0) {
				b[i] += 32
			}
		}
		return string(b)
	}
	if len(f) > 0 {
		up := strings.ToUpper(f[0])
		f[0] = mix(f[0])
		if up == "UID" && len(f) > 1 {
			f[1] = mix(f[1])
		}
	}
	return strings.Join(f, " ")
}

// exchange sends one command line and returns the untagged lines and the tagged one.
func (sm *Sim) exchange(s *Sess, line string) ([]kit.RespLine, kit.RespLine, bool) {
	s.tagN++
	tag := fmt.Sprintf("s%dt%d", s.ID, s.tagN)
	// command names are case-insensitive: every 4th command is spelled in lower or mixed case
	wire := line
	if sm.rng.Intn(4) == 0 {
		wire = respellCommand(sm.rng, line)
	}
	sm.logf("C%d: %s %s", s.ID, tag, wire)
	s.raw.SendStr(tag + " " + wire + "\r\n")
	return sm.collect(s, tag, cmdName(line))
}

func (sm *Sim) collect(s *Sess, tag, name string) ([]kit.RespLine, kit.RespLine, bool) {
	out, cond := s.raw.Sync()
	sm.logf("S%d: %q", s.ID, out)
	lines, rest := kit.ParseResponses(out)
	if cond != "parked" || len(rest) != 0 || len(lines) == 0 || lines[len(lines)-1].Tag != tag || lines[len(lines)-1].Status == "" {
		detail := fmt.Sprintf("%s: connection %s, tagged reply missing; received %q", name, cond, tail(out, 300))
		if p := sm.mem.Log.Panics(); len(p) > 0 {
			detail += "; server log: " + p[len(p)-1]
		} else if l := sm.mem.Log.Lines(); len(l) > 0 {
			detail += "; server log: " + l[len(l)-1]
		}
		sm.fail(GroupCrash, "connection-crash@"+name, detail)
		return nil, kit.RespLine{}, false
	}
	sm.rep.Metric("commands", 1)
	if s.pending {
		sm.rep.Metric("commands_under_stale_view", 1)
	}
	return lines[:len(lines)-1], lines[len(lines)-1], true
}

func tail(b []byte, n int) []byte {
	if len(b) > n {
		return b[len(b)-n:]
	}
	return b
}

// ---- the view observer (C08) --------------------------------------------------------------

type obs struct {
	fetch   []FetchLine
	fetchU  []uint32 // uid (from the view) of each fetch line
	search  []kit.RespLine
	list    []kit.RespLine
	status  []kit.RespLine
	oks     []kit.RespLine
	expunge []uint32 // uids removed
	exists  int
}

// observe feeds untagged lines through the per-connection view. cmd is the
// command being answered ("" for pushes).
func (sm *Sim) observe(s *Sess, lines []kit.RespLine, cmd string) *obs {
	o := &obs{}
	noExpunge := cmd == "FETCH" || cmd == "STORE" || cmd == "SEARCH"
	for _, l := range lines {
		if sm.stopped {
			return o
		}
		if l.Tag != "*" {
			continue
		}
		switch l.Kind {
		case "EXISTS":
			if s.sel == nil {
				sm.failView(s, "update-without-mailbox@EXISTS", fmt.Sprintf("%s: EXISTS %d sent although no mailbox is selected", cmd, l.Num))
				return o
			}
			n := int(l.Num)
			o.exists++
			if n < len(s.view) {
				sm.failView(s, "count-shrinks-without-expunge@"+cmd, fmt.Sprintf("%s: EXISTS %d announced while the connection's view has %d messages", cmd, n, len(s.view)))
				return o
			}
			k := n - len(s.view)
			if s.hw+k > len(s.sel.All) {
				sm.failView(s, "count-exceeds-delivered@"+cmd, fmt.Sprintf("%s: EXISTS %d announces %d new messages but only %d were ever added beyond the view", cmd, n, k, len(s.sel.All)-s.hw))
				return o
			}
			s.view = append(s.view, s.sel.All[s.hw:s.hw+k]...)
			s.hw += k
			if k > 0 {
				sm.rep.Metric("exists_announcements", 1)
			}
		case "EXPUNGE":
			if s.sel == nil {
				sm.failView(s, "update-without-mailbox@EXPUNGE", fmt.Sprintf("%s: EXPUNGE %d sent although no mailbox is selected", cmd, l.Num))
				return o
			}
			if noExpunge {
				sm.failView(s, "expunge-during@"+cmd, fmt.Sprintf("EXPUNGE %d sent while answering %s", l.Num, cmd))
				return o
			}
			if l.Num < 1 || int(l.Num) > len(s.view) {
				sm.failView(s, "seq-out-of-range@EXPUNGE/"+cmd, fmt.Sprintf("%s: EXPUNGE %d but the announced count is %d", cmd, l.Num, len(s.view)))
				return o
			}
			uid := s.view[l.Num-1]
			if s.sel.find(uid) != nil {
				sm.failView(s, "expunge-of-existing-message@"+cmd, fmt.Sprintf("%s: EXPUNGE %d removes UID %d from the view but that message still exists", cmd, l.Num, uid))
				return o
			}
			s.view = append(s.view[:l.Num-1:l.Num-1], s.view[l.Num:]...)
			o.expunge = append(o.expunge, uid)
			sm.rep.Metric("expunge_responses", 1)
		case "FETCH":
			if s.sel == nil {
				sm.failView(s, "update-without-mailbox@FETCH", fmt.Sprintf("%s: FETCH %d sent although no mailbox is selected", cmd, l.Num))
				return o
			}
			fl := ParseFetch(l)
			if fl.Bad != "" {
				sm.fail(GroupModel, "malformed-fetch@"+cmd, fmt.Sprintf("%s: %s in %q", cmd, fl.Bad, tail(l.Raw, 200)))
				return o
			}
			if fl.Seq < 1 || int(fl.Seq) > len(s.view) {
				sm.failView(s, "seq-out-of-range@FETCH/"+cmd, fmt.Sprintf("%s: FETCH %d (UID %d) but the announced count is %d", cmd, fl.Seq, fl.UID, len(s.view)))
				return o
			}
			uid := s.view[fl.Seq-1]
			if fl.HasUID && fl.UID != uid {
				sm.failView(s, "seq-uid-mismatch@"+cmd, fmt.Sprintf("%s: FETCH %d carries UID %d but position %d of the announced view is UID %d", cmd, fl.Seq, fl.UID, fl.Seq, uid))
				return o
			}
			o.fetch = append(o.fetch, fl)
			o.fetchU = append(o.fetchU, uid)
		case "SEARCH", "ESEARCH", "SORT":
			o.search = append(o.search, l)
		case "LIST", "LSUB":
			o.list = append(o.list, l)
		case "STATUS":
			o.status = append(o.status, l)
		default:
			if l.Status != "" {
				o.oks = append(o.oks, l)
			}
		}
	}
	return o
}

// ---- model helpers -------------------------------------------------------------------------

func (sm *Sim) learnUV(b *Box, uv uint32, where string) {
	if uv == 0 {
		sm.fail(GroupModel, "uidvalidity-zero@"+where, fmt.Sprintf("%s reports UIDVALIDITY 0 for %q", where, b.Name))
		return
	}
	if b.UV != 0 && b.UV != uv {
		sm.fail(GroupModel, "uidvalidity-changed@"+where, fmt.Sprintf("%s reports UIDVALIDITY %d for %q, earlier %d", where, uv, b.Name, b.UV))
		return
	}
	b.UV = uv
	sm.noteUV(b)
}

func (sm *Sim) noteUV(b *Box) {
	if b.UV == 0 {
		return
	}
	m := sm.uvSeen[b.Name]
	if m == nil {
		m = map[uint32]int{}
		sm.uvSeen[b.Name] = m
	}
	if id, ok := m[b.UV]; ok && id != b.ID {
		sm.fail(GroupModel, "uidvalidity-reused", fmt.Sprintf("mailbox %q has UIDVALIDITY %d, which an earlier mailbox of the same name (since deleted or renamed) already used", b.Name, b.UV))
		return
	}
	m[b.UV] = b.ID
}

func flagSet(l []string) map[string]bool {
	m := map[string]bool{}
	for _, f := range l {
		m[strings.ToLower(f)] = true
	}
	return m
}

func flagList(m map[string]bool) []string {
	var l []string
	for f := range m {
		l = append(l, f)
	}
	sort.Strings(l)
	return l
}

func (m *Msg) searchMsg() *sr.Msg {
	if m.srm == nil {
		x := &sr.Msg{UID: m.UID, Size: int64(len(m.Raw)), Headers: map[string][]string{}}
		if m.P != nil {
			x.Headers = m.P.HeaderValues()
			x.Body = string(m.P.BodyBytes())
			if m.P.Env != nil {
				x.Sent = m.P.Env.Date
			}
		}
		x.Text = string(m.Raw)
		m.srm = x
	}
	m.srm.Flags = m.Flags
	m.srm.Internal = m.Date
	return m.srm
}

// addressed returns the messages a set addresses in the session's view, in view order.
type am struct {
	seq uint32
	m   *Msg
}

func (sm *Sim) addressed(s *Sess, set [][2]uint32, uid bool, dollar bool) []am {
	var out []am
	for i, u := range s.view {
		m := s.sel.find(u)
		if m == nil {
			continue
		}
		seq := uint32(i + 1)
		var in bool
		switch {
		case dollar:
			for _, r := range s.res {
				in = in || r == u
			}
		case uid:
			in = InSet(set, u, s.sel.maxUID())
		default:
			in = InSet(set, seq, uint32(len(s.view)))
		}
		if in {
			out = append(out, am{seq, m})
		}
	}
	return out
}

// ---- generators of arguments ------------------------------------------------------------------

func (sm *Sim) genSet(s *Sess, uid bool) (string, [][2]uint32) {
	r := sm.rng
	max := uint32(len(s.view))
	if uid {
		max = s.sel.UIDNext + 1
	}
	if max == 0 {
		max = 1
	}
	pick := func() string {
		switch r.Intn(10) {
		case 0:
			return "*"
		case 1:
			return fmt.Sprint(max + uint32(1+r.Intn(3)))
		}
		return fmt.Sprint(1 + r.Intn(int(max)))
	}
	var parts []string
	for n := 1 + r.Intn(3); n > 0; n-- {
		switch r.Intn(5) {
		case 0, 1:
			parts = append(parts, pick())
		case 2:
			parts = append(parts, pick()+":*")
		case 3:
			parts = append(parts, "1:*")
		default:
			parts = append(parts, pick()+":"+pick())
		}
	}
	txt := strings.Join(parts, ",")
	set, _ := ParseSet(txt)
	return txt, set
}

var storeFlagPool = []string{`\Seen`, `\Answered`, `\Flagged`, `\Deleted`, `\Draft`, `\SEEN`, `\deleted`, "kw1", "KW1", "$Forwarded", "other"}

func (sm *Sim) genFlags(max int) []string {
	var l []string
	for n := sm.rng.Intn(max + 1); n > 0; n-- {
		l = append(l, storeFlagPool[sm.rng.Intn(len(storeFlagPool))])
	}
	return l
}

// ---- session lifecycle -------------------------------------------------------------------------

func (sm *Sim) open() *Sess {
	s := &Sess{ID: len(sm.sess), raw: sm.mem.DialRaw()}
	sm.sess = append(sm.sess, s)
	out, cond := s.raw.Sync()
	if cond != "parked" || !strings.HasPrefix(string(out), "* OK") {
		sm.fail(GroupCrash, "no-greeting", fmt.Sprintf("greeting: %q (%s)", out, cond))
		return s
	}
	if _, tg, ok := sm.exchange(s, "LOGIN user pass"); !ok || tg.Status != "OK" {
		sm.fail(GroupCrash, "login-failed", "LOGIN user pass was not accepted")
		return s
	}
	if sm.cfg.Rev2 {
		sm.exchange(s, "ENABLE IMAP4rev2")
	}
	return s
}

func (sm *Sim) markPending(b *Box, except *Sess) {
	for _, s := range sm.sess {
		if s.sel == b && s != except {
			s.pending = true
		}
	}
}

// ---- commands -------------------------------------------------------------------------------

func (sm *Sim) boxNames() []string {
	var l []string
	for n := range sm.boxes {
		l = append(l, n)
	}
	sort.Strings(l)
	return l
}

func (sm *Sim) anyBox() *Box {
	l := sm.boxNames()
	if len(l) == 0 {
		return nil
	}
	return sm.boxes[l[sm.rng.Intn(len(l))]]
}

var namePool = []string{"INBOX", "Work", "Work/sub", "Work/sub/deep", "Archive", "Archive/2024", "a b", "Entwürfe", "x&y", "Trash", "lists/go-imap", "lists/other", "Workshop", "Workshop/notes", "Archive2"}

func normName(n string) string {
	if strings.EqualFold(n, "INBOX") {
		return "INBOX"
	}
	return n
}

func (sm *Sim) doCreate(s *Sess) {
	name := namePool[sm.rng.Intn(len(namePool))]
	arg := name
	if sm.rng.Intn(6) == 0 {
		arg += "/"
	}
	if name == "INBOX" && sm.rng.Intn(2) == 0 {
		arg = "inbox"
	}
	pre, tg, ok := sm.exchange(s, "CREATE "+sm.mboxArg(arg))
	if !ok {
		return
	}
	sm.observe(s, pre, "CREATE")
	sm.rep.Class("CREATE/" + tg.Status)
	_, exists := sm.boxes[name]
	switch {
	case exists && tg.Status == "OK":
		sm.fail(GroupModel, "create-existing-accepted", fmt.Sprintf("CREATE %q succeeded although the mailbox exists", name))
	case !exists && tg.Status != "OK":
		sm.fail(GroupModel, "create-refused", fmt.Sprintf("CREATE %q refused (%s) although no such mailbox exists", arg, tail(tg.Raw, 120)))
	case !exists:
		sm.nextBoxID++
		sm.boxes[name] = &Box{ID: sm.nextBoxID, Name: name, UIDNext: 1}
	}
}

func (sm *Sim) selectedBy(b *Box) bool {
	for _, s := range sm.sess {
		if s.sel == b {
			return true
		}
	}
	return false
}

func (sm *Sim) hasInferiors(name string) bool {
	for n := range sm.boxes {
		if strings.HasPrefix(n, name+"/") {
			return true
		}
	}
	return false
}

func (sm *Sim) doDelete(s *Sess) {
	name := namePool[sm.rng.Intn(len(namePool))]
	b := sm.boxes[name]
	if b != nil && sm.selectedBy(b) {
		return // behaviour of sessions that have a deleted mailbox selected is not specified
	}
	pre, tg, ok := sm.exchange(s, "DELETE "+sm.mboxArg(name))
	if !ok {
		return
	}
	sm.observe(s, pre, "DELETE")
	sm.rep.Class("DELETE/" + tg.Status)
	switch {
	case b == nil && tg.Status == "OK":
		sm.fail(GroupModel, "delete-missing-accepted", fmt.Sprintf("DELETE %q succeeded although no such mailbox exists", name))
	case b != nil && tg.Status != "OK":
		sm.fail(GroupModel, "delete-refused", fmt.Sprintf("DELETE %q refused: %s", name, tail(tg.Raw, 120)))
	case b != nil:
		delete(sm.boxes, name)
	}
}

func (sm *Sim) doRename(s *Sess) {
	from := namePool[sm.rng.Intn(len(namePool))]
	to := namePool[sm.rng.Intn(len(namePool))]
	if from == "INBOX" || to == "INBOX" || from == to {
		return // renaming INBOX has special semantics that are not modelled
	}
	// inferior hierarchical names are renamed too (RFC 9051 6.3.6); the outcome is
	// not specified when one of the new inferior names already exists
	for n := range sm.boxes {
		if strings.HasPrefix(n, from+"/") {
			if _, clash := sm.boxes[to+n[len(from):]]; clash {
				return
			}
		}
	}
	if strings.HasPrefix(to, from+"/") {
		return // renaming a mailbox into its own hierarchy
	}
	b := sm.boxes[from]
	pre, tg, ok := sm.exchange(s, "RENAME "+sm.mboxArg(from)+" "+sm.mboxArg(to))
	if !ok {
		return
	}
	sm.observe(s, pre, "RENAME")
	sm.rep.Class("RENAME/" + tg.Status)
	_, toExists := sm.boxes[to]
	want := b != nil && !toExists
	if want != (tg.Status == "OK") {
		sm.fail(GroupModel, "rename-outcome", fmt.Sprintf("RENAME %q %q answered %s; source exists=%v, destination exists=%v", from, to, tg.Status, b != nil, toExists))
		return
	}
	if want {
		delete(sm.boxes, from)
		b.Name = to
		sm.boxes[to] = b
		sm.noteUV(b)
		for _, n := range sm.boxNames() {
			if strings.HasPrefix(n, from+"/") {
				c := sm.boxes[n]
				delete(sm.boxes, n)
				c.Name = to + n[len(from):]
				sm.boxes[c.Name] = c
				sm.noteUV(c)
				sm.rep.Class("RENAME/inferior-renamed")
			}
		}
	}
}

func (sm *Sim) doSubscribe(s *Sess) {
	name := namePool[sm.rng.Intn(len(namePool))]
	verb := []string{"SUBSCRIBE", "UNSUBSCRIBE"}[sm.rng.Intn(2)]
	pre, tg, ok := sm.exchange(s, verb+" "+sm.mboxArg(name))
	if !ok {
		return
	}
	sm.observe(s, pre, verb)
	sm.rep.Class(verb + "/" + tg.Status)
	b := sm.boxes[name]
	if b == nil {
		return // a server may or may not validate the name
	}
	if tg.Status != "OK" {
		sm.fail(GroupModel, "subscribe-refused", fmt.Sprintf("%s %q refused: %s", verb, name, tail(tg.Raw, 120)))
		return
	}
	b.Subscribed = verb == "SUBSCRIBE"
}

// status ------------------------------------------------------------------------------------------

func (sm *Sim) checkStatusItems(b *Box, t wiretok.Tok, where string) {
	if t.Kind != wiretok.List || len(t.L)%2 != 0 {
		sm.fail(GroupModel, "malformed-status@"+where, "STATUS items are not a list of pairs: "+t.String())
		return
	}
	unseen, deleted, size := 0, 0, 0
	for _, m := range b.Msgs {
		if !m.Flags[`\seen`] {
			unseen++
		}
		if m.Flags[`\deleted`] {
			deleted++
		}
		size += len(m.Raw)
	}
	for i := 0; i < len(t.L); i += 2 {
		k := strings.ToUpper(t.L[i].S)
		v, ok := num(t.L[i+1])
		if !ok {
			sm.fail(GroupModel, "malformed-status@"+where, fmt.Sprintf("STATUS %s value %s", k, t.L[i+1].String()))
			return
		}
		var want uint64
		switch k {
		case "MESSAGES":
			want = uint64(len(b.Msgs))
		case "UNSEEN":
			want = uint64(unseen)
		case "DELETED":
			want = uint64(deleted)
		case "SIZE":
			want = uint64(size)
		case "UIDVALIDITY":
			sm.learnUV(b, uint32(v), where)
			continue
		case "UIDNEXT":
			if uint32(v) < b.UIDNext {
				sm.fail(GroupModel, "uidnext-too-small@"+where, fmt.Sprintf("%s: UIDNEXT %d for %q but UID %d was already assigned", where, v, b.Name, b.UIDNext-1))
				return
			}
			b.UIDNext = uint32(v)
			continue
		case "RECENT":
			continue
		default:
			continue
		}
		if v != want {
			sm.fail(GroupModel, "status-"+strings.ToLower(k)+"@"+where, fmt.Sprintf("%s: %s of %q is %d, model says %d", where, k, b.Name, v, want))
			return
		}
	}
}

func (sm *Sim) statusItems() string {
	items := []string{"MESSAGES", "UIDNEXT", "UIDVALIDITY", "UNSEEN"}
	if sm.cfg.Rev2 || true {
		items = append(items, "DELETED", "SIZE")
	}
	sm.rng.Shuffle(len(items), func(i, j int) { items[i], items[j] = items[j], items[i] })
	return strings.Join(items[:1+sm.rng.Intn(len(items))], " ")
}

func (sm *Sim) doStatus(s *Sess) {
	name := namePool[sm.rng.Intn(len(namePool))]
	if sm.rng.Intn(3) != 0 {
		if b := sm.anyBox(); b != nil {
			name = b.Name
		}
	}
	items := sm.statusItems()
	pre, tg, ok := sm.exchange(s, "STATUS "+sm.mboxArg(name)+" ("+items+")")
	if !ok {
		return
	}
	o := sm.observe(s, pre, "STATUS")
	sm.rep.Class("STATUS/" + tg.Status)
	b := sm.boxes[name]
	if (b != nil) != (tg.Status == "OK") {
		sm.fail(GroupModel, "status-outcome", fmt.Sprintf("STATUS %q answered %s; mailbox exists=%v", name, tg.Status, b != nil))
		return
	}
	if b == nil {
		return
	}
	if len(o.status) != 1 || len(o.status[0].Toks) != 4 {
		sm.fail(GroupModel, "status-missing", fmt.Sprintf("STATUS %q: %d STATUS responses", name, len(o.status)))
		return
	}
	if got := sm.decodeName(o.status[0].Toks[2]); got != name {
		sm.fail(GroupModel, "status-name", fmt.Sprintf("STATUS %q answered for %q", name, got))
		return
	}
	sm.checkStatusItems(b, o.status[0].Toks[3], "STATUS")
}

func (sm *Sim) decodeName(t wiretok.Tok) string {
	n := t.S
	if v, dec, _ := utf7ref.Decode([]byte(n)); v == utf7ref.MustAccept {
		n = dec
	}
	return normName(n)
}

// list --------------------------------------------------------------------------------------------

func resolveRef(ref, pat string) (string, string) {
	if strings.HasPrefix(pat, "/") {
		return "", pat[1:]
	}
	if ref != "" && !strings.HasSuffix(ref, "/") {
		ref += "/"
	}
	return ref, pat
}

func wild(name, pat string) bool {
	n, m := len(name), len(pat)
	ok := make([][]bool, n+1)
	for i := range ok {
		ok[i] = make([]bool, m+1)
	}
	for i := n; i >= 0; i-- {
		for j := m; j >= 0; j-- {
			switch {
			case j == m:
				ok[i][j] = i == n
			case pat[j] == '*':
				ok[i][j] = ok[i][j+1] || (i < n && ok[i+1][j])
			case pat[j] == '%':
				ok[i][j] = ok[i][j+1] || (i < n && name[i] != '/' && ok[i+1][j])
			default:
				ok[i][j] = i < n && name[i] == pat[j] && ok[i+1][j+1]
			}
		}
	}
	return ok[0][0]
}

func listMatch(name, ref, pat string) bool {
	prefix, p := resolveRef(ref, pat)
	return strings.HasPrefix(name, prefix) && wild(name[len(prefix):], p)
}

var patPool = []string{"*", "%", "INBOX", "inbox", "Work/%", "Work/*", "W*", "%/%", "*/sub", "*b", "Archive*", "%/sub/%", "lists/%", "/Work", "a b", "Entw*", "x&y", "nomatch", "*/*/*", "Work%", "Archive%", "%%", "Archive%/%", "lists%go-imap", "Work%/sub", "%shop", "Work%sub"}
var refPool = []string{"", "", "", "Work", "Work/", "lists", "Archive/", "nomatch"}

func (sm *Sim) doList(s *Sess) {
	r := sm.rng
	ref := refPool[r.Intn(len(refPool))]
	npat := 1
	ext := r.Intn(3) == 0
	if ext && r.Intn(3) == 0 {
		npat = 2
	}
	var pats []string
	for i := 0; i < npat; i++ {
		pats = append(pats, patPool[r.Intn(len(patPool))])
	}
	lsub := !ext && r.Intn(6) == 0
	selSub, retSub, retStatus := false, false, ""
	cmd := "LIST "
	if lsub {
		cmd = "LSUB "
	}
	if ext && r.Intn(3) == 0 {
		selSub = true
		cmd += "(SUBSCRIBED) "
	}
	cmd += sm.mboxArg(ref) + " "
	if ref == "" {
		cmd = strings.TrimSuffix(cmd, sm.mboxArg(ref)+" ") + `"" `
	}
	patArg := func(p string) string {
		p = utf7ref.Encode(p)
		if strings.ContainsAny(p, ` "\`) || r.Intn(2) == 0 {
			return quote(p)
		}
		return p
	}
	if npat == 1 && !(ext && r.Intn(2) == 0) {
		cmd += patArg(pats[0])
	} else {
		var l []string
		for _, p := range pats {
			l = append(l, patArg(p))
		}
		cmd += "(" + strings.Join(l, " ") + ")"
	}
	if ext {
		var ret []string
		if r.Intn(2) == 0 {
			retSub = true
			ret = append(ret, "SUBSCRIBED")
		}
		if r.Intn(2) == 0 {
			retStatus = sm.statusItems()
			ret = append(ret, "STATUS ("+retStatus+")")
		}
		if r.Intn(3) == 0 {
			ret = append(ret, "CHILDREN")
		}
		if len(ret) > 0 {
			cmd += " RETURN (" + strings.Join(ret, " ") + ")"
		}
	}
	pre, tg, ok := sm.exchange(s, cmd)
	if !ok {
		return
	}
	o := sm.observe(s, pre, "LIST")
	sm.rep.Class(fmt.Sprintf("LIST/ext=%v/lsub=%v/%s", ext, lsub, tg.Status))
	if tg.Status != "OK" {
		sm.fail(GroupModel, "list-refused", fmt.Sprintf("%s answered %s", cmd, tail(tg.Raw, 160)))
		return
	}
	want := map[string]*Box{}
	for n, b := range sm.boxes {
		for _, p := range pats {
			if listMatch(n, ref, p) && (!(selSub || lsub) || b.Subscribed) {
				want[n] = b
			}
		}
	}
	got := map[string]bool{}
	for _, l := range o.list {
		if len(l.Toks) != 5 || l.Toks[2].Kind != wiretok.List {
			sm.fail(GroupModel, "malformed-list", fmt.Sprintf("%s: %q", cmd, l.Raw))
			return
		}
		name := sm.decodeName(l.Toks[4])
		attrs := map[string]bool{}
		for _, a := range l.Toks[2].L {
			attrs[strings.ToLower(a.S)] = true
		}
		if d, dnil, _ := nstr(l.Toks[3]); !dnil && d != "/" {
			sm.fail(GroupModel, "list-delimiter", fmt.Sprintf("%s: delimiter %q for %q", cmd, d, name))
			return
		}
		b := want[name]
		if b == nil {
			// a placeholder for a missing parent is admissible when flagged so
			if (attrs[`\noselect`] || attrs[`\nonexistent`]) && (name == "" || sm.hasInferiors(name)) {
				continue
			}
			sm.fail(GroupModel, "list-extra", fmt.Sprintf("%s returned %q, which does not match (existing mailboxes: %v)", cmd, name, sm.boxNames()))
			return
		}
		if got[name] {
			sm.fail(GroupModel, "list-duplicate", fmt.Sprintf("%s returned %q twice", cmd, name))
			return
		}
		got[name] = true
		if (retSub || selSub) && attrs[`\subscribed`] != b.Subscribed {
			sm.fail(GroupModel, "list-subscribed-attr", fmt.Sprintf("%s: %q subscribed=%v but \\Subscribed attribute present=%v", cmd, name, b.Subscribed, attrs[`\subscribed`]))
			return
		}
	}
	if len(pats) == 1 && pats[0] == "" {
		return
	}
	for n := range want {
		if !got[n] {
			sm.fail(GroupModel, "list-missing", fmt.Sprintf("%s did not return %q (returned %d entries; existing: %v)", cmd, n, len(got), sm.boxNames()))
			return
		}
	}
	if retStatus != "" {
		seen := map[string]bool{}
		for _, l := range o.status {
			if len(l.Toks) != 4 {
				continue
			}
			name := sm.decodeName(l.Toks[2])
			if b := want[name]; b != nil {
				seen[name] = true
				sm.checkStatusItems(b, l.Toks[3], "LIST-STATUS")
			} else {
				sm.fail(GroupModel, "list-status-extra", fmt.Sprintf("%s: STATUS for %q which was not listed", cmd, name))
				return
			}
		}
		for n := range want {
			if !seen[n] {
				sm.fail(GroupModel, "list-status-missing", fmt.Sprintf("%s: no STATUS for listed mailbox %q", cmd, n))
				return
			}
		}
	}
}

// append -------------------------------------------------------------------------------------------

func (sm *Sim) genMsg() (*Part, []byte, bool) {
	r := sm.rng
	if sm.cfg.WithJunk && r.Intn(12) == 0 {
		junk := [][]byte{
			[]byte(""), []byte("no header at all"), []byte("Subject: only header\r\n"),
			[]byte("Content-Type: multipart/mixed; boundary=xx\r\n\r\nno parts here\r\n"),
			[]byte("Content-Type: multipart/mixed\r\n\r\n--\r\n\r\nbody\r\n----\r\n"),
			[]byte("Subject: lf only\nFrom: a@b\n\nbody\n"),
			[]byte("From: =?bad?x?###?= <>\r\nDate: not a date\r\nContent-Type: ;;;===\r\n\r\n\x00\x01\xff"),
			[]byte("Content-Type: message/rfc822\r\n\r\n"),
			[]byte("Content-Type: multipart/mixed; boundary=b\r\n\r\n--b\r\nContent-Type: multipart/mixed; boundary=b\r\n\r\n--b\r\n\r\nx\r\n--b--\r\n--b--\r\n"),
		}
		j := junk[r.Intn(len(junk))]
		return nil, j, true
	}
	if len(sm.pool) < 24 || r.Intn(4) == 0 {
		p := GenMessage(r, 3, &sm.bctr)
		sm.pool = append(sm.pool, p)
		return p, p.Bytes(), false
	}
	p := sm.pool[r.Intn(len(sm.pool))]
	return p, p.Bytes(), false
}

func imapDate(t time.Time) string { return t.Format("02-Jan-2006 15:04:05 -0700") }

func (sm *Sim) doAppend(s *Sess) {
	r := sm.rng
	name := namePool[r.Intn(len(namePool))]
	if r.Intn(8) != 0 {
		if b := sm.anyBox(); b != nil {
			name = b.Name
		}
	}
	p, raw, junk := sm.genMsg()
	flags := sm.genFlags(3)
	date := GenDate(r)
	cmd := "APPEND " + sm.mboxArg(name)
	if len(flags) > 0 || r.Intn(3) == 0 {
		cmd += " (" + strings.Join(flags, " ") + ")"
	}
	dateKnown := true
	if r.Intn(25) == 0 {
		dateKnown = false // no date-time argument: the internal date is the time of arrival
	} else {
		cmd += " " + quote(imapDate(date))
	}
	nonSync := r.Intn(3) == 0 && len(raw) <= 4096
	s.tagN++
	tag := fmt.Sprintf("s%dt%d", s.ID, s.tagN)
	b := sm.boxes[name]
	if nonSync {
		sm.logf("C%d: %s %s {%d+} <%d bytes>", s.ID, tag, cmd, len(raw), len(raw))
		if Verbose {
			sm.logf("payload: %q", raw)
		}
		s.raw.SendStr(fmt.Sprintf("%s %s {%d+}\r\n", tag, cmd, len(raw)))
		s.raw.Send(append(append([]byte{}, raw...), '\r', '\n'))
	} else {
		sm.logf("C%d: %s %s {%d} <%d bytes>", s.ID, tag, cmd, len(raw), len(raw))
		if Verbose {
			sm.logf("payload: %q", raw)
		}
		s.raw.SendStr(fmt.Sprintf("%s %s {%d}\r\n", tag, cmd, len(raw)))
		out, cond := s.raw.Sync()
		if cond != "parked" {
			sm.fail(GroupCrash, "connection-crash@APPEND", fmt.Sprintf("APPEND: connection %s after the literal header; received %q", cond, tail(out, 200)))
			return
		}
		if !strings.HasPrefix(string(out), "+") {
			// refused before the literal
			lines, _ := kit.ParseResponses(out)
			if b == nil && len(lines) > 0 && lines[len(lines)-1].Tag == tag && lines[len(lines)-1].Status == "NO" {
				sm.rep.Class("APPEND/NO-early")
				return
			}
			sm.fail(GroupModel, "append-refused", fmt.Sprintf("APPEND to %q (exists=%v): %q", name, b != nil, tail(out, 200)))
			return
		}
		s.raw.Send(append(append([]byte{}, raw...), '\r', '\n'))
	}
	pre, tg, ok := sm.collect(s, tag, "APPEND")
	if !ok {
		return
	}
	sm.rep.Class(fmt.Sprintf("APPEND/%s/junk=%v/date=%v", tg.Status, junk, dateKnown))
	if (b != nil) != (tg.Status == "OK") {
		sm.observe(s, pre, "APPEND")
		sm.fail(GroupModel, "append-outcome", fmt.Sprintf("APPEND to %q answered %s; mailbox exists=%v", name, tail(tg.Raw, 120), b != nil))
		return
	}
	if b == nil {
		sm.observe(s, pre, "APPEND")
		return
	}
	// APPENDUID
	var uid uint32
	if tg.Code == "APPENDUID" && len(tg.Toks) >= 5 {
		uv, ok1 := num(tg.Toks[3])
		u, ok2 := num(wiretok.Tok{Kind: wiretok.Atom, S: strings.TrimSuffix(tg.Toks[4].S, "]")})
		if !ok1 || !ok2 {
			sm.fail(GroupModel, "malformed-appenduid", fmt.Sprintf("%q", tg.Raw))
			return
		}
		sm.learnUV(b, uint32(uv), "APPENDUID")
		uid = uint32(u)
		if uid < b.UIDNext {
			sm.fail(GroupModel, "uid-not-increasing@APPEND", fmt.Sprintf("APPENDUID %d in %q but UIDs up to %d were already assigned", uid, b.Name, b.UIDNext-1))
			return
		}
	} else {
		sm.fail(GroupModel, "appenduid-missing", fmt.Sprintf("APPEND answered without APPENDUID: %q", tg.Raw))
		return
	}
	m := &Msg{UID: uid, P: p, Raw: raw, Flags: flagSet(flags), Date: date, DateKnown: dateKnown, Junk: junk}
	b.Msgs = append(b.Msgs, m)
	b.All = append(b.All, uid)
	b.UIDNext = uid + 1
	sm.markPending(b, nil)
	sm.observe(s, pre, "APPEND")
}

// select -------------------------------------------------------------------------------------------

func (sm *Sim) doSelect(s *Sess) {
	r := sm.rng
	name := namePool[r.Intn(len(namePool))]
	if r.Intn(8) != 0 {
		if b := sm.anyBox(); b != nil {
			name = b.Name
		}
	}
	verb := "SELECT"
	if r.Intn(5) == 0 {
		verb = "EXAMINE"
	}
	b := sm.boxes[name]
	pre, tg, ok := sm.exchange(s, verb+" "+sm.mboxArg(name))
	if !ok {
		return
	}
	sm.rep.Class(verb + "/" + tg.Status)
	// the previous mailbox is closed in any case
	s.sel, s.view, s.hw, s.res, s.pending = nil, nil, 0, nil, false
	if (b != nil) != (tg.Status == "OK") {
		sm.fail(GroupModel, "select-outcome", fmt.Sprintf("%s %q answered %s; mailbox exists=%v", verb, name, tail(tg.Raw, 120), b != nil))
		return
	}
	if b == nil {
		return
	}
	exists := -1
	for _, l := range pre {
		switch {
		case l.Kind == "EXISTS":
			exists = int(l.Num)
		case l.Kind == "EXPUNGE" || l.Kind == "FETCH":
			sm.failView(s, "update-during-select", fmt.Sprintf("%s: %q", verb, l.Raw))
			return
		case l.Status == "OK" && l.Code == "UIDVALIDITY" && len(l.Toks) > 3:
			v, _ := num(wiretok.Tok{Kind: wiretok.Atom, S: strings.TrimSuffix(l.Toks[3].S, "]")})
			sm.learnUV(b, uint32(v), verb)
		case l.Status == "OK" && l.Code == "UIDNEXT" && len(l.Toks) > 3:
			v, _ := num(wiretok.Tok{Kind: wiretok.Atom, S: strings.TrimSuffix(l.Toks[3].S, "]")})
			if uint32(v) < b.UIDNext {
				sm.fail(GroupModel, "uidnext-too-small@SELECT", fmt.Sprintf("%s %q: UIDNEXT %d but UID %d was already assigned", verb, name, v, b.UIDNext-1))
				return
			}
			b.UIDNext = uint32(v)
		}
	}
	if exists != len(b.Msgs) {
		sm.fail(GroupModel, "select-exists", fmt.Sprintf("%s %q announces %d messages, the mailbox has %d", verb, name, exists, len(b.Msgs)))
		return
	}
	s.sel, s.ro = b, verb == "EXAMINE"
	for _, m := range b.Msgs {
		s.view = append(s.view, m.UID)
	}
	s.hw = len(b.All)
}

func (sm *Sim) doClose(s *Sess) {
	verb := []string{"CLOSE", "UNSELECT"}[sm.rng.Intn(2)]
	pre, tg, ok := sm.exchange(s, verb)
	if !ok {
		return
	}
	sm.rep.Class(verb + "/" + tg.Status)
	if s.sel == nil {
		if tg.Status == "OK" {
			sm.fail(GroupModel, "close-without-mailbox", verb+" accepted although no mailbox is selected")
		}
		return
	}
	if tg.Status != "OK" {
		sm.fail(GroupModel, "close-refused", fmt.Sprintf("%s refused: %q", verb, tg.Raw))
		return
	}
	for _, l := range pre {
		if l.Kind == "EXPUNGE" {
			sm.failView(s, "expunge-during@CLOSE", fmt.Sprintf("%s sent %q", verb, l.Raw))
			return
		}
	}
	b := s.sel
	if verb == "CLOSE" && !s.ro {
		var keep []*Msg
		for _, m := range b.Msgs {
			if !m.Flags[`\deleted`] {
				keep = append(keep, m)
			}
		}
		if len(keep) != len(b.Msgs) {
			b.Msgs = keep
			sm.markPending(b, s)
		}
	}
	s.sel, s.view, s.hw, s.res, s.pending = nil, nil, 0, nil, false
	sm.checkContent(b, verb)
}

// noop / idle --------------------------------------------------------------------------------------

func (sm *Sim) checkViewEqualsMailbox(s *Sess, where string) {
	if s.sel == nil || sm.stopped {
		return
	}
	actual, ok := sm.actual(s.sel)
	if !ok {
		return
	}
	if fmt.Sprint(actual) != fmt.Sprint(s.sel.uids()) {
		sm.fail(GroupModel, "mailbox-content-differs", fmt.Sprintf("mailbox %q holds UIDs %v, model says %v", s.sel.Name, actual, s.sel.uids()))
		return
	}
	if fmt.Sprint(actual) != fmt.Sprint(s.view) {
		class := "view-differs-after-" + where
		have := map[uint32]bool{}
		for _, u := range actual {
			have[u] = true
		}
		for _, u := range s.view {
			if !have[u] {
				class = "removed-message-never-reported@" + where
			}
		}
		sm.fail(GroupView, class, fmt.Sprintf("after %s the view reconstructed from the responses is %v (UIDs) but the mailbox %q holds %v", where, s.view, s.sel.Name, actual))
	}
	sm.rep.Metric("view_equals_mailbox_checks", 1)
	s.pending = false
}

func (sm *Sim) doNoop(s *Sess) {
	verb := "NOOP"
	if !sm.cfg.Rev2 && sm.rng.Intn(5) == 0 {
		verb = "CHECK"
		if s.sel == nil {
			verb = "NOOP"
		}
	}
	pre, tg, ok := sm.exchange(s, verb)
	if !ok {
		return
	}
	sm.observe(s, pre, verb)
	sm.rep.Class(fmt.Sprintf("%s/selected=%v/%s", verb, s.sel != nil, tg.Status))
	if tg.Status != "OK" {
		sm.fail(GroupModel, "noop-refused", fmt.Sprintf("%q", tg.Raw))
		return
	}
	sm.checkViewEqualsMailbox(s, "NOOP")
}

func (sm *Sim) doIdleStart(s *Sess) {
	s.tagN++
	s.idleTag = fmt.Sprintf("s%dt%d", s.ID, s.tagN)
	sm.logf("C%d: %s IDLE", s.ID, s.idleTag)
	s.raw.SendStr(s.idleTag + " IDLE\r\n")
	s.raw.WaitFor(func(b []byte) bool { return strings.Contains(string(b), "\r\n") }, kit.SyncTimeout)
	out, cond := s.raw.Sync()
	if cond != "parked" || !strings.Contains(string(out), "+") {
		sm.fail(GroupCrash, "connection-crash@IDLE", fmt.Sprintf("IDLE: %q (%s)", out, cond))
		return
	}
	lines, _ := kit.ParseResponses(out)
	sm.observe(s, lines, "IDLE")
	sm.rep.Class("IDLE/start")
}

func (sm *Sim) doIdleDone(s *Sess) {
	tag := s.idleTag
	s.idleTag = ""
	sm.logf("C%d: DONE", s.ID)
	s.raw.SendStr("DONE\r\n")
	s.raw.WaitFor(func(b []byte) bool { return strings.Contains(string(b), tag+" ") }, kit.SyncTimeout)
	pre, tg, ok := sm.collect(s, tag, "IDLE")
	if !ok {
		return
	}
	sm.observe(s, pre, "IDLE")
	sm.rep.Class("IDLE/done/" + tg.Status)
	if tg.Status != "OK" {
		sm.fail(GroupModel, "idle-refused", fmt.Sprintf("%q", tg.Raw))
	}
}

// store --------------------------------------------------------------------------------------------

func (sm *Sim) doStore(s *Sess) {
	r := sm.rng
	uid := r.Intn(2) == 0
	dollar := len(s.res) > 0 && r.Intn(6) == 0
	setTxt, set := sm.genSet(s, uid)
	if dollar {
		setTxt = "$"
	}
	op := []string{"FLAGS", "+FLAGS", "-FLAGS"}[r.Intn(3)]
	silent := r.Intn(3) == 0
	flags := sm.genFlags(3)
	item := op
	if silent {
		item += ".SILENT"
	}
	fl := "(" + strings.Join(flags, " ") + ")"
	if len(flags) > 0 && r.Intn(4) == 0 {
		fl = strings.Join(flags, " ")
	}
	cmd := fmt.Sprintf("STORE %s %s %s", setTxt, item, fl)
	name := "STORE"
	if uid {
		cmd, name = "UID "+cmd, "UID STORE"
	}
	targets := sm.addressed(s, set, uid, dollar)
	pre, tg, ok := sm.exchange(s, cmd)
	if !ok {
		return
	}
	sm.rep.Class(fmt.Sprintf("%s/%s/silent=%v/stale=%v/%s", name, op, silent, s.pending, tg.Status))
	if tg.Status != "OK" {
		o := sm.observe(s, pre, name)
		_ = o
		sm.fail(GroupModel, "store-refused", fmt.Sprintf("%s answered %q", cmd, tail(tg.Raw, 160)))
		return
	}
	// apply to the model first: the responses report the new state
	for _, t := range targets {
		switch op {
		case "FLAGS":
			t.m.Flags = flagSet(flags)
		case "+FLAGS":
			for f := range flagSet(flags) {
				t.m.Flags[f] = true
			}
		case "-FLAGS":
			for f := range flagSet(flags) {
				delete(t.m.Flags, f)
			}
		}
	}
	if len(targets) > 0 {
		sm.markPending(s.sel, s)
	}
	o := sm.observe(s, pre, name)
	if sm.stopped {
		return
	}
	if !silent {
		sm.checkSolicited(s, o, targets, name, cmd, func(t am, fl FetchLine) string {
			if !fl.HasFlags {
				return "no FLAGS item"
			}
			if strings.Join(fl.Flags, " ") != strings.Join(flagList(t.m.Flags), " ") {
				return fmt.Sprintf("flags %v, model says %v", fl.Flags, flagList(t.m.Flags))
			}
			if uid && !fl.HasUID {
				return "UID STORE response without UID"
			}
			return ""
		})
	}
}

// checkSolicited verifies that every addressed message got a FETCH response
// (the first one for that UID) that satisfies check.
func (sm *Sim) checkSolicited(s *Sess, o *obs, targets []am, name, cmd string, check func(t am, fl FetchLine) string) {
	first := map[uint32]int{}
	for i := range o.fetch {
		if _, ok := first[o.fetchU[i]]; !ok {
			first[o.fetchU[i]] = i
		}
	}
	for _, t := range targets {
		i, ok := first[t.m.UID]
		if !ok {
			sm.fail(GroupModel, "response-missing@"+name, fmt.Sprintf("%s: no FETCH response for addressed message seq %d UID %d (view %v)", cmd, t.seq, t.m.UID, s.view))
			return
		}
		if msg := check(t, o.fetch[i]); msg != "" {
			sm.fail(GroupModel, "response-differs@"+name, fmt.Sprintf("%s: message seq %d UID %d: %s", cmd, t.seq, t.m.UID, msg))
			return
		}
	}
}

// copy / move -----------------------------------------------------------------------------------------

func parseCopyUID(toks []wiretok.Tok) (uv uint32, src, dst []uint32, ok bool) {
	// ... [COPYUID uv src dst] ...
	for i, t := range toks {
		if t.Kind == wiretok.Atom && strings.EqualFold(t.S, "[COPYUID") && i+3 < len(toks) {
			v, ok1 := num(toks[i+1])
			a, ok2 := ParseSet(toks[i+2].S)
			b, ok3 := ParseSet(strings.TrimSuffix(toks[i+3].S, "]"))
			if !ok1 || !ok2 || !ok3 {
				return 0, nil, nil, false
			}
			return uint32(v), SetNums(a), SetNums(b), true
		}
	}
	return 0, nil, nil, false
}

func (sm *Sim) doCopyMove(s *Sess) {
	r := sm.rng
	move := r.Intn(2) == 0
	uid := r.Intn(2) == 0
	setTxt, set := sm.genSet(s, uid)
	destName := namePool[r.Intn(len(namePool))]
	if r.Intn(8) != 0 {
		if b := sm.anyBox(); b != nil {
			destName = b.Name
		}
	}
	verb := "COPY"
	if move {
		verb = "MOVE"
	}
	cmd := fmt.Sprintf("%s %s %s", verb, setTxt, sm.mboxArg(destName))
	name := verb
	if uid {
		cmd, name = "UID "+cmd, "UID "+verb
	}
	dest := sm.boxes[destName]
	targets := sm.addressed(s, set, uid, false)
	pre, tg, ok := sm.exchange(s, cmd)
	if !ok {
		return
	}
	sm.rep.Class(fmt.Sprintf("%s/n=%d/stale=%v/%s", name, min(len(targets), 3), s.pending, tg.Status))
	if dest == nil {
		if tg.Status == "OK" {
			sm.fail(GroupModel, "copy-to-missing-accepted", fmt.Sprintf("%s answered OK although %q does not exist", cmd, destName))
		}
		sm.observe(s, pre, name)
		return
	}
	if dest == s.sel && tg.Status != "OK" {
		sm.observe(s, pre, name)
		return // refusing a copy onto the same mailbox is tolerated
	}
	if tg.Status != "OK" {
		sm.fail(GroupModel, "copy-refused", fmt.Sprintf("%s answered %q", cmd, tail(tg.Raw, 160)))
		return
	}
	// locate COPYUID: tagged OK (COPY) or untagged OK (MOVE)
	var uv uint32
	var src, dst []uint32
	found := false
	cands := append([]kit.RespLine{}, pre...)
	cands = append(cands, tg)
	for _, l := range cands {
		if l.Status == "OK" && l.Code == "COPYUID" {
			var ok bool
			uv, src, dst, ok = parseCopyUID(l.Toks)
			if !ok {
				sm.fail(GroupModel, "malformed-copyuid@"+name, fmt.Sprintf("%s: %q", cmd, l.Raw))
				return
			}
			found = true
		}
	}
	if len(targets) == 0 {
		if found && (len(src) > 0 || len(dst) > 0) {
			sm.fail(GroupModel, "copyuid-for-nothing@"+name, fmt.Sprintf("%s addresses no message but reports COPYUID %v -> %v", cmd, src, dst))
			return
		}
		sm.observe(s, pre, name)
		return
	}
	if !found {
		sm.fail(GroupModel, "copyuid-missing@"+name, fmt.Sprintf("%s copied %d messages but reported no COPYUID", cmd, len(targets)))
		return
	}
	sm.learnUV(dest, uv, "COPYUID")
	if sm.stopped {
		return
	}
	var wantSrc []uint32
	for _, t := range targets {
		wantSrc = append(wantSrc, t.m.UID)
	}
	sort.Slice(wantSrc, func(i, j int) bool { return wantSrc[i] < wantSrc[j] })
	if fmt.Sprint(src) != fmt.Sprint(wantSrc) || len(dst) != len(src) {
		sm.fail(GroupModel, "copyuid-source@"+name, fmt.Sprintf("%s: COPYUID source %v destination %v, model says source %v", cmd, src, dst, wantSrc))
		return
	}
	byUID := map[uint32]*Msg{}
	for _, t := range targets {
		byUID[t.m.UID] = t.m
	}
	prev := dest.UIDNext - 1
	for i, d := range dst {
		if d <= prev {
			sm.fail(GroupModel, "uid-not-increasing@"+name, fmt.Sprintf("%s: new UID %d in %q is not above %d", cmd, d, dest.Name, prev))
			return
		}
		prev = d
		o := byUID[src[i]]
		fl := map[string]bool{}
		for f := range o.Flags {
			fl[f] = true
		}
		dest.Msgs = append(dest.Msgs, &Msg{UID: d, P: o.P, Raw: o.Raw, Flags: fl, Date: o.Date, DateKnown: o.DateKnown, Junk: o.Junk})
		dest.All = append(dest.All, d)
	}
	dest.UIDNext = prev + 1
	sm.markPending(dest, nil)
	if move {
		var keep []*Msg
		for _, m := range s.sel.Msgs {
			if byUID[m.UID] == nil {
				keep = append(keep, m)
			}
		}
		s.sel.Msgs = keep
		sm.markPending(s.sel, s)
	}
	o := sm.observe(s, pre, name)
	if sm.stopped {
		return
	}
	if move {
		// the moved messages must have been reported as removed to the moving session
		gone := map[uint32]bool{}
		for _, u := range o.expunge {
			gone[u] = true
		}
		for _, t := range targets {
			if !gone[t.m.UID] {
				sm.failView(s, "removed-message-never-reported@"+name, fmt.Sprintf("%s moved UID %d away but sent no EXPUNGE for it", cmd, t.m.UID))
				return
			}
		}
		sm.checkContent(s.sel, cmd)
	}
}

// expunge ------------------------------------------------------------------------------------------------

func (sm *Sim) doExpunge(s *Sess) {
	r := sm.rng
	cmd, name := "EXPUNGE", "EXPUNGE"
	var set [][2]uint32
	uid := r.Intn(2) == 0
	if uid {
		var txt string
		txt, set = sm.genSet(s, true)
		cmd, name = "UID EXPUNGE "+txt, "UID EXPUNGE"
	}
	pre, tg, ok := sm.exchange(s, cmd)
	if !ok {
		return
	}
	sm.rep.Class(fmt.Sprintf("%s/stale=%v/%s", name, s.pending, tg.Status))
	if tg.Status != "OK" {
		sm.fail(GroupModel, "expunge-refused", fmt.Sprintf("%s answered %q", cmd, tail(tg.Raw, 160)))
		return
	}
	b := s.sel
	var keep []*Msg
	removed := map[uint32]bool{}
	for _, m := range b.Msgs {
		if m.Flags[`\deleted`] && (!uid || InSet(set, m.UID, b.maxUID())) {
			removed[m.UID] = true
			continue
		}
		keep = append(keep, m)
	}
	b.Msgs = keep
	if len(removed) > 0 {
		sm.markPending(b, s)
	}
	sm.observe(s, pre, name)
	sm.checkContent(b, cmd)
}

func min(a, b int) int {
	if a < b {
		return a
	}
	return b
}
