package memsim

// wire.go: parsing of response data out of wiretok tokens (independent of
// go-imap's own decoders), and comparison of ENVELOPE / BODYSTRUCTURE tokens with
// the generated MIME tree.

import (
	"fmt"
	"regexp"
	"sort"
	"strconv"
	"strings"
	"time"

	"github.com/emersion/go-imap/v2/verif/internal/kit"
	"github.com/emersion/go-imap/v2/verif/internal/wiretok"
)

// FetchLine is one parsed "* n FETCH (...)" response.
type FetchLine struct {
	Seq      uint32
	UID      uint32
	HasUID   bool
	Flags    []string // lower-cased, sorted
	HasFlags bool
	Items    map[string]wiretok.Tok // upper-cased item name -> value
	Order    []string
	Bad      string // non-empty: the line could not be understood
}

func isNIL(t wiretok.Tok) bool { return t.Kind == wiretok.Atom && strings.EqualFold(t.S, "NIL") }

func isStr(t wiretok.Tok) bool {
	return t.Kind == wiretok.Quoted || t.Kind == wiretok.Literal
}

func num(t wiretok.Tok) (uint64, bool) {
	if t.Kind != wiretok.Atom || t.S == "" {
		return 0, false
	}
	for i := 0; i < len(t.S); i++ {
		if t.S[i] < '0' || t.S[i] > '9' {
			return 0, false
		}
	}
	v, err := strconv.ParseUint(t.S, 10, 64)
	return v, err == nil
}

// ParseFetch parses a FETCH response line.
func ParseFetch(l kit.RespLine) FetchLine {
	fl := FetchLine{Seq: l.Num, Items: map[string]wiretok.Tok{}}
	if len(l.Toks) != 4 || l.Toks[3].Kind != wiretok.List {
		fl.Bad = fmt.Sprintf("expected '* n FETCH (...)', got %d tokens", len(l.Toks))
		return fl
	}
	m := l.Toks[3].L
	for i := 0; i < len(m); {
		if m[i].Kind != wiretok.Atom {
			fl.Bad = "item name is not an atom: " + m[i].String()
			return fl
		}
		key := m[i].S
		i++
		if strings.Contains(key, "[") && !strings.Contains(key, "]") {
			for i < len(m) {
				t := m[i]
				i++
				if t.Kind == wiretok.Atom && strings.HasPrefix(t.S, "]") {
					key += t.S
					break
				}
				key += " " + t.String()
				if t.Kind == wiretok.Atom && strings.Contains(t.S, "]") {
					break
				}
			}
		}
		if i >= len(m) {
			fl.Bad = "item " + key + " has no value"
			return fl
		}
		val := m[i]
		i++
		k := strings.ToUpper(key)
		fl.Items[k] = val
		fl.Order = append(fl.Order, k)
		switch k {
		case "UID":
			v, ok := num(val)
			if !ok || v == 0 || v > 0xFFFFFFFF {
				fl.Bad = "bad UID value " + val.String()
				return fl
			}
			fl.UID, fl.HasUID = uint32(v), true
		case "FLAGS":
			if val.Kind != wiretok.List {
				fl.Bad = "FLAGS value is not a list"
				return fl
			}
			fl.HasFlags = true
			for _, f := range val.L {
				fl.Flags = append(fl.Flags, strings.ToLower(f.S))
			}
			sort.Strings(fl.Flags)
		}
	}
	return fl
}

func nstr(t wiretok.Tok) (string, bool, bool) { // value, isNil, ok
	if isNIL(t) {
		return "", true, true
	}
	if isStr(t) {
		return t.S, false, true
	}
	return "", false, false
}

var envLayouts = []string{"Mon, 02 Jan 2006 15:04:05 -0700", "Mon, 2 Jan 2006 15:04:05 -0700", "2 Jan 2006 15:04:05 -0700", "02 Jan 2006 15:04:05 -0700", time.RFC1123Z}

func checkAddrs(t wiretok.Tok, want []Addr, what string) string {
	if len(want) == 0 {
		if isNIL(t) || (t.Kind == wiretok.List && len(t.L) == 0) {
			return ""
		}
		return fmt.Sprintf("%s: expected NIL, got %s", what, t.String())
	}
	if t.Kind != wiretok.List || len(t.L) != len(want) {
		return fmt.Sprintf("%s: expected %d addresses %v, got %s", what, len(want), want, t.String())
	}
	for i, a := range t.L {
		if a.Kind != wiretok.List || len(a.L) != 4 {
			return fmt.Sprintf("%s: address %d is not a 4-tuple: %s", what, i, a.String())
		}
		name, _, ok1 := nstr(a.L[0])
		mb, _, ok2 := nstr(a.L[2])
		host, _, ok3 := nstr(a.L[3])
		if !ok1 || !ok2 || !ok3 || name != want[i].Name || mb != want[i].Mailbox || host != want[i].Host {
			return fmt.Sprintf("%s: address %d expected %+v, got %s", what, i, want[i], a.String())
		}
	}
	return ""
}

var idRe = regexp.MustCompile(`<([^>]*)>`)

// CheckEnvelope compares an ENVELOPE token with the expected data.
func CheckEnvelope(t wiretok.Tok, e *EnvData) string {
	if t.Kind != wiretok.List || len(t.L) != 10 {
		return "envelope is not a 10-element list: " + t.String()
	}
	ds, dnil, ok := nstr(t.L[0])
	if !ok {
		return "envelope date is not an nstring"
	}
	if e.Date.IsZero() != dnil {
		return fmt.Sprintf("envelope date: expected %v, got %s", e.Date, t.L[0].String())
	}
	if !dnil {
		var got time.Time
		var err error
		for _, lay := range envLayouts {
			if got, err = time.Parse(lay, ds); err == nil {
				break
			}
		}
		if err != nil || !got.Equal(e.Date) {
			return fmt.Sprintf("envelope date: expected %v, got %q", e.Date, ds)
		}
	}
	subj, snil, ok := nstr(t.L[1])
	if !ok || (snil && e.HasSubject && e.Subject != "") || (!snil && subj != e.Subject) {
		return fmt.Sprintf("envelope subject: expected %q (present=%v), got %s", e.Subject, e.HasSubject, t.L[1].String())
	}
	sender, reply := e.Sender, e.ReplyTo
	if len(sender) == 0 {
		sender = e.From
	}
	if len(reply) == 0 {
		reply = e.From
	}
	for i, w := range [][]Addr{e.From, sender, reply, e.To, e.Cc, e.Bcc} {
		if m := checkAddrs(t.L[2+i], w, []string{"from", "sender", "reply-to", "to", "cc", "bcc"}[i]); m != "" {
			return "envelope " + m
		}
	}
	irt, inil, ok := nstr(t.L[8])
	if !ok {
		return "envelope in-reply-to is not an nstring"
	}
	var ids []string
	for _, m := range idRe.FindAllStringSubmatch(irt, -1) {
		ids = append(ids, m[1])
	}
	if (len(e.InReplyTo) == 0) != inil || strings.Join(ids, " ") != strings.Join(e.InReplyTo, " ") {
		return fmt.Sprintf("envelope in-reply-to: expected %v, got %s", e.InReplyTo, t.L[8].String())
	}
	mid, mnil, ok := nstr(t.L[9])
	if !ok || (e.MessageID == "") != mnil || (!mnil && mid != "<"+e.MessageID+">") {
		return fmt.Sprintf("envelope message-id: expected %q, got %s", e.MessageID, t.L[9].String())
	}
	return ""
}

func paramMap(t wiretok.Tok) (map[string]string, bool) {
	if isNIL(t) {
		return map[string]string{}, true
	}
	if t.Kind != wiretok.List || len(t.L)%2 != 0 {
		return nil, false
	}
	m := map[string]string{}
	for i := 0; i < len(t.L); i += 2 {
		if !isStr(t.L[i]) || !isStr(t.L[i+1]) {
			return nil, false
		}
		m[strings.ToLower(t.L[i].S)] = t.L[i+1].S
	}
	return m, true
}

func mapStr(m map[string]string) string {
	var k []string
	for x := range m {
		k = append(k, x)
	}
	sort.Strings(k)
	var p []string
	for _, x := range k {
		p = append(p, x+"="+strconv.Quote(m[x]))
	}
	return "{" + strings.Join(p, ",") + "}"
}

func (p *Part) field(name string) (string, bool) {
	for _, f := range p.Fields {
		if strings.EqualFold(f.Key, name) {
			return Unfold(f.Val), true
		}
	}
	return "", false
}

func lineCounts(b []byte) (int, int) {
	n := strings.Count(string(b), "\n")
	if len(b) > 0 && b[len(b)-1] != '\n' {
		return n, n + 1
	}
	return n, n
}

func wantDisposition(p *Part) (string, map[string]string, bool) {
	v, ok := p.field("Content-Disposition")
	if !ok {
		return "", nil, false
	}
	parts := strings.Split(v, ";")
	val := strings.TrimSpace(parts[0])
	params := map[string]string{}
	for _, kv := range parts[1:] {
		k, x, _ := strings.Cut(strings.TrimSpace(kv), "=")
		params[strings.ToLower(k)] = strings.Trim(x, `"`)
	}
	return val, params, true
}

func checkExt(m []wiretok.Tok, p *Part, path string) string {
	// m: [dsp [lang [loc ...]]]
	if len(m) < 3 {
		return fmt.Sprintf("%s: extension data incomplete (%d of disposition/language/location)", path, len(m))
	}
	val, params, has := wantDisposition(p)
	if !has {
		if !isNIL(m[0]) {
			return fmt.Sprintf("%s: disposition expected NIL, got %s", path, m[0].String())
		}
	} else {
		if m[0].Kind != wiretok.List || len(m[0].L) != 2 || !isStr(m[0].L[0]) || !strings.EqualFold(m[0].L[0].S, val) {
			return fmt.Sprintf("%s: disposition expected %q, got %s", path, val, m[0].String())
		}
		gp, ok := paramMap(m[0].L[1])
		if !ok || mapStr(gp) != mapStr(params) {
			return fmt.Sprintf("%s: disposition params expected %s, got %s", path, mapStr(params), m[0].L[1].String())
		}
	}
	var wantLang []string
	if v, ok := p.field("Content-Language"); ok {
		for _, x := range strings.Split(v, ",") {
			wantLang = append(wantLang, strings.TrimSpace(x))
		}
	}
	var gotLang []string
	switch {
	case isNIL(m[1]):
	case isStr(m[1]):
		gotLang = []string{m[1].S}
	case m[1].Kind == wiretok.List:
		for _, x := range m[1].L {
			gotLang = append(gotLang, x.S)
		}
	}
	if strings.Join(gotLang, ",") != strings.Join(wantLang, ",") {
		return fmt.Sprintf("%s: language expected %v, got %s", path, wantLang, m[1].String())
	}
	loc, _ := p.field("Content-Location")
	gl, _, ok := nstr(m[2])
	if !ok || gl != loc {
		return fmt.Sprintf("%s: location expected %q, got %s", path, loc, m[2].String())
	}
	return ""
}

// CheckBodyStructure compares a BODY / BODYSTRUCTURE token with the MIME tree.
func CheckBodyStructure(t wiretok.Tok, p *Part, ext bool, path string) string {
	if t.Kind != wiretok.List || len(t.L) == 0 {
		return path + ": body is not a list: " + t.String()
	}
	m := t.L
	if p.IsMultipart() {
		n := 0
		for n < len(m) && m[n].Kind == wiretok.List {
			n++
		}
		if n != len(p.Children) {
			return fmt.Sprintf("%s: multipart with %d parts reported with %d", path, len(p.Children), n)
		}
		for i := 0; i < n; i++ {
			if msg := CheckBodyStructure(m[i], p.Children[i], ext, fmt.Sprintf("%s.%d", path, i+1)); msg != "" {
				return msg
			}
		}
		if n >= len(m) || !isStr(m[n]) || !strings.EqualFold(m[n].S, p.Sub) {
			return fmt.Sprintf("%s: multipart subtype expected %q, got %v", path, p.Sub, m[n:])
		}
		rest := m[n+1:]
		if !ext {
			if len(rest) != 0 {
				return path + ": extension data in non-extensible BODY"
			}
			return ""
		}
		if len(rest) < 1 {
			return path + ": multipart extension data missing"
		}
		gp, ok := paramMap(rest[0])
		if !ok || mapStr(gp) != mapStr(lowerKeys(p.Params)) {
			return fmt.Sprintf("%s: multipart params expected %s, got %s", path, mapStr(lowerKeys(p.Params)), rest[0].String())
		}
		return checkExt(rest[1:], p, path)
	}
	if m[0].Kind == wiretok.List {
		return fmt.Sprintf("%s: %s/%s part reported as multipart", path, p.Type, p.Sub)
	}
	if len(m) < 7 {
		return fmt.Sprintf("%s: single part has %d fields", path, len(m))
	}
	wt, ws := p.Type, p.Sub
	if wt == "" {
		wt, ws = "text", "plain"
	}
	if !isStr(m[0]) || !isStr(m[1]) || !strings.EqualFold(m[0].S, wt) || !strings.EqualFold(m[1].S, ws) {
		return fmt.Sprintf("%s: type expected %s/%s, got %s/%s", path, wt, ws, m[0].String(), m[1].String())
	}
	gp, ok := paramMap(m[2])
	wp := lowerKeys(p.Params)
	if p.Type == "" && ok {
		delete(gp, "charset") // a default charset may be reported for a missing Content-Type
	}
	if !ok || mapStr(gp) != mapStr(wp) {
		return fmt.Sprintf("%s: params expected %s, got %s", path, mapStr(wp), m[2].String())
	}
	id, _ := p.field("Content-ID")
	if g, _, ok := nstr(m[3]); !ok || g != id {
		return fmt.Sprintf("%s: id expected %q, got %s", path, id, m[3].String())
	}
	desc, _ := p.field("Content-Description")
	if g, _, ok := nstr(m[4]); !ok || g != desc {
		return fmt.Sprintf("%s: description expected %q, got %s", path, desc, m[4].String())
	}
	enc, has := p.field("Content-Transfer-Encoding")
	if !has {
		enc = "7BIT"
	}
	if !isStr(m[5]) || !strings.EqualFold(m[5].S, enc) {
		return fmt.Sprintf("%s: encoding expected %q, got %s", path, enc, m[5].String())
	}
	body := p.BodyBytes()
	if g, ok := num(m[6]); !ok || g != uint64(len(body)) {
		return fmt.Sprintf("%s: size expected %d, got %s", path, len(body), m[6].String())
	}
	rest := m[7:]
	l1, l2 := lineCounts(body)
	switch {
	case p.IsMessage():
		if len(rest) < 3 {
			return path + ": message/rfc822 part lacks envelope/body/lines"
		}
		if msg := CheckEnvelope(rest[0], p.Embedded.Env); msg != "" {
			return path + ": embedded " + msg
		}
		if msg := CheckBodyStructure(rest[1], p.Embedded, ext, path+".msg"); msg != "" {
			return msg
		}
		if g, ok := num(rest[2]); !ok || (g != uint64(l1) && g != uint64(l2)) {
			return fmt.Sprintf("%s: message lines expected %d, got %s", path, l1, rest[2].String())
		}
		rest = rest[3:]
	case strings.EqualFold(wt, "text"):
		if len(rest) < 1 {
			return path + ": text part lacks the line count"
		}
		if g, ok := num(rest[0]); !ok || (g != uint64(l1) && g != uint64(l2)) {
			return fmt.Sprintf("%s: text lines expected %d, got %s", path, l1, rest[0].String())
		}
		rest = rest[1:]
	}
	if !ext {
		if len(rest) != 0 {
			return fmt.Sprintf("%s: %d extra fields in non-extensible BODY: %v", path, len(rest), rest)
		}
		return ""
	}
	if len(rest) < 1 {
		return path + ": extension data missing"
	}
	if !isNIL(rest[0]) && !isStr(rest[0]) {
		return path + ": md5 is not an nstring"
	}
	return checkExt(rest[1:], p, path)
}

func lowerKeys(m map[string]string) map[string]string {
	o := map[string]string{}
	for k, v := range m {
		o[strings.ToLower(k)] = v
	}
	return o
}

var internalLayouts = []string{"_2-Jan-2006 15:04:05 -0700", "2-Jan-2006 15:04:05 -0700", "02-Jan-2006 15:04:05 -0700"}

func parseInternalDate(s string) (time.Time, bool) {
	for _, lay := range internalLayouts {
		if t, err := time.Parse(lay, s); err == nil {
			return t, true
		}
	}
	return time.Time{}, false
}

// ParseSet parses "1,3:5,7:*" (star = 0). ok=false on syntax errors.
func ParseSet(s string) ([][2]uint32, bool) {
	if s == "" {
		return nil, false
	}
	var out [][2]uint32
	for _, part := range strings.Split(s, ",") {
		a, b, isRange := strings.Cut(part, ":")
		pa, ok := parseSetNum(a)
		if !ok {
			return nil, false
		}
		pb := pa
		if isRange {
			if pb, ok = parseSetNum(b); !ok {
				return nil, false
			}
		}
		out = append(out, [2]uint32{pa, pb})
	}
	return out, true
}

func parseSetNum(s string) (uint32, bool) {
	if s == "*" {
		return 0, true
	}
	v, err := strconv.ParseUint(s, 10, 32)
	if err != nil || v == 0 {
		return 0, false
	}
	return uint32(v), true
}

// SetNums expands a set without stars.
func SetNums(r [][2]uint32) []uint32 {
	var out []uint32
	for _, x := range r {
		a, b := x[0], x[1]
		if a > b {
			a, b = b, a
		}
		for v := a; v <= b && len(out) < 1<<20; v++ {
			out = append(out, v)
			if v == 0xFFFFFFFF {
				break
			}
		}
	}
	return out
}

// InSet: star-aware containment.
func InSet(r [][2]uint32, q, max uint32) bool {
	for _, x := range r {
		a, b := x[0], x[1]
		if a == 0 {
			a = max
		}
		if b == 0 {
			b = max
		}
		if a > b {
			a, b = b, a
		}
		if a <= q && q <= b {
			return true
		}
	}
	return false
}
