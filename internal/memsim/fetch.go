package memsim

// fetch.go: FETCH and SEARCH commands, the audit and the history loop.

import (
	"bytes"
	"fmt"
	"math/rand"
	"sort"
	"strconv"
	"strings"
	"time"

	imap "github.com/emersion/go-imap/v2"
	"github.com/emersion/go-imap/v2/verif/internal/kit"
	sr "github.com/emersion/go-imap/v2/verif/internal/ref/searchref"
	"github.com/emersion/go-imap/v2/verif/internal/ref/utf7ref"
	"github.com/emersion/go-imap/v2/verif/internal/wiretok"
)

// ---- FETCH -------------------------------------------------------------------------------------------

type secReq struct {
	path    []int
	spec    string
	fields  []string
	not     bool
	peek    bool
	partial bool
	off     uint64
	size    uint64
	text    string // request text
	key     string // expected response key (normalised)
}

func normKey(k string) string {
	return strings.ToUpper(strings.ReplaceAll(k, `"`, ""))
}

func (sm *Sim) genSection(ro bool) secReq {
	r := sm.rng
	q := secReq{peek: ro || r.Intn(2) == 0}
	q.path = [][]int{nil, nil, nil, {1}, {2}, {1, 1}, {2, 1}, {1, 2}, {3}, {2, 2, 1}, {4}}[r.Intn(11)]
	switch r.Intn(8) {
	case 0, 1:
		q.spec = ""
	case 2:
		q.spec = "HEADER"
	case 3:
		q.spec = "TEXT"
	case 4:
		q.spec = "MIME"
		if len(q.path) == 0 {
			q.path = []int{1}
		}
	case 5, 6:
		q.spec = "HEADER"
		q.fields = [][]string{{"Subject"}, {"subject", "FROM"}, {"X-Foo", "Date", "Nope"}, {"Content-Type"}, {"To", "Cc", "Message-ID"}}[r.Intn(5)]
	case 7:
		q.spec = "HEADER"
		q.not = true
		q.fields = [][]string{{"Received"}, {"Subject", "from"}, {"X-Foo"}}[r.Intn(3)]
	}
	var parts []string
	for _, n := range q.path {
		parts = append(parts, fmt.Sprint(n))
	}
	sec := strings.Join(parts, ".")
	spec := q.spec
	if q.fields != nil {
		spec = "HEADER.FIELDS"
		if q.not {
			spec = "HEADER.FIELDS.NOT"
		}
		spec += " (" + strings.Join(q.fields, " ") + ")"
	}
	if spec != "" {
		if sec != "" {
			sec += "."
		}
		sec += spec
	}
	item := "BODY"
	if q.peek {
		item = "BODY.PEEK"
	}
	q.text = item + "[" + sec + "]"
	q.key = "BODY[" + sec + "]"
	if r.Intn(5) < 2 {
		q.partial = true
		q.off = []uint64{0, 0, 1, 5, 50, 400, 5000, 100000, 1<<31 - 1, 1 << 32, 1<<63 - 1}[r.Intn(11)]
		q.size = []uint64{1, 2, 10, 100, 4096, 1 << 20, 1<<32 - 1, 1 << 32, 1<<63 - 1, 1<<63 - 1}[r.Intn(10)]
		q.text += fmt.Sprintf("<%d.%d>", q.off, q.size)
		q.key += fmt.Sprintf("<%d>", q.off)
	}
	q.key = normKey(q.key)
	return q
}

func (sm *Sim) doFetch(s *Sess) {
	r := sm.rng
	uid := r.Intn(2) == 0
	dollar := len(s.res) > 0 && r.Intn(8) == 0
	setTxt, set := sm.genSet(s, uid)
	if dollar {
		setTxt = "$"
	}
	var items []string
	var secs []secReq
	want := map[string]bool{}
	macro := ""
	if r.Intn(12) == 0 {
		macro = []string{"ALL", "FAST", "FULL"}[r.Intn(3)]
		want["FLAGS"], want["INTERNALDATE"], want["RFC822.SIZE"] = true, true, true
		if macro != "FAST" {
			want["ENVELOPE"] = true
		}
		if macro == "FULL" {
			want["BODY"] = true
		}
	} else {
		for _, it := range []string{"FLAGS", "UID", "INTERNALDATE", "RFC822.SIZE", "ENVELOPE", "BODY", "BODYSTRUCTURE"} {
			if r.Intn(3) == 0 {
				items = append(items, it)
				want[it] = true
			}
		}
		for n := r.Intn(3); n > 0; n-- {
			q := sm.genSection(s.ro)
			dup := false
			for _, o := range secs {
				dup = dup || o.key == q.key
			}
			if dup {
				continue
			}
			secs = append(secs, q)
			items = append(items, q.text)
		}
		if !sm.cfg.Rev2 && r.Intn(10) == 0 {
			it := []string{"RFC822.HEADER", "RFC822.TEXT", "RFC822"}[r.Intn(3)]
			if !(s.ro && it != "RFC822.HEADER") {
				items = append(items, it)
				want[it] = true
			}
		}
		if len(items) == 0 {
			items = []string{"FLAGS"}
			want["FLAGS"] = true
		}
		r.Shuffle(len(items), func(i, j int) { items[i], items[j] = items[j], items[i] })
	}
	arg := "(" + strings.Join(items, " ") + ")"
	if macro != "" {
		arg = macro
	} else if len(items) == 1 && r.Intn(2) == 0 {
		arg = items[0]
	}
	cmd := fmt.Sprintf("FETCH %s %s", setTxt, arg)
	name := "FETCH"
	if uid {
		cmd, name = "UID "+cmd, "UID FETCH"
	}
	targets := sm.addressed(s, set, uid, dollar)
	marksSeen := want["RFC822"] || want["RFC822.TEXT"]
	bigNums := false
	for _, q := range secs {
		marksSeen = marksSeen || !q.peek
		bigNums = bigNums || (q.partial && (q.off > 0xFFFFFFFF || q.size > 0xFFFFFFFF))
	}
	before := map[uint32]string{}
	for _, t := range targets {
		before[t.m.UID] = strings.Join(flagList(t.m.Flags), " ")
	}
	pre, tg, ok := sm.exchange(s, cmd)
	if !ok {
		return
	}
	shape := macro
	if shape == "" {
		kinds := map[string]bool{}
		for it := range want {
			switch it {
			case "ENVELOPE":
				kinds["envelope"] = true
			case "BODY", "BODYSTRUCTURE":
				kinds[strings.ToLower(it)] = true
			case "RFC822", "RFC822.HEADER", "RFC822.TEXT":
				kinds["rfc822.*"] = true
			default:
				kinds["attrs"] = true
			}
		}
		for _, q := range secs {
			k := "section"
			if q.fields != nil {
				k = "header.fields"
			} else if q.spec != "" {
				k = strings.ToLower(q.spec)
			}
			if q.partial {
				k += "<>"
			}
			kinds[k] = true
		}
		var k []string
		for x := range kinds {
			k = append(k, x)
		}
		sort.Strings(k)
		shape = strings.Join(k, "+")
	}
	for _, k := range strings.Split(shape, "+") {
		sm.rep.Class(fmt.Sprintf("%s/item=%s/stale=%v/%s", name, k, s.pending, tg.Status))
	}
	if tg.Status != "OK" {
		sm.observe(s, pre, name)
		if bigNums && tg.Status == "BAD" {
			return // numbers above 2^32-1 may be refused
		}
		sm.fail(GroupModel, "fetch-refused", fmt.Sprintf("%s answered %q", cmd, tail(tg.Raw, 160)))
		return
	}
	if marksSeen && !s.ro {
		changed := false
		for _, t := range targets {
			if !t.m.Flags[`\seen`] {
				t.m.Flags[`\seen`] = true
				changed = true
			}
		}
		if changed {
			sm.markPending(s.sel, s)
		}
	}
	o := sm.observe(s, pre, name)
	if sm.stopped {
		return
	}
	targetSet := map[uint32]bool{}
	for _, t := range targets {
		targetSet[t.m.UID] = true
	}
	// data for messages that were not addressed
	for i, fl := range o.fetch {
		if targetSet[o.fetchU[i]] {
			continue
		}
		for _, k := range fl.Order {
			if k != "UID" && k != "FLAGS" && k != "MODSEQ" {
				sm.fail(GroupModel, "unaddressed-message-returned@"+name, fmt.Sprintf("%s returned %s for seq %d UID %d, which the set does not address (view %v)", cmd, k, fl.Seq, o.fetchU[i], s.view))
				return
			}
		}
	}
	sm.checkSolicited(s, o, targets, name, cmd, func(t am, fl FetchLine) string {
		m := t.m
		if (uid || want["UID"]) && !fl.HasUID {
			return "UID item missing"
		}
		if want["FLAGS"] {
			now := strings.Join(flagList(m.Flags), " ")
			if !fl.HasFlags {
				return "FLAGS item missing"
			}
			if g := strings.Join(fl.Flags, " "); g != now && g != before[m.UID] {
				return fmt.Sprintf("flags %v, model says %v", fl.Flags, flagList(m.Flags))
			}
		}
		if want["RFC822.SIZE"] {
			v, ok := num(fl.Items["RFC822.SIZE"])
			if !ok || v != uint64(len(m.Raw)) {
				return fmt.Sprintf("RFC822.SIZE %s, message has %d bytes", fl.Items["RFC822.SIZE"].String(), len(m.Raw))
			}
		}
		if want["INTERNALDATE"] {
			tok, present := fl.Items["INTERNALDATE"]
			if !present || !isStr(tok) {
				return "INTERNALDATE item missing"
			}
			got, ok := parseInternalDate(tok.S)
			if !ok {
				return "INTERNALDATE unparsable: " + tok.S
			}
			if m.DateKnown && !got.Equal(m.Date) {
				return fmt.Sprintf("INTERNALDATE %s, appended with %s", tok.S, imapDate(m.Date))
			}
		}
		if m.Junk {
			return "" // malformed messages: only the absence of crashes is demanded
		}
		if want["ENVELOPE"] {
			tok, present := fl.Items["ENVELOPE"]
			if !present {
				return "ENVELOPE item missing"
			}
			if msg := CheckEnvelope(tok, m.P.Env); msg != "" {
				return msg
			}
			sm.rep.Metric("compared_envelopes", 1)
		}
		for _, it := range []string{"BODY", "BODYSTRUCTURE"} {
			if !want[it] {
				continue
			}
			tok, present := fl.Items[it]
			if !present {
				return it + " item missing"
			}
			if msg := CheckBodyStructure(tok, m.P, it == "BODYSTRUCTURE", it); msg != "" {
				return msg
			}
			sm.rep.Metric("compared_bodystructures", 1)
		}
		for _, q := range secs {
			tok, present := fl.Items[q.key]
			if !present {
				// the server may spell the section differently: look for a key with the same normal form
				for k, v := range fl.Items {
					if normKey(k) == q.key {
						tok, present = v, true
					}
				}
			}
			if !present {
				return fmt.Sprintf("item %s missing (items: %v)", q.key, fl.Order)
			}
			res := Section(m.P, q.path, q.spec, q.fields, q.not)
			if !res.Defined {
				sm.rep.Metric("sections_undefined_by_rfc", 1)
				continue
			}
			sm.rep.Metric("compared_sections", 1)
			got, gotNil, okv := nstr(tok)
			if !okv {
				return fmt.Sprintf("%s value is %s", q.key, tok.String())
			}
			exp := res.Data
			if q.partial {
				if q.off >= uint64(len(exp)) {
					exp = nil
				} else {
					end := uint64(len(exp))
					if q.size < end-q.off {
						end = q.off + q.size
					}
					exp = exp[q.off:end]
				}
			}
			if !res.Exists {
				exp = nil
			}
			if len(exp) > 0 {
				sm.rep.Metric("compared_sections_nonempty", 1)
			}
			if gotNil && len(exp) == 0 {
				continue
			}
			if gotNil || !bytes.Equal([]byte(got), exp) {
				return fmt.Sprintf("%s (request %s): got %s, expected %d bytes %q", q.key, q.text, short(tok), len(exp), shortB(exp))
			}
		}
		for _, it := range []string{"RFC822.HEADER", "RFC822.TEXT", "RFC822"} {
			if !want[it] {
				continue
			}
			alt := map[string]string{"RFC822.HEADER": "BODY[HEADER]", "RFC822.TEXT": "BODY[TEXT]", "RFC822": "BODY[]"}[it]
			tok, present := fl.Items[it]
			if !present {
				tok, present = fl.Items[alt]
			}
			if !present {
				return it + " item missing"
			}
			exp := map[string][]byte{"RFC822.HEADER": m.P.HeaderBytes(), "RFC822.TEXT": m.P.BodyBytes(), "RFC822": m.Raw}[it]
			if got, _, _ := nstr(tok); !bytes.Equal([]byte(got), exp) {
				return fmt.Sprintf("%s: got %s, expected %q", it, short(tok), shortB(exp))
			}
		}
		return ""
	})
}

func short(t wiretok.Tok) string {
	s := t.String()
	if len(s) > 160 {
		return s[:160] + fmt.Sprintf("...(%d)", len(s))
	}
	return s
}

func shortB(b []byte) []byte {
	if len(b) > 120 {
		return append(append([]byte{}, b[:120]...), "..."...)
	}
	return b
}

// ---- SEARCH -----------------------------------------------------------------------------------------

type snode struct {
	leaf *imap.SearchCriteria
	not  *snode
	or   [2]*snode
	and  []*snode
	text string
	uses string // classes of keys used
}

func (n *snode) eval(m *sr.Msg, ctx sr.Ctx) bool {
	switch {
	case n.leaf != nil:
		return sr.Match(n.leaf, m, ctx)
	case n.not != nil:
		return !n.not.eval(m, ctx)
	case n.or[0] != nil:
		return n.or[0].eval(m, ctx) || n.or[1].eval(m, ctx)
	}
	for _, c := range n.and {
		if !c.eval(m, ctx) {
			return false
		}
	}
	return true
}

func toSeqSet(r [][2]uint32) imap.SeqSet {
	var s imap.SeqSet
	for _, x := range r {
		s = append(s, imap.SeqRange{Start: x[0], Stop: x[1]})
	}
	return s
}

func toUIDSet(r [][2]uint32) imap.UIDSet {
	var s imap.UIDSet
	for _, x := range r {
		s = append(s, imap.UIDRange{Start: imap.UID(x[0]), Stop: imap.UID(x[1])})
	}
	return s
}

func searchDate(r *rand.Rand) time.Time {
	day := []int{8, 9, 10, 11, 12, 15, 16, 17, 28, 29}[r.Intn(10)]
	return time.Date(2024, time.Month(1+r.Intn(2)), day, 0, 0, 0, 0, time.UTC)
}

func astr(r *rand.Rand, s string) string {
	plain := s != ""
	for i := 0; i < len(s); i++ {
		if s[i] <= ' ' || s[i] >= 0x7f || strings.ContainsRune(`(){%*"\]`, rune(s[i])) {
			plain = false
		}
	}
	if plain && r.Intn(2) == 0 {
		return s
	}
	return quote(s)
}

func (sm *Sim) genKey(s *Sess, depth int) *snode {
	r := sm.rng
	leaf := func(c imap.SearchCriteria, text, uses string) *snode {
		return &snode{leaf: &c, text: text, uses: uses}
	}
	k := r.Intn(22)
	if depth <= 0 && k >= 19 {
		k = r.Intn(19)
	}
	switch k {
	case 0:
		return leaf(imap.SearchCriteria{}, "ALL", "all")
	case 1:
		txt, set := sm.genSet(s, false)
		return leaf(imap.SearchCriteria{SeqNum: []imap.SeqSet{toSeqSet(set)}}, txt, "seq")
	case 2:
		txt, set := sm.genSet(s, true)
		return leaf(imap.SearchCriteria{UID: []imap.UIDSet{toUIDSet(set)}}, "UID "+txt, "uid")
	case 3, 4:
		sys := []string{"Answered", "Deleted", "Draft", "Flagged", "Seen"}[r.Intn(5)]
		f := imap.Flag(`\` + sys)
		if r.Intn(2) == 0 {
			return leaf(imap.SearchCriteria{Flag: []imap.Flag{f}}, strings.ToUpper(sys), "flag")
		}
		return leaf(imap.SearchCriteria{NotFlag: []imap.Flag{f}}, "UN"+strings.ToUpper(sys), "flag")
	case 5:
		kw := []string{"kw1", "KW1", "$Forwarded", "other", "nosuch"}[r.Intn(5)]
		if r.Intn(2) == 0 {
			return leaf(imap.SearchCriteria{Flag: []imap.Flag{imap.Flag(kw)}}, "KEYWORD "+kw, "keyword")
		}
		return leaf(imap.SearchCriteria{NotFlag: []imap.Flag{imap.Flag(kw)}}, "UNKEYWORD "+kw, "keyword")
	case 6, 7:
		for _, m := range s.sel.Msgs {
			if !m.DateKnown {
				// a message without a known internal date: no date keys in this mailbox
				return leaf(imap.SearchCriteria{}, "ALL", "all")
			}
		}
		d := searchDate(r)
		ds := d.Format("2-Jan-2006")
		if r.Intn(3) == 0 {
			ds = quote(ds)
		}
		switch r.Intn(6) {
		case 0:
			return leaf(imap.SearchCriteria{Since: d}, "SINCE "+ds, "date")
		case 1:
			return leaf(imap.SearchCriteria{Before: d}, "BEFORE "+ds, "date")
		case 2:
			return leaf(imap.SearchCriteria{Since: d, Before: d.AddDate(0, 0, 1)}, "ON "+ds, "date")
		case 3:
			return leaf(imap.SearchCriteria{SentSince: d}, "SENTSINCE "+ds, "sentdate")
		case 4:
			return leaf(imap.SearchCriteria{SentBefore: d}, "SENTBEFORE "+ds, "sentdate")
		}
		return leaf(imap.SearchCriteria{SentSince: d, SentBefore: d.AddDate(0, 0, 1)}, "SENTON "+ds, "sentdate")
	case 8, 9:
		h := []struct{ k, v string }{{"Subject", "alpha"}, {"subject", "HELLO"}, {"Subject", ""}, {"X-Foo", ""}, {"X-Foo", "bar"}, {"X-Foo", "baz"}, {"From", "bob"}, {"To", "erin"}, {"Message-ID", "example.org"}, {"Nope", ""}, {"Content-Type", "multipart"}}[r.Intn(11)]
		return leaf(imap.SearchCriteria{Header: []imap.SearchCriteriaHeaderField{{Key: h.k, Value: h.v}}}, "HEADER "+astr(r, h.k)+" "+astr(r, h.v), "header")
	case 10:
		h := []struct{ k, v string }{{"From", "alice"}, {"To", "dave"}, {"Cc", "frank"}, {"Bcc", "erin"}, {"Subject", "report"}, {"Subject", "re:"}}[r.Intn(6)]
		return leaf(imap.SearchCriteria{Header: []imap.SearchCriteriaHeaderField{{Key: h.k, Value: h.v}}}, strings.ToUpper(h.k)+" "+astr(r, h.v), "header-alias")
	case 11, 12:
		w := []string{"alpha", "BETA", "lorem ipsum", "invoice", "nosuchword", "QUJDREVG", "multi-part"}[r.Intn(7)]
		if r.Intn(2) == 0 {
			return leaf(imap.SearchCriteria{Body: []string{w}}, "BODY "+astr(r, w), "body")
		}
		return leaf(imap.SearchCriteria{Text: []string{w}}, "TEXT "+astr(r, w), "text")
	case 13, 14:
		n := []int64{1, 100, 300, 500, 1000, 5000, 1 << 31}[r.Intn(7)]
		if r.Intn(2) == 0 {
			return leaf(imap.SearchCriteria{Larger: n}, fmt.Sprintf("LARGER %d", n), "size")
		}
		return leaf(imap.SearchCriteria{Smaller: n}, fmt.Sprintf("SMALLER %d", n), "size")
	case 15:
		if len(s.res) > 0 || r.Intn(4) == 0 {
			// $ (SEARCHRES): the saved result, empty when nothing was saved
			var u imap.UIDSet
			for _, x := range s.res {
				u.AddNum(imap.UID(x))
			}
			n := &snode{text: "$", uses: "searchres"}
			if len(s.res) == 0 {
				n.not = &snode{leaf: &imap.SearchCriteria{}} // matches nothing
				n.text = "$"
				return n
			}
			n.leaf = &imap.SearchCriteria{UID: []imap.UIDSet{u}}
			return n
		}
		return leaf(imap.SearchCriteria{}, "ALL", "all")
	case 16, 17, 18:
		return leaf(imap.SearchCriteria{NotFlag: []imap.Flag{`\Seen`}}, "UNSEEN", "flag")
	case 19:
		c := sm.genKey(s, depth-1)
		return &snode{not: c, text: "NOT " + c.text, uses: "not+" + c.uses}
	case 20:
		a, b := sm.genKey(s, depth-1), sm.genKey(s, depth-1)
		return &snode{or: [2]*snode{a, b}, text: "OR " + a.text + " " + b.text, uses: "or+" + a.uses + "+" + b.uses}
	}
	n := &snode{uses: "group"}
	var t []string
	for k := 1 + r.Intn(3); k > 0; k-- {
		c := sm.genKey(s, depth-1)
		n.and = append(n.and, c)
		t = append(t, c.text)
		n.uses += "+" + c.uses
	}
	n.text = "(" + strings.Join(t, " ") + ")"
	return n
}

func (sm *Sim) doSearch(s *Sess) {
	r := sm.rng
	uid := r.Intn(2) == 0
	top := &snode{}
	var texts []string
	for k := 1 + r.Intn(3); k > 0; k-- {
		c := sm.genKey(s, 2)
		top.and = append(top.and, c)
		texts = append(texts, c.text)
		top.uses += "+" + c.uses
	}
	ret := ""
	var retMin, retMax, retAll, retCount, retSave bool
	if r.Intn(3) == 0 {
		switch r.Intn(8) {
		case 0:
			ret, retMin = "RETURN (MIN) ", true
		case 1:
			ret, retMax = "RETURN (MAX) ", true
		case 2:
			ret, retAll = "RETURN (ALL) ", true
		case 3:
			ret, retCount = "RETURN (COUNT) ", true
		case 4:
			ret, retMin, retMax, retCount = "RETURN (MIN MAX COUNT) ", true, true, true
		case 5:
			ret, retAll = "RETURN () ", true
		case 6:
			if !s.pending {
				ret, retSave = "RETURN (SAVE) ", true
			}
		case 7:
			if !s.pending {
				ret, retSave, retAll, retCount = "RETURN (SAVE ALL COUNT) ", true, true, true
			}
		}
	}
	cmd := "SEARCH " + ret + strings.Join(texts, " ")
	name := "SEARCH"
	if uid {
		cmd, name = "UID "+cmd, "UID SEARCH"
	}
	// prediction
	ctx := sr.Ctx{MaxSeq: uint32(len(s.view)), MaxUID: s.sel.maxUID()}
	var required, optional []uint32
	var reqUIDs []uint32
	inView := map[uint32]bool{}
	for i, u := range s.view {
		inView[u] = true
		m := s.sel.find(u)
		if m == nil {
			continue
		}
		x := m.searchMsg()
		x.Seq = uint32(i + 1)
		if top.eval(x, ctx) {
			reqUIDs = append(reqUIDs, u)
			if uid {
				required = append(required, u)
			} else {
				required = append(required, uint32(i+1))
			}
		}
	}
	if uid {
		for _, m := range s.sel.Msgs {
			if !inView[m.UID] {
				// not yet announced: the server may or may not report it
				optional = append(optional, m.UID)
			}
		}
	}
	junk := false
	for _, m := range s.sel.Msgs {
		junk = junk || m.Junk
	}
	pre, tg, ok := sm.exchange(s, cmd)
	if !ok {
		return
	}
	for _, k := range strings.Split(top.uses, "+") {
		if k != "" {
			sm.rep.Class(fmt.Sprintf("%s/key=%s/%s", name, k, tg.Status))
		}
	}
	sm.rep.Class(fmt.Sprintf("%s/ret=%q/stale=%v/%s", name, strings.TrimSpace(ret), s.pending, tg.Status))
	o := sm.observe(s, pre, name)
	if sm.stopped {
		return
	}
	if tg.Status != "OK" {
		sm.fail(GroupModel, "search-refused", fmt.Sprintf("%s answered %q", cmd, tail(tg.Raw, 160)))
		return
	}
	if retSave {
		s.res = reqUIDs
		if junk || len(optional) > 0 {
			// whether a malformed message matches, and whether a message not yet announced is
			// included, is not specified: the content of '$' is then not known to the model, which
			// does not use it until the next SAVE
			s.res = nil
		}
	}
	// parse
	var got []uint32
	haveAll := false
	var gmin, gmax, gcount uint64
	var hmin, hmax, hcount bool
	for _, l := range o.search {
		switch l.Kind {
		case "SEARCH":
			haveAll = true
			for _, t := range l.Toks[2:] {
				v, ok := num(t)
				if !ok || v == 0 || v > 0xFFFFFFFF {
					sm.fail(GroupModel, "malformed-search", fmt.Sprintf("%s: %q", cmd, l.Raw))
					return
				}
				got = append(got, uint32(v))
			}
		case "ESEARCH":
			toks := l.Toks[2:]
			if len(toks) > 0 && toks[0].Kind == wiretok.List {
				toks = toks[1:]
			}
			if len(toks) > 0 && toks[0].IsAtom("UID") {
				if !uid {
					sm.fail(GroupModel, "esearch-uid-indicator", fmt.Sprintf("%s: %q", cmd, l.Raw))
					return
				}
				toks = toks[1:]
			} else if uid && len(toks) > 0 {
				sm.fail(GroupModel, "esearch-uid-indicator", fmt.Sprintf("%s answered without the UID indicator: %q", cmd, l.Raw))
				return
			}
			for i := 0; i+1 < len(toks); i += 2 {
				switch strings.ToUpper(toks[i].S) {
				case "MIN":
					gmin, hmin = numOr(toks[i+1]), true
				case "MAX":
					gmax, hmax = numOr(toks[i+1]), true
				case "COUNT":
					gcount, hcount = numOr(toks[i+1]), true
				case "ALL":
					set, ok := ParseSet(toks[i+1].S)
					if !ok {
						sm.fail(GroupModel, "malformed-search", fmt.Sprintf("%s: %q", cmd, l.Raw))
						return
					}
					haveAll = true
					got = append(got, SetNums(set)...)
				}
			}
		}
	}
	if junk {
		return // malformed messages in the mailbox: only the absence of crashes is demanded
	}
	sort.Slice(got, func(i, j int) bool { return got[i] < got[j] })
	if !uid {
		for _, g := range got {
			if g < 1 || int(g) > len(s.view) {
				sm.fail(GroupView, "seq-out-of-range@SEARCH", fmt.Sprintf("%s returned sequence number %d but the announced count is %d", cmd, g, len(s.view)))
				return
			}
		}
	}
	opt := map[uint32]bool{}
	for _, u := range optional {
		opt[u] = true
	}
	filter := func(l []uint32) []uint32 {
		var o []uint32
		for _, x := range l {
			if !opt[x] {
				o = append(o, x)
			}
		}
		return o
	}
	wantAll := ret == "" || retAll
	sm.rep.Metric("compared_searches", 1)
	if len(required) > 0 {
		sm.rep.Metric("compared_searches_nonempty", 1)
	}
	if wantAll && (haveAll || len(required) > 0) {
		if fmt.Sprint(filter(got)) != fmt.Sprint(required) {
			sm.fail(GroupModel, "search-result@"+keyClasses(top.uses), fmt.Sprintf("%s returned %v, model says %v (view %v, max uid %d)", cmd, got, required, s.view, ctx.MaxUID))
			return
		}
	}
	if len(optional) > 0 {
		return // aggregates are ambiguous while unannounced messages exist
	}
	if retMin && len(required) > 0 && (!hmin || gmin != uint64(required[0])) {
		sm.fail(GroupModel, "search-min", fmt.Sprintf("%s: MIN %d (present=%v), model says %d", cmd, gmin, hmin, required[0]))
		return
	}
	if retMax && len(required) > 0 && (!hmax || gmax != uint64(required[len(required)-1])) {
		sm.fail(GroupModel, "search-max", fmt.Sprintf("%s: MAX %d (present=%v), model says %d", cmd, gmax, hmax, required[len(required)-1]))
		return
	}
	if retCount && (!hcount || gcount != uint64(len(required))) {
		sm.fail(GroupModel, "search-count", fmt.Sprintf("%s: COUNT %d (present=%v), model says %d", cmd, gcount, hcount, len(required)))
		return
	}
	if (retMin || retMax) && len(required) == 0 && ((hmin && retMin) || (hmax && retMax)) {
		sm.fail(GroupModel, "search-minmax-on-empty", fmt.Sprintf("%s: MIN/MAX reported for an empty result", cmd))
	}
}

func numOr(t wiretok.Tok) uint64 {
	v, _ := strconv.ParseUint(t.S, 10, 64)
	return v
}

func keyClasses(uses string) string {
	set := map[string]bool{}
	for _, u := range strings.Split(uses, "+") {
		if u != "" {
			set[u] = true
		}
	}
	var l []string
	for u := range set {
		l = append(l, u)
	}
	sort.Strings(l)
	if len(l) > 4 {
		l = append(l[:4], "more")
	}
	return strings.Join(l, "+")
}

// ---- audit --------------------------------------------------------------------------------------------

// audit opens a fresh connection and compares the complete state of every
// mailbox with the model.
func (sm *Sim) audit() {
	if sm.stopped {
		return
	}
	a := sm.open()
	defer a.raw.Close()
	for _, name := range sm.boxNames() {
		if sm.stopped {
			return
		}
		b := sm.boxes[name]
		pre, tg, ok := sm.exchange(a, "EXAMINE "+quote(encName(sm, name)))
		if !ok {
			return
		}
		if tg.Status != "OK" {
			sm.fail(GroupModel, "audit-select", fmt.Sprintf("audit: EXAMINE %q answered %q", name, tg.Raw))
			return
		}
		a.sel, a.view, a.hw = b, nil, len(b.All)
		n := -1
		for _, l := range pre {
			if l.Kind == "EXISTS" {
				n = int(l.Num)
			}
		}
		if n != len(b.Msgs) {
			sm.fail(GroupModel, "audit-count", fmt.Sprintf("audit: %q holds %d messages, model says %d", name, n, len(b.Msgs)))
			return
		}
		for _, m := range b.Msgs {
			a.view = append(a.view, m.UID)
		}
		if n == 0 {
			continue
		}
		pre, tg, ok = sm.exchange(a, "UID FETCH 1:* (FLAGS RFC822.SIZE INTERNALDATE)")
		if !ok {
			return
		}
		o := sm.observe(a, pre, "UID FETCH")
		if sm.stopped {
			return
		}
		if len(o.fetch) != len(b.Msgs) {
			sm.fail(GroupModel, "audit-count", fmt.Sprintf("audit: UID FETCH 1:* on %q returned %d messages, model says %d", name, len(o.fetch), len(b.Msgs)))
			return
		}
		for i, fl := range o.fetch {
			m := b.Msgs[i]
			if !fl.HasUID || fl.UID != m.UID {
				sm.fail(GroupModel, "audit-uid", fmt.Sprintf("audit: %q position %d holds UID %d, model says %d", name, i+1, fl.UID, m.UID))
				return
			}
			if strings.Join(fl.Flags, " ") != strings.Join(flagList(m.Flags), " ") {
				sm.fail(GroupModel, "audit-flags", fmt.Sprintf("audit: %q UID %d has flags %v, model says %v", name, m.UID, fl.Flags, flagList(m.Flags)))
				return
			}
			if v, _ := num(fl.Items["RFC822.SIZE"]); v != uint64(len(m.Raw)) {
				sm.fail(GroupModel, "audit-size", fmt.Sprintf("audit: %q UID %d has size %d, model says %d", name, m.UID, v, len(m.Raw)))
				return
			}
			if got, ok := parseInternalDate(fl.Items["INTERNALDATE"].S); m.DateKnown && (!ok || !got.Equal(m.Date)) {
				sm.fail(GroupModel, "audit-date", fmt.Sprintf("audit: %q UID %d has internal date %q, model says %s", name, m.UID, fl.Items["INTERNALDATE"].S, imapDate(m.Date)))
				return
			}
		}
	}
	sm.rep.Class("audit")
}

func encName(sm *Sim, n string) string {
	return utf7ref.Encode(n)
}

// ---- history loop ---------------------------------------------------------------------------------------

type opw struct {
	name string
	w    int
	f    func(*Sess)
}

// Run executes one history.
func Run(cfg Cfg, rep Reporter) {
	mem := kit.NewMem(kit.MemCfg{Caps: imap.CapSet{imap.CapIMAP4rev1: {}, imap.CapIMAP4rev2: {}}})
	defer mem.Close()
	sm := &Sim{cfg: cfg, rng: rand.New(rand.NewSource(cfg.Seed)), mem: mem, rep: rep, boxes: map[string]*Box{}, uvSeen: map[string]map[uint32]int{}}
	defer func() {
		for _, s := range sm.sess {
			s.raw.Close()
		}
	}()
	s0 := sm.open()
	if sm.stopped {
		return
	}
	// initial mailboxes and messages, through the protocol
	for len(sm.boxes) < cfg.Boxes && !sm.stopped {
		sm.doCreate(s0)
	}
	for i := 0; i < cfg.InitMsgs && !sm.stopped; i++ {
		sm.doAppend(s0)
	}
	for len(sm.sess) < cfg.Sessions && !sm.stopped {
		sm.open()
	}
	for _, s := range sm.sess {
		if !sm.stopped {
			sm.doSelect(s)
		}
	}
	for step := 0; step < cfg.Steps && !sm.stopped; step++ {
		s := sm.sess[sm.rng.Intn(len(sm.sess))]
		if cfg.Sleeper && len(sm.sess) > 1 && s == sm.sess[len(sm.sess)-1] {
			continue
		}
		sm.step(s)
	}
	if sm.stopped {
		return
	}
	for _, s := range sm.sess {
		if s.idleTag != "" && !sm.stopped {
			sm.doIdleDone(s)
		}
	}
	for _, s := range sm.sess {
		if s.sel != nil && !sm.stopped {
			sm.doNoop(s)
		}
	}
	sm.audit()
	if !sm.stopped {
		if p := mem.Log.Panics(); len(p) > 0 {
			sm.fail(GroupCrash, "server-panic", p[0])
		}
	}
	rep.Metric("histories", 1)
}

func (sm *Sim) step(s *Sess) {
	r := sm.rng
	if s.idleTag != "" {
		if r.Intn(3) == 0 {
			sm.doIdleDone(s)
			sm.checkViewEqualsMailboxAfterIdle(s)
		}
		return
	}
	if r.Intn(1000) < sm.cfg.NoopBias {
		sm.doNoop(s)
		return
	}
	var ops []opw
	admin := func(w int) int {
		if sm.cfg.WithAdmin {
			return w
		}
		return 0
	}
	if s.sel == nil {
		ops = []opw{{"SELECT", 50, sm.doSelect}, {"APPEND", 15, sm.doAppend}, {"CREATE", admin(6), sm.doCreate}, {"DELETE", admin(4), sm.doDelete}, {"RENAME", admin(4), sm.doRename},
			{"SUBSCRIBE", admin(5), sm.doSubscribe}, {"LIST", admin(10), sm.doList}, {"STATUS", admin(10), sm.doStatus}, {"CLOSE", 1, sm.doClose}}
	} else {
		ops = []opw{{"FETCH", 24, sm.doFetch}, {"STORE", 16, sm.doStore}, {"SEARCH", 16, sm.doSearch}, {"EXPUNGE", 8, sm.doExpunge}, {"COPYMOVE", 12, sm.doCopyMove},
			{"APPEND", 12, sm.doAppend}, {"SELECT", 4, sm.doSelect}, {"CLOSE", 3, sm.doClose}, {"IDLE", 4, sm.doIdleStart},
			{"CREATE", admin(3), sm.doCreate}, {"DELETE", admin(2), sm.doDelete}, {"RENAME", admin(3), sm.doRename}, {"SUBSCRIBE", admin(3), sm.doSubscribe}, {"LIST", admin(7), sm.doList}, {"STATUS", admin(7), sm.doStatus}}
		if s.ro {
			// read-only: no state-changing commands (the server does not enforce EXAMINE)
			ops = []opw{{"FETCH", 30, sm.doFetch}, {"SEARCH", 20, sm.doSearch}, {"SELECT", 10, sm.doSelect}, {"CLOSE", 5, sm.doClose}, {"IDLE", 4, sm.doIdleStart}, {"LIST", admin(7), sm.doList}, {"STATUS", admin(7), sm.doStatus}}
		}
	}
	total := 0
	for _, o := range ops {
		total += o.w
	}
	x := r.Intn(total)
	for _, o := range ops {
		if x < o.w {
			o.f(s)
			return
		}
		x -= o.w
	}
}

func (sm *Sim) checkViewEqualsMailboxAfterIdle(s *Sess) {
	// Leaving IDLE flushes every pending update just like NOOP does; the
	// property, however, speaks about NOOP only, so nothing is demanded here.
}
