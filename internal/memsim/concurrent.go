package memsim

// Concurrent histories with an interleaving-independent outcome.
//
// 2..8 sessions run concurrently against the real server + in-memory backend.
// Every message is tagged with a unique token in its Subject and is only ever
// touched by the session that created it (its owner): APPEND, UID STORE, STORE by
// sequence number (translated through the owner's own view), UID COPY, UID MOVE,
// \Deleted + UID EXPUNGE of that UID. Operations of different sessions therefore
// commute, and the final content of every mailbox is exactly determined by the
// per-session sequential models whatever the interleaving was. The reference
// model of the property applies to this history like to any other: at quiescence
// a fresh connection audits every mailbox (UIDs strictly increasing, every
// message present exactly once with the owner's flags and text), and during the
// run every APPENDUID / COPYUID / FETCH / SEARCH result about an owned message is
// compared with the owner's model. This reaches what sequential histories cannot:
// lost or duplicated messages, duplicate UIDs and misdirected flag changes caused
// by atomicity windows between sessions (which are neither data races nor
// deadlocks).

import (
	"fmt"
	"math/rand"
	"regexp"
	"runtime"
	"sort"
	"strconv"
	"strings"
	"sync"
	"time"

	imap "github.com/emersion/go-imap/v2"
	"github.com/emersion/go-imap/v2/verif/internal/kit"
	"github.com/emersion/go-imap/v2/verif/internal/wiretok"
	"github.com/emersion/go-imap/v2/verif/lockmon"
)

type inst struct {
	tok   string
	box   string
	uid   uint32
	flags map[string]bool
}

func (m *inst) flagList() []string {
	var l []string
	for f := range m.flags {
		l = append(l, f)
	}
	sort.Strings(l)
	return l
}

// ConcReporter receives what a concurrent history observes. group is GroupView (on-the-wire view
// consistency of one connection) or GroupModel (content differs from the owners' models).
type ConcReporter interface {
	ConcViolation(group, class, detail string, extra map[string]interface{})
	Metric(name string, n int64)
	Notef(format string, a ...interface{})
}

type crun struct {
	w    ConcReporter
	mem  *kit.Mem
	desc string
	mu   sync.Mutex
	fail bool
	cmds int64
}

func (cr *crun) violation(class, detail string, extra map[string]interface{}) {
	cr.violationG(GroupModel, class, detail, extra)
}

func (cr *crun) violationG(group, class, detail string, extra map[string]interface{}) {
	cr.mu.Lock()
	already := cr.fail
	cr.fail = true
	cr.mu.Unlock()
	if already {
		return // one witness per run
	}
	if extra == nil {
		extra = map[string]interface{}{}
	}
	extra["run"] = cr.desc
	cr.w.ConcViolation(group, "concurrent/"+class, fmt.Sprintf("concurrent history (%s): %s: %s", cr.desc, class, detail), extra)
}

func (cr *crun) failed() bool { cr.mu.Lock(); defer cr.mu.Unlock(); return cr.fail }

type owner struct {
	cr   *crun
	id   int
	raw  *kit.Raw
	rng  *rand.Rand
	tagN int
	nTok int
	sel  string
	own  map[string]*inst // box/uid
	log  []string
	// per-connection wire view (C08's invariants, valid under any interleaving)
	count     int  // message count announced on this connection for the selected mailbox
	counted   bool // a mailbox is selected and its EXISTS was seen
	opsDone   *sync.WaitGroup
	finalView []string
}

var cboxes = []string{"A", "B", "C"}

func key(box string, uid uint32) string { return fmt.Sprintf("%s/%d", box, uid) }

// cmd sends one command and returns its parsed response lines and the status of the tagged reply.
func (o *owner) cmd(line string) (lines []kit.RespLine, status string, all []byte, ok bool) {
	o.tagN++
	tag := fmt.Sprintf("o%dt%d", o.id, o.tagN)
	short := line
	if len(short) > 120 {
		short = short[:120] + "..."
	}
	o.log = append(o.log, tag+" "+short)
	if len(o.log) > 14 {
		o.log = o.log[len(o.log)-14:]
	}
	if err := o.raw.SendStr(tag + " " + line + "\r\n"); err != nil {
		o.cr.violation("connection-lost", fmt.Sprintf("session %d: cannot send %q: %v", o.id, short, err), map[string]interface{}{"commands": o.log})
		return nil, "", nil, false
	}
	done := o.raw.WaitFor(func(b []byte) bool {
		s := string(b)
		i := strings.LastIndex(s, "\r\n"+tag+" ")
		if i < 0 {
			if !strings.HasPrefix(s, tag+" ") {
				return false
			}
			i = 0
		}
		return strings.Contains(s[i+2:], "\r\n")
	}, 120*time.Second)
	all = o.raw.Take()
	if !done {
		if !o.cr.failed() {
			// completion, deadlocks and stalls are C14's subject: this history is abandoned
			o.cr.mu.Lock()
			o.cr.fail = true
			o.cr.mu.Unlock()
			o.cr.w.Metric("concurrent_runs_abandoned_no_reply", 1)
		}
		return nil, "", all, false
	}
	lines, _ = kit.ParseResponses(all)
	for _, l := range lines {
		if l.Tag == tag {
			status = l.Status
		}
	}
	o.observeView(line, lines, status)
	o.cr.mu.Lock()
	o.cr.cmds++
	o.cr.mu.Unlock()
	return lines, status, all, true
}

// observeView asserts, on this connection's own response stream, what must hold whatever the other
// sessions are doing: sequence numbers within the announced count, the count shrinking only by
// EXPUNGE, no EXPUNGE while a non-UID FETCH / STORE / SEARCH is answered.
func (o *owner) observeView(cmdLine string, lines []kit.RespLine, status string) {
	f := strings.Fields(strings.ToUpper(cmdLine))
	if len(f) == 0 {
		return
	}
	verb := f[0]
	isSelect := verb == "SELECT" || verb == "EXAMINE"
	noExpunge := verb == "FETCH" || verb == "STORE" || verb == "SEARCH"
	if isSelect {
		o.counted = false
	}
	bad := func(class, detail string) {
		o.cr.violationG(GroupView, class, fmt.Sprintf("session %d, answering %q: %s", o.id, cmdLine, detail), map[string]interface{}{"commands": o.log})
	}
	for _, l := range lines {
		if l.Tag != "*" {
			continue
		}
		switch l.Kind {
		case "EXISTS":
			if isSelect || !o.counted {
				o.count, o.counted = int(l.Num), true
				break
			}
			if int(l.Num) < o.count {
				bad("exists-shrinks", fmt.Sprintf("EXISTS %d although %d messages were announced and no EXPUNGE was sent", l.Num, o.count))
			}
			o.count = int(l.Num)
		case "EXPUNGE":
			if !o.counted {
				break
			}
			if noExpunge {
				bad("expunge-during-"+verb, fmt.Sprintf("EXPUNGE %d sent while answering a non-UID %s", l.Num, verb))
			}
			if l.Num < 1 || int(l.Num) > o.count {
				bad("expunge-out-of-range", fmt.Sprintf("EXPUNGE %d with %d messages announced", l.Num, o.count))
			} else {
				o.count--
			}
		case "FETCH":
			if o.counted && (l.Num < 1 || int(l.Num) > o.count) {
				bad("fetch-out-of-range", fmt.Sprintf("FETCH %d with %d messages announced", l.Num, o.count))
			}
		}
	}
	if isSelect && status != "OK" {
		o.counted = false
	}
}

// must is cmd for commands that have to succeed on a correct server.
func (o *owner) must(line string) ([]kit.RespLine, []byte, bool) {
	lines, st, all, ok := o.cmd(line)
	if !ok {
		return nil, nil, false
	}
	if st != "OK" {
		o.cr.violation("unexpected-status@"+strings.Fields(line + " ?")[0], fmt.Sprintf("session %d: %q answered %s (%s)", o.id, line, st, lastLine(all)), map[string]interface{}{"commands": o.log})
		return nil, nil, false
	}
	return lines, all, true
}

func lastLine(b []byte) string {
	s := strings.TrimRight(string(b), "\r\n")
	if i := strings.LastIndex(s, "\r\n"); i >= 0 {
		s = s[i+2:]
	}
	if len(s) > 200 {
		s = s[:200]
	}
	return s
}

var reAppendUID = regexp.MustCompile(`\[APPENDUID (\d+) (\d+)\]`)
var reCopyUID = regexp.MustCompile(`\[COPYUID (\d+) ([0-9:,]+) ([0-9:,]+)\]`)

func (o *owner) ownIn(box string) []*inst {
	var l []*inst
	for _, m := range o.own {
		if m.box == box {
			l = append(l, m)
		}
	}
	sort.Slice(l, func(i, j int) bool { return l[i].uid < l[j].uid })
	return l
}

func (o *owner) otherBox(n int) string {
	for {
		if b := cboxes[o.rng.Intn(n)]; b != o.sel {
			return b
		}
	}
}

func (o *owner) newMessage(box string, flags []string) bool {
	o.nTok++
	tok := fmt.Sprintf("tok-o%d-k%de", o.id, o.nTok)
	body := fmt.Sprintf("From: o%d@example.org\r\nSubject: %s\r\nDate: Mon, 1 Jan 2024 00:00:00 +0000\r\n\r\nbody of %s\r\n", o.id, tok, tok)
	fl := ""
	if len(flags) > 0 {
		fl = "(" + strings.Join(flags, " ") + ") "
	}
	_, all, ok := o.must(fmt.Sprintf("APPEND %s %s{%d+}\r\n%s", box, fl, len(body), body))
	if !ok {
		return false
	}
	m := reAppendUID.FindSubmatch(all)
	if m == nil {
		o.cr.violation("appenduid-missing", fmt.Sprintf("session %d: APPEND answered without APPENDUID: %s", o.id, lastLine(all)), nil)
		return false
	}
	uid, _ := strconv.ParseUint(string(m[2]), 10, 32)
	in := &inst{tok: tok, box: box, uid: uint32(uid), flags: map[string]bool{}}
	for _, f := range flags {
		in.flags[strings.ToLower(f)] = true
	}
	if prev, dup := o.own[key(box, in.uid)]; dup {
		o.cr.violation("uid-reused", fmt.Sprintf("session %d: APPENDUID %d in %s was already given to %s", o.id, in.uid, box, prev.tok), nil)
		return false
	}
	o.own[key(box, in.uid)] = in
	return true
}

// fetchOwn fetches one owned message by UID and compares it with the model; returns its
// sequence number in this session's view after the command (0 if it cannot be determined).
func (o *owner) fetchOwn(m *inst) (uint32, bool) {
	lines, _, ok := o.must(fmt.Sprintf("UID FETCH %d (UID FLAGS BODY.PEEK[HEADER.FIELDS (SUBJECT)])", m.uid))
	if !ok {
		return 0, false
	}
	var seq uint32
	found := false
	for _, l := range lines {
		switch {
		case l.Tag == "*" && l.Kind == "FETCH":
			fl := ParseFetch(l)
			if fl.Bad != "" || !fl.HasUID || fl.UID != m.uid {
				continue
			}
			found = true
			seq = fl.Seq
			subj := ""
			for k, v := range fl.Items {
				if strings.HasPrefix(k, "BODY[HEADER.FIELDS") && (v.Kind == wiretok.Literal || v.Kind == wiretok.Quoted) {
					subj = v.S
				}
			}
			if !strings.Contains(subj, m.tok) {
				o.cr.violation("fetch-wrong-message", fmt.Sprintf("session %d: UID FETCH %d in %s should be the message %s, the server returned the header %q", o.id, m.uid, m.box, m.tok, subj), map[string]interface{}{"commands": o.log})
				return 0, false
			}
			if fl.HasFlags {
				var got []string
				for _, f := range fl.Flags {
					if f != `\recent` {
						got = append(got, f)
					}
				}
				if strings.Join(got, " ") != strings.Join(m.flagList(), " ") {
					o.cr.violation("fetch-wrong-flags", fmt.Sprintf("session %d: message %s (%s UID %d) has flags %v, its owner set %v and nobody else touches it", o.id, m.tok, m.box, m.uid, got, m.flagList()), map[string]interface{}{"commands": o.log})
					return 0, false
				}
			}
		case l.Tag == "*" && l.Kind == "EXPUNGE" && found:
			// expunges reported after the FETCH data shift the sequence number
			if l.Num < seq {
				seq--
			} else if l.Num == seq {
				o.cr.violation("owned-message-expunged", fmt.Sprintf("session %d: EXPUNGE %d removes the owned message %s (%s UID %d) that nobody deleted", o.id, l.Num, m.tok, m.box, m.uid), map[string]interface{}{"commands": o.log})
				return 0, false
			}
		}
	}
	if !found {
		o.cr.violation("owned-message-missing", fmt.Sprintf("session %d: UID FETCH %d in %s returned nothing, but %s was stored there and only its owner removes it", o.id, m.uid, m.box, m.tok), map[string]interface{}{"commands": o.log})
		return 0, false
	}
	return seq, true
}

func (o *owner) applyStore(m *inst, mode string, flags []string) {
	switch mode {
	case "+":
		for _, f := range flags {
			m.flags[strings.ToLower(f)] = true
		}
	case "-":
		for _, f := range flags {
			delete(m.flags, strings.ToLower(f))
		}
	default:
		m.flags = map[string]bool{}
		for _, f := range flags {
			m.flags[strings.ToLower(f)] = true
		}
	}
}

func (o *owner) copyOrMove(m *inst, verb, dest string) bool {
	_, all, ok := o.must(fmt.Sprintf("UID %s %d %s", verb, m.uid, dest))
	if !ok {
		return false
	}
	c := reCopyUID.FindSubmatch(all)
	if c == nil {
		o.cr.violation("copyuid-missing", fmt.Sprintf("session %d: UID %s %d %s answered without COPYUID (%s)", o.id, verb, m.uid, dest, lastLine(all)), map[string]interface{}{"commands": o.log})
		return false
	}
	src, e1 := strconv.ParseUint(string(c[2]), 10, 32)
	dst, e2 := strconv.ParseUint(string(c[3]), 10, 32)
	if e1 != nil || e2 != nil || uint32(src) != m.uid {
		o.cr.violation("copyuid-wrong", fmt.Sprintf("session %d: UID %s %d %s answered COPYUID %s %s: exactly the one addressed message must be named", o.id, verb, m.uid, dest, c[2], c[3]), map[string]interface{}{"commands": o.log})
		return false
	}
	n := &inst{tok: m.tok, box: dest, uid: uint32(dst), flags: map[string]bool{}}
	for f := range m.flags {
		n.flags[f] = true
	}
	if prev, dup := o.own[key(dest, n.uid)]; dup {
		o.cr.violation("uid-reused", fmt.Sprintf("session %d: COPYUID destination %d in %s was already given to %s", o.id, n.uid, dest, prev.tok), nil)
		return false
	}
	o.own[key(dest, n.uid)] = n
	if verb == "MOVE" {
		delete(o.own, key(m.box, m.uid))
	}
	return true
}

func (o *owner) run(nBoxes, ops int, wg *sync.WaitGroup) {
	defer wg.Done()
	var once sync.Once
	arrive := func() { once.Do(o.opsDone.Done) }
	defer arrive() // (an owner that gives up early must not keep the others waiting at the barrier)
	o.raw = o.cr.mem.DialRaw()
	defer o.raw.Close()
	if !o.raw.WaitFor(func(b []byte) bool { return strings.Contains(string(b), "\r\n") }, 120*time.Second) {
		return
	}
	o.raw.Take()
	if _, _, ok := o.must("LOGIN user pass"); !ok {
		return
	}
	r := o.rng
	kw := fmt.Sprintf("kw%d", o.id)
	flagChoices := [][]string{{`\Seen`}, {`\Flagged`}, {kw}, {`\Answered`, kw}, {`\Seen`, `\Flagged`}, {`\Draft`}}
	for i := 0; i < ops && !o.cr.failed(); i++ {
		if o.sel == "" || r.Intn(12) == 0 {
			b := cboxes[r.Intn(nBoxes)]
			if _, _, ok := o.must("SELECT " + b); !ok {
				return
			}
			o.sel = b
			continue
		}
		mine := o.ownIn(o.sel)
		k := r.Intn(100)
		switch {
		case k < 22 || len(mine) == 0:
			var fl []string
			if r.Intn(2) == 0 {
				fl = flagChoices[r.Intn(len(flagChoices))]
			}
			if !o.newMessage(cboxes[r.Intn(nBoxes)], fl) {
				return
			}
		case k < 40:
			m := mine[r.Intn(len(mine))]
			mode := []string{"+", "-", ""}[r.Intn(3)]
			fl := flagChoices[r.Intn(len(flagChoices))]
			if _, _, ok := o.must(fmt.Sprintf("UID STORE %d %sFLAGS%s (%s)", m.uid, mode, []string{"", ".SILENT"}[r.Intn(2)], strings.Join(fl, " "))); !ok {
				return
			}
			o.applyStore(m, mode, fl)
		case k < 54:
			// STORE by sequence number: the number is taken from this session's own view
			m := mine[r.Intn(len(mine))]
			if _, _, ok := o.must("NOOP"); !ok {
				return
			}
			seq, ok := o.fetchOwn(m)
			if !ok {
				return
			}
			if seq == 0 {
				continue
			}
			mode := []string{"+", "-", ""}[r.Intn(3)]
			fl := flagChoices[r.Intn(len(flagChoices))]
			if _, _, ok := o.must(fmt.Sprintf("STORE %d %sFLAGS (%s)", seq, mode, strings.Join(fl, " "))); !ok {
				return
			}
			o.applyStore(m, mode, fl)
		case k < 64:
			m := mine[r.Intn(len(mine))]
			if !o.copyOrMove(m, "COPY", o.otherBox(nBoxes)) {
				return
			}
		case k < 74:
			m := mine[r.Intn(len(mine))]
			if !o.copyOrMove(m, "MOVE", o.otherBox(nBoxes)) {
				return
			}
		case k < 82:
			m := mine[r.Intn(len(mine))]
			if _, _, ok := o.must(fmt.Sprintf("UID STORE %d +FLAGS.SILENT (\\Deleted)", m.uid)); !ok {
				return
			}
			if _, _, ok := o.must(fmt.Sprintf("UID EXPUNGE %d", m.uid)); !ok {
				return
			}
			delete(o.own, key(m.box, m.uid))
		case k < 90:
			m := mine[r.Intn(len(mine))]
			if _, ok := o.fetchOwn(m); !ok {
				return
			}
		case k < 96:
			// UID SEARCH by the unique token: exactly the owned copies in this mailbox
			m := mine[r.Intn(len(mine))]
			if _, _, ok := o.must("NOOP"); !ok {
				return
			}
			lines, _, ok := o.must("UID SEARCH HEADER Subject " + m.tok)
			if !ok {
				return
			}
			var got []string
			for _, l := range lines {
				if l.Tag == "*" && l.Kind == "SEARCH" {
					for _, t := range l.Toks[2:] {
						got = append(got, t.S)
					}
				}
			}
			sort.Strings(got)
			var want []string
			for _, x := range mine {
				if x.tok == m.tok {
					want = append(want, fmt.Sprint(x.uid))
				}
			}
			sort.Strings(want)
			if strings.Join(got, " ") != strings.Join(want, " ") {
				o.cr.violation("search-wrong", fmt.Sprintf("session %d: UID SEARCH HEADER Subject %s in %s returned %v, the owner's copies there are %v", o.id, m.tok, o.sel, got, want), map[string]interface{}{"commands": o.log})
				return
			}
		default:
			if _, _, ok := o.must("NOOP"); !ok {
				return
			}
		}
		for y := r.Intn(4); y > 0; y-- {
			runtime.Gosched()
		}
	}
	// quiescence: everybody has stopped changing things
	arrive()
	o.opsDone.Wait()
	if o.sel != "" && !o.cr.failed() {
		if _, _, ok := o.must("NOOP"); ok {
			view := []string{}
			okView := true
			if o.count > 0 {
				lines, st, _, ok := o.cmd("FETCH 1:* (UID)")
				okView = ok && st == "OK"
				for _, l := range lines {
					if l.Tag == "*" && l.Kind == "FETCH" {
						if fl := ParseFetch(l); fl.Bad == "" && fl.HasUID {
							view = append(view, fmt.Sprint(fl.UID))
						}
					}
				}
			}
			if okView {
				o.finalView = view
			}
		}
	}
	o.cmd("LOGOUT")
}

type auditMsg struct {
	uid   uint32
	subj  string
	flags []string
}

func audit(cr *crun, box string) ([]auditMsg, bool) {
	raw := cr.mem.DialRaw()
	defer raw.Close()
	a := &owner{cr: cr, id: 99, raw: raw}
	if !raw.WaitFor(func(b []byte) bool { return strings.Contains(string(b), "\r\n") }, 120*time.Second) {
		return nil, false
	}
	raw.Take()
	if _, _, ok := a.must("LOGIN user pass"); !ok {
		return nil, false
	}
	if _, _, ok := a.must("EXAMINE " + box); !ok {
		return nil, false
	}
	lines, _, ok := a.must("UID FETCH 1:* (UID FLAGS BODY.PEEK[HEADER.FIELDS (SUBJECT)])")
	if !ok {
		return nil, false
	}
	var out []auditMsg
	var lastSeq uint32
	for _, l := range lines {
		if l.Tag != "*" || l.Kind != "FETCH" {
			continue
		}
		fl := ParseFetch(l)
		if fl.Bad != "" || !fl.HasUID {
			cr.violation("audit-unparsable", fmt.Sprintf("audit of %s: %s in %q", box, fl.Bad, l.Raw), nil)
			return nil, false
		}
		if fl.Seq != lastSeq+1 {
			cr.violation("audit-sequence", fmt.Sprintf("audit of %s: FETCH responses for 1:* are not numbered consecutively (%d after %d)", box, fl.Seq, lastSeq), nil)
			return nil, false
		}
		lastSeq = fl.Seq
		m := auditMsg{uid: fl.UID}
		for k, v := range fl.Items {
			if strings.HasPrefix(k, "BODY[HEADER.FIELDS") {
				m.subj = strings.TrimSpace(strings.TrimPrefix(strings.TrimSpace(v.S), "Subject:"))
			}
		}
		for _, f := range fl.Flags {
			if f != `\recent` {
				m.flags = append(m.flags, f)
			}
		}
		out = append(out, m)
	}
	a.cmd("LOGOUT")
	return out, true
}

// ConcurrentRun executes one concurrent history and reports what it observes.
func ConcurrentRun(w ConcReporter, seed int64, sessions, ops, nBoxes, procs, yield int) {
	desc := fmt.Sprintf("seed=%d sessions=%d ops=%d boxes=%d GOMAXPROCS=%d yield=%d‰", seed, sessions, ops, nBoxes, procs, yield)
	defer runtime.GOMAXPROCS(runtime.GOMAXPROCS(procs))
	lockmon.Configure(seed, yield)
	lockmon.Reset(true)
	defer lockmon.Configure(seed, 0)
	mem := kit.NewMem(kit.MemCfg{Caps: imap.CapSet{imap.CapIMAP4rev1: {}, imap.CapIMAP4rev2: {}}})
	defer mem.Close()
	cr := &crun{w: w, mem: mem, desc: desc}
	date := time.Date(2024, 1, 1, 0, 0, 0, 0, time.UTC)
	for _, b := range cboxes[:nBoxes] {
		var msgs [][]byte
		for i := 0; i < 3; i++ {
			msgs = append(msgs, kit.SimpleMessage(fmt.Sprintf("init-%s-%d", b, i), "a@example.org", "body\r\n", date))
		}
		mem.Populate(b, msgs, [][]imap.Flag{{imap.FlagSeen}})
	}
	base := map[string][]auditMsg{}
	for _, b := range cboxes[:nBoxes] {
		l, ok := audit(cr, b)
		if !ok {
			return
		}
		base[b] = l
	}
	rng := rand.New(rand.NewSource(seed))
	var wg, opsDone sync.WaitGroup
	var owners []*owner
	for i := 0; i < sessions; i++ {
		o := &owner{cr: cr, id: i, rng: rand.New(rand.NewSource(rng.Int63())), own: map[string]*inst{}, opsDone: &opsDone}
		owners = append(owners, o)
		wg.Add(1)
		opsDone.Add(1)
		go o.run(nBoxes, ops, &wg)
	}
	wg.Wait()
	w.Metric("concurrent_commands", cr.cmds)
	if cr.failed() {
		return
	}
	if p := mem.Log.Panics(); len(p) > 0 {
		w.ConcViolation(GroupCrash, "concurrent/server-panic", "panic in a server goroutine during a concurrent history: "+p[0], map[string]interface{}{"run": desc})
		return
	}
	// audit at quiescence
	var nMsgs int64
	for _, b := range cboxes[:nBoxes] {
		got, ok := audit(cr, b)
		if !ok {
			return
		}
		want := map[uint32]string{} // uid -> "subject|flags"
		for _, m := range base[b] {
			want[m.uid] = m.subj + "|" + strings.Join(m.flags, " ")
		}
		for _, o := range owners {
			for _, m := range o.ownIn(b) {
				if prev, dup := want[m.uid]; dup {
					cr.violation("uid-reused", fmt.Sprintf("mailbox %s: UID %d was reported to two sessions (%s and %s)", b, m.uid, prev, m.tok), nil)
					return
				}
				want[m.uid] = m.tok + "|" + strings.Join(m.flagList(), " ")
			}
		}
		var last uint32
		seen := map[uint32]bool{}
		for _, m := range got {
			if m.uid <= last {
				cr.violation("uids-not-increasing", fmt.Sprintf("mailbox %s: UID %d follows UID %d in sequence order", b, m.uid, last), nil)
				return
			}
			last = m.uid
			seen[m.uid] = true
			w, ok := want[m.uid]
			if !ok {
				cr.violation("audit-unexpected-message", fmt.Sprintf("mailbox %s holds UID %d (%q) that no session put there (or that its owner removed)", b, m.uid, m.subj), nil)
				return
			}
			if g := m.subj + "|" + strings.Join(m.flags, " "); g != w {
				cr.violation("audit-message-differs", fmt.Sprintf("mailbox %s UID %d is %q, the owner's model says %q", b, m.uid, g, w), nil)
				return
			}
		}
		for uid, wv := range want {
			if !seen[uid] {
				cr.violation("audit-message-lost", fmt.Sprintf("mailbox %s: UID %d (%s) is gone although only its owner may remove it and did not", b, uid, wv), nil)
				return
			}
		}
		nMsgs += int64(len(got))
		// every session that has this mailbox selected issued NOOP once everybody had stopped: the
		// message list it then sees through its own sequence numbers is the mailbox's actual list
		var actual []string
		for _, m := range got {
			actual = append(actual, fmt.Sprint(m.uid))
		}
		for _, o := range owners {
			if o.sel == b && o.finalView != nil {
				if strings.Join(o.finalView, " ") != strings.Join(actual, " ") {
					cr.violationG(GroupView, "view-after-noop", fmt.Sprintf("session %d: after NOOP at quiescence FETCH 1:* (UID) lists %v in %s, the mailbox holds %v", o.id, o.finalView, b, actual), map[string]interface{}{"commands": o.log})
					return
				}
			}
		}
	}
	w.Metric("concurrent_runs_audited", 1)
	w.Metric("concurrent_messages_audited", nMsgs)
	st := lockmon.Snapshot()
	w.Metric("concurrent_fingerprint", int64(st.Fingerprint&0x7fffffff))
}
