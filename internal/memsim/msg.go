// Package memsim drives sequential multi-session histories against the real
// server + in-memory backend over raw connections and compares every response
// with a reference mailbox model. It serves C08 (on-the-wire view consistency)
// and C09 (mailbox semantics).
//
// msg.go: messages are generated from a MIME tree, so that every body section,
// the body structure and the envelope are known by construction (independent of
// go-message, which the backend uses to take messages apart).
package memsim

import (
	"bytes"
	"fmt"
	"math/rand"
	"strings"
	"time"
)

// Field is one raw header field.
type Field struct {
	Key string
	Val string // may contain "\r\n " folds
}

// Part is a MIME entity (or a whole message when it is the root / embedded).
type Part struct {
	Fields   []Field
	Type     string // lower-case, "" when the entity has no Content-Type (defaults to text/plain)
	Sub      string
	Params   map[string]string
	Children []*Part // multipart/*
	Boundary string
	Preamble string // without trailing CRLF; "" = none
	Epilogue string
	Embedded *Part // message/rfc822
	Body     []byte

	// envelope-relevant data of a message-level entity (root / embedded)
	Env *EnvData
}

// EnvData is what the envelope of a message must carry.
type EnvData struct {
	Date                               time.Time // zero: no Date field
	Subject                            string    // unfolded value
	HasSubject                         bool
	From, Sender, ReplyTo, To, Cc, Bcc []Addr
	InReplyTo                          []string // ids without <>
	MessageID                          string
}

type Addr struct{ Name, Mailbox, Host string }

func (p *Part) IsMultipart() bool { return p.Type == "multipart" }
func (p *Part) IsMessage() bool {
	return p.Type == "message" && (p.Sub == "rfc822" || p.Sub == "global")
}

// HeaderBytes returns the raw header including the terminating blank line.
func (p *Part) HeaderBytes() []byte {
	var b bytes.Buffer
	for _, f := range p.Fields {
		b.WriteString(f.Key)
		b.WriteString(": ")
		b.WriteString(f.Val)
		b.WriteString("\r\n")
	}
	b.WriteString("\r\n")
	return b.Bytes()
}

// BodyBytes returns the raw body of the entity.
func (p *Part) BodyBytes() []byte {
	switch {
	case p.IsMultipart():
		var b bytes.Buffer
		if p.Preamble != "" {
			b.WriteString(p.Preamble)
			b.WriteString("\r\n")
		}
		for _, c := range p.Children {
			b.WriteString("--" + p.Boundary + "\r\n")
			b.Write(c.Bytes())
			b.WriteString("\r\n")
		}
		b.WriteString("--" + p.Boundary + "--\r\n")
		b.WriteString(p.Epilogue)
		return b.Bytes()
	case p.IsMessage():
		return p.Embedded.Bytes()
	}
	return p.Body
}

func (p *Part) Bytes() []byte { return append(p.HeaderBytes(), p.BodyBytes()...) }

// Unfold removes CRLF that is followed by white space.
func Unfold(s string) string {
	s = strings.ReplaceAll(s, "\r\n ", " ")
	return strings.ReplaceAll(s, "\r\n\t", "\t")
}

// FieldsFiltered returns the header restricted to (or without) the named fields,
// blank line included.
func (p *Part) FieldsFiltered(names []string, not bool) []byte {
	set := map[string]bool{}
	for _, n := range names {
		set[strings.ToLower(n)] = true
	}
	var b bytes.Buffer
	for _, f := range p.Fields {
		if set[strings.ToLower(f.Key)] != not {
			b.WriteString(f.Key + ": " + f.Val + "\r\n")
		}
	}
	b.WriteString("\r\n")
	return b.Bytes()
}

// SectionResult is the reference outcome of a BODY[...] request.
type SectionResult struct {
	Defined bool   // false: RFC 3501 leaves the combination undefined (only "no crash" is demanded)
	Exists  bool   // false: the part does not exist (empty string or NIL are admissible)
	Data    []byte // full section content before the partial is applied
	Alt     []byte // second admissible content (nil if none)
}

// Section computes BODY[path.spec] for the message m. spec is "", "HEADER",
// "TEXT", "MIME"; fields/notFields select HEADER.FIELDS / HEADER.FIELDS.NOT.
func Section(m *Part, path []int, spec string, fields []string, notFields bool) SectionResult {
	cur := m
	self := true // cur is a message-level entity addressed as a whole (root, or "part 1" of a non-multipart message)
	for i, n := range path {
		c := cur
		if i > 0 {
			if self && !c.IsMultipart() {
				// x.1.1 on a non-multipart message: undefined
				return SectionResult{}
			}
			if c.IsMessage() {
				c = c.Embedded
			} else if !c.IsMultipart() {
				return SectionResult{} // descending into a leaf
			}
		}
		if c.IsMultipart() {
			if n < 1 || n > len(c.Children) {
				return SectionResult{Defined: true}
			}
			cur = c.Children[n-1]
			self = false
		} else {
			if n != 1 {
				return SectionResult{Defined: true}
			}
			cur = c
			self = true
		}
	}
	hdrOf := func(e *Part) SectionResult {
		if fields != nil {
			return SectionResult{Defined: true, Exists: true, Data: e.FieldsFiltered(fields, notFields)}
		}
		return SectionResult{Defined: true, Exists: true, Data: e.HeaderBytes()}
	}
	if len(path) == 0 {
		switch spec {
		case "":
			return SectionResult{Defined: true, Exists: true, Data: m.Bytes()}
		case "HEADER":
			return hdrOf(m)
		case "TEXT":
			return SectionResult{Defined: true, Exists: true, Data: m.BodyBytes()}
		}
		return SectionResult{} // MIME without a part
	}
	switch spec {
	case "":
		return SectionResult{Defined: true, Exists: true, Data: cur.BodyBytes()}
	case "MIME":
		if self {
			return SectionResult{} // 1.MIME of a non-multipart message: latitude
		}
		return SectionResult{Defined: true, Exists: true, Data: cur.HeaderBytes()}
	case "HEADER", "TEXT":
		if self || !cur.IsMessage() {
			return SectionResult{} // only defined for message/rfc822 parts
		}
		if spec == "HEADER" {
			return hdrOf(cur.Embedded)
		}
		return SectionResult{Defined: true, Exists: true, Data: cur.Embedded.BodyBytes()}
	}
	return SectionResult{}
}

// ---- generator -----------------------------------------------------------------------

var (
	genSubjects = []string{"hello world", "Re: alpha release", "weekly report", "=?utf-8?q?caf=C3=A9?= menu", "a rather long subject line that is\r\n folded once", "x"}
	genFrom     = []Addr{{"", "alice", "example.org"}, {"Bob Builder", "bob", "example.com"}, {"Smith, J", "js", "example.net"}, {"", "carol.k", "mail.example.org"}}
	genTo       = []Addr{{"", "dave", "example.net"}, {"Erin", "erin", "example.org"}, {"", "frank", "example.com"}}
	genWords    = []string{"alpha", "beta", "gamma", "delta", "zeta", "hello", "invoice", "lorem ipsum"}
	genZones    = []*time.Location{time.UTC, time.FixedZone("", 2*3600), time.FixedZone("", -8*3600), time.FixedZone("", 5*3600+1800)}
)

// GenDate returns one of a small set of dates around which the search keys are built.
func GenDate(rng *rand.Rand) time.Time {
	day := []int{9, 10, 11, 15, 16, 28}[rng.Intn(6)]
	hour := []int{0, 1, 12, 22, 23}[rng.Intn(5)]
	return time.Date(2024, time.Month(1+rng.Intn(2)), day, hour, rng.Intn(60), rng.Intn(60), 0, genZones[rng.Intn(len(genZones))])
}

func fmtAddr(a Addr) string {
	if a.Name == "" {
		return a.Mailbox + "@" + a.Host
	}
	n := a.Name
	if strings.ContainsAny(n, ",.") {
		n = `"` + n + `"`
	}
	return n + " <" + a.Mailbox + "@" + a.Host + ">"
}

func fmtAddrs(l []Addr) string {
	var p []string
	for _, a := range l {
		p = append(p, fmtAddr(a))
	}
	return strings.Join(p, ", ")
}

func pickAddrs(rng *rand.Rand, pool []Addr, max int) []Addr {
	n := 1 + rng.Intn(max)
	var l []Addr
	for _, i := range rng.Perm(len(pool))[:n] {
		l = append(l, pool[i])
	}
	return l
}

func textBody(rng *rand.Rand) []byte {
	var b strings.Builder
	for n := rng.Intn(5); n >= 0; n-- {
		b.WriteString(genWords[rng.Intn(len(genWords))])
		if rng.Intn(3) == 0 {
			b.WriteString(" " + genWords[rng.Intn(len(genWords))])
		}
		if n > 0 || rng.Intn(3) != 0 {
			b.WriteString("\r\n")
		}
	}
	if rng.Intn(12) == 0 {
		return nil
	}
	return []byte(b.String())
}

var b64 = "QUJDREVGR0hJSktMTU5PUFFSU1RVVldYWVowMTIzNDU2Nzg5YWJjZGVmZ2hpamtsbW5vcHFyc3R1dnd4eXo="

func binBody(rng *rand.Rand) []byte {
	var b strings.Builder
	lines := 1 + rng.Intn(4)
	if rng.Intn(10) == 0 {
		lines = 80 + rng.Intn(40) // > 4096 bytes
	}
	for i := 0; i < lines; i++ {
		b.WriteString(b64[:60+rng.Intn(16)])
		b.WriteString("\r\n")
	}
	return []byte(b.String())
}

func ctValue(p *Part) string {
	s := p.Type + "/" + p.Sub
	if p.Type == "image" && len(p.Params) == 0 {
		s = "IMAGE/PNG" // case variation
	}
	keys := []string{"charset", "boundary", "name", "format"}
	for _, k := range keys {
		if v, ok := p.Params[k]; ok {
			if strings.ContainsAny(v, " =") {
				v = `"` + v + `"`
			}
			s += "; " + k + "=" + v
		}
	}
	return s
}

// genEntity generates a MIME entity (no message-level fields).
func genEntity(rng *rand.Rand, depth int, bctr *int) *Part {
	p := &Part{}
	r := rng.Intn(10)
	switch {
	case depth > 0 && r < 3:
		p.Type, p.Sub = "multipart", []string{"mixed", "alternative", "related"}[rng.Intn(3)]
		*bctr++
		p.Boundary = fmt.Sprintf("=_b%d_%d", *bctr, rng.Intn(1000))
		p.Params = map[string]string{"boundary": p.Boundary}
		if rng.Intn(3) == 0 {
			p.Preamble = "This is a multi-part message in MIME format."
		}
		if rng.Intn(5) == 0 {
			p.Epilogue = "epilogue text\r\n"
		}
		for n := 1 + rng.Intn(3); n > 0; n-- {
			p.Children = append(p.Children, genEntity(rng, depth-1, bctr))
		}
	case depth > 0 && r == 3:
		p.Type, p.Sub = "message", "rfc822"
		p.Embedded = GenMessage(rng, depth-1, bctr)
	case r < 7:
		p.Type, p.Sub = "text", []string{"plain", "html"}[rng.Intn(2)]
		if rng.Intn(3) != 0 {
			p.Params = map[string]string{"charset": []string{"utf-8", "us-ascii", "ISO-8859-1"}[rng.Intn(3)]}
			if rng.Intn(4) == 0 {
				p.Params["format"] = "flowed"
			}
		}
		p.Body = textBody(rng)
	case r < 9:
		p.Type, p.Sub = "application", []string{"octet-stream", "pdf"}[rng.Intn(2)]
		if rng.Intn(2) == 0 {
			p.Params = map[string]string{"name": []string{"a.bin", "my file.pdf"}[rng.Intn(2)]}
		}
		p.Body = binBody(rng)
	default:
		p.Type, p.Sub = "image", "png"
		p.Body = binBody(rng)
	}
	p.Fields = append(p.Fields, Field{"Content-Type", ctValue(p)})
	if !p.IsMultipart() && !p.IsMessage() {
		switch rng.Intn(4) {
		case 0:
			p.Fields = append(p.Fields, Field{"Content-Transfer-Encoding", []string{"base64", "7bit", "QUOTED-PRINTABLE", "8bit"}[rng.Intn(4)]})
		}
		if rng.Intn(4) == 0 {
			p.Fields = append(p.Fields, Field{"Content-ID", fmt.Sprintf("<part%d@example.org>", rng.Intn(100))})
		}
		if rng.Intn(5) == 0 {
			p.Fields = append(p.Fields, Field{"Content-Description", "some description"})
		}
	}
	switch rng.Intn(5) {
	case 0:
		p.Fields = append(p.Fields, Field{"Content-Disposition", "inline"})
	case 1:
		p.Fields = append(p.Fields, Field{"Content-Disposition", `attachment; filename="report 1.pdf"`})
	}
	if rng.Intn(6) == 0 {
		p.Fields = append(p.Fields, Field{"Content-Language", []string{"en", "en, fr-CA"}[rng.Intn(2)]})
	}
	if rng.Intn(8) == 0 {
		p.Fields = append(p.Fields, Field{"Content-Location", "http://example.org/x"})
	}
	return p
}

// GenMessage generates a message: message-level fields followed by the MIME
// fields of its top-level entity.
func GenMessage(rng *rand.Rand, depth int, bctr *int) *Part {
	var p *Part
	if rng.Intn(8) == 0 {
		// no Content-Type at all
		p = &Part{Body: textBody(rng)}
	} else {
		p = genEntity(rng, depth, bctr)
		if p.IsMessage() && depth >= 0 {
			// keep top-level entities simple: a top-level message/rfc822 is unusual
			p = &Part{Type: "text", Sub: "plain", Body: textBody(rng)}
			p.Fields = []Field{{"Content-Type", "text/plain"}}
		}
	}
	env := &EnvData{}
	var f []Field
	if rng.Intn(6) == 0 {
		f = append(f, Field{"Received", "from mx.example.org by mail.example.net;\r\n\tMon, 1 Jan 2024 00:00:00 +0000"})
	}
	env.From = pickAddrs(rng, genFrom, 1)
	f = append(f, Field{[]string{"From", "FROM", "from"}[rng.Intn(3)], fmtAddrs(env.From)})
	if rng.Intn(4) != 0 {
		env.To = pickAddrs(rng, genTo, 3)
		f = append(f, Field{"To", fmtAddrs(env.To)})
	}
	if rng.Intn(4) == 0 {
		env.Cc = pickAddrs(rng, genTo, 2)
		f = append(f, Field{"Cc", fmtAddrs(env.Cc)})
	}
	if rng.Intn(8) == 0 {
		env.Bcc = pickAddrs(rng, genTo, 1)
		f = append(f, Field{"Bcc", fmtAddrs(env.Bcc)})
	}
	if rng.Intn(6) == 0 {
		env.Sender = pickAddrs(rng, genFrom, 1)
		f = append(f, Field{"Sender", fmtAddrs(env.Sender)})
	}
	if rng.Intn(6) == 0 {
		env.ReplyTo = pickAddrs(rng, genTo, 2)
		f = append(f, Field{"Reply-To", fmtAddrs(env.ReplyTo)})
	}
	if rng.Intn(6) != 0 {
		s := genSubjects[rng.Intn(len(genSubjects))]
		env.Subject, env.HasSubject = Unfold(s), true
		f = append(f, Field{"Subject", s})
	}
	if rng.Intn(7) != 0 {
		env.Date = GenDate(rng)
		f = append(f, Field{"Date", env.Date.Format("Mon, 02 Jan 2006 15:04:05 -0700")})
	}
	if rng.Intn(3) != 0 {
		env.MessageID = fmt.Sprintf("m%d.%d@example.org", rng.Intn(1e6), rng.Intn(1e6))
		f = append(f, Field{"Message-ID", "<" + env.MessageID + ">"})
	}
	if rng.Intn(5) == 0 {
		env.InReplyTo = []string{fmt.Sprintf("r%d@example.org", rng.Intn(1e6))}
		v := "<" + env.InReplyTo[0] + ">"
		if rng.Intn(2) == 0 {
			env.InReplyTo = append(env.InReplyTo, "second@example.net")
			v += " <second@example.net>"
		}
		f = append(f, Field{"In-Reply-To", v})
	}
	if rng.Intn(2) == 0 {
		f = append(f, Field{"X-Foo", "bar"})
	}
	if rng.Intn(4) == 0 {
		f = append(f, Field{"X-Priority", fmt.Sprint(1 + rng.Intn(5))})
	}
	if p.Type != "" || rng.Intn(2) == 0 {
		f = append(f, Field{"MIME-Version", "1.0"})
	}
	p.Fields = append(f, p.Fields...)
	p.Env = env
	return p
}

// HeaderValues returns the unfolded values of every field named key (lower-case match).
func (p *Part) HeaderValues() map[string][]string {
	m := map[string][]string{}
	for _, f := range p.Fields {
		k := strings.ToLower(f.Key)
		m[k] = append(m[k], Unfold(f.Val))
	}
	return m
}
