// Package hx is the common runner of the /verif checks.
//
// A check binary is one Go main package per property. hx.Main runs it either as
// the supervisor (default) or as a worker shard (VERIF_WORKER=i/n). The
// supervisor spawns the shards as child processes (so that fatal errors, stack
// overflows and hangs of the code under test are contained and attributable),
// merges their results, parses the race-detector logs, matches violations
// against /verif/known_findings.json, writes /verif/evidence/<id>.json and
// prints the verdict lines required by the interface:
//
//	VIOLATION property=<id> replay=<path>
//	KNOWN-FINDING: property=<id> <what>
//	INCONCLUSIVE property=<id> reason=<...>
package hx

import (
	"bytes"
	"crypto/sha256"
	"encoding/binary"
	"encoding/hex"
	"encoding/json"
	"fmt"
	"hash/fnv"
	"io"
	"math/rand"
	"os"
	"os/exec"
	"path/filepath"
	"runtime"
	"runtime/debug"
	"sort"
	"strconv"
	"strings"
	"sync"
	"syscall"
	"time"
)

// Spec describes one property check.
type Spec struct {
	ID          string   // property id, e.g. "C15"
	Level       string   // evidence level: exploration | fault_enumeration
	Rule        string   // how cases are generated and what makes one distinct / non-trivial
	Assumptions []string // what the check assumes or trusts

	// Shards returns the number of worker processes for a tier (default 8 / 12).
	Shards func(tier string) int
	// WallQuick / WallThorough are wall-clock backstops for one worker; their
	// firing is inconclusive (never a verdict), unless HangIsViolation is set.
	WallQuick, WallThorough time.Duration
	// HangIsViolation makes a worker that hits the wall-clock backstop a
	// violation (used only where non-termination refutes the property and the
	// backstop is orders of magnitude above the normal running time).
	HangIsViolation bool
	// MemLimitMB bounds the heap of one worker (default 6144): exceeding it is
	// reported as a violation attributed to the current case (W.Begin).
	MemLimitMB int
	// RaceFrames, if set, restricts race reports to those whose conflicting
	// accesses involve a function whose name contains one of these substrings
	// (the packages the property is about).
	RaceFrames []string
	// LogCurrent makes W.Begin write the case to a file before it runs, so
	// that a fatal error of the worker process can be attributed to it.
	LogCurrent bool
	// MaxStack, if non-zero, is passed to debug.SetMaxStack in workers.
	MaxStack int
	// Exhaustive is reported in evidence when the body says the whole finite
	// space of the tier was enumerated (set by W.SetExhaustive).
	MinEvaluations int64
	// Replay re-executes one recorded case (optional).
	Replay func(w *W, raw json.RawMessage)
}

// W is the handle a check body uses inside a worker.
type W struct {
	Spec    *Spec
	Tier    string
	Seed    int64
	Shard   int
	NShards int
	WorkDir string

	mu         sync.Mutex
	evals      int64
	distinctN  int64 // distinct cases counted by construction (enumerations)
	hashes     map[uint64]struct{}
	classes    map[string]int64
	metrics    map[string]int64
	samples    []interface{}
	violations []Violation
	exhaustive bool
	notes      []string
	noteFile   *os.File
	sigSeen    map[string]int
	curSig     string
	curDesc    string
	flush      func(done bool)
}

// Violation is one refutation witness.
type Violation struct {
	Sig    string      `json:"sig"`  // stable signature (defect class + specific input / site / history shape)
	What   string      `json:"what"` // one line for humans
	Replay interface{} `json:"replay,omitempty"`
	Count  int         `json:"count"`
}

type workerResult struct {
	Evals      int64            `json:"evals"`
	DistinctN  int64            `json:"distinct_n"`
	Classes    map[string]int64 `json:"classes"`
	Metrics    map[string]int64 `json:"metrics"`
	Samples    []interface{}    `json:"samples"`
	Violations []Violation      `json:"violations"`
	Exhaustive bool             `json:"exhaustive"`
	Notes      []string         `json:"notes"`
	Done       bool             `json:"done"`
}

func (w *W) Quick() bool { return w.Tier != "thorough" }

// Pick returns q in the quick tier and t in the thorough tier.
func (w *W) Pick(q, t int) int {
	if w.Quick() {
		return q
	}
	return t
}

// Rand returns a PRNG determined by (VERIF_SEED, label, shard).
func (w *W) Rand(label string) *rand.Rand {
	h := fnv.New64a()
	fmt.Fprintf(h, "%d|%s|%d", w.Seed, label, w.Shard)
	return rand.New(rand.NewSource(int64(h.Sum64())))
}

// RandGlobal returns a PRNG determined by (VERIF_SEED, label) only: the same in
// every shard (for building shared case lists that are then split with Mine).
func (w *W) RandGlobal(label string) *rand.Rand {
	h := fnv.New64a()
	fmt.Fprintf(h, "%d|%s", w.Seed, label)
	return rand.New(rand.NewSource(int64(h.Sum64())))
}

// Mine reports whether item i of a shared enumeration belongs to this shard.
func (w *W) Mine(i int) bool { return i%w.NShards == w.Shard }

// Case counts one executed case identified by hash h (distinctness is decided
// over all shards by the supervisor).
func (w *W) Case(h uint64) {
	w.mu.Lock()
	w.evals++
	w.hashes[h] = struct{}{}
	w.mu.Unlock()
}

// CaseStr is Case(hash(s)).
func (w *W) CaseStr(s string) { w.Case(HashStr(s)) }

// Trivial counts an executed case that is not counted as non-trivial.
func (w *W) Trivial(n int64) {
	w.mu.Lock()
	w.evals += n
	w.mu.Unlock()
}

// Enumerated counts n executed cases that are distinct by construction
// (members of an enumeration without repetition owned by this shard).
func (w *W) Enumerated(n int64) {
	w.mu.Lock()
	w.evals += n
	w.distinctN += n
	w.mu.Unlock()
}

func (w *W) Class(key string) {
	w.mu.Lock()
	w.classes[key]++
	w.mu.Unlock()
}

func (w *W) Metric(key string, delta int64) {
	w.mu.Lock()
	w.metrics[key] += delta
	w.mu.Unlock()
}

// MetricMax keeps the maximum.
func (w *W) MetricMax(key string, v int64) {
	w.mu.Lock()
	if v > w.metrics[key] {
		w.metrics[key] = v
	}
	w.mu.Unlock()
}

func (w *W) Sample(v interface{}) {
	w.mu.Lock()
	if len(w.samples) < 4 {
		w.samples = append(w.samples, v)
	}
	w.mu.Unlock()
}

func (w *W) SetExhaustive(b bool) { w.mu.Lock(); w.exhaustive = b; w.mu.Unlock() }

func (w *W) Notef(format string, a ...interface{}) {
	w.mu.Lock()
	if len(w.notes) < 50 {
		w.notes = append(w.notes, fmt.Sprintf(format, a...))
	}
	w.mu.Unlock()
}

// Current records the case about to be executed in a file, so that a fatal
// error of the process can be attributed to it by the supervisor.
func (w *W) Current(desc string) {
	w.mu.Lock()
	defer w.mu.Unlock()
	if w.noteFile == nil {
		f, err := os.Create(filepath.Join(w.WorkDir, fmt.Sprintf("current_%d.txt", w.Shard)))
		if err != nil {
			return
		}
		w.noteFile = f
	}
	if len(desc) > 1<<16 {
		desc = desc[:1<<16] + "...(truncated)"
	}
	w.noteFile.Truncate(0)
	w.noteFile.WriteAt([]byte(desc), 0)
}

// Violation records a refutation witness. sig must be stable across runs and
// specific (defect class + the input / call site / history shape).
func (w *W) Violation(sig, what string, replay interface{}) {
	w.mu.Lock()
	defer w.mu.Unlock()
	if i, ok := w.sigSeen[sig]; ok {
		w.violations[i].Count++
		return
	}
	if len(w.violations) >= 200 {
		return
	}
	w.sigSeen[sig] = len(w.violations)
	w.violations = append(w.violations, Violation{Sig: sig, What: what, Replay: replay, Count: 1})
}

// Begin marks the start of one case: desc is what a crash / hang / memory
// blow-up of the process will be attributed to (sig is the stable part), and d,
// if non-zero, arms a wall-clock backstop that is orders of magnitude above the
// normal duration of the case. The returned function ends the case.
func (w *W) Begin(sig, desc string, d time.Duration) func() {
	w.mu.Lock()
	w.curSig, w.curDesc = sig, desc
	w.mu.Unlock()
	if w.Spec.LogCurrent {
		w.Current(sig + "\n" + desc)
	}
	if d == 0 {
		return func() {}
	}
	t := time.AfterFunc(d, func() {
		buf := make([]byte, 1<<20)
		buf = buf[:runtime.Stack(buf, true)]
		w.Violation("hang:"+sig, fmt.Sprintf("case did not finish within %v: %s", d, oneLine(desc)),
			map[string]interface{}{"case": desc, "goroutines": string(buf)})
		w.abort()
	})
	return func() { t.Stop() }
}

// abort flushes what was observed and ends the worker (used after a hang or a
// memory blow-up, when the process cannot continue meaningfully).
func (w *W) abort() {
	if w.flush != nil {
		w.flush(true)
	}
	os.Exit(0)
}

func (w *W) memoryGuard(limit uint64) {
	for {
		time.Sleep(50 * time.Millisecond)
		var ms runtime.MemStats
		runtime.ReadMemStats(&ms)
		if ms.HeapAlloc > limit {
			w.mu.Lock()
			sig, desc := w.curSig, w.curDesc
			w.mu.Unlock()
			w.Violation("memory:"+sig, fmt.Sprintf("heap grew beyond %d MB during case: %s", limit>>20, oneLine(desc)),
				map[string]interface{}{"case": desc, "heap_alloc": ms.HeapAlloc})
			w.abort()
		}
	}
}

// NViolations returns the number of distinct violation signatures so far.
func (w *W) NViolations() int {
	w.mu.Lock()
	defer w.mu.Unlock()
	return len(w.violations)
}

func HashStr(s string) uint64 {
	h := fnv.New64a()
	io.WriteString(h, s)
	return h.Sum64()
}

func HashBytes(b []byte) uint64 {
	h := fnv.New64a()
	h.Write(b)
	return h.Sum64()
}

// ---------------------------------------------------------------------------

func verifRoot() string {
	if r := os.Getenv("VERIF_ROOT"); r != "" {
		return r
	}
	return "/verif"
}

func envTier() string {
	t := os.Getenv("VERIF_TIER")
	if t != "thorough" {
		t = "quick"
	}
	return t
}

func envSeed() int64 {
	s, err := strconv.ParseInt(os.Getenv("VERIF_SEED"), 10, 64)
	if err != nil {
		return 1
	}
	return s
}

// Main is the entry point of every check binary.
func Main(spec Spec, body func(w *W)) {
	if spec.Level == "" {
		spec.Level = "exploration"
	}
	tier := envTier()
	var replay string
	args := os.Args[1:]
	for i := 0; i < len(args); i++ {
		switch args[i] {
		case "quick", "thorough":
			tier = args[i]
		case "--tier":
			if i+1 < len(args) {
				tier = args[i+1]
				i++
			}
		case "--replay":
			if i+1 < len(args) {
				replay = args[i+1]
				i++
			}
		}
	}
	if ws := os.Getenv("VERIF_WORKER"); ws != "" {
		runWorker(&spec, tier, ws, body)
		return
	}
	if replay != "" {
		runReplay(&spec, tier, replay)
		return
	}
	supervise(&spec, tier)
}

func newW(spec *Spec, tier string, shard, n int, workDir string) *W {
	return &W{
		Spec: spec, Tier: tier, Seed: envSeed(), Shard: shard, NShards: n, WorkDir: workDir,
		hashes: map[uint64]struct{}{}, classes: map[string]int64{}, metrics: map[string]int64{},
		sigSeen: map[string]int{},
	}
}

func runWorker(spec *Spec, tier, ws string, body func(w *W)) {
	var shard, n int
	fmt.Sscanf(ws, "%d/%d", &shard, &n)
	if n <= 0 {
		n = 1
	}
	if spec.MaxStack > 0 {
		debug.SetMaxStack(spec.MaxStack)
	}
	resPath := os.Getenv("VERIF_RESULT")
	w := newW(spec, tier, shard, n, filepath.Dir(resPath))
	finished := false
	flush := func(done bool) {
		w.mu.Lock()
		defer w.mu.Unlock()
		// (the periodic partial flush may fire once more after the final one: it must not
		// overwrite the final result with done=false)
		if finished {
			return
		}
		finished = done
		res := workerResult{Evals: w.evals, DistinctN: w.distinctN, Classes: w.classes, Metrics: w.metrics,
			Samples: w.samples, Violations: w.violations, Exhaustive: w.exhaustive, Notes: w.notes, Done: done}
		b, err := json.Marshal(res)
		if err != nil {
			fmt.Fprintf(os.Stderr, "hx: marshal result: %v\n", err)
			os.Exit(4)
		}
		tmp := resPath + ".tmp"
		os.WriteFile(tmp, b, 0o644)
		os.Rename(tmp, resPath)
		hb := make([]byte, 0, 8*len(w.hashes))
		for h := range w.hashes {
			hb = binary.LittleEndian.AppendUint64(hb, h)
		}
		os.WriteFile(resPath+".hashes", hb, 0o644)
	}
	w.flush = flush
	memLimit := uint64(6 << 30)
	if spec.MemLimitMB > 0 {
		memLimit = uint64(spec.MemLimitMB) << 20
	}
	go w.memoryGuard(memLimit)
	// a worker whose supervisor is gone must not go on writing into the work directory
	go func(parent int) {
		for {
			time.Sleep(2 * time.Second)
			if os.Getppid() != parent {
				os.Exit(5)
			}
		}
	}(os.Getppid())
	// periodic partial flush, so that a crash or hang does not lose what was observed
	stop := make(chan struct{})
	go func() {
		t := time.NewTicker(5 * time.Second)
		defer t.Stop()
		for {
			select {
			case <-t.C:
				flush(false)
			case <-stop:
				return
			}
		}
	}()
	body(w)
	close(stop)
	flush(true)
	os.Exit(0)
}

func runReplay(spec *Spec, tier, path string) {
	b, err := os.ReadFile(path)
	if err != nil {
		fmt.Fprintf(os.Stderr, "replay: %v\n", err)
		os.Exit(2)
	}
	var v struct {
		Property string          `json:"property"`
		Sig      string          `json:"sig"`
		What     string          `json:"what"`
		Replay   json.RawMessage `json:"replay"`
	}
	if err := json.Unmarshal(b, &v); err != nil {
		fmt.Fprintf(os.Stderr, "replay: %v\n", err)
		os.Exit(2)
	}
	fmt.Printf("replay of %s violation\n  sig:  %s\n  what: %s\n", v.Property, v.Sig, v.What)
	if spec.Replay == nil {
		fmt.Printf("  witness: %s\n(no automatic re-execution for this check; the witness above is self-contained)\n", string(v.Replay))
		return
	}
	dir, _ := os.MkdirTemp(filepath.Join(verifRoot(), ".work"), "replay")
	defer os.RemoveAll(dir)
	w := newW(spec, tier, 0, 1, dir)
	spec.Replay(w, v.Replay)
	if len(w.violations) > 0 {
		for _, vi := range w.violations {
			fmt.Printf("REPRODUCED sig=%s what=%s\n", vi.Sig, vi.What)
		}
		os.Exit(1)
	}
	fmt.Println("not reproduced on the current tree")
}

// ---------------------------------------------------------------------------

type knownFinding struct {
	Property  string `json:"property"`
	Signature string `json:"signature"`
	Status    string `json:"status"` // known | fixed
	Commit    string `json:"commit,omitempty"`
	What      string `json:"what"`
}

func loadKnown(id string) map[string]knownFinding {
	out := map[string]knownFinding{}
	b, err := os.ReadFile(filepath.Join(verifRoot(), "known_findings.json"))
	if err != nil {
		return out
	}
	var f struct {
		Findings []knownFinding `json:"findings"`
	}
	if json.Unmarshal(b, &f) != nil {
		return out
	}
	for _, k := range f.Findings {
		if k.Property == id && k.Status == "known" {
			out[k.Signature] = k
		}
	}
	return out
}

func supervise(spec *Spec, tier string) {
	start := time.Now()
	root := verifRoot()
	workDir := filepath.Join(root, ".work", spec.ID)
	// one run of a check at a time per /verif root: a second supervisor would share the work
	// directory and the two would overwrite each other's worker results
	os.MkdirAll(filepath.Join(root, ".work"), 0o755)
	if lf, err := os.OpenFile(filepath.Join(root, ".work", spec.ID+".lock"), os.O_CREATE|os.O_RDWR, 0o644); err == nil {
		if syscall.Flock(int(lf.Fd()), syscall.LOCK_EX|syscall.LOCK_NB) != nil {
			fmt.Fprintf(os.Stderr, "hx: another run of %s is in progress in %s; waiting for it to finish\n", spec.ID, root)
			syscall.Flock(int(lf.Fd()), syscall.LOCK_EX)
		}
		defer lf.Close()
	}
	os.RemoveAll(workDir)
	if err := os.MkdirAll(workDir, 0o755); err != nil {
		fmt.Fprintf(os.Stderr, "hx: %v\n", err)
		os.Exit(2)
	}
	n := 8
	if tier == "thorough" {
		n = 12
	}
	if spec.Shards != nil {
		n = spec.Shards(tier)
	}
	if v, err := strconv.Atoi(os.Getenv("VERIF_SHARDS")); err == nil && v > 0 {
		n = v
	}
	wall := spec.WallQuick
	if wall == 0 {
		wall = 15 * time.Minute
	}
	if tier == "thorough" {
		wall = spec.WallThorough
		if wall == 0 {
			wall = 90 * time.Minute
		}
	}
	self, _ := os.Executable()

	type wstate struct {
		cmd      *exec.Cmd
		out      string
		res      string
		err      error
		timedOut bool
	}
	ws := make([]*wstate, n)
	var wg sync.WaitGroup
	for i := 0; i < n; i++ {
		st := &wstate{out: filepath.Join(workDir, fmt.Sprintf("w%d.out", i)), res: filepath.Join(workDir, fmt.Sprintf("w%d.json", i))}
		ws[i] = st
		f, _ := os.Create(st.out)
		cmd := exec.Command(self, tier)
		cmd.Stdout = f
		cmd.Stderr = f
		cmd.Env = append(os.Environ(),
			fmt.Sprintf("VERIF_WORKER=%d/%d", i, n),
			"VERIF_RESULT="+st.res,
			"VERIF_TIER="+tier,
			fmt.Sprintf("GORACE=halt_on_error=0 history_size=4 log_path=%s", filepath.Join(workDir, fmt.Sprintf("race_w%d", i))),
			"GOTRACEBACK=all",
		)
		st.cmd = cmd
		if err := cmd.Start(); err != nil {
			st.err = err
			f.Close()
			continue
		}
		wg.Add(1)
		go func(st *wstate, f *os.File) {
			defer wg.Done()
			defer f.Close()
			done := make(chan error, 1)
			go func() { done <- st.cmd.Wait() }()
			select {
			case err := <-done:
				st.err = err
			case <-time.After(wall):
				st.timedOut = true
				st.cmd.Process.Signal(syscall.SIGQUIT)
				select {
				case err := <-done:
					st.err = err
				case <-time.After(20 * time.Second):
					st.cmd.Process.Kill()
					st.err = <-done
				}
			}
		}(st, f)
	}
	wg.Wait()

	// merge
	total := workerResult{Classes: map[string]int64{}, Metrics: map[string]int64{}}
	hashes := map[uint64]struct{}{}
	sampleSeen := map[string]struct{}{}
	allExhaustive := true
	var inconclusive []string
	vmap := map[string]*Violation{}
	var vorder []string
	addV := func(v Violation) {
		if old, ok := vmap[v.Sig]; ok {
			old.Count += v.Count
			return
		}
		vv := v
		vmap[v.Sig] = &vv
		vorder = append(vorder, v.Sig)
	}
	for i, st := range ws {
		var res workerResult
		b, rerr := os.ReadFile(st.res)
		if rerr == nil {
			rerr = json.Unmarshal(b, &res)
		}
		if rerr == nil {
			total.Evals += res.Evals
			total.DistinctN += res.DistinctN
			for k, v := range res.Classes {
				total.Classes[k] += v
			}
			for k, v := range res.Metrics {
				if strings.HasPrefix(k, "max_") {
					if v > total.Metrics[k] {
						total.Metrics[k] = v
					}
				} else {
					total.Metrics[k] += v
				}
			}
			for _, sm := range res.Samples {
				sb, _ := json.Marshal(sm)
				if _, dup := sampleSeen[string(sb)]; !dup && len(total.Samples) < 12 {
					sampleSeen[string(sb)] = struct{}{}
					total.Samples = append(total.Samples, sm)
				}
			}
			total.Notes = append(total.Notes, res.Notes...)
			for _, v := range res.Violations {
				addV(v)
			}
			if !res.Exhaustive {
				allExhaustive = false
			}
			if hb, err := os.ReadFile(st.res + ".hashes"); err == nil {
				for j := 0; j+8 <= len(hb); j += 8 {
					hashes[binary.LittleEndian.Uint64(hb[j:])] = struct{}{}
				}
			}
		}
		if rerr != nil || !res.Done {
			allExhaustive = false
			tail := tailFile(st.out, 12000)
			cur, _ := os.ReadFile(filepath.Join(workDir, fmt.Sprintf("current_%d.txt", i)))
			switch {
			case st.timedOut && !spec.HangIsViolation:
				inconclusive = append(inconclusive, fmt.Sprintf("worker %d hit the wall-clock backstop (%v)", i, wall))
				saveText(spec.ID, fmt.Sprintf("timeout_w%d.txt", i), "current case:\n"+string(cur)+"\n\noutput tail:\n"+tail)
			case st.timedOut:
				addV(Violation{Sig: "hang:" + crashSig(tail), What: fmt.Sprintf("worker %d made no progress within %v (goroutine dump in replay)", i, wall),
					Replay: map[string]interface{}{"current_case": string(cur), "output_tail": tail}, Count: 1})
			default:
				if i := strings.IndexByte(string(cur), '\n'); i > 0 {
					tail = "current case: " + string(cur[:i]) + "\n" + tail
				}
				addV(Violation{Sig: "crash:" + crashSig(tail) + curSigOf(cur), What: "worker process died: " + firstFatalLine(tail) + " (current case: " + oneLine(string(cur)) + ")",
					Replay: map[string]interface{}{"current_case": string(cur), "output_tail": tail, "exit": fmt.Sprint(st.err)}, Count: 1})
			}
		}
	}
	// race reports
	raceRaw, raceDedup := 0, 0
	for _, rr := range parseRaceLogs(workDir) {
		raceRaw += rr.count
		if len(spec.RaceFrames) > 0 {
			keep := false
			for _, f := range spec.RaceFrames {
				if strings.Contains(rr.key, f) {
					keep = true
				}
			}
			if !keep {
				total.Metrics["race_reports_outside_property_scope"] += int64(rr.count)
				saveText(spec.ID, "race_outside_scope.txt", rr.text)
				continue
			}
		}
		raceDedup++
		addV(Violation{Sig: "race:" + rr.key, What: "data race between " + rr.key, Replay: map[string]interface{}{"report": rr.text}, Count: rr.count})
	}
	total.Metrics["race_reports_raw"] = int64(raceRaw)
	total.Metrics["race_reports_dedup"] = int64(raceDedup)

	distinct := total.DistinctN + int64(len(hashes))
	known := loadKnown(spec.ID)
	nViol, nKnown := 0, 0
	var lines []string
	for _, sig := range vorder {
		v := vmap[sig]
		if k, ok := known[sig]; ok {
			nKnown++
			lines = append(lines, fmt.Sprintf("KNOWN-FINDING: property=%s %s", spec.ID, k.What))
			continue
		}
		nViol++
		if nViol > 25 {
			continue // counted, not printed / saved
		}
		path := saveReplay(spec.ID, v)
		lines = append(lines, fmt.Sprintf("VIOLATION property=%s replay=%s", spec.ID, path))
		lines = append(lines, fmt.Sprintf("  sig=%s count=%d what=%s", v.Sig, v.Count, oneLine(v.What)))
	}
	if nViol == 0 {
		if total.Evals < 1 || distinct < 2 {
			inconclusive = append(inconclusive, fmt.Sprintf("too few observations (evaluations=%d distinct=%d)", total.Evals, distinct))
		} else if spec.MinEvaluations > 0 && total.Evals < spec.MinEvaluations {
			inconclusive = append(inconclusive, fmt.Sprintf("fewer evaluations (%d) than the floor (%d)", total.Evals, spec.MinEvaluations))
		}
	}
	verdict := "held"
	if nViol > 0 {
		verdict = "violated"
	} else if len(inconclusive) > 0 {
		verdict = "inconclusive"
	}

	cov := map[string]interface{}{
		"evaluations":         total.Evals,
		"distinct_nontrivial": distinct,
		"rule":                spec.Rule,
		"samples":             total.Samples,
		"exhaustive":          allExhaustive && total.Evals > 0,
		"classes_observed":    len(total.Classes),
		"classes":             capClasses(total.Classes, 400),
		"metrics":             total.Metrics,
		"workers":             n,
		"verdict":             verdict,
		"known_findings_seen": nKnown,
	}
	if len(total.Notes) > 0 {
		if len(total.Notes) > 40 {
			total.Notes = total.Notes[:40]
		}
		cov["notes"] = total.Notes
	}
	if len(inconclusive) > 0 {
		cov["inconclusive_reasons"] = inconclusive
	}
	if len(cov["samples"].([]interface{})) == 0 {
		cov["samples"] = []interface{}{"(no sample recorded)"}
	}
	ev := map[string]interface{}{
		"property_id": spec.ID,
		"tier":        tier,
		"seed":        envSeed(),
		"level":       spec.Level,
		"coverage":    cov,
		"assumptions": spec.Assumptions,
		"wall_s":      time.Since(start).Seconds(),
		"violations":  nViol,
	}
	eb, _ := json.MarshalIndent(ev, "", " ")
	os.MkdirAll(filepath.Join(root, "evidence"), 0o755)
	os.WriteFile(filepath.Join(root, "evidence", spec.ID+".json"), append(eb, '\n'), 0o644)

	for _, l := range lines {
		fmt.Println(l)
	}
	if nViol > 25 {
		fmt.Printf("(%d further distinct violation signatures not listed)\n", nViol-25)
	}
	fmt.Printf("%s %s tier=%s seed=%d: verdict=%s evaluations=%d distinct=%d classes=%d violations=%d known=%d races=%d wall=%.1fs\n",
		spec.ID, spec.Level, tier, envSeed(), verdict, total.Evals, distinct, len(total.Classes), nViol, nKnown, raceDedup, time.Since(start).Seconds())
	if os.Getenv("VERIF_KEEP_WORK") == "" {
		os.RemoveAll(workDir)
	}
	switch verdict {
	case "violated":
		os.Exit(1)
	case "inconclusive":
		for _, r := range inconclusive {
			fmt.Printf("INCONCLUSIVE property=%s reason=%s\n", spec.ID, r)
		}
		os.Exit(3)
	}
	os.Exit(0)
}

func capClasses(m map[string]int64, max int) map[string]int64 {
	if len(m) <= max {
		return m
	}
	keys := make([]string, 0, len(m))
	for k := range m {
		keys = append(keys, k)
	}
	sort.Strings(keys)
	out := map[string]int64{}
	for _, k := range keys[:max] {
		out[k] = m[k]
	}
	return out
}

func oneLine(s string) string {
	s = strings.ReplaceAll(s, "\n", "\\n")
	s = strings.ReplaceAll(s, "\r", "\\r")
	if len(s) > 400 {
		s = s[:400] + "..."
	}
	return s
}

func tailFile(path string, n int64) string {
	f, err := os.Open(path)
	if err != nil {
		return ""
	}
	defer f.Close()
	st, _ := f.Stat()
	// keep the head (first fatal line) and the tail
	head := make([]byte, 6000)
	hn, _ := f.Read(head)
	head = head[:hn]
	if st.Size() <= int64(hn) {
		return string(head)
	}
	off := st.Size() - n
	if off < int64(hn) {
		off = int64(hn)
	}
	f.Seek(off, 0)
	b, _ := io.ReadAll(f)
	return string(head) + "\n...[snip]...\n" + string(b)
}

func firstFatalLine(out string) string {
	for _, l := range strings.Split(out, "\n") {
		if strings.HasPrefix(l, "fatal error:") || strings.HasPrefix(l, "panic:") || strings.HasPrefix(l, "runtime:") || strings.HasPrefix(l, "SIGQUIT") {
			return strings.TrimSpace(l)
		}
	}
	ls := strings.Split(strings.TrimSpace(out), "\n")
	if len(ls) > 0 {
		return ls[len(ls)-1]
	}
	return "(no output)"
}

// crashSig: first fatal line plus the first go-imap frame of the crashing goroutine.
func crashSig(out string) string {
	first := firstFatalLine(out)
	if i := strings.Index(first, "0x"); i > 0 { // strip addresses
		first = first[:i]
	}
	if len(first) > 80 {
		first = first[:80]
	}
	frame := ""
	for _, l := range strings.Split(out, "\n") {
		if strings.HasPrefix(l, "github.com/emersion/go-imap/v2/") && !strings.Contains(l, "/verif/") {
			frame = l
			if i := strings.Index(frame, "("); i > 0 {
				frame = frame[:i]
			}
			frame = strings.TrimPrefix(frame, "github.com/emersion/go-imap/v2/")
			break
		}
	}
	return first + "@" + frame
}

func curSigOf(cur []byte) string {
	if i := strings.IndexByte(string(cur), '\n'); i > 0 {
		return "@" + string(cur[:i])
	}
	return ""
}

func replayDir(id string) string {
	d := filepath.Join(verifRoot(), "replays", id)
	os.MkdirAll(d, 0o755)
	return d
}

func saveText(id, name, text string) string {
	p := filepath.Join(replayDir(id), name)
	os.WriteFile(p, []byte(text), 0o644)
	return p
}

func saveReplay(id string, v *Violation) string {
	h := sha256.Sum256([]byte(v.Sig))
	p := filepath.Join(replayDir(id), hex.EncodeToString(h[:6])+".json")
	b, err := json.MarshalIndent(map[string]interface{}{"property": id, "sig": v.Sig, "what": v.What, "count": v.Count, "replay": v.Replay}, "", " ")
	if err != nil {
		b = []byte(fmt.Sprintf(`{"property":%q,"sig":%q,"what":%q}`, id, v.Sig, v.What))
	}
	os.WriteFile(p, b, 0o644)
	return p
}

// ---------------------------------------------------------------------------
// race log parsing

type raceReport struct {
	key   string
	text  string
	count int
}

const repoPrefix = "github.com/emersion/go-imap/v2"

// parseRaceLogs reads <workDir>/race_w*.<pid> files, keeps reports that involve
// a go-imap frame (not a /verif frame only), and deduplicates them by the pair
// of innermost go-imap functions of the two conflicting accesses.
func parseRaceLogs(workDir string) []raceReport {
	files, _ := filepath.Glob(filepath.Join(workDir, "race_w*"))
	sort.Strings(files)
	byKey := map[string]*raceReport{}
	var order []string
	for _, f := range files {
		b, err := os.ReadFile(f)
		if err != nil {
			continue
		}
		blocks := bytes.Split(b, []byte("=================="))
		for _, blk := range blocks {
			if !bytes.Contains(blk, []byte("WARNING: DATA RACE")) {
				continue
			}
			key, ok := raceKey(string(blk))
			if !ok {
				continue
			}
			if r, ok := byKey[key]; ok {
				r.count++
				continue
			}
			byKey[key] = &raceReport{key: key, text: string(blk), count: 1}
			order = append(order, key)
		}
	}
	var out []raceReport
	for _, k := range order {
		out = append(out, *byKey[k])
	}
	return out
}

// raceKey extracts, for the two access stacks of a report (the sections
// starting with "Read at"/"Write at"/"Previous read at"/"Previous write at"),
// the innermost frame that belongs to go-imap proper. Reports where neither
// access stack has such a frame are ignored (harness-only races are bugs of the
// harness and are reported separately as sig race-harness).
func raceKey(blk string) (string, bool) {
	lines := strings.Split(blk, "\n")
	var stacks [][]string
	var cur []string
	in := false
	for _, l := range lines {
		t := strings.TrimSpace(l)
		if strings.HasPrefix(t, "Read at") || strings.HasPrefix(t, "Write at") || strings.HasPrefix(t, "Previous read at") || strings.HasPrefix(t, "Previous write at") ||
			strings.HasPrefix(t, "Atomic read at") || strings.HasPrefix(t, "Atomic write at") || strings.HasPrefix(t, "Previous atomic") {
			if in {
				stacks = append(stacks, cur)
			}
			cur = nil
			in = true
			continue
		}
		if strings.HasPrefix(t, "Goroutine ") || t == "" {
			if in {
				stacks = append(stacks, cur)
				cur = nil
				in = false
			}
			continue
		}
		if in && !strings.HasPrefix(l, "      ") { // function line ("  pkg.Func()")
			fn := t
			if i := strings.LastIndex(fn, "("); i > 0 {
				fn = fn[:i]
			}
			cur = append(cur, fn)
		}
	}
	if in {
		stacks = append(stacks, cur)
	}
	var keys []string
	found := false
	for _, st := range stacks {
		k := ""
		for _, fn := range st {
			if strings.HasPrefix(fn, repoPrefix+"/verif") {
				continue
			}
			if strings.HasPrefix(fn, repoPrefix) {
				k = strings.TrimPrefix(fn, repoPrefix)
				k = strings.TrimPrefix(k, "/")
				found = true
				break
			}
		}
		if k == "" && len(st) > 0 {
			k = "[" + st[0] + "]"
		}
		keys = append(keys, k)
	}
	if !found {
		return "", false
	}
	sort.Strings(keys)
	return strings.Join(keys, " | "), true
}

// ---------------------------------------------------------------------------
// helpers shared by checks

// Hex returns a short printable rendering of bytes for samples.
func Hex(b []byte, max int) string {
	if len(b) > max {
		return fmt.Sprintf("%q...(%d bytes)", b[:max], len(b))
	}
	return fmt.Sprintf("%q", b)
}

// Guard runs f and converts a panic into an error string with a stack.
func Guard(f func()) (panicked bool, msg string) {
	defer func() {
		if r := recover(); r != nil {
			panicked = true
			buf := make([]byte, 4096)
			buf = buf[:runtime.Stack(buf, false)]
			msg = fmt.Sprintf("%v\n%s", r, buf)
		}
	}()
	f()
	return false, ""
}

// PanicSite returns the first go-imap frame in a Guard message (for signatures).
func PanicSite(msg string) string {
	for _, l := range strings.Split(msg, "\n") {
		if strings.HasPrefix(l, repoPrefix) && !strings.HasPrefix(l, repoPrefix+"/verif") {
			if i := strings.Index(l, "("); i > 0 {
				l = l[:i]
			}
			return strings.TrimPrefix(l, repoPrefix+"/")
		}
	}
	return "?"
}

// Goroutines returns the stacks of all goroutines that mention the given text
// (witness material for a call that never returns).
func Goroutines(mention string) string {
	buf := make([]byte, 4<<20)
	buf = buf[:runtime.Stack(buf, true)]
	var out []string
	for _, g := range strings.Split(string(buf), "\n\n") {
		if strings.Contains(g, mention) {
			if len(g) > 3000 {
				g = g[:3000]
			}
			out = append(out, g)
		}
	}
	if len(out) > 12 {
		out = out[:12]
	}
	return strings.Join(out, "\n\n")
}
