package kit

import (
	"testing"

	imap "github.com/emersion/go-imap/v2"
)

func TestSmoke(t *testing.T) {
	s := NewServer(ServerCfg{Caps: imap.CapSet{imap.CapIMAP4rev1: {}, imap.CapIMAP4rev2: {}}, InsecureAuth: true, TLS: true})
	defer s.Close()
	r := s.Dial()
	b, st := r.Sync()
	t.Logf("%s %q", st, b)
	r.SendStr("a1 LOGIN {3+}\r\nfoo bar\r\na2 SELECT INBOX\r\n")
	b, st = r.Sync()
	t.Logf("%s %q", st, b)
	rs, rest := ParseResponses(b)
	if len(rest) != 0 || len(Tagged(rs)) != 2 {
		t.Fatalf("bad %v", rs)
	}
	for _, c := range s.B.Calls() {
		t.Logf("%+v", c.Method)
	}
	r.SendStr("a3 STARTTLS\r\n")
	b, st = r.Sync()
	t.Logf("%s %q", st, b)
	r.SendStr("a4 LOGOUT\r\n")
	b, st = r.Sync()
	t.Logf("%s %q eof=%v closes=%d", st, b, r.EOF(), s.B.Sessions()[0].Closes())
	// STARTTLS on a fresh connection
	r2 := s.Dial()
	r2.Sync()
	r2.SendStr("b1 STARTTLS\r\n")
	b, st = r2.Sync()
	t.Logf("%s %q", st, b)
	if err := r2.StartTLSUpgrade(); err != nil {
		t.Fatal(err)
	}
	r2.SendStr("b2 LOGIN u p\r\n")
	b, st = r2.Sync()
	t.Logf("%s %q", st, b)
	tr, err := s.DialTLS()
	if err != nil {
		t.Fatal(err)
	}
	b, st = tr.Sync()
	t.Logf("%s %q", st, b)
}
