// Package kit holds the server-side test kit shared by the monitors: a
// recording stub backend (imapserver.Session), a server harness on vconn, and a
// raw lock-step client.
package kit

import (
	"crypto/sha256"
	"encoding/hex"
	"io"
	"sync"

	imap "github.com/emersion/go-imap/v2"
	"github.com/emersion/go-imap/v2/imapserver"
	"github.com/emersion/go-sasl"
)

// Call is one recorded backend call with deep-copied arguments.
type Call struct {
	Seq    int
	ConnID int
	Method string

	Mailbox, Mailbox2  string
	Username, Password string
	Mech               string
	SelectOpts         *imap.SelectOptions
	CreateOpts         *imap.CreateOptions
	ListRef            string
	ListPatterns       []string
	ListOpts           *imap.ListOptions
	StatusOpts         *imap.StatusOptions
	AppendOpts         *imap.AppendOptions
	AppendSize         int64  // announced size
	AppendRead         int64  // bytes actually read by the stub
	AppendSHA          string // sha256 of the bytes read
	AppendBody         []byte // payload (kept when <= 1 MiB)
	NumSet             imap.NumSet
	UIDs               *imap.UIDSet
	NumKind            imapserver.NumKind
	Criteria           *imap.SearchCriteria
	SearchOpts         *imap.SearchOptions
	FetchOpts          *imap.FetchOptions
	StoreFlags         *imap.StoreFlags
	StoreOpts          *imap.StoreOptions
	AllowExpunge       bool

	// Tag is an opaque value set by the Observer hook (e.g. the reference
	// connection state at the time of the call).
	Tag interface{}
}

// Writers gives a handler access to the response writers of the call.
type Writers struct {
	List    *imapserver.ListWriter
	Fetch   *imapserver.FetchWriter
	Expunge *imapserver.ExpungeWriter
	Move    *imapserver.MoveWriter
	Update  *imapserver.UpdateWriter
	Stop    <-chan struct{}
	Literal imap.LiteralReader
}

// Result is what a handler returns.
type Result struct {
	Err       error
	Select    *imap.SelectData
	Status    *imap.StatusData
	Append    *imap.AppendData
	Search    *imap.SearchData
	Copy      *imap.CopyData
	Namespace *imap.NamespaceData
	SASL      sasl.Server
	// SkipLiteral makes the stub Append return without reading the payload.
	SkipLiteral bool
}

// Handler decides the outcome of a call (and may write responses).
type Handler func(s *Sess, c *Call, w *Writers) Result

// Backend is shared by all sessions of one server.
type Backend struct {
	mu       sync.Mutex
	calls    []*Call
	sessions []*Sess
	Handler  Handler            // nil: DefaultHandler
	Observe  func(c *Call)      // called (under no lock) right after a call is recorded, before the handler
	Mechs    []string           // AuthenticateMechanisms for SASL sessions
	OnNew    func(s *Sess)      // called when a session is created
	NewErr   func(id int) error // if set and returns non-nil, NewSession fails with it
	PreAuth  bool
}

// Sess is one stub session (implements every optional interface).
type Sess struct {
	B      *Backend
	ID     int
	Conn   *imapserver.Conn
	mu     sync.Mutex
	closes int
	User   interface{} // free for handlers
}

func (b *Backend) record(s *Sess, c *Call) *Call {
	b.mu.Lock()
	c.Seq = len(b.calls)
	c.ConnID = s.ID
	b.calls = append(b.calls, c)
	obs := b.Observe
	b.mu.Unlock()
	if obs != nil {
		obs(c)
	}
	return c
}

// Calls returns a snapshot of the recorded calls.
func (b *Backend) Calls() []*Call {
	b.mu.Lock()
	defer b.mu.Unlock()
	return b.calls[:len(b.calls):len(b.calls)] // append-only, see Sessions
}

// CallsSince returns calls with Seq >= n.
func (b *Backend) CallsSince(n int) []*Call {
	b.mu.Lock()
	defer b.mu.Unlock()
	if n > len(b.calls) {
		n = len(b.calls)
	}
	return append([]*Call(nil), b.calls[n:]...)
}

func (b *Backend) NCalls() int { b.mu.Lock(); defer b.mu.Unlock(); return len(b.calls) }

// Sessions returns all sessions created so far.
func (b *Backend) Sessions() []*Sess {
	b.mu.Lock()
	defer b.mu.Unlock()
	// the slice is append-only and its elements are never replaced: the capacity-limited prefix can be
	// shared, which keeps this O(1) on servers that have seen tens of thousands of connections
	return b.sessions[:len(b.sessions):len(b.sessions)]
}

func (s *Sess) Closes() int { s.mu.Lock(); defer s.mu.Unlock(); return s.closes }

func (b *Backend) newSess(conn *imapserver.Conn) *Sess {
	b.mu.Lock()
	s := &Sess{B: b, ID: len(b.sessions), Conn: conn}
	b.sessions = append(b.sessions, s)
	onNew := b.OnNew
	b.mu.Unlock()
	if onNew != nil {
		onNew(s)
	}
	return s
}

func (s *Sess) handle(c *Call, w *Writers) Result {
	c = s.B.record(s, c)
	h := s.B.Handler
	if h == nil {
		h = DefaultHandler
	}
	if w == nil {
		w = &Writers{}
	}
	return h(s, c, w)
}

// DefaultHandler succeeds with plausible data.
func DefaultHandler(s *Sess, c *Call, w *Writers) Result {
	one := uint32(1)
	sz := int64(10)
	switch c.Method {
	case "Select":
		return Result{Select: &imap.SelectData{Flags: []imap.Flag{imap.FlagSeen}, PermanentFlags: []imap.Flag{imap.FlagSeen, imap.FlagWildcard}, NumMessages: 3, UIDNext: 4, UIDValidity: 1}}
	case "Status":
		return Result{Status: &imap.StatusData{Mailbox: c.Mailbox, NumMessages: &one, UIDNext: 2, UIDValidity: 1, NumUnseen: &one, NumDeleted: &one, Size: &sz, DeletedStorage: &sz}}
	case "Append":
		return Result{Append: &imap.AppendData{UID: 7, UIDValidity: 1}}
	case "Search":
		if c.NumKind == imapserver.NumKindUID {
			return Result{Search: &imap.SearchData{All: imap.UIDSet{}, UID: true}}
		}
		return Result{Search: &imap.SearchData{All: imap.SeqSet{}}}
	case "Copy":
		return Result{Copy: &imap.CopyData{UIDValidity: 1, SourceUIDs: imap.UIDSetNum(1), DestUIDs: imap.UIDSetNum(9)}}
	case "Namespace":
		return Result{Namespace: &imap.NamespaceData{Personal: []imap.NamespaceDescriptor{{Prefix: "", Delim: '/'}}}}
	case "Idle":
		<-w.Stop
	case "Move":
		if w.Move != nil {
			w.Move.WriteCopyData(&imap.CopyData{UIDValidity: 1, SourceUIDs: imap.UIDSetNum(1), DestUIDs: imap.UIDSetNum(9)})
		}
	}
	return Result{}
}

// ---- imapserver.Session ----------------------------------------------------

func (s *Sess) Close() error {
	s.mu.Lock()
	s.closes++
	s.mu.Unlock()
	s.B.record(s, &Call{Method: "Close"})
	return nil
}

func (s *Sess) Login(username, password string) error {
	return s.handle(&Call{Method: "Login", Username: username, Password: password}, nil).Err
}

func (s *Sess) Select(mailbox string, options *imap.SelectOptions) (*imap.SelectData, error) {
	o := *options
	r := s.handle(&Call{Method: "Select", Mailbox: mailbox, SelectOpts: &o}, nil)
	return r.Select, r.Err
}

func (s *Sess) Create(mailbox string, options *imap.CreateOptions) error {
	o := imap.CreateOptions{SpecialUse: append([]imap.MailboxAttr(nil), options.SpecialUse...)}
	return s.handle(&Call{Method: "Create", Mailbox: mailbox, CreateOpts: &o}, nil).Err
}

func (s *Sess) Delete(mailbox string) error {
	return s.handle(&Call{Method: "Delete", Mailbox: mailbox}, nil).Err
}

func (s *Sess) Rename(mailbox, newName string) error {
	return s.handle(&Call{Method: "Rename", Mailbox: mailbox, Mailbox2: newName}, nil).Err
}

func (s *Sess) Subscribe(mailbox string) error {
	return s.handle(&Call{Method: "Subscribe", Mailbox: mailbox}, nil).Err
}

func (s *Sess) Unsubscribe(mailbox string) error {
	return s.handle(&Call{Method: "Unsubscribe", Mailbox: mailbox}, nil).Err
}

func cloneStatusOpts(o *imap.StatusOptions) *imap.StatusOptions {
	if o == nil {
		return nil
	}
	c := *o
	return &c
}

func (s *Sess) List(w *imapserver.ListWriter, ref string, patterns []string, options *imap.ListOptions) error {
	o := *options
	o.ReturnStatus = cloneStatusOpts(options.ReturnStatus)
	return s.handle(&Call{Method: "List", ListRef: ref, ListPatterns: append([]string(nil), patterns...), ListOpts: &o}, &Writers{List: w}).Err
}

func (s *Sess) Status(mailbox string, options *imap.StatusOptions) (*imap.StatusData, error) {
	r := s.handle(&Call{Method: "Status", Mailbox: mailbox, StatusOpts: cloneStatusOpts(options)}, nil)
	return r.Status, r.Err
}

func (s *Sess) Append(mailbox string, r imap.LiteralReader, options *imap.AppendOptions) (*imap.AppendData, error) {
	o := imap.AppendOptions{Flags: append([]imap.Flag(nil), options.Flags...), Time: options.Time}
	c := &Call{Method: "Append", Mailbox: mailbox, AppendOpts: &o, AppendSize: r.Size()}
	// The handler decides first (it may refuse without reading); by default the payload is read fully.
	c = s.B.record(s, c)
	h := s.B.Handler
	if h == nil {
		h = DefaultHandler
	}
	res := h(s, c, &Writers{Literal: r})
	if !res.SkipLiteral {
		hsh := sha256.New()
		var keep []byte
		buf := make([]byte, 32*1024)
		for {
			n, err := r.Read(buf)
			if n > 0 {
				hsh.Write(buf[:n])
				c.AppendRead += int64(n)
				if c.AppendRead <= 1<<20 {
					keep = append(keep, buf[:n]...)
				}
			}
			if err != nil {
				if err != io.EOF && res.Err == nil {
					res.Err = err
				}
				break
			}
		}
		c.AppendSHA = hex.EncodeToString(hsh.Sum(nil))
		if c.AppendRead <= 1<<20 {
			c.AppendBody = keep
		}
	}
	return res.Append, res.Err
}

func (s *Sess) Poll(w *imapserver.UpdateWriter, allowExpunge bool) error {
	return s.handle(&Call{Method: "Poll", AllowExpunge: allowExpunge}, &Writers{Update: w}).Err
}

func (s *Sess) Idle(w *imapserver.UpdateWriter, stop <-chan struct{}) error {
	return s.handle(&Call{Method: "Idle"}, &Writers{Update: w, Stop: stop}).Err
}

func (s *Sess) Unselect() error { return s.handle(&Call{Method: "Unselect"}, nil).Err }

func cloneNumSet(ns imap.NumSet) imap.NumSet {
	switch v := ns.(type) {
	case imap.SeqSet:
		return append(imap.SeqSet(nil), v...)
	case imap.UIDSet:
		if imap.IsSearchRes(v) {
			return v
		}
		return append(imap.UIDSet(nil), v...)
	}
	return ns
}

func (s *Sess) Expunge(w *imapserver.ExpungeWriter, uids *imap.UIDSet) error {
	c := &Call{Method: "Expunge"}
	if uids != nil {
		u := cloneNumSet(*uids).(imap.UIDSet)
		c.UIDs = &u
	}
	return s.handle(c, &Writers{Expunge: w}).Err
}

func (s *Sess) Search(kind imapserver.NumKind, criteria *imap.SearchCriteria, options *imap.SearchOptions) (*imap.SearchData, error) {
	o := *options
	r := s.handle(&Call{Method: "Search", NumKind: kind, Criteria: CloneCriteria(criteria), SearchOpts: &o}, nil)
	return r.Search, r.Err
}

func cloneFetchOpts(o *imap.FetchOptions) *imap.FetchOptions {
	c := *o
	if o.BodyStructure != nil {
		bs := *o.BodyStructure
		c.BodyStructure = &bs
	}
	c.BodySection = nil
	for _, s := range o.BodySection {
		cs := *s
		cs.Part = append([]int(nil), s.Part...)
		cs.HeaderFields = append([]string(nil), s.HeaderFields...)
		cs.HeaderFieldsNot = append([]string(nil), s.HeaderFieldsNot...)
		if s.Partial != nil {
			p := *s.Partial
			cs.Partial = &p
		}
		c.BodySection = append(c.BodySection, &cs)
	}
	c.BinarySection = nil
	for _, s := range o.BinarySection {
		cs := *s
		cs.Part = append([]int(nil), s.Part...)
		if s.Partial != nil {
			p := *s.Partial
			cs.Partial = &p
		}
		c.BinarySection = append(c.BinarySection, &cs)
	}
	c.BinarySectionSize = nil
	for _, s := range o.BinarySectionSize {
		cs := *s
		cs.Part = append([]int(nil), s.Part...)
		c.BinarySectionSize = append(c.BinarySectionSize, &cs)
	}
	return &c
}

// FetchOptsLive is stored next to the deep copy because the server's
// FetchResponseWriter identifies obsolete RFC822* items by pointer identity of
// the section passed back to WriteBodySection.

var liveMu sync.Mutex
var liveFetch = map[*Call]*imap.FetchOptions{}

// LiveFetchOptions returns the original (not copied) options of a Fetch call.
func LiveFetchOptions(c *Call) *imap.FetchOptions {
	liveMu.Lock()
	defer liveMu.Unlock()
	return liveFetch[c]
}

func (s *Sess) Fetch(w *imapserver.FetchWriter, numSet imap.NumSet, options *imap.FetchOptions) error {
	c := &Call{Method: "Fetch", NumSet: cloneNumSet(numSet), FetchOpts: cloneFetchOpts(options)}
	liveMu.Lock()
	liveFetch[c] = options
	liveMu.Unlock()
	defer func() { liveMu.Lock(); delete(liveFetch, c); liveMu.Unlock() }()
	return s.handle(c, &Writers{Fetch: w}).Err
}

func (s *Sess) Store(w *imapserver.FetchWriter, numSet imap.NumSet, flags *imap.StoreFlags, options *imap.StoreOptions) error {
	f := imap.StoreFlags{Op: flags.Op, Silent: flags.Silent, Flags: append([]imap.Flag(nil), flags.Flags...)}
	o := *options
	return s.handle(&Call{Method: "Store", NumSet: cloneNumSet(numSet), StoreFlags: &f, StoreOpts: &o}, &Writers{Fetch: w}).Err
}

func (s *Sess) Copy(numSet imap.NumSet, dest string) (*imap.CopyData, error) {
	r := s.handle(&Call{Method: "Copy", NumSet: cloneNumSet(numSet), Mailbox: dest}, nil)
	return r.Copy, r.Err
}

// ---- optional interfaces ---------------------------------------------------

func (s *Sess) Namespace() (*imap.NamespaceData, error) {
	r := s.handle(&Call{Method: "Namespace"}, nil)
	return r.Namespace, r.Err
}

func (s *Sess) Move(w *imapserver.MoveWriter, numSet imap.NumSet, dest string) error {
	return s.handle(&Call{Method: "Move", NumSet: cloneNumSet(numSet), Mailbox: dest}, &Writers{Move: w}).Err
}

func (s *Sess) Unauthenticate() error { return s.handle(&Call{Method: "Unauthenticate"}, nil).Err }

// SessSASL additionally implements imapserver.SessionSASL.
type SessSASL struct{ *Sess }

func (s SessSASL) AuthenticateMechanisms() []string { return s.B.Mechs }

func (s SessSASL) Authenticate(mech string) (sasl.Server, error) {
	r := s.handle(&Call{Method: "Authenticate", Mech: mech}, nil)
	return r.SASL, r.Err
}

// SessBasic hides the optional interfaces (plain imapserver.Session only).
type SessBasic struct{ s *Sess }

func (b SessBasic) Close() error                                 { return b.s.Close() }
func (b SessBasic) Login(u, p string) error                      { return b.s.Login(u, p) }
func (b SessBasic) Create(m string, o *imap.CreateOptions) error { return b.s.Create(m, o) }
func (b SessBasic) Delete(m string) error                        { return b.s.Delete(m) }
func (b SessBasic) Rename(m, n string) error                     { return b.s.Rename(m, n) }
func (b SessBasic) Subscribe(m string) error                     { return b.s.Subscribe(m) }
func (b SessBasic) Unsubscribe(m string) error                   { return b.s.Unsubscribe(m) }
func (b SessBasic) Unselect() error                              { return b.s.Unselect() }
func (b SessBasic) Select(m string, o *imap.SelectOptions) (*imap.SelectData, error) {
	return b.s.Select(m, o)
}
func (b SessBasic) List(w *imapserver.ListWriter, ref string, p []string, o *imap.ListOptions) error {
	return b.s.List(w, ref, p, o)
}
func (b SessBasic) Status(m string, o *imap.StatusOptions) (*imap.StatusData, error) {
	return b.s.Status(m, o)
}
func (b SessBasic) Append(m string, r imap.LiteralReader, o *imap.AppendOptions) (*imap.AppendData, error) {
	return b.s.Append(m, r, o)
}
func (b SessBasic) Poll(w *imapserver.UpdateWriter, allow bool) error { return b.s.Poll(w, allow) }
func (b SessBasic) Idle(w *imapserver.UpdateWriter, stop <-chan struct{}) error {
	return b.s.Idle(w, stop)
}
func (b SessBasic) Expunge(w *imapserver.ExpungeWriter, u *imap.UIDSet) error {
	return b.s.Expunge(w, u)
}
func (b SessBasic) Search(k imapserver.NumKind, c *imap.SearchCriteria, o *imap.SearchOptions) (*imap.SearchData, error) {
	return b.s.Search(k, c, o)
}
func (b SessBasic) Fetch(w *imapserver.FetchWriter, n imap.NumSet, o *imap.FetchOptions) error {
	return b.s.Fetch(w, n, o)
}
func (b SessBasic) Store(w *imapserver.FetchWriter, n imap.NumSet, f *imap.StoreFlags, o *imap.StoreOptions) error {
	return b.s.Store(w, n, f, o)
}
func (b SessBasic) Copy(n imap.NumSet, d string) (*imap.CopyData, error) { return b.s.Copy(n, d) }

// CloneCriteria deep-copies a criteria tree.
func CloneCriteria(c *imap.SearchCriteria) *imap.SearchCriteria {
	if c == nil {
		return nil
	}
	o := &imap.SearchCriteria{Since: c.Since, Before: c.Before, SentSince: c.SentSince, SentBefore: c.SentBefore, Larger: c.Larger, Smaller: c.Smaller}
	for _, s := range c.SeqNum {
		o.SeqNum = append(o.SeqNum, append(imap.SeqSet(nil), s...))
	}
	for _, s := range c.UID {
		if imap.IsSearchRes(s) {
			o.UID = append(o.UID, s)
		} else {
			o.UID = append(o.UID, append(imap.UIDSet(nil), s...))
		}
	}
	o.Header = append(o.Header, c.Header...)
	o.Body = append(o.Body, c.Body...)
	o.Text = append(o.Text, c.Text...)
	o.Flag = append(o.Flag, c.Flag...)
	o.NotFlag = append(o.NotFlag, c.NotFlag...)
	for i := range c.Not {
		o.Not = append(o.Not, *CloneCriteria(&c.Not[i]))
	}
	for i := range c.Or {
		o.Or = append(o.Or, [2]imap.SearchCriteria{*CloneCriteria(&c.Or[i][0]), *CloneCriteria(&c.Or[i][1])})
	}
	if c.ModSeq != nil {
		ms := *c.ModSeq
		o.ModSeq = &ms
	}
	return o
}
