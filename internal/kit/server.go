package kit

import (
	"bytes"
	"crypto/ecdsa"
	"crypto/elliptic"
	"crypto/rand"
	"crypto/tls"
	"crypto/x509"
	"crypto/x509/pkix"
	"fmt"
	"io"
	"math/big"
	"net"
	"strings"
	"sync"
	"time"

	imap "github.com/emersion/go-imap/v2"
	"github.com/emersion/go-imap/v2/imapserver"
	"github.com/emersion/go-imap/v2/verif/internal/vconn"
	"github.com/emersion/go-imap/v2/verif/internal/wiretok"
)

// LogCapture is an imapserver.Logger that records lines.
type LogCapture struct {
	mu     sync.Mutex
	lines  []string
	panics []string
}

func (l *LogCapture) Printf(format string, args ...interface{}) {
	line := fmt.Sprintf(format, args...)
	l.mu.Lock()
	l.lines = append(l.lines, line)
	if strings.Contains(line, "panic") {
		l.panics = append(l.panics, line)
	}
	l.mu.Unlock()
}

func (l *LogCapture) Lines() []string {
	l.mu.Lock()
	defer l.mu.Unlock()
	return l.lines[:len(l.lines):len(l.lines)] // append-only: the prefix can be shared
}

// Panics returns logged lines that report a recovered panic.
func (l *LogCapture) Panics() []string {
	l.mu.Lock()
	defer l.mu.Unlock()
	return l.panics[:len(l.panics):len(l.panics)]
}

// SessKind selects which optional interfaces the stub sessions expose.
type SessKind int

const (
	SessFull  SessKind = iota // Session + Namespace + Move + Unauthenticate (IMAP4rev2-capable)
	SessSASLk                 // SessFull + SessionSASL
	SessPlain                 // imapserver.Session only
)

// ServerCfg configures a harness server.
type ServerCfg struct {
	Caps         imap.CapSet
	InsecureAuth bool
	TLS          bool // give the server a TLSConfig (STARTTLS available)
	Kind         SessKind
	NewSession   func(*imapserver.Conn) (imapserver.Session, *imapserver.GreetingData, error) // overrides the stub backend
}

// Server is a real imapserver.Server served over vconn.
type Server struct {
	Srv     *imapserver.Server
	B       *Backend
	Log     *LogCapture
	Ln      *vconn.Listener
	TLSConf *tls.Config
	done    chan struct{}
}

var (
	certOnce sync.Once
	certVal  tls.Certificate
	certPool *x509.CertPool
)

// TestCert returns a process-wide self-signed certificate (generated offline).
func TestCert() (tls.Certificate, *x509.CertPool) {
	certOnce.Do(func() {
		key, err := ecdsa.GenerateKey(elliptic.P256(), rand.Reader)
		if err != nil {
			panic(err)
		}
		tmpl := &x509.Certificate{
			SerialNumber: big.NewInt(1), Subject: pkix.Name{CommonName: "verif.test"},
			NotBefore: time.Now().Add(-time.Hour), NotAfter: time.Now().Add(240 * time.Hour),
			KeyUsage: x509.KeyUsageDigitalSignature | x509.KeyUsageCertSign, ExtKeyUsage: []x509.ExtKeyUsage{x509.ExtKeyUsageServerAuth},
			DNSNames: []string{"verif.test"}, IsCA: true, BasicConstraintsValid: true,
		}
		der, err := x509.CreateCertificate(rand.Reader, tmpl, tmpl, &key.PublicKey, key)
		if err != nil {
			panic(err)
		}
		certVal = tls.Certificate{Certificate: [][]byte{der}, PrivateKey: key}
		c, _ := x509.ParseCertificate(der)
		certPool = x509.NewCertPool()
		certPool.AddCert(c)
	})
	return certVal, certPool
}

// ClientTLSConfig returns a client config trusting TestCert.
func ClientTLSConfig() *tls.Config {
	_, pool := TestCert()
	return &tls.Config{RootCAs: pool, ServerName: "verif.test"}
}

// NewServer starts a server.
func NewServer(cfg ServerCfg) *Server {
	s := &Server{B: &Backend{}, Log: &LogCapture{}, Ln: vconn.NewListener(), done: make(chan struct{})}
	opts := &imapserver.Options{Caps: cfg.Caps, Logger: s.Log, InsecureAuth: cfg.InsecureAuth}
	if cfg.TLS {
		cert, _ := TestCert()
		s.TLSConf = &tls.Config{Certificates: []tls.Certificate{cert}}
		opts.TLSConfig = s.TLSConf
	}
	if cfg.NewSession != nil {
		opts.NewSession = cfg.NewSession
	} else {
		opts.NewSession = func(c *imapserver.Conn) (imapserver.Session, *imapserver.GreetingData, error) {
			if s.B.NewErr != nil {
				if err := s.B.NewErr(len(s.B.Sessions())); err != nil {
					return nil, nil, err
				}
			}
			sess := s.B.newSess(c)
			var gd *imapserver.GreetingData
			if s.B.PreAuth {
				gd = &imapserver.GreetingData{PreAuth: true}
			}
			switch cfg.Kind {
			case SessSASLk:
				return SessSASL{sess}, gd, nil
			case SessPlain:
				return SessBasic{sess}, gd, nil
			}
			return sess, gd, nil
		}
	}
	s.Srv = imapserver.New(opts)
	go func() {
		s.Srv.Serve(s.Ln)
		close(s.done)
	}()
	return s
}

// Close stops the server.
func (s *Server) Close() {
	s.Srv.Close()
	<-s.done
}

// Raw is a raw lock-step client connection.
type Raw struct {
	C, S *vconn.Conn // client and server endpoints
	Log  *vconn.Log
	rw   io.ReadWriter // C or a *tls.Conn on top of C

	mu       sync.Mutex
	cond     *sync.Cond
	acc      []byte // everything received and not yet taken
	all      []byte // everything received
	eof      bool
	readErr  error
	pumpGen  int
	pumpDone chan struct{}

	HandshakeErr error
}

// Dial connects a raw client.
func (s *Server) Dial() *Raw { return s.DialArm(nil) }

// DialArm is Dial with a hook that runs on the server endpoint before the
// server starts using it (to arm faults).
func (s *Server) DialArm(arm func(sv *vconn.Conn)) *Raw {
	log := &vconn.Log{}
	c, sv := vconn.Pipe("client", "server", log)
	if arm != nil {
		arm(sv)
	}
	s.Ln.Inject(sv)
	r := &Raw{C: c, S: sv, Log: log, rw: c}
	r.cond = sync.NewCond(&r.mu)
	r.pumpDone = make(chan struct{})
	go r.pump(c, 0, r.pumpDone)
	return r
}

// DialTLS connects with implicit TLS (the server side is wrapped by tls.Server).
func (s *Server) DialTLS() (*Raw, error) { return s.DialTLSArm(nil) }

// DialTLSArm is DialTLS with a fault-arming hook; on a handshake failure the
// Raw is still returned (with HandshakeErr set) so that the caller can observe
// the server endpoint.
func (s *Server) DialTLSArm(arm func(sv *vconn.Conn)) (*Raw, error) {
	log := &vconn.Log{}
	c, sv := vconn.Pipe("client", "server", log)
	if arm != nil {
		arm(sv)
	}
	s.Ln.Inject(tls.Server(sv, s.TLSConf))
	tc := tls.Client(c, ClientTLSConfig())
	r := &Raw{C: c, S: sv, Log: log, rw: tc}
	r.cond = sync.NewCond(&r.mu)
	if err := tc.Handshake(); err != nil {
		r.HandshakeErr = err
		r.eof = true
		return r, err
	}
	r.pumpDone = make(chan struct{})
	go r.pump(tc, 0, r.pumpDone)
	return r, nil
}

// DialTLSExternal connects through TLS terminated by a listener wrapper the server does not know
// about (tls.NewListener in front of a Server that has no TLSConfig of its own).
func (s *Server) DialTLSExternal() (*Raw, error) {
	cert, _ := TestCert()
	log := &vconn.Log{}
	c, sv := vconn.Pipe("client", "server", log)
	s.Ln.Inject(tls.Server(sv, &tls.Config{Certificates: []tls.Certificate{cert}}))
	tc := tls.Client(c, ClientTLSConfig())
	r := &Raw{C: c, S: sv, Log: log, rw: tc}
	r.cond = sync.NewCond(&r.mu)
	if err := tc.Handshake(); err != nil {
		r.HandshakeErr = err
		r.eof = true
		return r, err
	}
	r.pumpDone = make(chan struct{})
	go r.pump(tc, 0, r.pumpDone)
	return r, nil
}

func (r *Raw) pump(rd io.Reader, gen int, done chan struct{}) {
	defer close(done)
	buf := make([]byte, 64*1024)
	for {
		n, err := rd.Read(buf)
		r.mu.Lock()
		if r.pumpGen != gen {
			// superseded (STARTTLS upgrade): hand the bytes over untouched
			r.acc = append(r.acc, buf[:n]...)
			r.all = append(r.all, buf[:n]...)
			r.cond.Broadcast()
			r.mu.Unlock()
			return
		}
		if n > 0 {
			r.acc = append(r.acc, buf[:n]...)
			r.all = append(r.all, buf[:n]...)
		}
		if err != nil {
			r.eof = true
			r.readErr = err
			r.cond.Broadcast()
			r.mu.Unlock()
			return
		}
		r.cond.Broadcast()
		r.mu.Unlock()
	}
}

// Send writes bytes to the server.
func (r *Raw) Send(b []byte) error {
	_, err := r.rw.Write(b)
	return err
}

func (r *Raw) SendStr(s string) error { return r.Send([]byte(s)) }

// SyncTimeout is the wall-clock backstop of Sync (never a verdict by itself).
var SyncTimeout = 60 * time.Second

// Sync waits until the server has consumed everything sent so far and is
// blocked waiting for more input (or has closed the connection), and until the
// client-side pump has drained what the server wrote. It returns the bytes
// received since the previous Sync/Take and the server's condition:
// "parked", "closed" or "timeout".
func (r *Raw) Sync() ([]byte, string) {
	st := r.S.WaitParked(SyncTimeout)
	if st == "closed" {
		// server closed its endpoint: wait for the pump to see EOF
		deadline := time.Now().Add(SyncTimeout)
		r.mu.Lock()
		for !r.eof && time.Now().Before(deadline) {
			r.mu.Unlock()
			time.Sleep(200 * time.Microsecond)
			r.mu.Lock()
		}
		r.mu.Unlock()
	} else {
		r.C.WaitParked(SyncTimeout)
	}
	return r.Take(), st
}

// Take returns (and clears) what was received so far, without waiting.
func (r *Raw) Take() []byte {
	r.mu.Lock()
	defer r.mu.Unlock()
	b := r.acc
	r.acc = nil
	return b
}

// All returns everything received on this connection.
func (r *Raw) All() []byte { r.mu.Lock(); defer r.mu.Unlock(); return append([]byte(nil), r.all...) }

// EOF reports whether the server closed the connection (as seen by the client).
func (r *Raw) EOF() bool { r.mu.Lock(); defer r.mu.Unlock(); return r.eof }

// WaitFor blocks until pred(accumulated bytes) is true, EOF, or the backstop expires.
func (r *Raw) WaitFor(pred func(b []byte) bool, d time.Duration) bool {
	deadline := time.Now().Add(d)
	t := time.AfterFunc(d, func() { r.mu.Lock(); r.cond.Broadcast(); r.mu.Unlock() })
	defer t.Stop()
	r.mu.Lock()
	defer r.mu.Unlock()
	for {
		if pred(r.acc) {
			return true
		}
		if r.eof || !time.Now().Before(deadline) {
			return false
		}
		r.cond.Wait()
	}
}

// Close closes the client side.
func (r *Raw) Close() { r.C.Close() }

// StartTLSUpgrade switches the raw client to TLS (after the tagged OK to
// STARTTLS was received). Bytes already received stay in the accumulator.
func (r *Raw) StartTLSUpgrade() error {
	// stop the plaintext pump: it is blocked in C.Read; bump the generation and
	// let the TLS client read from C directly. The old pump would steal bytes,
	// so it must be parked and then cancelled by a zero-byte wakeup: we use a
	// deadline in the far past, which makes the blocked Read return.
	r.mu.Lock()
	r.pumpGen++
	gen := r.pumpGen
	r.mu.Unlock()
	old := r.pumpDone
	r.C.SetReadDeadline(time.Unix(1, 0))
	select {
	case <-old:
	case <-time.After(SyncTimeout):
		return fmt.Errorf("plaintext pump did not stop")
	}
	r.mu.Lock()
	r.eof = false
	r.readErr = nil
	r.mu.Unlock()
	r.C.SetReadDeadline(time.Time{})
	tc := tls.Client(r.C, ClientTLSConfig())
	if err := tc.Handshake(); err != nil {
		return err
	}
	r.rw = tc
	r.pumpDone = make(chan struct{})
	go r.pump(tc, gen, r.pumpDone)
	return nil
}

// ---------------------------------------------------------------------------

// RespLine is one parsed server response line.
type RespLine struct {
	Raw    []byte
	Toks   []wiretok.Tok
	Strict wiretok.Strict
	Tag    string // "*", "+", or the tag
	Status string // OK/NO/BAD/BYE/PREAUTH for status responses (upper-cased), else ""
	Code   string // response code name (upper-cased), if any
	Kind   string // for untagged data: e.g. "EXISTS", "FETCH", "LIST", "SEARCH" (upper-cased)
	Num    uint32 // leading number of "* n EXISTS/EXPUNGE/FETCH/RECENT"
}

// ParseResponses splits server output into lines and classifies them. rest is
// an incomplete tail (must be empty at a quiescent point).
func ParseResponses(b []byte) (out []RespLine, rest []byte) {
	lines, rest := wiretok.Lines(b)
	for _, ln := range lines {
		toks, st := wiretok.Tokenize(ln)
		rl := RespLine{Raw: ln, Toks: toks, Strict: st}
		if len(toks) > 0 && toks[0].Kind == wiretok.Atom {
			rl.Tag = toks[0].S
		} else if bytes.HasPrefix(ln, []byte("+")) {
			rl.Tag = "+"
		}
		if rl.Tag == "+" {
			out = append(out, rl)
			continue
		}
		if len(toks) > 1 && toks[1].Kind == wiretok.Atom {
			w := strings.ToUpper(toks[1].S)
			switch w {
			case "OK", "NO", "BAD", "BYE", "PREAUTH":
				rl.Status = w
				if len(toks) > 2 && toks[2].Kind == wiretok.Atom && strings.HasPrefix(toks[2].S, "[") {
					rl.Code = strings.ToUpper(strings.TrimRight(strings.TrimPrefix(toks[2].S, "["), "]"))
				}
			default:
				if rl.Tag == "*" {
					if n, ok := parseU32(w); ok && len(toks) > 2 && toks[2].Kind == wiretok.Atom {
						rl.Num = n
						rl.Kind = strings.ToUpper(toks[2].S)
					} else {
						rl.Kind = w
					}
				}
			}
		}
		out = append(out, rl)
	}
	return out, rest
}

func parseU32(s string) (uint32, bool) {
	if s == "" || len(s) > 10 {
		return 0, false
	}
	var v uint64
	for i := 0; i < len(s); i++ {
		if s[i] < '0' || s[i] > '9' {
			return 0, false
		}
		v = v*10 + uint64(s[i]-'0')
	}
	if v > 0xFFFFFFFF {
		return 0, false
	}
	return uint32(v), true
}

// Tagged returns the tagged status lines among rs.
func Tagged(rs []RespLine) []RespLine {
	var out []RespLine
	for _, r := range rs {
		if r.Tag != "*" && r.Tag != "+" && r.Status != "" {
			out = append(out, r)
		}
	}
	return out
}

var _ net.Conn = (*vconn.Conn)(nil)
