package kit

import (
	"bytes"
	"crypto/tls"
	"fmt"
	"strings"
	"sync"
	"time"

	imap "github.com/emersion/go-imap/v2"
	"github.com/emersion/go-imap/v2/imapserver"
	"github.com/emersion/go-imap/v2/imapserver/imapmemserver"
	"github.com/emersion/go-imap/v2/verif/internal/vconn"
)

// Lit is an imap.LiteralReader over a byte slice.
type Lit struct {
	*bytes.Reader
	n int64
}

func NewLit(b []byte) *Lit { return &Lit{Reader: bytes.NewReader(b), n: int64(len(b))} }
func (l *Lit) Size() int64 { return l.n }

// Mem is a real imapserver.Server backed by the in-memory backend, served over vconn.
type Mem struct {
	Srv     *imapserver.Server
	Backend *imapmemserver.Server
	User    *imapmemserver.User
	Log     *LogCapture
	Ln      *vconn.Listener
	TLSConf *tls.Config
	done    chan struct{}
}

// MemCfg configures NewMem.
type MemCfg struct {
	Caps     imap.CapSet // nil: IMAP4rev1 + IMAP4rev2
	TLS      bool
	Insecure bool // InsecureAuth (default true when TLS is false)
	// Wrap, if set, decorates every backend session (e.g. to count Close calls)
	Wrap func(imapserver.Session) imapserver.Session
}

// NewMem starts a server with one user "user"/"pass" and no mailbox.
func NewMem(cfg MemCfg) *Mem {
	m := &Mem{Backend: imapmemserver.New(), Log: &LogCapture{}, Ln: vconn.NewListener(), done: make(chan struct{})}
	m.User = imapmemserver.NewUser("user", "pass")
	m.Backend.AddUser(m.User)
	caps := cfg.Caps
	if caps == nil {
		caps = imap.CapSet{imap.CapIMAP4rev1: {}, imap.CapIMAP4rev2: {}}
	}
	opts := &imapserver.Options{
		NewSession: func(*imapserver.Conn) (imapserver.Session, *imapserver.GreetingData, error) {
			if cfg.Wrap != nil {
				return cfg.Wrap(m.Backend.NewSession()), nil, nil
			}
			return m.Backend.NewSession(), nil, nil
		},
		Caps: caps, Logger: m.Log, InsecureAuth: cfg.Insecure || !cfg.TLS,
	}
	if cfg.TLS {
		cert, _ := TestCert()
		m.TLSConf = &tls.Config{Certificates: []tls.Certificate{cert}}
		opts.TLSConfig = m.TLSConf
	}
	m.Srv = imapserver.New(opts)
	go func() {
		m.Srv.Serve(m.Ln)
		close(m.done)
	}()
	return m
}

func (m *Mem) Close() {
	m.Srv.Close()
	<-m.done
}

// Pipe returns a connected (client, server) endpoint pair whose server side is
// being served; arm runs on both before the server sees the connection.
func (m *Mem) Pipe(arm func(c, s *vconn.Conn)) (c, s *vconn.Conn, log *vconn.Log) {
	log = &vconn.Log{}
	c, s = vconn.Pipe("client", "server", log)
	if arm != nil {
		arm(c, s)
	}
	m.Ln.Inject(s)
	return c, s, log
}

// DialRaw connects a raw lock-step client.
func (m *Mem) DialRaw() *Raw {
	c, s, log := m.Pipe(nil)
	return NewRaw(c, s, log)
}

// NewRaw wraps an existing endpoint pair.
func NewRaw(c, s *vconn.Conn, log *vconn.Log) *Raw {
	r := &Raw{C: c, S: s, Log: log, rw: c}
	r.cond = newCond(&r.mu)
	r.pumpDone = make(chan struct{})
	go r.pump(c, 0, r.pumpDone)
	return r
}

// Message builders --------------------------------------------------------------

// SimpleMessage returns a plain text message.
func SimpleMessage(subject, from, body string, date time.Time) []byte {
	var b strings.Builder
	fmt.Fprintf(&b, "From: %s\r\nTo: someone@example.org\r\nSubject: %s\r\nDate: %s\r\nMessage-Id: <%x@example.org>\r\nContent-Type: text/plain; charset=utf-8\r\n\r\n%s",
		from, subject, date.Format("Mon, 02 Jan 2006 15:04:05 -0700"), len(subject)*7919+len(body), body)
	return []byte(b.String())
}

// MultipartMessage returns a multipart/mixed message with a text part and an attachment.
func MultipartMessage(subject string, date time.Time, attachment []byte) []byte {
	var b strings.Builder
	fmt.Fprintf(&b, "From: Alice <alice@example.com>\r\nTo: bob@example.org\r\nSubject: %s\r\nDate: %s\r\nMIME-Version: 1.0\r\nContent-Type: multipart/mixed; boundary=XyZ\r\n\r\n", subject, date.Format("Mon, 02 Jan 2006 15:04:05 -0700"))
	b.WriteString("preamble\r\n--XyZ\r\nContent-Type: text/plain\r\n\r\nHello part one\r\n--XyZ\r\nContent-Type: application/octet-stream\r\nContent-Disposition: attachment; filename=\"a.bin\"\r\nContent-Transfer-Encoding: base64\r\n\r\n")
	b.Write(attachment)
	b.WriteString("\r\n--XyZ--\r\n")
	return []byte(b.String())
}

// Populate creates the mailbox (if needed) and appends the messages.
func (m *Mem) Populate(mailbox string, msgs [][]byte, flags [][]imap.Flag) {
	m.User.Create(mailbox, &imap.CreateOptions{})
	for i, b := range msgs {
		opts := &imap.AppendOptions{Time: time.Date(2023, 1, 1+i, 10, 0, 0, 0, time.UTC)}
		if i < len(flags) {
			opts.Flags = flags[i]
		}
		m.User.Append(mailbox, NewLit(b), opts)
	}
}

func newCond(mu *sync.Mutex) *sync.Cond { return sync.NewCond(mu) }
