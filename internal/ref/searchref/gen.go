package searchref

import (
	"fmt"
	"math/rand"
	"strings"
	"time"

	imap "github.com/emersion/go-imap/v2"
)

// Loc is the zone of every generated time (bounds and message dates alike, so that the calendar
// date of each is unambiguous). UTC unless a check selects another one before generating.
var Loc = time.UTC

// D returns a time in Loc on the given day of January/February 2020.
func D(month time.Month, day, hour, min int) time.Time {
	return time.Date(2020, month, day, hour, min, 0, 0, Loc)
}

var (
	uniSizes = []int64{50, 99, 100, 101, 199, 200, 201, 999, 1000, 1001}
	uniSubj  = []string{"hello world", "Other Things", ""}
	uniFrom  = []string{"bob@example.org", "Alice <alice@example.com>"}
	uniBody  = []string{"alpha beta", "only alpha here", "gamma delta", ""}
	uniFlags = []string{"\\seen", "\\deleted", "\\recent", "kw1", "\\answered", "\\flagged", "\\draft"}
)

// Universe builds a deterministic message universe in which every field value
// used by Pool / the SEARCH key alphabet is both present and absent.
func Universe(n int) ([]Msg, Ctx) {
	rng := rand.New(rand.NewSource(20200110))
	uniDates := []time.Time{D(1, 9, 23, 59), D(1, 10, 0, 0), D(1, 10, 13, 45), D(1, 11, 0, 1), D(1, 14, 12, 0), D(1, 15, 0, 0), D(1, 15, 23, 59), D(1, 16, 8, 0), D(1, 31, 23, 0), D(2, 1, 0, 0), D(2, 1, 17, 0), D(2, 2, 1, 0)}
	u := make([]Msg, n)
	for i := range u {
		m := &u[i]
		m.Seq = uint32(i + 1)
		m.UID = uint32(3*i + 2)
		m.Size = uniSizes[rng.Intn(len(uniSizes))]
		m.Internal = uniDates[rng.Intn(len(uniDates))]
		if rng.Intn(8) != 0 {
			m.Sent = uniDates[rng.Intn(len(uniDates))]
		}
		m.Headers = map[string][]string{}
		var text []string
		if s := uniSubj[rng.Intn(len(uniSubj))]; s != "" {
			m.Headers["subject"] = []string{s}
			text = append(text, "Subject: "+s)
		}
		f := uniFrom[rng.Intn(len(uniFrom))]
		m.Headers["from"] = []string{f}
		text = append(text, "From: "+f)
		if rng.Intn(2) == 0 {
			m.Headers["x-foo"] = []string{"bar"}
			text = append(text, "X-Foo: bar")
		}
		if rng.Intn(3) == 0 {
			m.Headers["to"] = []string{"carol@example.net"}
			text = append(text, "To: carol@example.net")
		}
		if rng.Intn(4) == 0 {
			m.Headers["cc"] = []string{"dave@example.net"}
			text = append(text, "Cc: dave@example.net")
		}
		m.Body = uniBody[rng.Intn(len(uniBody))]
		m.Text = strings.Join(text, "\r\n") + "\r\n\r\n" + m.Body
		m.Flags = map[string]bool{}
		for _, fl := range uniFlags {
			if rng.Intn(3) == 0 {
				m.Flags[fl] = true
			}
		}
	}
	return u, Ctx{MaxSeq: uint32(n), MaxUID: u[n-1].UID, Saved: [][2]uint32{{5, 40}, {77, 77}, {200, 260}}}
}

func seqSet(s string) imap.SeqSet {
	var out imap.SeqSet
	for _, part := range strings.Split(s, ",") {
		var a, b uint32
		ab := strings.Split(part, ":")
		fmt.Sscanf(strings.Replace(ab[0], "*", "0", 1), "%d", &a)
		b = a
		if len(ab) == 2 {
			fmt.Sscanf(strings.Replace(ab[1], "*", "0", 1), "%d", &b)
		}
		out = append(out, imap.SeqRange{Start: a, Stop: b})
	}
	return out
}

func uidSet(s string) imap.UIDSet {
	var out imap.UIDSet
	for _, r := range seqSet(s) {
		out = append(out, imap.UIDRange{Start: imap.UID(r.Start), Stop: imap.UID(r.Stop)})
	}
	return out
}

// Singles returns single-field criteria covering every field, with boundary values.
func Singles() []imap.SearchCriteria {
	var p []imap.SearchCriteria
	p = append(p, imap.SearchCriteria{}) // ALL
	for _, s := range []string{"1:5", "3", "2:*", "*", "10:20", "1,7,9:12"} {
		p = append(p, imap.SearchCriteria{SeqNum: []imap.SeqSet{seqSet(s)}})
		p = append(p, imap.SearchCriteria{UID: []imap.UIDSet{uidSet(s)}})
	}
	// the saved-result marker '$', alone and under NOT / OR
	p = append(p, imap.SearchCriteria{UID: []imap.UIDSet{imap.SearchRes()}})
	p = append(p, imap.SearchCriteria{Not: []imap.SearchCriteria{{UID: []imap.UIDSet{imap.SearchRes()}}}})
	p = append(p, imap.SearchCriteria{Or: [][2]imap.SearchCriteria{{{UID: []imap.UIDSet{imap.SearchRes()}}, {Flag: []imap.Flag{imap.FlagSeen}}}}})
	for _, d := range []time.Time{D(1, 10, 0, 0), D(1, 10, 13, 45), D(1, 15, 0, 0), D(1, 15, 22, 0), D(2, 1, 0, 0)} {
		p = append(p, imap.SearchCriteria{Since: d}, imap.SearchCriteria{Before: d}, imap.SearchCriteria{SentSince: d}, imap.SearchCriteria{SentBefore: d})
	}
	for _, h := range []imap.SearchCriteriaHeaderField{{Key: "Subject", Value: "hello"}, {Key: "Subject", Value: ""}, {Key: "X-Foo", Value: ""}, {Key: "From", Value: "bob"}, {Key: "from", Value: "ALICE"}, {Key: "To", Value: "carol"}} {
		p = append(p, imap.SearchCriteria{Header: []imap.SearchCriteriaHeaderField{h}})
	}
	// (strings that contain one another, in both cases of letters: "alph" < "alpha" < "alpha beta",
	// and messages exist that contain the shorter one only)
	for _, s := range []string{"alpha", "beta", "gamma", "zeta", "alph", "alpha beta", "ALPHA B", "only alpha"} {
		p = append(p, imap.SearchCriteria{Body: []string{s}})
	}
	for _, s := range []string{"hello", "alpha", "bob", "X-Foo", "alph", "alpha beta", "Alpha Here"} {
		p = append(p, imap.SearchCriteria{Text: []string{s}})
	}
	for _, f := range []imap.Flag{imap.FlagSeen, imap.FlagDeleted, "kw1", "\\SEEN", "\\Recent", imap.FlagAnswered} {
		p = append(p, imap.SearchCriteria{Flag: []imap.Flag{f}}, imap.SearchCriteria{NotFlag: []imap.Flag{f}})
	}
	for _, n := range []int64{100, 200, 1000} {
		p = append(p, imap.SearchCriteria{Larger: n}, imap.SearchCriteria{Smaller: n})
	}
	return p
}

// merge sets the fields of b into a by direct field composition (independent of And).
// It is only used for operands whose scalar fields do not collide.
func compose(parts ...imap.SearchCriteria) (imap.SearchCriteria, bool) {
	var c imap.SearchCriteria
	for _, b := range parts {
		c.SeqNum = append(c.SeqNum, b.SeqNum...)
		c.UID = append(c.UID, b.UID...)
		c.Header = append(c.Header, b.Header...)
		c.Body = append(c.Body, b.Body...)
		c.Text = append(c.Text, b.Text...)
		c.Flag = append(c.Flag, b.Flag...)
		c.NotFlag = append(c.NotFlag, b.NotFlag...)
		c.Not = append(c.Not, b.Not...)
		c.Or = append(c.Or, b.Or...)
		for _, pair := range []struct {
			dst *time.Time
			src time.Time
		}{{&c.Since, b.Since}, {&c.Before, b.Before}, {&c.SentSince, b.SentSince}, {&c.SentBefore, b.SentBefore}} {
			if !pair.src.IsZero() {
				if !pair.dst.IsZero() {
					return c, false
				}
				*pair.dst = pair.src
			}
		}
		if b.Larger != 0 {
			if c.Larger != 0 {
				return c, false
			}
			c.Larger = b.Larger
		}
		if b.Smaller != 0 {
			if c.Smaller != 0 {
				return c, false
			}
			c.Smaller = b.Smaller
		}
	}
	return c, true
}

// Pool returns the criteria pool: singles, NOT/OR trees over singles, and
// multi-field criteria composed directly (without And).
func Pool(rng *rand.Rand, n int) []imap.SearchCriteria {
	singles := Singles()
	pool := append([]imap.SearchCriteria(nil), singles...)
	pick := func() imap.SearchCriteria { return *Clone(&singles[rng.Intn(len(singles))]) }
	for len(pool) < n {
		switch rng.Intn(6) {
		case 0:
			pool = append(pool, imap.SearchCriteria{Not: []imap.SearchCriteria{pick()}})
		case 1:
			pool = append(pool, imap.SearchCriteria{Or: [][2]imap.SearchCriteria{{pick(), pick()}}})
		case 2:
			inner, ok := compose(pick(), pick())
			if ok {
				pool = append(pool, imap.SearchCriteria{Not: []imap.SearchCriteria{inner}, Or: [][2]imap.SearchCriteria{{pick(), imap.SearchCriteria{Not: []imap.SearchCriteria{pick()}}}}})
			}
		default:
			k := 2 + rng.Intn(3)
			parts := make([]imap.SearchCriteria, k)
			for i := range parts {
				parts[i] = pick()
			}
			if c, ok := compose(parts...); ok {
				pool = append(pool, c)
			}
		}
	}
	return pool
}

// Describe renders a criteria compactly for samples / signatures.
func Describe(c *imap.SearchCriteria) string {
	var p []string
	for _, s := range c.SeqNum {
		p = append(p, "seq="+s.String())
	}
	for _, s := range c.UID {
		p = append(p, "uid="+s.String())
	}
	d := func(n string, t time.Time) {
		if !t.IsZero() {
			p = append(p, n+"="+t.Format("2006-01-02T15:04"))
		}
	}
	d("since", c.Since)
	d("before", c.Before)
	d("sentsince", c.SentSince)
	d("sentbefore", c.SentBefore)
	for _, h := range c.Header {
		p = append(p, fmt.Sprintf("header(%s:%q)", h.Key, h.Value))
	}
	for _, s := range c.Body {
		p = append(p, "body="+s)
	}
	for _, s := range c.Text {
		p = append(p, "text="+s)
	}
	for _, f := range c.Flag {
		p = append(p, "flag="+string(f))
	}
	for _, f := range c.NotFlag {
		p = append(p, "notflag="+string(f))
	}
	if c.Larger != 0 {
		p = append(p, fmt.Sprintf("larger=%d", c.Larger))
	}
	if c.Smaller != 0 {
		p = append(p, fmt.Sprintf("smaller=%d", c.Smaller))
	}
	for i := range c.Not {
		p = append(p, "not("+Describe(&c.Not[i])+")")
	}
	for i := range c.Or {
		p = append(p, "or("+Describe(&c.Or[i][0])+" | "+Describe(&c.Or[i][1])+")")
	}
	if len(p) == 0 {
		return "all"
	}
	return strings.Join(p, " ")
}

// Fields lists which fields are populated (for class / signature purposes).
func Fields(c *imap.SearchCriteria) string {
	var p []string
	add := func(b bool, n string) {
		if b {
			p = append(p, n)
		}
	}
	add(len(c.SeqNum) > 0, "seq")
	add(len(c.UID) > 0, "uid")
	add(!c.Since.IsZero(), "since")
	add(!c.Before.IsZero(), "before")
	add(!c.SentSince.IsZero(), "sentsince")
	add(!c.SentBefore.IsZero(), "sentbefore")
	add(len(c.Header) > 0, "header")
	add(len(c.Body) > 0, "body")
	add(len(c.Text) > 0, "text")
	add(len(c.Flag) > 0, "flag")
	add(len(c.NotFlag) > 0, "notflag")
	add(c.Larger != 0, "larger")
	add(c.Smaller != 0, "smaller")
	add(len(c.Not) > 0, "not")
	add(len(c.Or) > 0, "or")
	if len(p) == 0 {
		return "all"
	}
	return strings.Join(p, "+")
}
