// Package searchref is an independent reference matcher for imap.SearchCriteria,
// written from RFC 9051 §6.4.4 and the field documentation of the public type.
package searchref

import (
	"strings"
	"time"

	imap "github.com/emersion/go-imap/v2"
)

// Msg is the abstract message the matcher looks at.
type Msg struct {
	Seq, UID uint32
	Internal time.Time           // INTERNALDATE
	Sent     time.Time           // Date: header (zero = no / unparsable Date header)
	Headers  map[string][]string // lower-cased field name -> values
	Body     string              // body text
	Text     string              // header + body text
	Flags    map[string]bool     // lower-cased flags
	Size     int64
}

// Ctx gives the meaning of '*' in sets.
type Ctx struct {
	MaxSeq, MaxUID uint32
	// Saved is the saved search result '$' (UID ranges) that imap.SearchRes() stands for
	Saved [][2]uint32
}

func setContains(ranges [][2]uint32, q, max uint32) bool {
	for _, r := range ranges {
		a, b := r[0], r[1]
		if a == 0 {
			a = max
		}
		if b == 0 {
			b = max
		}
		if a > b {
			a, b = b, a
		}
		if a <= q && q <= b {
			return true
		}
	}
	return false
}

func seqRanges(s imap.SeqSet) [][2]uint32 {
	out := make([][2]uint32, len(s))
	for i, r := range s {
		out[i] = [2]uint32{r.Start, r.Stop}
	}
	return out
}

func uidRanges(s imap.UIDSet) [][2]uint32 {
	out := make([][2]uint32, len(s))
	for i, r := range s {
		out[i] = [2]uint32{uint32(r.Start), uint32(r.Stop)}
	}
	return out
}

// day truncates to the calendar date in the time's own zone ("only the date is used").
func day(t time.Time) int {
	y, m, d := t.Date()
	return y*10000 + int(m)*100 + d
}

func containsFold(hay, needle string) bool {
	return strings.Contains(strings.ToLower(hay), strings.ToLower(needle))
}

// Match implements the conjunction of all populated fields.
func Match(c *imap.SearchCriteria, m *Msg, ctx Ctx) bool {
	for _, s := range c.SeqNum {
		if !setContains(seqRanges(s), m.Seq, ctx.MaxSeq) {
			return false
		}
	}
	for _, s := range c.UID {
		if imap.IsSearchRes(s) {
			// '$': the saved result, not the (empty) set that carries the marker
			if !setContains(ctx.Saved, m.UID, ctx.MaxUID) {
				return false
			}
			continue
		}
		if !setContains(uidRanges(s), m.UID, ctx.MaxUID) {
			return false
		}
	}
	if !c.Since.IsZero() && !(day(m.Internal) >= day(c.Since)) {
		return false
	}
	if !c.Before.IsZero() && !(day(m.Internal) < day(c.Before)) {
		return false
	}
	if !c.SentSince.IsZero() && !(!m.Sent.IsZero() && day(m.Sent) >= day(c.SentSince)) {
		return false
	}
	if !c.SentBefore.IsZero() && !(!m.Sent.IsZero() && day(m.Sent) < day(c.SentBefore)) {
		return false
	}
	for _, h := range c.Header {
		vals, ok := m.Headers[strings.ToLower(h.Key)]
		if !ok {
			return false
		}
		found := h.Value == ""
		for _, v := range vals {
			if containsFold(v, h.Value) {
				found = true
			}
		}
		if !found {
			return false
		}
	}
	for _, b := range c.Body {
		if !containsFold(m.Body, b) {
			return false
		}
	}
	for _, t := range c.Text {
		if !containsFold(m.Text, t) {
			return false
		}
	}
	for _, f := range c.Flag {
		if !m.Flags[strings.ToLower(string(f))] {
			return false
		}
	}
	for _, f := range c.NotFlag {
		if m.Flags[strings.ToLower(string(f))] {
			return false
		}
	}
	if c.Larger != 0 && !(m.Size > c.Larger) {
		return false
	}
	if c.Smaller != 0 && !(m.Size < c.Smaller) {
		return false
	}
	for i := range c.Not {
		if Match(&c.Not[i], m, ctx) {
			return false
		}
	}
	for i := range c.Or {
		if !Match(&c.Or[i][0], m, ctx) && !Match(&c.Or[i][1], m, ctx) {
			return false
		}
	}
	return true
}

// Clone deep-copies a criteria tree (no backing array is shared with the original).
func Clone(c *imap.SearchCriteria) *imap.SearchCriteria {
	if c == nil {
		return nil
	}
	o := &imap.SearchCriteria{Since: c.Since, Before: c.Before, SentSince: c.SentSince, SentBefore: c.SentBefore, Larger: c.Larger, Smaller: c.Smaller}
	for _, s := range c.SeqNum {
		o.SeqNum = append(o.SeqNum, append(imap.SeqSet(nil), s...))
	}
	for _, s := range c.UID {
		if imap.IsSearchRes(s) {
			o.UID = append(o.UID, s) // the marker is recognised by identity
			continue
		}
		o.UID = append(o.UID, append(imap.UIDSet(nil), s...))
	}
	o.Header = append(o.Header, c.Header...)
	o.Body = append(o.Body, c.Body...)
	o.Text = append(o.Text, c.Text...)
	o.Flag = append(o.Flag, c.Flag...)
	o.NotFlag = append(o.NotFlag, c.NotFlag...)
	for i := range c.Not {
		o.Not = append(o.Not, *Clone(&c.Not[i]))
	}
	for i := range c.Or {
		o.Or = append(o.Or, [2]imap.SearchCriteria{*Clone(&c.Or[i][0]), *Clone(&c.Or[i][1])})
	}
	if c.ModSeq != nil {
		ms := *c.ModSeq
		o.ModSeq = &ms
	}
	return o
}

// Selected returns the bitmap of universe members matched by c.
func Selected(c *imap.SearchCriteria, u []Msg, ctx Ctx) []bool {
	out := make([]bool, len(u))
	for i := range u {
		out[i] = Match(c, &u[i], ctx)
	}
	return out
}
