// Package utf7ref is an independent reference for RFC 3501 §5.1.3 modified
// UTF-7 (written from the RFC text, sharing no code with internal/utf7).
package utf7ref

import (
	"unicode/utf16"
	"unicode/utf8"
)

// Verdict of the reference decoder for one input.
type Verdict int

const (
	MustReject  Verdict = iota // malformed by a rule the property names
	MustAccept                 // well formed and canonical: Out is the only correct decoding
	Unspecified                // formally sloppy but decodable (non-zero padding bits): either behaviour is admissible
)

func b64val(c byte) int {
	switch {
	case c >= 'A' && c <= 'Z':
		return int(c - 'A')
	case c >= 'a' && c <= 'z':
		return int(c-'a') + 26
	case c >= '0' && c <= '9':
		return int(c-'0') + 52
	case c == '+':
		return 62
	case c == ',':
		return 63
	}
	return -1
}

// Decode classifies in and, when acceptable, returns the decoded UTF-8.
func Decode(in []byte) (Verdict, string, string) {
	var out []byte
	sloppy := false
	prevShift := false // previous token was a base64 shift sequence
	for i := 0; i < len(in); {
		c := in[i]
		if c < 0x20 || c > 0x7e {
			return MustReject, "", "byte outside printable ASCII"
		}
		if c != '&' {
			out = append(out, c)
			prevShift = false
			i++
			continue
		}
		j := i + 1
		for j < len(in) && in[j] != '-' {
			j++
		}
		if j == len(in) {
			return MustReject, "", "unterminated shift"
		}
		seg := in[i+1 : j]
		i = j + 1
		if len(seg) == 0 { // "&-"
			out = append(out, '&')
			prevShift = false
			continue
		}
		if prevShift {
			return MustReject, "", "back-to-back shifts"
		}
		prevShift = true
		var bits uint32
		nbits := 0
		var units []uint16
		var raw []byte
		for _, ch := range seg {
			v := b64val(ch)
			if v < 0 {
				return MustReject, "", "byte outside the modified base64 alphabet inside a shift"
			}
			bits = bits<<6 | uint32(v)
			nbits += 6
			if nbits >= 8 {
				nbits -= 8
				raw = append(raw, byte(bits>>uint(nbits)))
				bits &= (1 << uint(nbits)) - 1
			}
		}
		if len(seg)%4 == 1 {
			return MustReject, "", "impossible base64 length"
		}
		if len(raw)%2 == 1 || len(raw) == 0 {
			return MustReject, "", "odd number of UTF-16 bytes"
		}
		if bits != 0 {
			sloppy = true // non-zero discarded bits: not canonical, but decodable
		}
		for k := 0; k < len(raw); k += 2 {
			units = append(units, uint16(raw[k])<<8|uint16(raw[k+1]))
		}
		for k := 0; k < len(units); k++ {
			u := rune(units[k])
			switch {
			case u >= 0xD800 && u <= 0xDBFF:
				if k+1 >= len(units) || units[k+1] < 0xDC00 || units[k+1] > 0xDFFF {
					return MustReject, "", "lone high surrogate"
				}
				r := utf16.DecodeRune(u, rune(units[k+1]))
				k++
				out = utf8.AppendRune(out, r)
			case u >= 0xDC00 && u <= 0xDFFF:
				return MustReject, "", "lone low surrogate"
			case u >= 0x20 && u <= 0x7e:
				return MustReject, "", "printable ASCII inside base64"
			default:
				out = utf8.AppendRune(out, u)
			}
		}
	}
	if sloppy {
		return Unspecified, string(out), "non-zero padding bits"
	}
	return MustAccept, string(out), ""
}

const b64alpha = "ABCDEFGHIJKLMNOPQRSTUVWXYZabcdefghijklmnopqrstuvwxyz0123456789+,"

// Encode is the canonical RFC 3501 encoding of a valid UTF-8 string.
func Encode(s string) string {
	var out []byte
	var run []uint16
	flush := func() {
		if len(run) == 0 {
			return
		}
		out = append(out, '&')
		var bits uint32
		nbits := 0
		for _, u := range run {
			for _, b := range []byte{byte(u >> 8), byte(u)} {
				bits = bits<<8 | uint32(b)
				nbits += 8
				for nbits >= 6 {
					nbits -= 6
					out = append(out, b64alpha[(bits>>uint(nbits))&63])
				}
				bits &= (1 << uint(nbits)) - 1
			}
		}
		if nbits > 0 {
			out = append(out, b64alpha[(bits<<uint(6-nbits))&63])
		}
		out = append(out, '-')
		run = run[:0]
	}
	for _, r := range s {
		if r >= 0x20 && r <= 0x7e {
			flush()
			if r == '&' {
				out = append(out, '&', '-')
			} else {
				out = append(out, byte(r))
			}
			continue
		}
		if r >= 0x10000 {
			r1, r2 := utf16.EncodeRune(r)
			run = append(run, uint16(r1), uint16(r2))
		} else {
			run = append(run, uint16(r))
		}
	}
	flush()
	return string(out)
}
