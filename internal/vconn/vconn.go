// Package vconn is the instrumented in-process full-duplex net.Conn pair used
// by the monitors: a global ordered event log of every write (the tee), fault
// injection by byte offset in either direction, virtual deadlines, and a "park"
// signal that tells when a side has consumed everything sent to it and is
// blocked waiting for more input (a logical barrier used instead of sleeps).
package vconn

import (
	"errors"
	"io"
	"net"
	"os"
	"sync"
	"time"
)

// Event is one write, in global order.
type Event struct {
	Seq  int
	From string // name of the writing endpoint
	Data []byte
}

// Log is the global ordered tee of a connection pair.
type Log struct {
	mu     sync.Mutex
	events []Event
}

func (l *Log) add(from string, b []byte) {
	l.mu.Lock()
	l.events = append(l.events, Event{Seq: len(l.events), From: from, Data: append([]byte(nil), b...)})
	l.mu.Unlock()
}

// Events returns a snapshot.
func (l *Log) Events() []Event {
	l.mu.Lock()
	defer l.mu.Unlock()
	return append([]Event(nil), l.events...)
}

// Since returns the bytes written by endpoint `from` in the events numbered >= fromEvent, and the
// number of events so far (to be passed as fromEvent next time). Unlike Bytes it does not copy the
// whole history on every call.
func (l *Log) Since(from string, fromEvent int) ([]byte, int) {
	l.mu.Lock()
	defer l.mu.Unlock()
	var out []byte
	for i := fromEvent; i < len(l.events); i++ {
		if l.events[i].From == from {
			out = append(out, l.events[i].Data...)
		}
	}
	return out, len(l.events)
}

// Bytes returns everything written by endpoint `from`, concatenated.
func (l *Log) Bytes(from string) []byte {
	l.mu.Lock()
	defer l.mu.Unlock()
	var out []byte
	for _, e := range l.events {
		if e.From == from {
			out = append(out, e.Data...)
		}
	}
	return out
}

// FaultKind selects what happens at a fault point.
type FaultKind int

const (
	FaultNone  FaultKind = iota
	FaultEOF             // reads return io.EOF (clean close by the peer)
	FaultReset           // reads return a connection-reset error
	FaultStall           // reads block; with a read deadline set they time out at once (virtual time)
)

var ErrReset = &net.OpError{Op: "read", Net: "vconn", Err: errors.New("connection reset by peer")}
var ErrWriteFault = &net.OpError{Op: "write", Net: "vconn", Err: errors.New("broken pipe")}

type addr string

func (a addr) Network() string { return "vconn" }
func (a addr) String() string  { return string(a) }

// Conn is one endpoint.
type Conn struct {
	name string
	peer *Conn
	log  *Log

	mu       sync.Mutex
	cond     *sync.Cond
	in       []byte // bytes written by the peer and not yet read
	inClosed bool   // the peer closed its side (EOF after draining)
	closed   bool   // this endpoint was closed locally
	parked   bool   // a Read is blocked with an empty buffer
	nRead    int64
	nWritten int64

	readFaultAt  int64
	readFault    FaultKind
	writeFaultAt int64 // -1: none
	readDeadline time.Time
	stalled      bool
	maxRead      int // if >0, a Read returns at most this many bytes
	broken       bool
	writeStall   bool // writes block (the peer has stopped reading and its window is full)
}

// Pipe creates a connected pair; writes are logged in l under the endpoint names.
func Pipe(aName, bName string, l *Log) (*Conn, *Conn) {
	if l == nil {
		l = &Log{}
	}
	a := &Conn{name: aName, log: l, writeFaultAt: -1, readFaultAt: -1}
	b := &Conn{name: bName, log: l, writeFaultAt: -1, readFaultAt: -1}
	a.cond = sync.NewCond(&a.mu)
	b.cond = sync.NewCond(&b.mu)
	a.peer, b.peer = b, a
	return a, b
}

func (c *Conn) Name() string { return c.name }
func (c *Conn) Log() *Log    { return c.log }

// SetReadFault arms a fault that fires once this endpoint has read `offset`
// bytes: the bytes before the offset are delivered normally.
func (c *Conn) SetReadFault(offset int64, kind FaultKind) {
	c.mu.Lock()
	c.readFaultAt, c.readFault = offset, kind
	c.cond.Broadcast()
	c.mu.Unlock()
}

// SetWriteFault makes writes of this endpoint fail once `offset` bytes were written.
func (c *Conn) SetWriteFault(offset int64) {
	c.mu.Lock()
	c.writeFaultAt = offset
	c.mu.Unlock()
}

// SetMaxRead bounds the number of bytes a single Read returns (segmentation).
func (c *Conn) SetMaxRead(n int) { c.mu.Lock(); c.maxRead = n; c.mu.Unlock() }

func (c *Conn) faultErr() error {
	switch c.readFault {
	case FaultEOF:
		return io.EOF
	case FaultReset:
		return ErrReset
	}
	return nil
}

func (c *Conn) Read(p []byte) (int, error) {
	c.mu.Lock()
	defer c.mu.Unlock()
	if len(p) == 0 {
		return 0, nil
	}
	for {
		if c.closed {
			return 0, net.ErrClosed
		}
		limit := int64(len(c.in))
		faultHere := false
		if c.readFaultAt >= 0 {
			rem := c.readFaultAt - c.nRead
			if rem <= 0 {
				faultHere = true
				limit = 0
			} else if rem < limit {
				limit = rem
			}
		}
		if limit > 0 {
			n := int(limit)
			if n > len(p) {
				n = len(p)
			}
			if c.maxRead > 0 && n > c.maxRead {
				n = c.maxRead
			}
			copy(p, c.in[:n])
			c.in = c.in[n:]
			c.nRead += int64(n)
			return n, nil
		}
		if faultHere {
			if c.readFault == FaultStall {
				c.stalled = true
				if !c.readDeadline.IsZero() {
					return 0, os.ErrDeadlineExceeded // virtual time: the deadline "passes" at once
				}
			} else {
				if c.readFault == FaultReset {
					c.broken = true // after a reset, writes fail too
				}
				return 0, c.faultErr()
			}
		} else if c.inClosed {
			return 0, io.EOF
		}
		if !c.readDeadline.IsZero() && !c.readDeadline.After(time.Now().Add(-time.Hour)) {
			// a deadline far in the past is the idiom to interrupt a blocked reader
			return 0, os.ErrDeadlineExceeded
		}
		c.parked = true
		c.cond.Broadcast()
		c.cond.Wait()
		c.parked = false
	}
}

// StallWrites makes the writes of this endpoint block, as if the peer had stopped reading and
// every buffer in between were full. They resume when the stall is lifted and fail when this
// endpoint or its peer is closed.
func (c *Conn) StallWrites(on bool) {
	c.mu.Lock()
	c.writeStall = on
	c.cond.Broadcast()
	c.mu.Unlock()
}

func (c *Conn) Write(p []byte) (int, error) {
	c.mu.Lock()
	for c.writeStall && !c.closed && !c.inClosed {
		c.cond.Wait()
	}
	if c.writeStall && c.inClosed && !c.closed {
		c.mu.Unlock()
		return 0, ErrWriteFault
	}
	if c.closed {
		c.mu.Unlock()
		return 0, net.ErrClosed
	}
	if c.broken {
		c.mu.Unlock()
		return 0, ErrWriteFault
	}
	n := len(p)
	var werr error
	if c.writeFaultAt >= 0 {
		rem := c.writeFaultAt - c.nWritten
		if rem < int64(n) {
			if rem < 0 {
				rem = 0
			}
			n = int(rem)
			werr = ErrWriteFault
		}
	}
	c.nWritten += int64(n)
	c.mu.Unlock()
	if n > 0 {
		peer := c.peer
		peer.mu.Lock()
		if peer.closed {
			peer.mu.Unlock()
			return 0, ErrWriteFault
		}
		c.log.add(c.name, p[:n])
		peer.in = append(peer.in, p[:n]...)
		peer.cond.Broadcast()
		peer.mu.Unlock()
	}
	return n, werr
}

func (c *Conn) Close() error {
	c.mu.Lock()
	if c.closed {
		c.mu.Unlock()
		return nil
	}
	c.closed = true
	c.cond.Broadcast()
	c.mu.Unlock()
	peer := c.peer
	peer.mu.Lock()
	peer.inClosed = true
	peer.cond.Broadcast()
	peer.mu.Unlock()
	return nil
}

// CloseWrite signals EOF to the peer without closing this endpoint's read side.
func (c *Conn) CloseWrite() {
	peer := c.peer
	peer.mu.Lock()
	peer.inClosed = true
	peer.cond.Broadcast()
	peer.mu.Unlock()
}

func (c *Conn) LocalAddr() net.Addr  { return addr(c.name) }
func (c *Conn) RemoteAddr() net.Addr { return addr(c.peer.name) }

func (c *Conn) SetDeadline(t time.Time) error {
	c.SetReadDeadline(t)
	return nil
}

func (c *Conn) SetReadDeadline(t time.Time) error {
	c.mu.Lock()
	c.readDeadline = t
	c.cond.Broadcast() // a stalled reader re-evaluates (virtual timeout)
	c.mu.Unlock()
	return nil
}

func (c *Conn) SetWriteDeadline(t time.Time) error { return nil }

// Closed reports whether this endpoint was closed locally.
func (c *Conn) Closed() bool { c.mu.Lock(); defer c.mu.Unlock(); return c.closed }

// PeerClosed reports whether the peer closed (EOF pending).
func (c *Conn) PeerClosed() bool { c.mu.Lock(); defer c.mu.Unlock(); return c.inClosed }

// Counters.
func (c *Conn) NRead() int64    { c.mu.Lock(); defer c.mu.Unlock(); return c.nRead }
func (c *Conn) NWritten() int64 { c.mu.Lock(); defer c.mu.Unlock(); return c.nWritten }
func (c *Conn) Stalled() bool   { c.mu.Lock(); defer c.mu.Unlock(); return c.stalled }

// Buffered returns the number of bytes written by the peer and not yet read.
func (c *Conn) Buffered() int { c.mu.Lock(); defer c.mu.Unlock(); return len(c.in) }

// WaitParked blocks until this endpoint's reader is blocked in Read having
// consumed everything written to it so far, or until the endpoint is closed /
// d elapsed (d is a generous wall-clock backstop, not a verdict). It returns
// "parked", "closed" or "timeout".
func (c *Conn) WaitParked(d time.Duration) string {
	deadline := time.Now().Add(d)
	timer := time.AfterFunc(d, func() { c.mu.Lock(); c.cond.Broadcast(); c.mu.Unlock() })
	defer timer.Stop()
	c.mu.Lock()
	defer c.mu.Unlock()
	for {
		if c.closed {
			return "closed"
		}
		if c.parked && (len(c.in) == 0 || c.stalled) {
			return "parked" // (in a stall, buffered bytes are not deliverable)
		}
		if !time.Now().Before(deadline) {
			return "timeout"
		}
		c.cond.Wait()
	}
}

// Available blocks until at least one byte can be read, the peer closed, or d
// elapsed; used by scripted peers that poll for output.
func (c *Conn) Available(d time.Duration) (n int, eof bool) {
	deadline := time.Now().Add(d)
	timer := time.AfterFunc(d, func() { c.mu.Lock(); c.cond.Broadcast(); c.mu.Unlock() })
	defer timer.Stop()
	c.mu.Lock()
	defer c.mu.Unlock()
	for len(c.in) == 0 && !c.inClosed && !c.closed && time.Now().Before(deadline) {
		c.cond.Wait()
	}
	return len(c.in), c.inClosed || c.closed
}

// ReadAvailable returns (without blocking) whatever is buffered.
func (c *Conn) ReadAvailable() []byte {
	c.mu.Lock()
	defer c.mu.Unlock()
	b := c.in
	c.in = nil
	c.nRead += int64(len(b))
	return b
}

// ---------------------------------------------------------------------------

// Listener hands pre-made server-side endpoints to imapserver.Server.Serve.
type Listener struct {
	ch     chan net.Conn
	closed chan struct{}
	once   sync.Once
}

func NewListener() *Listener {
	return &Listener{ch: make(chan net.Conn, 64), closed: make(chan struct{})}
}

func (l *Listener) Accept() (net.Conn, error) {
	select {
	case c := <-l.ch:
		return c, nil
	case <-l.closed:
		return nil, net.ErrClosed
	}
}

func (l *Listener) Close() error   { l.once.Do(func() { close(l.closed) }); return nil }
func (l *Listener) Addr() net.Addr { return addr("vconn-listener") }

// Dial creates a pair, gives the server side to the listener and returns the client side.
func (l *Listener) Dial(clientName, serverName string, log *Log) (client, server *Conn) {
	client, server = Pipe(clientName, serverName, log)
	l.ch <- server
	return client, server
}

// Inject hands an arbitrary net.Conn (e.g. a *tls.Conn) to the listener.
func (l *Listener) Inject(c net.Conn) { l.ch <- c }
