// Package wiretok is an independent scanner for IMAP lines (commands and
// responses): framing of lines with literals, and tokenisation into atoms,
// quoted strings, literals and parenthesised lists. It shares no code with
// go-imap's internal/imapwire and is written from RFC 9051 §4 / §9 and RFC 7888.
package wiretok

import (
	"bytes"
	"fmt"
	"strconv"
	"strings"
)

type Kind int

const (
	Atom Kind = iota
	Quoted
	Literal
	List
)

// Tok is one token. For List, L holds the members.
type Tok struct {
	Kind    Kind
	S       string // atom text, unescaped quoted string, or literal payload
	L       []Tok
	NonSync bool // literal announced with '+'
	Lit8    bool // literal announced with '~'
	Raw8bit bool // quoted string contains bytes >= 0x80
}

func (t Tok) String() string {
	switch t.Kind {
	case Atom:
		return t.S
	case Quoted:
		return strconv.Quote(t.S)
	case Literal:
		return fmt.Sprintf("{%d}%q", len(t.S), t.S)
	}
	parts := make([]string, len(t.L))
	for i, m := range t.L {
		parts[i] = m.String()
	}
	return "(" + strings.Join(parts, " ") + ")"
}

// IsAtom reports whether t is the atom s (case-insensitive).
func (t Tok) IsAtom(s string) bool { return t.Kind == Atom && strings.EqualFold(t.S, s) }

// Str returns the string value of an atom / quoted / literal token.
func (t Tok) Str() string { return t.S }

// LitHeader describes a literal announcement found at the end of a physical line.
type LitHeader struct {
	Size    int64
	NonSync bool
	Lit8    bool
	Start   int // index of '{' (or of '~') in the physical line
}

// ParseLitHeader checks whether the physical line (without its CRLF) ends with a
// literal header that is outside any quoted string.
func ParseLitHeader(line []byte) (LitHeader, bool) {
	// scan quoted strings to make sure the trailing '}' is not inside one
	inQ := false
	lastOpen := -1
	for i := 0; i < len(line); i++ {
		ch := line[i]
		if inQ {
			if ch == '\\' && i+1 < len(line) {
				i++
			} else if ch == '"' {
				inQ = false
			}
			continue
		}
		if ch == '"' {
			inQ = true
		} else if ch == '{' {
			lastOpen = i
		}
	}
	if inQ || lastOpen < 0 || len(line) == 0 || line[len(line)-1] != '}' {
		return LitHeader{}, false
	}
	body := string(line[lastOpen+1 : len(line)-1])
	h := LitHeader{Start: lastOpen}
	if strings.HasSuffix(body, "+") {
		h.NonSync = true
		body = body[:len(body)-1]
	}
	if body == "" || len(body) > 18 {
		return LitHeader{}, false
	}
	for i := 0; i < len(body); i++ {
		if body[i] < '0' || body[i] > '9' {
			return LitHeader{}, false
		}
	}
	n, err := strconv.ParseInt(body, 10, 64)
	if err != nil {
		return LitHeader{}, false
	}
	h.Size = n
	if lastOpen > 0 && line[lastOpen-1] == '~' {
		h.Lit8 = true
		h.Start = lastOpen - 1
	}
	return h, true
}

// Frame extracts the first complete logical line (physical lines joined by
// their literal payloads) from data. It returns the number of bytes consumed,
// or 0 if data does not yet hold a complete logical line. Lone LF is accepted as
// a line end (and reported through bareLF) because go-imap accepts it too.
func Frame(data []byte) (n int, bareLF bool) {
	pos := 0
	for {
		i := bytes.IndexByte(data[pos:], '\n')
		if i < 0 {
			return 0, bareLF
		}
		end := pos + i // index of LF
		lineEnd := end
		if lineEnd > pos && data[lineEnd-1] == '\r' {
			lineEnd--
		} else {
			bareLF = true
		}
		h, ok := ParseLitHeader(data[pos:lineEnd])
		if !ok {
			return end + 1, bareLF
		}
		next := end + 1 + int(h.Size)
		if h.Size > int64(len(data)) || next > len(data) {
			return 0, bareLF
		}
		pos = next
	}
}

// Lines splits data into complete logical lines; rest is the incomplete tail.
func Lines(data []byte) (lines [][]byte, rest []byte) {
	for len(data) > 0 {
		n, _ := Frame(data)
		if n == 0 {
			break
		}
		lines = append(lines, data[:n])
		data = data[n:]
	}
	return lines, data
}

// Strict records departures from the grammar that the monitors care about.
type Strict struct {
	QuotedCtl     bool // NUL, CR or LF inside a quoted string
	Quoted8bit    bool // byte >= 0x80 inside a quoted string
	BadEscape     bool // backslash followed by something other than '"' or '\\'
	BadLiteral    bool // malformed literal header
	Unbalanced    bool // parentheses do not balance
	UnterminatedQ bool
	MissingCRLF   bool // logical line not terminated by CRLF (bare LF or nothing)
}

func (s Strict) Any() bool {
	return s.QuotedCtl || s.BadEscape || s.BadLiteral || s.Unbalanced || s.UnterminatedQ || s.MissingCRLF
}

func (s Strict) String() string {
	var p []string
	add := func(b bool, n string) {
		if b {
			p = append(p, n)
		}
	}
	add(s.QuotedCtl, "ctl-in-quoted")
	add(s.Quoted8bit, "8bit-in-quoted")
	add(s.BadEscape, "bad-escape")
	add(s.BadLiteral, "bad-literal")
	add(s.Unbalanced, "unbalanced-parens")
	add(s.UnterminatedQ, "unterminated-quoted")
	add(s.MissingCRLF, "missing-crlf")
	return strings.Join(p, ",")
}

// Tokenize scans one logical line (including its final CRLF and embedded
// literal payloads). Top-level tokens are returned; text after a response code
// is tokenised like everything else (callers that need free text use Raw).
func Tokenize(line []byte) ([]Tok, Strict) {
	var st Strict
	p := &parser{b: line, st: &st}
	toks := p.seq(0)
	if p.depthErr {
		st.Unbalanced = true
	}
	if !p.sawCRLF {
		st.MissingCRLF = true
	}
	return toks, st
}

type parser struct {
	b        []byte
	i        int
	i0       int
	st       *Strict
	depthErr bool
	sawCRLF  bool
}

func isAtomSpecial(ch byte) bool {
	switch ch {
	case '(', ')', ' ', '"', '\r', '\n':
		return true
	}
	return false
}

func (p *parser) seq(depth int) []Tok {
	var out []Tok
	for p.i < len(p.b) {
		ch := p.b[p.i]
		switch {
		case ch == ' ':
			p.i++
		case ch == '\r' || ch == '\n':
			if ch == '\r' && p.i+1 < len(p.b) && p.b[p.i+1] == '\n' {
				p.i += 2
				if p.i == len(p.b) {
					p.sawCRLF = true
				}
			} else {
				p.i++
			}
			if depth > 0 && p.i >= len(p.b) {
				p.depthErr = true
			}
		case ch == '(':
			p.i++
			if depth > 5000 {
				p.depthErr = true
				return out
			}
			members := p.seq(depth + 1)
			out = append(out, Tok{Kind: List, L: members})
		case ch == ')':
			p.i++
			if depth == 0 {
				p.depthErr = true
				continue
			}
			return out
		case ch == '"':
			out = append(out, p.quoted())
		default:
			// atom run; may end in a literal header
			start := p.i
			for p.i < len(p.b) && !isAtomSpecial(p.b[p.i]) {
				if p.b[p.i] == '{' {
					if tok, ok := p.literal(); ok {
						if start < p.i0 {
							pre := string(p.b[start:p.i0])
							if pre != "~" {
								out = append(out, Tok{Kind: Atom, S: pre})
							} else {
								tok.Lit8 = true
							}
						}
						out = append(out, tok)
						start = -1
						break
					}
				}
				p.i++
			}
			if start >= 0 && p.i > start {
				out = append(out, Tok{Kind: Atom, S: string(p.b[start:p.i])})
			}
		}
	}
	if depth > 0 {
		p.depthErr = true
	}
	return out
}

// quoted scans a quoted string starting at p.i ('"').
func (p *parser) quoted() Tok {
	p.i++
	var sb []byte
	t := Tok{Kind: Quoted}
	for p.i < len(p.b) {
		ch := p.b[p.i]
		switch {
		case ch == '"':
			p.i++
			t.S = string(sb)
			return t
		case ch == '\\':
			if p.i+1 >= len(p.b) {
				p.st.UnterminatedQ = true
				p.i++
				t.S = string(sb)
				return t
			}
			nx := p.b[p.i+1]
			if nx != '"' && nx != '\\' {
				p.st.BadEscape = true
			}
			sb = append(sb, nx)
			p.i += 2
		default:
			if ch == 0 || ch == '\r' || ch == '\n' {
				p.st.QuotedCtl = true
			}
			if ch >= 0x80 {
				p.st.Quoted8bit = true
				t.Raw8bit = true
			}
			sb = append(sb, ch)
			p.i++
		}
	}
	p.st.UnterminatedQ = true
	t.S = string(sb)
	return t
}

// literal tries to scan "{n}CRLF<payload>" / "{n+}CRLF<payload>" at p.i ('{').
// On success p.i is after the payload and p.i0 is the index of '{'.
func (p *parser) literal() (Tok, bool) {
	j := p.i + 1
	k := j
	for k < len(p.b) && p.b[k] >= '0' && p.b[k] <= '9' {
		k++
	}
	if k == j || k-j > 18 {
		return Tok{}, false
	}
	t := Tok{Kind: Literal}
	e := k
	if e < len(p.b) && p.b[e] == '+' {
		t.NonSync = true
		e++
	}
	if e >= len(p.b) || p.b[e] != '}' {
		return Tok{}, false
	}
	e++
	// must be followed by CRLF (or bare LF, tolerated by go-imap)
	if e+1 < len(p.b) && p.b[e] == '\r' && p.b[e+1] == '\n' {
		e += 2
	} else if e < len(p.b) && p.b[e] == '\n' {
		e++
	} else {
		return Tok{}, false
	}
	n, err := strconv.ParseInt(string(p.b[j:k]), 10, 64)
	if err != nil || n > int64(len(p.b)-e) {
		p.st.BadLiteral = true
		return Tok{}, false
	}
	t.S = string(p.b[e : e+int(n)])
	p.i0 = p.i
	p.i = e + int(n)
	return t, true
}
