package wiretok

import "testing"

func TestBasics(t *testing.T) {
	in := []byte("a1 LOGIN {3+}\r\nfoo \"b\\\"ar\"\r\n* 1 FETCH (UID 5 BODY[HEADER.FIELDS (A B)]<0> {2}\r\nhi FLAGS (\\Seen x))\r\npartial")
	lines, rest := Lines(in)
	if len(lines) != 2 || string(rest) != "partial" {
		t.Fatalf("lines=%q rest=%q", lines, rest)
	}
	toks, st := Tokenize(lines[0])
	if st.Any() || len(toks) != 4 || toks[2].Kind != Literal || toks[2].S != "foo" || !toks[2].NonSync || toks[3].S != "b\"ar" {
		t.Fatalf("%v %v", toks, st)
	}
	toks, st = Tokenize(lines[1])
	if st.Any() || len(toks) != 4 || toks[3].Kind != List {
		t.Fatalf("%v %+v", toks, st)
	}
	l := toks[3].L
	// UID 5 BODY[HEADER.FIELDS (A B) ]<0> {2}hi FLAGS (...)
	if len(l) != 8 || l[5].Kind != Literal || l[5].S != "hi" || l[7].Kind != List || l[7].L[0].S != "\\Seen" {
		t.Fatalf("%v", l)
	}
	_, st = Tokenize([]byte("* OK \"a\nb\"\r\n"))
	if !st.QuotedCtl {
		t.Fatal("ctl")
	}
	_, st = Tokenize([]byte("* OK (a\r\n"))
	if !st.Unbalanced {
		t.Fatal("unbalanced")
	}
	if h, ok := ParseLitHeader([]byte("a APPEND x ~{10+}")); !ok || !h.NonSync || !h.Lit8 || h.Size != 10 {
		t.Fatal("lit header")
	}
	if _, ok := ParseLitHeader([]byte("a LOGIN \"{5}")); ok {
		t.Fatal("lit header in quoted")
	}
}
