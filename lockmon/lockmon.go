// Package lockmon is the runtime lock monitor injected (by cmd/lockgen, through
// `go build -overlay`) at every sync.Mutex Lock/Unlock site of the go-imap
// packages under test. It provides seeded yield injection around critical
// sections (genuine suspension points only), an instance-level lock-order graph
// for Goodlock-style potential-deadlock detection, and an interleaving
// fingerprint. Its own state is guarded by its own mutex, which is never held
// while calling into the code under test.
package lockmon

import (
	"fmt"
	"hash/fnv"
	"math/rand"
	"runtime"
	"sort"
	"strings"
	"sync"
	"sync/atomic"
	"time"
)

type edge struct {
	from, to  sync.Locker
	fromSite  string
	toSite    string
	gid       int64
	gates     []sync.Locker // other locks held when the edge was taken
	fromClass string
	toClass   string
}

var (
	mu        sync.Mutex
	enabled   int32
	yieldP    int32 // probability (per mille) of a yield at a lock boundary
	rng       = rand.New(rand.NewSource(1))
	held      = map[int64][]heldLock{}
	edges     = map[[2]sync.Locker]*edge{}
	classOf   = map[sync.Locker]string{}
	sites     = map[string]int64{}
	fp        uint64
	acquires  int64
	yields    int64
	recursive = map[string]string{}
)

type heldLock struct {
	m    sync.Locker
	site string
}

// Configure enables the monitor. seed drives the yield decisions, perMille is
// the probability of yielding at each lock boundary.
func Configure(seed int64, perMille int) {
	mu.Lock()
	rng = rand.New(rand.NewSource(seed))
	mu.Unlock()
	atomic.StoreInt32(&yieldP, int32(perMille))
	atomic.StoreInt32(&enabled, 1)
}

// Reset clears the per-run state (graph and fingerprint are kept across runs unless full).
func Reset(full bool) {
	mu.Lock()
	held = map[int64][]heldLock{}
	fp = 0
	if full {
		edges = map[[2]sync.Locker]*edge{}
		classOf = map[sync.Locker]string{}
		recursive = map[string]string{}
	}
	mu.Unlock()
}

func gid() int64 {
	var buf [64]byte
	n := runtime.Stack(buf[:], false)
	// "goroutine 123 ["
	var id int64
	for _, c := range buf[10:n] {
		if c < '0' || c > '9' {
			break
		}
		id = id*10 + int64(c-'0')
	}
	return id
}

func maybeYield() {
	p := atomic.LoadInt32(&yieldP)
	if p == 0 {
		return
	}
	mu.Lock()
	r := rng.Intn(1000)
	k := rng.Intn(8)
	mu.Unlock()
	if int32(r) >= p {
		return
	}
	atomic.AddInt64(&yields, 1)
	if k == 0 {
		time.Sleep(time.Duration(20+r) * time.Microsecond)
	} else {
		runtime.Gosched()
	}
}

// class derives a lock class from the acquisition site ("file.go:line" -> "file.go").
func siteClass(site string) string {
	if i := strings.IndexByte(site, '#'); i >= 0 {
		return site[i+1:]
	}
	return site
}

// Lock is injected in place of m.Lock(). site is "pkg/file.go:line#class" where
// class is the source text of the lock expression (e.g. "mbox.mutex").
func Lock(m sync.Locker, site string) {
	if atomic.LoadInt32(&enabled) == 0 {
		m.Lock()
		return
	}
	maybeYield()
	g := gid()
	mu.Lock()
	hs := held[g]
	for _, h := range hs {
		key := [2]sync.Locker{h.m, m}
		if _, ok := edges[key]; !ok && h.m != m {
			var gates []sync.Locker
			for _, o := range hs {
				if o.m != h.m {
					gates = append(gates, o.m)
				}
			}
			edges[key] = &edge{from: h.m, to: m, fromSite: h.site, toSite: site, gid: g, gates: gates, fromClass: siteClass(h.site), toClass: siteClass(site)}
		}
	}
	mu.Unlock()
	m.Lock()
	mu.Lock()
	held[g] = append(held[g], heldLock{m, site})
	classOf[m] = siteClass(site)
	sites[site]++
	acquires++
	h := fnv.New64a()
	fmt.Fprintf(h, "%d|%s", fp, site)
	fp = h.Sum64()
	mu.Unlock()
}

// Unlock is injected in place of m.Unlock().
func Unlock(m sync.Locker, site string) {
	if atomic.LoadInt32(&enabled) == 0 {
		m.Unlock()
		return
	}
	g := gid()
	mu.Lock()
	hs := held[g]
	for i := len(hs) - 1; i >= 0; i-- {
		if hs[i].m == m {
			hs = append(hs[:i], hs[i+1:]...)
			break
		}
	}
	if len(hs) == 0 {
		delete(held, g)
	} else {
		held[g] = hs
	}
	mu.Unlock()
	m.Unlock()
	maybeYield()
}

// RLock is injected in place of m.RLock(). Read locks take part in the lock-order graph like
// exclusive ones (a reader waiting behind a queued writer blocks like a writer). Acquiring a read
// lock that the same goroutine already holds is recorded separately: sync.RWMutex prohibits
// recursive read locking because it deadlocks as soon as a writer queues up in between.
func RLock(m *sync.RWMutex, site string) {
	if atomic.LoadInt32(&enabled) == 0 {
		m.RLock()
		return
	}
	maybeYield()
	g := gid()
	var key sync.Locker = m
	mu.Lock()
	hs := held[g]
	for _, h := range hs {
		if h.m == key {
			k := strip(h.site) + "->" + strip(site)
			if _, dup := recursive[k]; !dup {
				recursive[k] = fmt.Sprintf("%s is read-locked at %s while the same goroutine already holds it (taken at %s): with a writer queued in between both wait forever", siteClass(site), strip(site), strip(h.site))
			}
			continue
		}
		ek := [2]sync.Locker{h.m, key}
		if _, ok := edges[ek]; !ok {
			var gates []sync.Locker
			for _, o := range hs {
				if o.m != h.m {
					gates = append(gates, o.m)
				}
			}
			edges[ek] = &edge{from: h.m, to: key, fromSite: h.site, toSite: site, gid: g, gates: gates, fromClass: siteClass(h.site), toClass: siteClass(site)}
		}
	}
	mu.Unlock()
	m.RLock()
	mu.Lock()
	held[g] = append(held[g], heldLock{key, site})
	classOf[key] = siteClass(site)
	sites[site]++
	acquires++
	h := fnv.New64a()
	fmt.Fprintf(h, "%d|%s", fp, site)
	fp = h.Sum64()
	mu.Unlock()
}

// RUnlock is injected in place of m.RUnlock().
func RUnlock(m *sync.RWMutex, site string) {
	if atomic.LoadInt32(&enabled) == 0 {
		m.RUnlock()
		return
	}
	g := gid()
	var key sync.Locker = m
	mu.Lock()
	hs := held[g]
	for i := len(hs) - 1; i >= 0; i-- {
		if hs[i].m == key {
			hs = append(hs[:i], hs[i+1:]...)
			break
		}
	}
	if len(hs) == 0 {
		delete(held, g)
	} else {
		held[g] = hs
	}
	mu.Unlock()
	m.RUnlock()
	maybeYield()
}

// RecursiveReadLocks returns the recursive read-lock acquisitions seen so far (key -> description).
func RecursiveReadLocks() map[string]string {
	mu.Lock()
	defer mu.Unlock()
	out := map[string]string{}
	for k, v := range recursive {
		out[k] = v
	}
	return out
}

// Stats of the run so far.
type Stats struct {
	Acquires, Yields int64
	Sites            int
	Edges            int
	Fingerprint      uint64
	LockClasses      []string
	Instances        int
}

func Snapshot() Stats {
	mu.Lock()
	defer mu.Unlock()
	cs := map[string]bool{}
	for _, c := range classOf {
		cs[c] = true
	}
	var l []string
	for c := range cs {
		l = append(l, c)
	}
	sort.Strings(l)
	return Stats{Acquires: acquires, Yields: atomic.LoadInt64(&yields), Sites: len(sites), Edges: len(edges), Fingerprint: fp, LockClasses: l, Instances: len(classOf)}
}

// Cycle is a potential deadlock: a cycle in the lock-order graph whose edges were
// taken by at least two goroutines and share no gate lock.
type Cycle struct {
	Desc  string
	Sites []string
	Key   string // stable signature: sorted lock classes and sites
}

// Cycles searches the instance-level lock-order graph for cycles of length 2 and 3
// that satisfy the Goodlock condition.
func Cycles() []Cycle {
	mu.Lock()
	defer mu.Unlock()
	adj := map[sync.Locker][]*edge{}
	for _, e := range edges {
		adj[e.from] = append(adj[e.from], e)
	}
	seen := map[string]bool{}
	var out []Cycle
	report := func(path []*edge) {
		gids := map[int64]bool{}
		for _, e := range path {
			gids[e.gid] = true
		}
		if len(gids) < 2 {
			return // a single goroutine cannot deadlock with itself through ordering
		}
		// common gate lock held on every edge => the cycle is guarded
		gateCount := map[sync.Locker]int{}
		for _, e := range path {
			for _, g := range e.gates {
				gateCount[g]++
			}
		}
		for _, n := range gateCount {
			if n == len(path) {
				return
			}
		}
		var parts, sitesL, keyParts []string
		for _, e := range path {
			parts = append(parts, fmt.Sprintf("%s (held, taken at %s) -> %s (taken at %s) by goroutine %d", e.fromClass, strip(e.fromSite), e.toClass, strip(e.toSite), e.gid))
			sitesL = append(sitesL, strip(e.fromSite)+"->"+strip(e.toSite))
			keyParts = append(keyParts, strip(e.fromSite)+"->"+strip(e.toSite))
		}
		sort.Strings(keyParts)
		key := strings.Join(keyParts, " | ")
		if seen[key] {
			return
		}
		seen[key] = true
		out = append(out, Cycle{Desc: strings.Join(parts, "; "), Sites: sitesL, Key: key})
	}
	for _, e1 := range edges {
		for _, e2 := range adj[e1.to] {
			if e2.to == e1.from {
				report([]*edge{e1, e2})
				continue
			}
			for _, e3 := range adj[e2.to] {
				if e3.to == e1.from && e3.from != e1.from && e2.from != e3.to {
					report([]*edge{e1, e2, e3})
				}
			}
		}
	}
	sort.Slice(out, func(i, j int) bool { return out[i].Key < out[j].Key })
	return out
}

func strip(site string) string {
	if i := strings.IndexByte(site, '#'); i >= 0 {
		return site[:i]
	}
	return site
}
