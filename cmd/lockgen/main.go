// lockgen generates lock instrumentation for go-imap packages from the CURRENT
// working tree: every x.Lock() / x.Unlock() call on a sync.Mutex (also in defer
// statements) in the non-test files of the given package directories is
// rewritten into lockmon.Lock(&x, site) / lockmon.Unlock(&x, site), and an
// overlay JSON for `go build -overlay` is emitted. It fails loudly if a Lock or
// Unlock call expression could not be rewritten, so that a new lock cannot
// silently escape the monitor.
package main

import (
	"bytes"
	"encoding/json"
	"flag"
	"fmt"
	"go/ast"
	"go/format"
	"go/parser"
	"go/printer"
	"go/token"
	"os"
	"path/filepath"
	"strings"
)

const lockmonPath = "github.com/emersion/go-imap/v2/verif/lockmon"

func main() {
	repo := flag.String("repo", "/repo", "repository root")
	out := flag.String("out", "", "output directory")
	flag.Parse()
	if *out == "" || flag.NArg() == 0 {
		fmt.Fprintln(os.Stderr, "usage: lockgen -repo /repo -out DIR pkgdir...")
		os.Exit(2)
	}
	os.RemoveAll(*out)
	if err := os.MkdirAll(*out, 0o755); err != nil {
		fail(err)
	}
	overlay := map[string]string{}
	total := 0
	for _, pkg := range flag.Args() {
		dir := filepath.Join(*repo, pkg)
		ents, err := os.ReadDir(dir)
		if err != nil {
			fail(err)
		}
		for _, e := range ents {
			name := e.Name()
			if e.IsDir() || !strings.HasSuffix(name, ".go") || strings.HasSuffix(name, "_test.go") {
				continue
			}
			src := filepath.Join(dir, name)
			n, rewritten, err := rewrite(src, pkg+"/"+name)
			if err != nil {
				fail(fmt.Errorf("%s: %v", src, err))
			}
			if n == 0 {
				continue
			}
			total += n
			dst := filepath.Join(*out, strings.ReplaceAll(pkg, "/", "_")+"_"+name+".txt")
			if err := os.WriteFile(dst, rewritten, 0o644); err != nil {
				fail(err)
			}
			abs, _ := filepath.Abs(dst)
			overlay[src] = abs
		}
	}
	b, _ := json.MarshalIndent(map[string]interface{}{"Replace": overlay}, "", " ")
	if err := os.WriteFile(filepath.Join(*out, "overlay.json"), b, 0o644); err != nil {
		fail(err)
	}
	fmt.Fprintf(os.Stderr, "lockgen: %d lock sites instrumented in %d files\n", total, len(overlay))
}

func fail(err error) {
	fmt.Fprintln(os.Stderr, "lockgen:", err)
	os.Exit(1)
}

func rewrite(path, rel string) (int, []byte, error) {
	fset := token.NewFileSet()
	f, err := parser.ParseFile(fset, path, nil, parser.ParseComments)
	if err != nil {
		return 0, nil, err
	}
	found, done := 0, 0
	ast.Inspect(f, func(n ast.Node) bool {
		call, ok := n.(*ast.CallExpr)
		if !ok || len(call.Args) != 0 {
			return true
		}
		sel, ok := call.Fun.(*ast.SelectorExpr)
		if !ok || (sel.Sel.Name != "Lock" && sel.Sel.Name != "Unlock" && sel.Sel.Name != "RLock" && sel.Sel.Name != "RUnlock") {
			return true
		}
		found++
		var xb bytes.Buffer
		printer.Fprint(&xb, fset, sel.X)
		pos := fset.Position(call.Pos())
		site := fmt.Sprintf("%s:%d#%s", rel, pos.Line, xb.String())
		recv := sel.X
		call.Fun = &ast.SelectorExpr{X: ast.NewIdent("lockmon"), Sel: ast.NewIdent(sel.Sel.Name)}
		call.Args = []ast.Expr{&ast.UnaryExpr{Op: token.AND, X: recv}, &ast.BasicLit{Kind: token.STRING, Value: fmt.Sprintf("%q", site)}}
		done++
		return true
	})
	if found != done {
		return 0, nil, fmt.Errorf("%d Lock/Unlock calls found, %d rewritten", found, done)
	}
	if found == 0 {
		return 0, nil, nil
	}
	// add the import
	imp := &ast.ImportSpec{Path: &ast.BasicLit{Kind: token.STRING, Value: fmt.Sprintf("%q", lockmonPath)}}
	added := false
	for _, d := range f.Decls {
		if gd, ok := d.(*ast.GenDecl); ok && gd.Tok == token.IMPORT {
			gd.Specs = append(gd.Specs, imp)
			if !gd.Lparen.IsValid() {
				gd.Lparen = gd.Pos()
				gd.Rparen = gd.End()
			}
			added = true
			break
		}
	}
	if !added {
		f.Decls = append([]ast.Decl{&ast.GenDecl{Tok: token.IMPORT, Specs: []ast.Spec{imp}}}, f.Decls...)
	}
	f.Imports = append(f.Imports, imp)
	var buf bytes.Buffer
	if err := printer.Fprint(&buf, fset, f); err != nil {
		return 0, nil, err
	}
	src, err := format.Source(buf.Bytes())
	if err != nil {
		return 0, nil, fmt.Errorf("generated source does not parse: %v", err)
	}
	return found, src, nil
}
